//go:build all || c12

package scen

// C12 — routing-table members have proven themselves; failed peers leave.
//
// One real IpfsDHT (client mode) on the simulated host with the message-level
// sender (harness H1, own constructor: auto-refresh is on in one variant).
// The simulator owns: dial outcomes, RPC outcomes, the libp2p events on the
// host's real event bus (identification completed, protocols updated,
// connectedness changed), the peerstore's protocol entries, virtual time,
// client lookups (start / cancel), refresh requests and the moment of Close.
//
// Observation is black box: RoutingTable().ListPeers() at every quiescent
// point, the channels returned by RefreshRoutingTable/ForceRefresh, and — to
// tell a lookup's search-phase queries (which admit and evict) from its
// follow-up queries (which do neither) — the public lookup events of the
// client's own lookups. No function of the repository is named, no constant
// of the repository enters a rule (the time-advance menu straddles the
// time-outs, but no rule depends on them).
//
// Failure shapes: the error a failing dial / request returns is a drawn choice
// (c12FailErr): a plain error, or an error that is / wraps / joins
// context.DeadlineExceeded or context.Canceled, or an i/o time-out
// (net.Error, Timeout() == true) — what a per-request deadline inside a
// message sender, a stream-negotiation time-out or the swarm's dial time-out
// produce while the context of the calling lookup is alive. The property
// speaks of the *lookup* being cancelled, not of what the error looks like, so
// every eviction / non-admission rule is the same for all shapes: what counts
// is whether the call's own context was live when it was failed.
//
// Who cancelled (wave 12). "A member that fails a ... request during an
// uncancelled lookup ... is removed": whether a client lookup is cancelled is
// a fact about its CALLER, and the simulator is that caller — it hands the
// lookup a context without deadline and cancels it only by the action
// lookup:cancel (or at Close). For a search-phase request of a client lookup
// the rules lookup-fail-not-evicted and cancel-evicted are therefore decided
// by the caller's act, not by the state of the context the node hands to the
// message sender: a request that fails — by an error, an incorrect answer, or
// by ending with its own context's error — while the caller has not cancelled
// the lookup is a failed request of an uncancelled lookup, whatever deadline
// or cancellation the node itself attached to that single request. Class of
// regressions exposed: per-request / per-peer deadlines or internal
// cancellations that are mistaken for a cancellation of the lookup and spare
// the member. (Dials keep the context-based test: the node legitimately
// cancels outstanding dials when the lookup terminates on its own, and a dial
// that ends then is not a failure "during" the lookup.)
//
// Lookup kinds and incorrect answers (c12_value.go): a client lookup is, by a
// drawn choice, a closest-peers lookup, GetValue or SearchValue — the property
// says "a lookup query" / "an uncancelled lookup", not which kind. A scripted
// peer may answer a GET_VALUE request (a) with closer peers only, (b) with
// closer peers and a valid record filed under the requested key, or (c) with a
// record filed under ANOTHER key. (c) is delivered as a reply, not as an
// error, but it is not a correct answer to the request that was sent; the
// clauses "admitted only after it has correctly answered a DHT request" and
// "a member that fails a ... request during an uncancelled lookup ... is
// removed" therefore treat it exactly like a failed request: no proof, and a
// member that gave it to a search-phase request of a live lookup must be
// absent at the next quiescent point (rules member-unproven and
// lookup-fail-not-evicted, unchanged). Whether an answer is correct is decided
// by the simulator from what it scripted, never from the error value the node
// derives from it.
//
// Configured bootstrap peers (rt-bootstrap variant only, c12_value.go): by a
// drawn choice the node is given a BootstrapPeers function naming one peer of
// the universe — any peer: it may lack the DHT protocol, be rejected by the
// routing-table filter, fail its probe, or not be connected. The node dials it
// whenever its table is empty. Being configured and reachable is not a proof:
// the admission clause has no exception for bootstrap peers, so member-unproven
// applies to them unchanged. A failed bootstrap dial is not a dial "during a
// lookup" and creates no obligation.
//
// Unresponsive members (rt-manual-refresh variant only, c12_dead.go): a peer may
// stop answering DHT requests for good while its transport stays up (it may
// remain connected). Rule refresh-probe-skipped-unresponsive-member encodes
// "a member that fails the liveness probe of a refresh is removed" for such
// members: a refresh that probes one member must also probe (and so remove)
// an unresponsive member whose latest proof is not later — see that file.
//
// crypto/rand: the refresh manager draws its per-bucket keys from
// crypto/rand (kbucket.GenRandPeerID). The keys decide which members a refresh
// lookup asks first, so normalising park labels would not be enough; the
// scenario replaces crypto/rand.Reader for the duration of the run by a
// generator seeded from one tape draw and restores it in a defer (also when
// the run fails or panics).

import (
	"context"
	crand "crypto/rand"
	"errors"
	"fmt"
	"io"
	"os"
	"sort"
	"strings"
	"sync"
	"time"

	dht "github.com/libp2p/go-libp2p-kad-dht"
	pb "github.com/libp2p/go-libp2p-kad-dht/pb"
	"github.com/libp2p/go-libp2p/core/event"
	"github.com/libp2p/go-libp2p/core/host"
	"github.com/libp2p/go-libp2p/core/network"
	"github.com/libp2p/go-libp2p/core/peer"
	"github.com/libp2p/go-libp2p/core/protocol"

	"verif/sim"
	"verif/simhost"
	"verif/simnet"
)

const c12Proto = protocol.ID("/sim/kad/1.0.0")

func init() {
	common := func(sc *sim.Scenario) *sim.Scenario {
		sc.Real = []string{"IpfsDHT (peerFound, validPeerFound, rtPeerLoop, fixLowPeers, lookupCheck, Close)", "query.go (admission/eviction in queryPeer)", "subscriber_notifee.go", "rtrefresh.RtRefreshManager", "kbucket routing table", "pstoremem peerstore", "libp2p eventbus"}
		sc.Stub = []string{"host.Host/network (simhost)", "pb.MessageSender (level A, simnet.Sender)", "remote peers (scripted)", "identify (events emitted by the simulator)", "crypto/rand.Reader (tape-seeded for the run)"}
		sc.Faults = []string{
			"fault_dial_fail", "fault_rpc_error", "fault_cancel_lookup", "fault_close_mid_refresh", "fault_proto_removed", "fault_disconnect", "fault_lying_reply", "time_advance", "cancel_observed",
			"fault_ctx_shaped_error_live_call", "probe_evict_ctx_shaped_fail", "probe_evict_slow_request_fail_lookup_uncancelled",
			"probe_admit_via_probe", "probe_admit_via_lookup", "probe_evict_lookup_fail", "probe_cancel_no_evict", "probe_evict_proto_removed", "probe_evict_refresh_probe",
			"probe_refresh_answered_during_close", "probe_filter_rejected_proven", "probe_refresh_batched", "probe_refresh_after_close", "probe_proven_not_admitted", "probe_zero_peer_reply",
			// c12_value.go: value lookups, incorrect answers, configured bootstrap peers
			"probe_value_lookup_started", "probe_value_record_reply", "probe_corrective_put", "fault_wrong_key_record", "probe_evict_wrong_key_record", "probe_wrong_key_record_nonmember_kept_out",
			// c12_dead.go: unresponsive members and the refresh's liveness probe
			"fault_peer_unresponsive", "probe_refresh_cycle_judged", "probe_overdue_unresponsive_member_at_refresh", "probe_overdue_unresponsive_member_handled",
			"probe_bootstrap_configured", "probe_bootstrap_dial", "fault_bootstrap_dial_fail", "probe_bootstrap_connected_unproven", "probe_bootstrap_peer_already_connected",
		}
		return sc
	}
	// Three variants. They differ in what may run concurrently with a finishing
	// refresh cycle, because RefreshNoWait (a non-blocking send to the refresh
	// loop) races with the loop's return to its select; see "anchor" below.
	sim.Register(common(&sim.Scenario{Prop: "C12", Name: "rt-bootstrap", Weight: 2, Run: func(s *sim.Sim) { runC12(s, c12Bootstrap) }}))
	sim.Register(common(&sim.Scenario{Prop: "C12", Name: "rt-manual-refresh", Weight: 3, Run: func(s *sim.Sim) { runC12(s, c12Manual) }}))
	sim.Register(common(&sim.Scenario{Prop: "C12", Name: "rt-auto-refresh", Weight: 2, Run: func(s *sim.Sim) { runC12(s, c12Auto) }}))
}

// ---------------------------------------------------------------------------
// deterministic crypto/rand.Reader for the run

type c12Rand struct {
	mu sync.Mutex
	x  uint64
}

func (r *c12Rand) Read(b []byte) (int, error) {
	r.mu.Lock()
	defer r.mu.Unlock()
	var z uint64
	for i := range b {
		if i%8 == 0 {
			r.x += 0x9e3779b97f4a7c15
			z = r.x
			z = (z ^ (z >> 30)) * 0xbf58476d1ce4e5b9
			z = (z ^ (z >> 27)) * 0x94d049bb133111eb
			z ^= z >> 31
		}
		b[i] = byte(z >> (8 * uint(i%8)))
	}
	return len(b), nil
}

// c12InstallRand replaces crypto/rand.Reader; the returned function restores it.
func c12InstallRand(seed uint64) func() {
	var old io.Reader = crand.Reader
	crand.Reader = &c12Rand{x: seed*0x9e3779b97f4a7c15 + 7}
	return func() { crand.Reader = old }
}

// ---------------------------------------------------------------------------
// configuration and world

// Variants.
//
// The node calls RefreshNoWait — a non-blocking send that only succeeds while
// the refresh loop is waiting in its select — (a) from rtPeerLoop when a
// refresh finishes and the table had been empty at the preceding admission
// ("bootstrapping"), i.e. at the very moment the loop is on its way back to the
// select, and (b) with auto-refresh from fixLowPeers after every membership
// change. Whether such a send wins against the loop's return is decided by the
// Go scheduler, not by the simulator (HARNESS pitfall 3), so states in which
// the two coincide are not generated:
//
//   - c12Bootstrap: auto-refresh off and no refresh request before Close, so no
//     refresh cycle ever finishes while the node is open. The table may start
//     and become empty (bootstrapping admissions, replaceable members).
//   - c12Manual: auto-refresh off, refresh requests allowed. One "anchor"
//     member (directly seeded, never failed by the simulator, never reported
//     without the protocol) keeps the table non-empty, so (a) never arms.
//   - c12Auto: auto-refresh on, anchor as above; in addition the release that
//     may end a refresh cycle (the last parked dial / lookup request the node
//     started on its own) gets an outcome that leaves the membership
//     unchanged, so (b) never coincides with the end of a cycle.
const (
	c12Bootstrap = iota
	c12Manual
	c12Auto
)

type c12Cfg struct {
	N, K, Alpha, Beta int
	Variant           int
	Auto              bool
	Interval          time.Duration
	QueryTimeout      time.Duration
	CheckConc         int
	Focus             int // 0 general, 1 refresh-heavy, 2 lookup-heavy
	CloseAfter        int
	FailEighths       int  // probability (in 1/8) that a released dial / request fails
	Boot              bool // a BootstrapPeers function is configured (rt-bootstrap variant only)
}

// c12Peer is the simulator's model and timeline of one remote peer.
type c12Peer struct {
	p      *simnet.Peer
	knows  []*simnet.Peer
	liar   bool // names the requester (and itself) in its replies
	denied bool // rejected by the routing-table filter

	// withdrawn: the latest identification / protocols-updated event about the
	// peer reported it without the DHT protocol
	withdrawn bool

	life c12Life // c12_dead.go: unresponsiveness, bounds of its latest proof

	proofTick  int    // observation tick at which its latest valid proof counts (0: none)
	proofKind  string // seed | probe | lookup
	absentTick int    // latest observation at which it was not a member
}

// c12Call is what the simulator knows about one parked dial / request.
type c12Call struct {
	to                  peer.ID
	tag                 string // "@Lnn" for a client lookup, "" for the node's own activity
	probeKey            bool   // request whose key is the addressed peer itself (admission probe or liveness probe)
	advAtSend, filterOK bool
	search              bool // request of a client lookup's search phase (a Request lookup event announced it)
	ping                bool // liveness probe of a refresh (see classify)
}

type c12Lookup struct {
	tag      string
	kind     int // c12Closest | c12GetValue | c12SearchValue
	key      string
	cancel   context.CancelFunc
	evCancel context.CancelFunc
	op       *Op
	traced   bool

	mu     sync.Mutex
	events []*dht.LookupEvent
	seen   int

	cancelled     bool
	searchPending map[peer.ID]bool
}

type c12Refresh struct {
	id    int
	force bool

	mu     sync.Mutex
	vals   []error
	closed bool

	pendingAtClose bool
	afterClose     bool
	reported       bool
}

func (r *c12Refresh) state() (n int, closed bool, first error) {
	r.mu.Lock()
	defer r.mu.Unlock()
	if len(r.vals) > 0 {
		first = r.vals[0]
	}
	return len(r.vals), r.closed, first
}

type c12Obl struct {
	peer   peer.ID
	absent bool   // true: must be absent now; false: must still be a member if it was one
	rule   string // oracle rule id
	probe  string // stats key counted when the obligation was met non-vacuously
	extra  string // a second such key (optional)
	extra2 string // a third (optional)
	what   string
	// keptOut: observation only — counts probe when the peer was not a member
	// before the step and is not one after it
	keptOut bool
}

type c12World struct {
	s    *sim.Sim
	cfg  c12Cfg
	u    *simnet.Universe
	host *simhost.Host
	snd  *simnet.Sender
	d    *dht.IpfsDHT
	ops  opSet
	self peer.ID

	peers  []*c12Peer
	byID   map[peer.ID]*c12Peer
	anchor *c12Peer // nil in the bootstrap variant
	boot   *c12Peer // the configured bootstrap peer (nil: option not given)
	// anchorFresh: a moment at which the anchor's last-successful-query stamp
	// was certainly set (seeding, or a search-phase reply to a client lookup)
	anchorFresh time.Duration

	emIdent, emProto, emConn event.Emitter

	calls     map[string]*c12Call
	lookups   []*c12Lookup
	refreshes []*c12Refresh

	tick    int
	prev    map[peer.ID]bool
	obl     []c12Obl
	closing bool
	closeOp *Op

	// c12_dead.go
	cyc       *c12Cycle
	stepStart time.Duration
}

func genC12Cfg(s *sim.Sim, variant int) c12Cfg {
	var c c12Cfg
	c.Variant = variant
	c.Auto = variant == c12Auto
	c.N = s.Range("n", 2, 10)
	c.K = s.Range("k", 1, 4)
	c.Alpha = s.Range("alpha", 1, 3)
	c.Beta = s.Range("beta", 1, c.K)
	// odd millisecond values: timers of different kinds should not fire at the
	// same virtual instant (HARNESS pitfall 4)
	c.Interval = []time.Duration{31013, 97003, 601019}[s.Draw("interval", 3)] * time.Millisecond
	c.QueryTimeout = []time.Duration{10007, 3001, 29989}[s.Draw("query-timeout", 3)] * time.Millisecond
	c.CheckConc = []int{256, 1, 2}[s.Draw("check-conc", 3)]
	c.Focus = s.Draw("focus", 3)
	c.CloseAfter = s.Range("close-after", 10, 220)
	c.FailEighths = 1 + s.Draw("fail-eighths", 3)
	if variant == c12Bootstrap {
		// only where no refresh cycle runs: every dial the node starts on its own
		// is then the connection attempt to the configured bootstrap peer
		c.Boot = s.Chance("bootstrap-peers", 1, 2)
	}
	return c
}

func newC12World(s *sim.Sim, cfg c12Cfg) (*c12World, error) {
	w := &c12World{s: s, cfg: cfg, byID: map[peer.ID]*c12Peer{}, calls: map[string]*c12Call{}, prev: map[peer.ID]bool{}}
	w.u = simnet.NewUniverse(uint64(s.Draw("universe", 1<<16)), cfg.N)
	w.self = w.u.Self.ID
	rng := newSubRng(s, "world")

	useFilter := s.Chance("use-filter", 1, 2)
	density := []int{8, 4, 1}[s.Draw("density", 3)]
	for _, p := range w.u.Peers {
		pm := &c12Peer{p: p}
		for _, q := range w.u.Peers {
			if q != p && rng.Intn(8) < density {
				pm.knows = append(pm.knows, q)
			}
		}
		if rng.Intn(6) == 0 {
			pm.knows = nil // answers correctly but names nobody
		}
		pm.liar = rng.Intn(5) == 0
		pm.denied = useFilter && rng.Intn(4) == 0
		w.peers = append(w.peers, pm)
		w.byID[p.ID] = pm
	}

	if cfg.Variant != c12Bootstrap {
		a := w.peers[rng.Intn(len(w.peers))]
		a.denied = false
		if len(a.knows) == 0 { // its replies always name somebody
			for _, q := range w.u.Peers {
				if q != a.p {
					a.knows = append(a.knows, q)
					break
				}
			}
		}
		w.anchor = a
	}
	w.drawUnresponsive()

	w.host = simhost.New(s, w.self, w.u.Self.Addrs, w.u.Name)
	var err error
	if w.emIdent, err = w.host.RealBus().Emitter(new(event.EvtPeerIdentificationCompleted)); err != nil {
		return nil, err
	}
	if w.emProto, err = w.host.RealBus().Emitter(new(event.EvtPeerProtocolsUpdated)); err != nil {
		return nil, err
	}
	if w.emConn, err = w.host.RealBus().Emitter(new(event.EvtPeerConnectednessChanged)); err != nil {
		return nil, err
	}

	// peers already connected (and identified) when the node starts
	for _, pm := range w.peers {
		w.host.Peerstore().AddAddrs(pm.p.ID, pm.p.Addrs, time.Hour)
		if pm == w.anchor {
			_ = w.host.Peerstore().AddProtocols(pm.p.ID, c12Proto)
			continue
		}
		if rng.Intn(4) == 0 {
			w.host.Net().SetConnected(pm.p.ID, true)
			if rng.Intn(3) != 0 {
				_ = w.host.Peerstore().AddProtocols(pm.p.ID, c12Proto)
			}
		}
	}

	opts := []dht.Option{
		dht.ProtocolPrefix("/sim"),
		dht.Mode(dht.ModeClient),
		dht.BucketSize(cfg.K),
		dht.Concurrency(cfg.Alpha),
		dht.Resiliency(cfg.Beta),
		dht.RoutingTableRefreshPeriod(cfg.Interval),
		dht.RoutingTableRefreshQueryTimeout(cfg.QueryTimeout),
		dht.LookupCheckConcurrency(cfg.CheckConc),
		dht.WithCustomMessageSender(func(_ host.Host, _ []protocol.ID) pb.MessageSenderWithDisconnect {
			w.snd = &simnet.Sender{S: s, U: w.u}
			return w.snd
		}),
	}
	if !cfg.Auto {
		opts = append(opts, dht.DisableAutoRefresh())
	}
	opts = append(opts, w.valueAndBootstrapOpts()...)
	if useFilter {
		opts = append(opts, dht.RoutingTableFilter(func(_ any, p peer.ID) bool {
			pm := w.byID[p]
			return pm == nil || !pm.denied
		}))
	}
	d, err := dht.New(w.host, opts...)
	if err != nil {
		w.host.Close()
		return nil, err
	}
	w.d = d
	s.Quiesce()

	// directly seeded members (exempt from the proof rule until first removed)
	nseed := 0
	if w.anchor != nil {
		if ok, err := d.RoutingTable().TryAddPeer(w.anchor.p.ID, true, false); !ok || err != nil {
			panic(fmt.Sprintf("c12: cannot seed the anchor: %v %v", ok, err))
		}
		w.anchor.proofTick, w.anchor.proofKind = 1, "seed"
		nseed++
	}
	if s.Chance("seed-table", 2, 3) {
		for _, pm := range w.peers {
			if pm != w.anchor && rng.Intn(3) == 0 {
				if ok, _ := d.RoutingTable().TryAddPeer(pm.p.ID, true, false); ok {
					pm.proofTick, pm.proofKind = 1, "seed"
					nseed++
				}
			}
		}
		s.Quiesce()
	}
	ndeny := 0
	for _, pm := range w.peers {
		if pm.denied {
			ndeny++
		}
	}
	bootName := "-"
	if w.boot != nil {
		bootName = w.boot.p.Name
	}
	s.Summary["cfg"] = fmt.Sprintf("variant=%d N=%d K=%d alpha=%d beta=%d auto=%v interval=%v qtimeout=%v checkConc=%d focus=%d seeded=%d denied=%d failEighths=%d closeAfter=%d boot=%s",
		cfg.Variant, cfg.N, cfg.K, cfg.Alpha, cfg.Beta, cfg.Auto, cfg.Interval, cfg.QueryTimeout, cfg.CheckConc, cfg.Focus, nseed, ndeny, cfg.FailEighths, cfg.CloseAfter, bootName)
	return w, nil
}

func (w *c12World) name(p peer.ID) string { return w.u.Name(p) }

func (w *c12World) advertises(p peer.ID) bool {
	sup, err := w.host.Peerstore().SupportsProtocols(p, c12Proto)
	return err == nil && len(sup) > 0
}

func (w *c12World) connected(p peer.ID) bool {
	return w.host.Net().Connectedness(p) == network.Connected
}

func (w *c12World) lookupByTag(tag string) *c12Lookup {
	for _, lk := range w.lookups {
		if "@"+lk.tag == tag {
			return lk
		}
	}
	return nil
}

// ---------------------------------------------------------------------------
// observation at a quiescent point

func (w *c12World) observe() {
	s := w.s
	w.tick++
	list := w.d.RoutingTable().ListPeers()
	now := idSet(list)

	// 1. lookup events of the client lookups: a Request event announces a
	// search-phase query to the named peer.
	for _, lk := range w.lookups {
		lk.mu.Lock()
		evs := lk.events[lk.seen:]
		lk.seen = len(lk.events)
		lk.mu.Unlock()
		for _, ev := range evs {
			if ev.Request != nil {
				for _, q := range ev.Request.Waiting {
					lk.searchPending[q.Peer] = true
				}
			}
		}
	}

	// 2. calls that parked during the step just executed
	for _, p := range s.Parked() {
		if p.Kind != "dial" && p.Kind != "rpc" {
			continue
		}
		if _, ok := w.calls[p.ID]; ok {
			continue
		}
		c := &c12Call{tag: sim.TagOf(p.Ctx)}
		switch d := p.Data.(type) {
		case peer.ID:
			c.to = d
		case *simnet.RPC:
			c.to = d.To
			c.probeKey = string(d.Req.GetKey()) == string(d.To)
			c.advAtSend = w.advertises(c.to)
			pm := w.byID[c.to]
			c.filterOK = pm != nil && !pm.denied
			switch {
			case c.probeKey && c.tag == "" && !w.closing:
				// Admission probe or liveness probe of a refresh? An admission probe
				// is only sent for a peer that is not a member at that moment. With
				// one release per step a peer cannot both leave and re-enter the
				// table within a step, so a peer that was a member before and after
				// the step in which the probe was sent was a member throughout: the
				// probe is a refresh's liveness probe. (Anything else stays
				// unclassified and creates no obligation.)
				c.ping = w.prev[c.to] && now[c.to]
				if c.ping {
					s.Count("obs_liveness_probe_classified")
				}
				w.noteOwnProbe(c.to, c.ping)
			case !c.probeKey && c.tag != "":
				if lk := w.lookupByTag(c.tag); lk != nil && lk.searchPending[c.to] {
					c.search = true
					lk.searchPending[c.to] = false
					s.Count("obs_search_request_classified")
				}
			}
		}
		w.calls[p.ID] = c
	}

	// 3. obligations created by the step just executed
	for _, o := range w.obl {
		switch {
		case o.keptOut:
			if !w.prev[o.peer] && !now[o.peer] {
				s.Count(o.probe)
			}
		case o.absent && now[o.peer]:
			s.Violate(o.rule, "%s: %s is still a routing-table member at the next quiescent point", o.what, w.name(o.peer))
		case o.absent && w.prev[o.peer]:
			s.Count(o.probe)
			if o.extra != "" {
				s.Count(o.extra)
			}
			if o.extra2 != "" {
				s.Count(o.extra2)
			}
		case !o.absent && o.rule == "":
			if w.prev[o.peer] && now[o.peer] {
				s.Count(o.probe) // observation only
			}
		case !o.absent && w.prev[o.peer] && !now[o.peer]:
			s.Violate(o.rule, "%s: member %s was removed although the failure was caused by the cancellation", o.what, w.name(o.peer))
		case !o.absent && w.prev[o.peer]:
			s.Count(o.probe)
		}
	}
	w.obl = nil

	// 4. invariants over the membership
	if now[w.self] {
		s.Violate("self-member", "the local node is a member of its own routing table")
	}
	var members []string
	for _, id := range list {
		members = append(members, w.name(id))
		if id == w.self {
			continue
		}
		pm := w.byID[id]
		if pm == nil {
			s.Violate("member-unproven", "routing table contains %s, which never answered anything", w.name(id))
			continue
		}
		if pm.proofTick <= pm.absentTick {
			s.Violate("member-unproven", "%s is a member, but since it was last seen outside the table (observation %d) it has not correctly answered a lookup query nor an admission probe sent while it advertised the protocol and passed the filter (latest proof: %s at %d; advertises now=%v denied=%v)",
				w.name(id), pm.absentTick, pm.proofKind, pm.proofTick, w.advertises(id), pm.denied)
		}
		if !w.prev[id] {
			w.noteAdmission(pm)
		}
		if !w.prev[id] && w.tick > 1 {
			s.Count("probe_admit_via_" + pm.proofKind)
			if pm.proofKind == "probe" && pm.proofTick == w.tick && pm.withdrawn && !w.advertises(id) {
				// The probe was sent while the peer advertised the protocol (else the
				// proof would not count); since then an event reported the peer
				// without it, and the probe's reply admitted the peer all the same.
				s.Violate("probe-admit-protocol-withdrawn", "%s was admitted on the reply to an admission probe although, while the probe was in flight, an event had reported it as no longer supporting the DHT protocol (the peerstore still says so)", w.name(id))
			}
		}
	}
	for _, pm := range w.peers {
		if !now[pm.p.ID] {
			if pm.proofTick == w.tick && !w.closing {
				s.Count("probe_proven_not_admitted") // e.g. no bucket space: never a violation
			}
			pm.absentTick = w.tick
		}
	}
	sort.Strings(members)
	if !w.closing {
		// after Close began the table content depends on select races inside
		// the shutting-down refresh loop; it stays out of the trace then
		var pk []string
		for _, p := range w.parkedCalls() {
			pk = append(pk, p.ID)
		}
		s.Tracef("rt [%s] parked [%s]", strings.Join(members, ","), strings.Join(pk, " "))
		s.State("rt=%d parked=%d lk=%d rf=%d", len(members), len(w.calls), len(w.lookups), len(w.refreshes))
	}
	w.judgeCycle(now)
	w.prev = now
}

func (w *c12World) mustBeAbsent(p peer.ID, rule, probe, what string) {
	if w.closing {
		return // shutdown in progress: evictions are not judged
	}
	w.obl = append(w.obl, c12Obl{peer: p, absent: true, rule: rule, probe: probe, what: what})
}

func (w *c12World) mustRemain(p peer.ID, rule, probe, what string) {
	if w.closing {
		return
	}
	w.obl = append(w.obl, c12Obl{peer: p, absent: false, rule: rule, probe: probe, what: what})
}

func (w *c12World) proof(p peer.ID, kind string) {
	if pm := w.byID[p]; pm != nil {
		pm.proofTick, pm.proofKind = w.tick+1, kind
	}
}

// ---------------------------------------------------------------------------
// remote peers

func (w *c12World) replyFor(to peer.ID, req *pb.Message) *pb.Message {
	key := simnet.KadOfKey(string(req.GetKey()))
	var cands []*simnet.Peer
	liar := false
	if pm := w.byID[to]; pm != nil {
		for _, q := range pm.knows {
			cands = append(cands, q)
		}
		liar = pm.liar
	} else {
		// only reached when the node queries itself (or an unknown id)
		cands = append(cands, w.u.Peers...)
	}
	near := simnet.Nearest(cands, key, w.cfg.K)
	if liar {
		w.s.Count("fault_lying_reply")
		near = append([]*simnet.Peer{w.u.Self, w.u.ByID(to)}, near...)
	}
	if req.GetType() == pb.Message_PUT_VALUE {
		// a correct answer to PUT_VALUE echoes the record
		return &pb.Message{Type: req.GetType(), Key: req.GetKey(), Record: req.GetRecord()}
	}
	if len(near) == 0 {
		w.s.Count("probe_zero_peer_reply")
	}
	return &pb.Message{Type: req.GetType(), Key: req.GetKey(), CloserPeers: simnet.ToPB(near)}
}

// releaseAction builds the scheduler action for one parked dial / request.
func (w *c12World) releaseAction(p *sim.Parked, observeCancel bool) sim.Action {
	s := w.s
	id := p.ID
	if observeCancel {
		id = "cancel>" + p.ID
	}
	return sim.Action{ID: id, Do: func() {
		c := w.calls[p.ID]
		delete(w.calls, p.ID)
		if c == nil {
			c = &c12Call{}
		}
		live := !p.Cancelled()
		lk := w.lookupByTag(c.tag)
		who := w.name(c.to)
		// A search-phase request of a client lookup: whether the lookup is
		// cancelled is the caller's act, which the simulator knows (header,
		// "who cancelled").
		callerLive := p.Kind == "rpc" && c.search && lk != nil && !lk.cancelled
		ownCtxDone := callerLive && !live // the node itself ended / bounded this one request
		if callerLive {
			live = true
		}
		if ownCtxDone {
			s.Count("obs_request_ctx_done_lookup_uncancelled")
			s.Tracef("  the context of the request to %s is done, but the caller has not cancelled lookup %s", who, c.tag)
		}
		// the request waited for longer than the time-out the node was
		// configured with for its own (refresh) queries — an input of the
		// scenario; observation only
		slow := false
		if r, ok := p.Data.(*simnet.RPC); ok && callerLive && s.Now()-r.SentAt > w.cfg.QueryTimeout {
			slow = true
		}
		// Outcome constraints that keep scheduler-decided races out of the run.
		// The anchor never fails. For the release that may end a refresh lookup
		// (no other call of the cycle is parked) see lastCycleCall.
		mustOK := w.anchor != nil && c.to == w.anchor.p.ID
		mustFail := false
		unresponsive := false
		if pm := w.byID[c.to]; pm != nil && pm.life.dead && p.Kind == "rpc" && !mustOK {
			unresponsive, mustFail = true, true // c12_dead.go: answers nothing
		}
		if w.lastCycleCall(p) {
			member, queued := w.prev[c.to], w.pendingRefreshes() >= 2
			switch {
			case w.cfg.Auto && member:
				mustOK = true
			case p.Kind == "rpc" && !member:
				mustFail = true
			case p.Kind == "rpc" && queued:
				mustFail = true
			}
		}
		fails := func(label string) bool {
			f := s.Chance(label, w.cfg.FailEighths, 8)
			return (f || mustFail) && !mustOK
		}
		// the shape of the failure is a drawn choice; no rule depends on it
		shaped := false
		failWith := func(what string, plain error) error {
			err, shape := c12FailErr(s, what, plain)
			if shape != 0 {
				shaped = true
				if live {
					s.Count("fault_ctx_shaped_error_live_call")
				}
				s.Tracef("  failure shape %d: %v", shape, err)
			}
			return err
		}
		wrongKey := false // the request was answered with a record filed under another key
		absent := func(rule, probe, what string) {
			n := len(w.obl)
			w.mustBeAbsent(c.to, rule, probe, what)
			if shaped && len(w.obl) > n {
				w.obl[n].extra = "probe_evict_ctx_shaped_fail"
			}
			if wrongKey && len(w.obl) > n {
				w.obl[n].extra = "probe_evict_wrong_key_record"
			}
			if slow && len(w.obl) > n {
				w.obl[n].extra2 = "probe_evict_slow_request_fail_lookup_uncancelled"
			}
		}
		switch {
		case observeCancel:
			s.ReleaseCancelled(p)
			if callerLive {
				// the request ended with its own context's error; the caller did
				// not cancel the lookup: a failed request of an uncancelled lookup
				absent("lookup-fail-not-evicted", "probe_evict_lookup_fail", fmt.Sprintf("the search-phase request to %s ended with the error of its own context (%v) in client lookup %s, which its caller has not cancelled (and gave no deadline)", who, p.Ctx.Err(), c.tag))
			} else if c.tag != "" {
				w.mustRemain(c.to, "cancel-evicted", "probe_cancel_no_evict", fmt.Sprintf("the %s to %s of client lookup %s observed the cancellation of the lookup", p.Kind, who, c.tag))
				if p.Kind == "dial" && lk != nil {
					lk.searchPending[c.to] = false
				}
			}
			if c.ping {
				w.mustBeAbsent(c.to, "probe-fail-not-evicted", "probe_evict_refresh_probe", fmt.Sprintf("the refresh's liveness probe to member %s timed out", who))
			}
		case p.Kind == "dial":
			if fails("dial-fail") {
				s.Count("fault_dial_fail")
				ferr := failWith("dial "+who, simhost.ErrDialFailed)
				s.Release(p, ferr)
				if lk != nil {
					lk.searchPending[c.to] = false
				}
				if live && c.tag != "" {
					absent("lookup-fail-not-evicted", "probe_evict_lookup_fail", fmt.Sprintf("the dial to %s failed (error %q) in client lookup %s while its context was live", who, ferr, c.tag))
				} else if c.tag == "" && w.cfg.Variant == c12Bootstrap {
					// no refresh cycle in this variant: the node's own dial is the
					// connection attempt to the configured bootstrap peer, which is not
					// a dial "during a lookup": no obligation
					s.Count("fault_bootstrap_dial_fail")
				} else if live {
					absent("refresh-dial-fail-not-evicted", "probe_evict_refresh_probe", fmt.Sprintf("a dial to %s made by the refresh (liveness probe or refresh lookup) failed (error %q) while its context was live", who, ferr))
				}
			} else {
				s.Release(p, nil)
				if c.tag == "" && w.cfg.Variant == c12Bootstrap {
					s.Count("probe_bootstrap_dial")
					if pm := w.byID[c.to]; pm != nil && pm.proofTick <= pm.absentTick {
						// connected, configured, and nothing else: member-unproven keeps
						// watching it
						s.Count("probe_bootstrap_connected_unproven")
					}
				}
			}
		default: // rpc
			r := p.Data.(*simnet.RPC)
			isGet := r.Req.GetType() == pb.Message_GET_VALUE
			if fails("rpc-fail") {
				var ferr error
				if isGet && !unresponsive && s.Chance("wrong-key-record", 1, 2) {
					// an incorrect answer instead of an error: same consequences
					s.Count("fault_wrong_key_record")
					wrongKey = true
					ferr = errors.New("the reply carried a record filed under another key")
					s.Tracef("  incorrect answer: record under another key")
					s.Release(p, simnet.Reply{Msg: w.wrongKeyReply(c.to, r.Req)})
					w.noteReply(c.to)
					if live && c.search && !w.prev[c.to] {
						w.keptOut(c.to, "probe_wrong_key_record_nonmember_kept_out")
					}
				} else {
					s.Count("fault_rpc_error")
					ferr = failWith("request to "+who, errReqFailed)
					s.Release(p, simnet.Reply{Err: ferr})
				}
				if live && c.search {
					absent("lookup-fail-not-evicted", "probe_evict_lookup_fail", fmt.Sprintf("the search-phase request to %s failed (error %q) in client lookup %s while its context was live", who, ferr, c.tag))
				}
				if live && c.ping {
					absent("probe-fail-not-evicted", "probe_evict_refresh_probe", fmt.Sprintf("the refresh's liveness probe to member %s failed (error %q)", who, ferr))
				}
				if live && c.tag != "" && !c.search && !c.probeKey {
					// a follow-up request of a client lookup (no Request event announced
					// it): its failure evicts nobody; counted, not judged
					w.mustRemain(c.to, "", "obs_followup_fail_member_kept", "")
				}
			} else {
				reply := w.replyFor(c.to, r.Req)
				if isGet && live {
					// a record-carrying reply only while the call's context is live
					// (see c12_value.go: hand-over of a value races with a cancelled context)
					w.maybeAddRecord(reply, r.Req)
				}
				if r.Req.GetType() == pb.Message_PUT_VALUE {
					s.Count("probe_corrective_put")
				}
				s.Release(p, simnet.Reply{Msg: reply})
				w.noteReply(c.to)
				if c.search && w.anchor != nil && c.to == w.anchor.p.ID {
					w.anchorFresh = s.Now()
				}
				switch {
				case !c.probeKey:
					w.proof(c.to, "lookup")
				case c.advAtSend && c.filterOK:
					w.proof(c.to, "probe")
				}
			}
		}
	}}
}

// c12FailErr draws the error with which a dial / request fails. Shape 0 is the
// plain error; the others are what time-outs and cancellations *below* the
// lookup (a per-request deadline in the message sender, stream negotiation, the
// swarm's dial time-out, a transport's read deadline) look like to the caller
// while the caller's own context is alive.
func c12FailErr(s *sim.Sim, what string, plain error) (error, int) {
	shape := s.Draw("fail-shape", 8)
	switch shape {
	case 1:
		return fmt.Errorf("%s: %w", what, context.DeadlineExceeded), shape
	case 2:
		return context.DeadlineExceeded, shape
	case 3:
		return fmt.Errorf("%s: %w", what, context.Canceled), shape
	case 4:
		return context.Canceled, shape
	case 5:
		return errors.Join(plain, context.DeadlineExceeded), shape
	case 6:
		// two levels of wrapping, as the swarm reports a dial time-out
		return fmt.Errorf("failed to %s: %w", what, fmt.Errorf("all attempts failed: %w", context.DeadlineExceeded)), shape
	case 7:
		// an i/o time-out: a net.Error with Timeout() == true, not a context error
		return fmt.Errorf("%s: %w", what, os.ErrDeadlineExceeded), shape
	}
	return plain, 0
}

func (w *c12World) parkedCalls() []*sim.Parked {
	var out []*sim.Parked
	for _, p := range w.s.Parked() {
		if p.Kind == "dial" || p.Kind == "rpc" {
			out = append(out, p)
		}
	}
	return out
}

func (w *c12World) releaseActions() []sim.Action {
	var acts []sim.Action
	for _, p := range w.parkedCalls() {
		if !w.hungCall(p) { // c12_dead.go: a hung peer never answers; the call ends with its context
			acts = append(acts, w.releaseAction(p, false))
		}
		if p.Cancelled() {
			// A liveness probe that times out evicts; the anchor is never evicted,
			// so its own-activity calls are answered even after their deadline.
			if w.anchor != nil && sim.TagOf(p.Ctx) == "" && c12Target(p) == w.anchor.p.ID {
				continue
			}
			acts = append(acts, w.releaseAction(p, true))
		}
	}
	return acts
}

func c12Target(p *sim.Parked) peer.ID {
	switch d := p.Data.(type) {
	case peer.ID:
		return d
	case *simnet.RPC:
		return d.To
	}
	return ""
}

// c12CycleCall: a parked call that belongs to a running refresh cycle for
// certain — a dial or a lookup request that the node started on its own.
// (Requests whose key is the addressed peer may be admission probes, which are
// independent of the cycle, and never end one: a lookup always follows.)
func c12CycleCall(p *sim.Parked) bool {
	if sim.TagOf(p.Ctx) != "" {
		return false
	}
	if r, ok := p.Data.(*simnet.RPC); ok {
		if r.Req.GetType() == pb.Message_PUT_VALUE {
			return false // corrective put of a finished value lookup (runs on the node's context)
		}
		return string(r.Req.GetKey()) != string(r.To)
	}
	return p.Kind == "dial"
}

// lastCycleCall: releasing p may let the refresh lookup it belongs to (and
// possibly the whole refresh cycle) finish within this step, because no other
// call of the cycle is parked. What the refresh loop does next reads the
// routing table (seeds of the next lookup, buckets to refresh, members to
// probe), while the consequences of a *successful* reply — admission, or the
// bump of the member's last-successful-query stamp — are applied by another
// goroutine (rtPeerLoop) at a moment the Go scheduler chooses. Evictions are
// applied synchronously. Such a release therefore
//   - fails when it addresses a non-member (no admission races with the next
//     lookup's seed selection);
//   - fails when it addresses a member while another refresh request is queued
//     (the next cycle, which starts in the same step, decides whom to probe
//     from the stamps); the anchor is exempt, its stamp is provably fresh then
//     (see refreshActions);
//   - with auto-refresh succeeds when it addresses a member: an eviction would
//     make fixLowPeers call RefreshNoWait just when the loop returns to its
//     select.
//
// Requests whose key is the addressed peer are not counted as calls of the
// cycle: they may be admission probes, and a liveness probe never ends a cycle
// (the refresh lookups follow).
func (w *c12World) lastCycleCall(p *sim.Parked) bool {
	if w.closing || !c12CycleCall(p) {
		return false
	}
	for _, q := range w.parkedCalls() {
		if q.ID != p.ID && c12CycleCall(q) {
			return false
		}
	}
	return true
}

// refreshLoopIdle: nothing the node started on its own is parked. The refresh
// loop, when busy, is always blocked on such a call.
func (w *c12World) refreshLoopIdle() bool {
	for _, p := range w.parkedCalls() {
		if sim.TagOf(p.Ctx) == "" && !c12CorrectivePut(p) {
			return false
		}
	}
	return true
}

// ---------------------------------------------------------------------------
// environment events

func (w *c12World) envActions(pm *c12Peer) []sim.Action {
	s, id, n := w.s, pm.p.ID, pm.p.Name
	emitIdent := func() { _ = w.emIdent.Emit(event.EvtPeerIdentificationCompleted{Peer: id}) }
	reported := func(evt string) {
		// the event reports the peerstore's current content for the peer
		pm.withdrawn = !w.advertises(id)
		if !w.advertises(id) {
			w.mustBeAbsent(id, "proto-removed-not-evicted", "probe_evict_proto_removed", fmt.Sprintf("a %s event reported %s without the DHT protocol", evt, n))
		} else if pm.denied && pm.proofTick > 0 {
			s.Count("probe_filter_rejected_proven")
		}
	}
	var acts []sim.Action
	if !w.connected(id) {
		acts = append(acts, sim.Action{ID: "env:connect:" + n, Do: func() {
			w.host.Net().SetConnected(id, true)
			_ = w.emConn.Emit(event.EvtPeerConnectednessChanged{Peer: id, Connectedness: network.Connected})
		}})
	} else {
		acts = append(acts, sim.Action{ID: "env:disconnect:" + n, Do: func() {
			s.Count("fault_disconnect")
			w.host.Net().SetConnected(id, false)
			_ = w.emConn.Emit(event.EvtPeerConnectednessChanged{Peer: id, Connectedness: network.NotConnected})
		}})
	}
	if pm == w.anchor {
		return acts // the anchor is never reported without the protocol
	}
	acts = append(acts, w.deadAction(pm)...)
	if w.connected(id) {
		// identification of a connected peer: it does / does not speak the DHT protocol
		acts = append(acts, sim.Action{ID: "env:ident+:" + n, Do: func() {
			_ = w.host.Peerstore().AddProtocols(id, c12Proto)
			reported("identification-completed")
			emitIdent()
		}})
		acts = append(acts, sim.Action{ID: "env:ident-:" + n, Do: func() {
			_ = w.host.Peerstore().SetProtocols(id)
			reported("identification-completed")
			emitIdent()
		}})
	}
	if w.advertises(id) {
		acts = append(acts, sim.Action{ID: "env:proto-:" + n, Do: func() {
			s.Count("fault_proto_removed")
			_ = w.host.Peerstore().RemoveProtocols(id, c12Proto)
			reported("protocols-updated")
			_ = w.emProto.Emit(event.EvtPeerProtocolsUpdated{Peer: id, Removed: []protocol.ID{c12Proto}})
		}})
		// the peerstore changes first, the event arrives in a later step
		acts = append(acts, sim.Action{ID: "env:pstore-:" + n, Do: func() {
			_ = w.host.Peerstore().RemoveProtocols(id, c12Proto)
		}})
	} else {
		acts = append(acts, sim.Action{ID: "env:proto+:" + n, Do: func() {
			_ = w.host.Peerstore().AddProtocols(id, c12Proto)
			reported("protocols-updated")
			_ = w.emProto.Emit(event.EvtPeerProtocolsUpdated{Peer: id, Added: []protocol.ID{c12Proto}})
		}})
		acts = append(acts, sim.Action{ID: "env:pstore+:" + n, Do: func() {
			_ = w.host.Peerstore().AddProtocols(id, c12Proto)
		}})
	}
	// an event that reports whatever the peerstore says now
	acts = append(acts, sim.Action{ID: "env:evt:" + n, Do: func() {
		reported("protocols-updated")
		_ = w.emProto.Emit(event.EvtPeerProtocolsUpdated{Peer: id})
	}})
	return acts
}

// ---------------------------------------------------------------------------
// client operations

func (w *c12World) startLookup() {
	s := w.s
	lk := &c12Lookup{tag: fmt.Sprintf("L%02d", len(w.lookups)), searchPending: map[peer.ID]bool{}}
	lk.kind = s.Draw("lookup-kind", 3)
	lk.key = fmt.Sprintf("key-%d", s.Draw("key", 64))
	if lk.kind != c12Closest {
		lk.key = "/r/" + lk.key // the namespace of the configured validator
		s.Count("probe_value_lookup_started")
	}
	evCtx, evCancel := context.WithCancel(context.Background())
	regCtx, evCh := dht.RegisterForLookupEvents(evCtx)
	opCtx, cancel := context.WithCancel(sim.WithTag(regCtx, lk.tag))
	lk.cancel, lk.evCancel = cancel, evCancel
	go func() {
		for ev := range evCh {
			if ev != nil {
				lk.mu.Lock()
				lk.events = append(lk.events, ev)
				lk.mu.Unlock()
			}
		}
	}()
	w.lookups = append(w.lookups, lk)
	lk.op = w.ops.Go(s, "lookup "+lk.tag, func() (any, error) { return w.runLookup(opCtx, lk) })
}

func (w *c12World) requestRefresh(force bool) *c12Refresh {
	r := &c12Refresh{id: len(w.refreshes), force: force, afterClose: w.closing}
	var ch <-chan error
	if force {
		ch = w.d.ForceRefresh()
	} else {
		ch = w.d.RefreshRoutingTable()
	}
	go func() {
		for v := range ch {
			r.mu.Lock()
			r.vals = append(r.vals, v)
			r.mu.Unlock()
		}
		r.mu.Lock()
		r.closed = true
		r.mu.Unlock()
	}()
	w.refreshes = append(w.refreshes, r)
	return r
}

func (w *c12World) pendingRefreshes() int {
	n := 0
	for _, r := range w.refreshes {
		if k, _, _ := r.state(); k == 0 {
			n++
		}
	}
	return n
}

func (w *c12World) clientActions() []sim.Action {
	s := w.s
	var acts []sim.Action
	running := 0
	for _, lk := range w.lookups {
		lk := lk
		if !lk.op.Done {
			running++
			if !lk.cancelled {
				acts = append(acts, sim.Action{ID: "lookup:cancel:" + lk.tag, Do: func() {
					s.Count("fault_cancel_lookup")
					lk.cancelled = true
					lk.cancel()
				}})
			}
		}
	}
	if running < 2 && len(w.lookups) < 6 {
		acts = append(acts, sim.Action{ID: "lookup:start", Do: w.startLookup})
	}
	return acts
}

func (w *c12World) refreshActions() []sim.Action {
	s := w.s
	var acts []sim.Action
	// With auto-refresh the loop also selects on its ticker; a request that has
	// to wait for a busy loop would later compete with a buffered tick in a
	// select with two ready cases (HARNESS pitfall 3). Requests are therefore
	// only issued to an idle loop in that variant. Without the ticker waiting
	// requests queue up in issue order, which is deterministic.
	// Without the ticker a request may queue behind a running cycle only while
	// the anchor's last-successful-query stamp is certainly fresh (see
	// anchorStampFresh): the anchor always answers, also as the last call of
	// a cycle that is followed at once by the next one.
	allowed := w.cfg.Variant != c12Bootstrap && len(w.refreshes) < 6
	if w.cfg.Auto {
		allowed = allowed && w.refreshLoopIdle()
	} else if w.pendingRefreshes() > 0 {
		allowed = allowed && w.anchorStampFresh(0)
	}
	if allowed {
		busy := w.pendingRefreshes() > 0
		acts = append(acts, sim.Action{ID: "refresh:request", Do: func() {
			if busy {
				s.Count("probe_refresh_batched")
			}
			n := w.pendingRefreshes()
			w.openCycle(w.requestRefresh(false), n)
		}})
		acts = append(acts, sim.Action{ID: "refresh:force", Do: func() {
			if busy {
				s.Count("probe_refresh_batched")
			}
			n := w.pendingRefreshes()
			w.openCycle(w.requestRefresh(true), n)
		}})
	}
	if s.Steps >= w.cfg.CloseAfter {
		acts = append(acts, sim.Action{ID: "close", Do: w.startClose})
	}
	return acts
}

// anchorStampFresh: after a further d of virtual time the anchor's stamp is
// still within the grace period of the liveness probe for certain. The grace
// period is at least one refresh interval (an input of the scenario).
func (w *c12World) anchorStampFresh(d time.Duration) bool {
	return w.s.Now()+d <= w.anchorFresh+w.cfg.Interval
}

func (w *c12World) timeActions() []sim.Action {
	s := w.s
	durs := []time.Duration{time.Second, 11 * time.Second, w.cfg.QueryTimeout + time.Second, 61 * time.Second, 121 * time.Second, w.cfg.Interval + time.Second, 5*w.cfg.Interval + time.Second}
	var acts []sim.Action
	for i, d := range durs {
		d := d
		if w.anchor != nil && w.pendingRefreshes() >= 2 && !w.anchorStampFresh(d) {
			continue // a queued refresh request: the anchor's stamp must stay fresh
		}
		if w.cfg.Auto && d >= w.cfg.Interval {
			// at most one tick per sleep: a second one would find the loop busy
			// with the cycle the first one started and stay buffered
			continue
		}
		acts = append(acts, sim.Action{ID: fmt.Sprintf("sleep:%d:%v", i, d), Do: func() {
			s.Count("time_advance")
			s.Sleep(d)
		}})
	}
	return acts
}

func (w *c12World) startClose() {
	s := w.s
	if w.pendingRefreshes() > 0 {
		s.Count("fault_close_mid_refresh")
	}
	for _, r := range w.refreshes {
		if k, _, _ := r.state(); k == 0 {
			r.pendingAtClose = true
		}
	}
	w.closing = true
	// Close competes with the refresh loop for select cases from here on; the
	// client lookups are cancelled first so that the drain below is mechanical
	// (every parked call then has a cancelled context).
	for _, lk := range w.lookups {
		lk.cancelled = true
		lk.cancel()
	}
	w.closeOp = w.ops.Go(s, "Close", func() (any, error) { return nil, w.d.Close() })
}

// ---------------------------------------------------------------------------
// one scheduled step

func (w *c12World) step() {
	s := w.s
	w.stepStart = s.Now()
	rel := w.releaseActions()
	var acts []sim.Action
	label := "next"
	cat := s.Draw("cat", 12)
	weights := [][3]int{ // upper bounds of env / client / refresh+close per focus; the rest below 11 is release, 11 is time
		{7, 8, 9},  // general
		{6, 7, 10}, // refresh-heavy
		{6, 9, 10}, // lookup-heavy
	}[w.cfg.Focus]
	switch {
	case cat >= 11 && (!w.cfg.Auto || w.refreshLoopIdle()):
		// with auto-refresh time only passes while the refresh loop is idle: a
		// tick that fires during a cycle stays buffered and would start the next
		// cycle in the very step that ends this one
		acts, label = w.timeActions(), "time"
	case cat >= 11:
	case cat >= weights[2]:
		acts, label = w.refreshActions(), "refresh"
	case cat >= weights[1]:
		acts, label = w.clientActions(), "client"
	case cat >= weights[0]:
		pm := w.peers[s.Draw("env-peer", len(w.peers))]
		acts, label = w.envActions(pm), "env"
	}
	if len(acts) == 0 {
		acts, label = rel, "next"
	}
	if len(acts) == 0 {
		// nothing to release and the drawn category is empty: an environment event
		pm := w.peers[s.Draw("env-peer", len(w.peers))]
		acts, label = w.envActions(pm), "env"
	}
	s.Choose(label, acts)
}

// ---------------------------------------------------------------------------
// shutdown: Close, mechanical drain, refresh-answer rules, census

func (w *c12World) shutdown() {
	s := w.s
	// Refresh requests issued after Close returned: none, or a burst
	// (RefreshRoutingTable and ForceRefresh alternating, each followed by a
	// quiescent point, so the burst contains the single-request case). The
	// requests of a burst are judged together (see below).
	npost := []int{0, 24, 31}[s.Draw("post-close-refresh", 3)]
	postForce := s.Draw("post-close-force", 2) == 1
	if !w.closing {
		s.Tracef("close (end of schedule)")
		w.startClose()
	}
	// From here on no draws and no per-release trace: which calls the
	// shutting-down refresh loop still starts depends on select races between
	// a cancelled context and other ready cases. Everything parked is let
	// observe its cancellation (or fails benignly if its context is live).
	allDone := func() bool {
		if !w.closeOp.Done {
			return false
		}
		for _, lk := range w.lookups {
			if !lk.op.Done {
				return false
			}
		}
		return true
	}
	for i := 0; i < 600; i++ {
		s.Quiesce()
		ps := w.parkedCalls()
		if len(ps) == 0 {
			if allDone() {
				break
			}
			s.Sleep(time.Second)
			continue
		}
		for _, p := range ps {
			delete(w.calls, p.ID)
			if p.Cancelled() {
				s.ReleaseCancelled(p)
			} else {
				releaseBenign(s, p)
			}
		}
	}
	s.Quiesce()
	w.observe()
	if w.closeOp.Panic != "" {
		s.Violate("close-panic", "Close panicked: %s", firstLine(w.closeOp.Panic))
	} else if !w.closeOp.Done {
		s.Violate("close-hang", "Close did not return although every parked call was released and virtual time advanced")
	}
	for _, lk := range w.lookups {
		if lk.op.Panic != "" {
			s.Violate("panic", "%s panicked: %s", c12KindName[lk.kind], firstLine(lk.op.Panic))
		} else if !lk.op.Done {
			s.Violate("lookup-no-return", "client lookup %s did not return after its context was cancelled and everything parked was released", lk.tag)
		}
	}
	if s.Failed() {
		return
	}

	// refresh requests after Close: answered (with an error) all the same
	for i := 0; i < npost; i++ {
		s.Count("probe_refresh_after_close")
		w.requestRefresh(postForce != (i%2 == 1))
		s.Quiesce()
	}
	s.Sleep(time.Minute)
	for _, p := range w.parkedCalls() {
		if p.Cancelled() {
			s.ReleaseCancelled(p)
		} else {
			releaseBenign(s, p)
		}
	}
	s.Sleep(time.Minute)

	// Requests issued after Close returned are judged together and the message
	// does not say which of them went unanswered: should an implementation make
	// the fate of such a request depend on a choice of the Go runtime (a select
	// with several ready cases), then which requests are lost differs from
	// replay to replay, while "at least one of a burst" is the same in all of
	// them for practical purposes.
	lostAfterClose := 0
	for _, r := range w.refreshes {
		if n, _, _ := r.state(); r.afterClose && n == 0 {
			lostAfterClose++
		}
	}
	if lostAfterClose > 0 {
		s.Violate("refresh-unanswered", "at least one of the %d refresh requests issued after Close returned never received a result or an error: nothing is parked and two minutes of virtual time passed", npost)
	}
	answered, afterClose := 0, 0
	for _, r := range w.refreshes {
		n, closed, _ := r.state()
		if r.afterClose && n == 0 {
			continue // reported above
		}
		kind := "RefreshRoutingTable"
		if r.force {
			kind = "ForceRefresh"
		}
		when := "before Close"
		if r.afterClose {
			when = "after Close returned"
		} else if r.pendingAtClose {
			when = "before Close and still pending when Close began"
		}
		switch {
		case n == 0:
			s.Violate("refresh-unanswered", "refresh request #%d (%s, issued %s) never received a result or an error: Close has returned, nothing is parked and two minutes of virtual time passed (channel closed=%v)", r.id, kind, when, closed)
		case n > 1:
			s.Violate("refresh-multi-answer", "refresh request #%d (%s) received %d values", r.id, kind, n)
		case !closed:
			s.Violate("refresh-not-closed", "the channel of refresh request #%d (%s) yielded its value but was never closed", r.id, kind)
		default:
			answered++
			if r.pendingAtClose {
				s.Count("probe_refresh_answered_during_close")
			}
			if r.afterClose {
				afterClose++
			}
		}
	}
	if !s.Failed() {
		s.Tracef("refresh requests=%d answered=%d after-close=%d", len(w.refreshes), answered, afterClose)
	}
}

// ---------------------------------------------------------------------------

func runC12(s *sim.Sim, variant int) {
	cfg := genC12Cfg(s, variant)
	restore := c12InstallRand(uint64(s.Draw("crypto-rand-seed", 1<<20)))
	defer restore()
	s.MaxSteps = 320

	w, err := newC12World(s, cfg)
	if err != nil {
		panic(err)
	}
	w.observe()
	for !w.closing && !s.Failed() && s.Step() {
		w.step()
		w.observe()
		// finished client lookups: trace the outcome once
		for _, lk := range w.lookups {
			if lk.op.Done && !lk.traced && !w.closing {
				lk.traced = true
				s.Tracef("lookup %s done err=%v", lk.tag, lk.op.Err)
			}
		}
		for _, r := range w.refreshes {
			if n, _, first := r.state(); n > 0 && !r.reported && !w.closing {
				r.reported = true
				s.Tracef("refresh #%d answered ok=%v", r.id, first == nil)
			}
		}
	}
	if s.Steps > s.MaxSteps {
		s.Count("step_budget_exhausted_c12") // not a violation: shut down and judge what happened
	}
	if !s.Failed() {
		w.shutdown()
	}
	st := s.Stats
	s.NonTrivial = st["probe_admit_via_probe"]+st["probe_admit_via_lookup"] > 0 &&
		(st["probe_evict_lookup_fail"]+st["probe_evict_proto_removed"]+st["probe_evict_refresh_probe"]+st["probe_cancel_no_evict"] > 0 || len(w.refreshes) > 0)

	// tear-down: event registrations, emitters, host; then the goroutine census
	for _, lk := range w.lookups {
		lk.cancel()
		lk.evCancel()
	}
	w.emIdent.Close()
	w.emProto.Close()
	w.emConn.Close()
	if s.Failed() {
		// leave the world as it is; the worker stops after a failing run
		if w.closeOp == nil {
			closeAndCensus(s, func() { _ = w.d.Close(); _ = w.host.Close() })
		} else {
			_ = w.host.Close()
		}
		s.Finish()
		return
	}
	closeAndCensus(s, func() { _ = w.host.Close() })
	s.Finish()
}
