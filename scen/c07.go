//go:build all || c07

package scen

import (
	"context"
	"encoding/binary"
	"errors"
	"fmt"
	"math"
	"os"
	"sort"
	"strings"
	"time"

	"github.com/anishathalye/porcupine"
	lru "github.com/hashicorp/golang-lru/simplelru"
	dsq "github.com/ipfs/go-datastore/query"
	"github.com/libp2p/go-libp2p/core/peer"
	"github.com/libp2p/go-libp2p/core/peerstore"
	"github.com/libp2p/go-libp2p/p2p/host/peerstore/pstoremem"
	"github.com/multiformats/go-base32"

	"github.com/libp2p/go-libp2p-kad-dht/records"

	"verif/sim"
	"verif/simds"
	"verif/simnet"
)

// C07 — provider records are served exactly while valid and survive restarts.
//
// Harness H3 directly on records.ProviderManager over the parking simulated
// datastore. The run is a sequence of short concurrent phases (clock frozen)
// separated by barriers (time advance, clean restart, crash-restart, Close).
//
// Oracle, three layers (every clause is a consequence of the property text):
//
//  1. direct rules on each returned operation (definite cases only):
//     duplicate, never-added, served-expired, lost-provider, ack-without-write,
//     add-error/get-error (fault-free variant), not-closed-after-close,
//     spurious-closed, panic;
//  2. rules on the datastore log: deleted-unexpired (a Delete hit content that
//     was still valid at that instant and was not the documented race),
//     touch-after-close (log entry / arriving operation after Close returned);
//  3. after the simulated part: porcupine linearizability of the whole history
//     per key against map[(k,p)]->set of possible last-add instants
//     (not-linearizable). Unknown (work budget exhausted) is only counted.
//
// Relaxations, all derived from the log or from an operation's own outcome:
//   - an Add that returned an error, was in flight at a crash, or was still
//     running at the end "may or may not have taken effect" — and since the
//     real store may show such an add from its cache and lose it on eviction,
//     the entry is modelled as *uncertain* (either value, per query) until the
//     next acknowledged add;
//   - the documented sweep race: a sweep Delete(k,p) that executed on content
//     newer than what that sweep's Query snapshot showed as expired makes
//     (k,p) uncertain {absent, current} from that instant;
//   - a Get one of whose own datastore operations got an injected error may
//     omit anything (it still must not return a forbidden peer);
//   - caller cancellation (generator: a drawn share of the operations runs
//     under a context that the scheduler may cancel at any quiescent point
//     while the call is in flight; for these calls the datastore hands the
//     results of a scan over one entry per scheduler step, so "in the middle
//     of a load" is a reachable instant; the datastore itself keeps delivering,
//     it never fails because of the cancellation unless the scheduler lets a
//     parked operation observe it). An operation whose context was cancelled
//     before it returned may fail with that context's error and is then
//     treated like any failed operation (a failed add is uncertain, a failed
//     query says nothing); any other error, or a context error without a
//     cancellation, stays add-error/get-error. A cancelled call that reports
//     success is judged in full, and so is every later call: the clause "is
//     returned by every later provider query for that key" has no exception
//     for queries that follow an abandoned one (lost-provider /
//     not-linearizable on the later query).
//     Not in the registered space (opt-in, VERIF_C07_CTX_ITER=1): a datastore
//     whose scan iterator itself gives up when the caller's context is done
//     (one Result carrying the context's error, then end of scan). The query
//     whose scan was cut short is relaxed like any query with a failed read;
//     later queries are not — and the unchanged tree fails that (it caches
//     the truncated set): findings/C07-aborted-scan-caches-truncated-set.json.

func init() {
	common := []string{"lock_contended", "lock_yield", "time_advance",
		"probe_cache_eviction", "probe_miss_load", "probe_expired_on_read", "probe_lazy_delete", "probe_sweep_delete",
		"probe_readd_raced_sweep", "probe_restart_survivor", "probe_inflight_at_crash", "probe_clean_restart", "probe_crash_restart",
		"probe_close_concurrent", "probe_closed_call", "probe_boundary_age", "probe_malformed_entry_dropped",
		"probe_lin_checked", "probe_lin_ops",
		"fault_ctx_cancel", "fault_scan_aborted_by_cancel", "fault_cancel_observed_by_ds", "probe_scan_entry_step", "probe_cancel_mid_scan", "probe_cancelled_call_failed", "probe_cancelled_call_completed",
		"probe_query_after_cancelled_query"}
	sim.Register(&sim.Scenario{Prop: "C07", Name: "provider-store", Weight: 3, Run: func(s *sim.Sim) { runC07(s, false) },
		Real:   []string{"records.ProviderManager (NewProviderManager/AddProvider/GetProviders/gcLoop sweep/Close)", "records.providerSet", "hashicorp simplelru cache of 2-3 entries through the public Cache option", "pstoremem peerstore"},
		Stub:   []string{"datastore (simds: every operation parks in the scheduler; crash = fork of everything applied)", "lock hand-over (instrumented sync.Mutex calls, scheduler-owned)", "GetProviders shuffle (identity, results compared as sets)"},
		Faults: common,
	})
	sim.Register(&sim.Scenario{Prop: "C07", Name: "provider-store-ds-errors", Weight: 1, Run: func(s *sim.Sim) { runC07(s, true) },
		Real:   []string{"records.ProviderManager (NewProviderManager/AddProvider/GetProviders/gcLoop sweep/Close)"},
		Stub:   []string{"datastore (simds with error injection)"},
		Faults: append([]string{"fault_ds_error_put", "fault_ds_error_query", "fault_ds_error_delete", "probe_failed_add"}, common...),
	})
}

// ---------------------------------------------------------------------------
// sequential model for porcupine (one partition = one key)

const (
	c07MaxPeers = 6
	c07Absent   = int64(math.MinInt64)
)

const (
	c07Add       = iota // acknowledged add: entry = {t}
	c07AddMaybe         // failed / pending add: entry = entry ∪ {t}
	c07Raced            // documented sweep race: entry = entry ∪ {absent}
	c07Get              // query, fully constrained
	c07GetSubset        // query under an injected error: may omit, must not invent
)

type c07In struct {
	kind int
	peer int
	t    int64 // virtual ns since the start of the run
}

type c07Out struct{ peers []int } // sorted, no duplicates, all in [0,c07MaxPeers)

// c07State: per peer the set of possible last-add instants (nil = never
// attempted). Slices are never mutated in place.
type c07State struct{ poss [c07MaxPeers][]int64 }

func c07Union(a []int64, v int64) []int64 {
	for _, x := range a {
		if x == v {
			return a
		}
	}
	out := append(append([]int64{}, a...), v)
	sort.Slice(out, func(i, j int) bool { return out[i] < out[j] })
	return out
}

func c07Model(validity int64, steps *int, maxSteps int) porcupine.Model {
	return porcupine.Model{
		Init: func() interface{} { return c07State{} },
		Step: func(st, in, out interface{}) (bool, interface{}) {
			*steps++
			if *steps > maxSteps {
				return false, st // work budget exhausted: result is discarded as Unknown
			}
			s := st.(c07State)
			i := in.(c07In)
			switch i.kind {
			case c07Add:
				s.poss[i.peer] = []int64{i.t}
				return true, s
			case c07AddMaybe:
				prev := s.poss[i.peer]
				if prev == nil {
					prev = []int64{c07Absent}
				}
				s.poss[i.peer] = c07Union(prev, i.t)
				return true, s
			case c07Raced:
				if s.poss[i.peer] != nil {
					s.poss[i.peer] = c07Union(s.poss[i.peer], c07Absent)
				}
				return true, s
			}
			o := out.(c07Out)
			var inOut [c07MaxPeers]bool
			for _, p := range o.peers {
				inOut[p] = true
			}
			for p := 0; p < c07MaxPeers; p++ {
				poss := s.poss[p]
				ok := false
				if inOut[p] {
					// allowed iff some possible value is present and not older than V
					for _, v := range poss {
						ok = ok || (v != c07Absent && i.t-v <= validity)
					}
				} else {
					if poss == nil || i.kind == c07GetSubset {
						continue
					}
					// omission allowed iff some possible value is absent or not younger than V
					for _, v := range poss {
						ok = ok || v == c07Absent || i.t-v >= validity
					}
				}
				if !ok {
					return false, st
				}
			}
			return true, s
		},
		Equal: func(a, b interface{}) bool {
			x, y := a.(c07State), b.(c07State)
			for p := 0; p < c07MaxPeers; p++ {
				if len(x.poss[p]) != len(y.poss[p]) || (x.poss[p] == nil) != (y.poss[p] == nil) {
					return false
				}
				for i := range x.poss[p] {
					if x.poss[p][i] != y.poss[p][i] {
						return false
					}
				}
			}
			return true
		},
	}
}

// ---------------------------------------------------------------------------
// shared harness state and oracle (used by c07.go and c07_handler.go)

type c07Mgr struct {
	gen       int
	pm        *records.ProviderManager
	ds        *c07DS
	state     int // 0 open, 1 Close running, 2 Close returned
	closeCall int64
	closeRet  int64
	logAtRet  int
	crashed   bool
}

type c07DS struct {
	d       *simds.DS
	seen    int
	content map[string][]byte // shadow content, replayed from the log
	snap    map[string][]byte // what the latest sweep Query saw
	snapAt  time.Duration
	hasSnap bool
	dead    bool
	closing bool // the manager on top has had Close invoked (read by ParkOp)
}

type c07Op struct {
	n      int
	client int
	kind   string // add get close (handler scenario also: badadd = ADD_PROVIDER that must be refused)
	key    int
	peer   int
	tag    string

	// handler scenario: the operation arrives as an RPC on a scripted stream
	remote     bool
	sender     int    // index of the sending peer
	flavor     string // valid wrong-peer no-addr
	identified bool   // the sender's addresses are put into the host's peerstore when it connects
	mayFail    bool   // an error outcome is not judged (refusal is expressed by a stream reset)

	mgr        *c07Mgr
	started    bool
	fin        bool // set by the client goroutine
	done       bool // observed by the simulator
	crashed    bool // in flight at a crash: never returns
	afterClose bool // called after Close of its manager had returned
	t          time.Duration
	call, ret  int64
	err        error
	res        []peer.AddrInfo
	got        []int
	hop        *Op

	// caller cancellation (store scenario): the call runs under a context the
	// scheduler may cancel while it is in flight
	cancellable bool
	cancel      context.CancelFunc
	cancelled   bool

	// from the datastore log
	puts    int
	queries int
	faulted bool
}

// c07IterDS hands the results of a scan over one entry per scheduler step for
// the calls that ask for it through their context (the cancellable ones): each
// NextSync parks (kind "ds", operation "next") before it delivers. The scan is
// the snapshot the underlying simds query took; delivery never fails.
type c07IterDS struct {
	*simds.DS
	s *sim.Sim
	// abortOnCancel (opt-in, see c07CtxIter): the iterator honours the caller's
	// context the way a database/sql-backed datastore does: once the context is
	// done the scheduler may let a NextSync observe it, which then yields one
	// Result carrying the context's error and ends the scan.
	abortOnCancel bool
}

type c07IterKey struct{}

func (w *c07IterDS) Query(ctx context.Context, q dsq.Query) (dsq.Results, error) {
	res, err := w.DS.Query(ctx, q)
	if err != nil || ctx == nil || ctx.Value(c07IterKey{}) == nil {
		return res, err
	}
	it := &c07IterResults{Results: res, w: w, prefix: q.Prefix, label: w.DS.Name + ":next" + sim.TagOf(ctx)}
	if w.abortOnCancel {
		it.ctx = ctx
	}
	return it, nil
}

type c07IterResults struct {
	dsq.Results
	w       *c07IterDS
	prefix  string
	label   string
	ctx     context.Context // non-nil: a parked NextSync may observe the cancellation
	aborted bool
}

func (r *c07IterResults) NextSync() (dsq.Result, bool) {
	d := r.w.DS
	if r.aborted {
		return dsq.Result{}, false
	}
	if d.ParkOp != nil && d.ParkOp("next", r.prefix) {
		r.w.s.Count("probe_scan_entry_step")
		if _, cerr := r.w.s.Park("ds", r.label, r.ctx, &simds.Op{DS: d, Op: "next", Key: r.prefix}); cerr != nil {
			r.w.s.Count("fault_scan_aborted_by_cancel")
			r.aborted = true
			return dsq.Result{Error: cerr}, true
		}
	}
	return r.Results.NextSync()
}

type c07Event struct { // documented sweep race, from the log
	key, peer int
	stamp     int64
}

type c07KP struct{ k, p int }

// c07OnlyLin (debugging aid for sensitivity experiments only): silence the
// direct per-operation rules so that a breaking change has to be caught by the
// linearizability layer alone.
var c07OnlyLin = os.Getenv("VERIF_C07_ONLY_LIN") != ""

// c07CtxIter: additionally draw, per run, a datastore whose scan iterator
// honours the caller's context (see c07IterDS.abortOnCancel: once the context
// is done one Result{Error: ctx.Err()} is delivered and the scan ends, as
// SQL-backed datastores do). Under it the snapshot tree cached the truncated
// set of a cancelled query (findings/C07-aborted-scan-caches-truncated-set.json;
// repaired in /repo: a set built from a scan that reported an error is served
// but not cached). VERIF_C07_CTX_ITER=0 switches it off.
var c07CtxIter = os.Getenv("VERIF_C07_CTX_ITER") != "0"

func c07ParseTime(b []byte) (time.Time, bool) {
	nsec, n := binary.Varint(b)
	if n <= 0 {
		return time.Time{}, false
	}
	return time.Unix(0, nsec), true
}

type c07Oracle struct {
	s        *sim.Sim
	V        time.Duration
	nKeys    int
	nClients int
	keys     [][]byte
	u        *simnet.Universe
	peerIdx  map[peer.ID]int
	entryOf  map[string]c07KP
	ops      []*c07Op
	byTag    map[string]*c07Op
	events   []c07Event
}

func newC07Oracle(s *sim.Sim, V time.Duration, nKeys, nClients int) *c07Oracle {
	or := &c07Oracle{s: s, V: V, nKeys: nKeys, nClients: nClients, u: simnet.NewUniverse(7, c07MaxPeers),
		peerIdx: map[peer.ID]int{}, entryOf: map[string]c07KP{}, byTag: map[string]*c07Op{}}
	for i, p := range or.u.Peers {
		or.peerIdx[p.ID] = i
	}
	or.keys = make([][]byte, nKeys)
	for i := range or.keys {
		or.keys[i] = []byte(fmt.Sprintf("key-%d", i))
	}
	for k := 0; k < nKeys; k++ {
		for p := 0; p < c07MaxPeers; p++ {
			or.entryOf[or.dsKeyOf(k, p)] = c07KP{k, p}
		}
	}
	return or
}

// dsKeyOf: datastore key of (k,p) as described by the property ("provider
// datastore": /providers/<base32 key>/<base32 peer>).
func (or *c07Oracle) dsKeyOf(k, p int) string {
	return records.ProvidersKeyPrefix + base32.RawStdEncoding.EncodeToString(or.keys[k]) + "/" + base32.RawStdEncoding.EncodeToString([]byte(or.u.Peers[p].ID))
}

// stamp: unique, ordered instants for the history. Within one scheduler step
// at most one operation is called (phase 1), one datastore operation applies
// (3..4) and the operations it unblocks return (6).
func (or *c07Oracle) stamp(phase int64) int64 { return int64(or.s.Steps)*8 + phase }

func (or *c07Oracle) newOp(client int, kind string, key, p int) *c07Op {
	o := &c07Op{n: len(or.ops), client: client, kind: kind, key: key, peer: p, tag: fmt.Sprintf("o%03d", len(or.ops))}
	or.ops = append(or.ops, o)
	or.byTag[o.tag] = o
	return o
}

func (or *c07Oracle) newDS(d *simds.DS) *c07DS {
	e := &c07DS{d: d, content: d.Snapshot()}
	d.OnApply = nil
	d.ParkOp = func(op, key string) bool {
		// Close racing a buffered sweep tick resolves through a two-ready
		// select in gcLoop (HARNESS pitfall 3): once Close was invoked a
		// further sweep Query is let through without parking so that the
		// racy outcome stays out of the trace and out of every decision.
		if e.closing && op == "query" && key == records.ProvidersKeyPrefix {
			return false
		}
		return true
	}
	return e
}

// processLog evaluates the rules on the datastore log for the records not
// seen yet and attributes datastore operations to client operations.
func (or *c07Oracle) processLog(e *c07DS) {
	s := or.s
	if e.dead {
		return
	}
	log := e.d.Log()
	for ; e.seen < len(log); e.seen++ {
		r := log[e.seen]
		var o *c07Op
		if r.Tag != "" {
			o = or.byTag[strings.TrimPrefix(r.Tag, "@")]
		}
		if errors.Is(r.Err, simds.ErrInjected) && o != nil {
			o.faulted = true
		}
		switch r.Op {
		case "query":
			if r.Err != nil {
				continue
			}
			if o != nil {
				o.queries++
			} else if r.Key == records.ProvidersKeyPrefix {
				e.snap = make(map[string][]byte, len(e.content))
				for k, v := range e.content {
					e.snap[k] = v
				}
				e.snapAt, e.hasSnap = r.At, true
			}
		case "put":
			if r.Err != nil {
				continue
			}
			e.content[r.Key] = r.Val
			if o == nil {
				// handler scenario: the RPC handler's context cannot be tagged; the
				// write belongs to the remote add of that entry that is in flight
				for _, c := range or.ops {
					if c.remote && c.kind == "add" && c.started && !c.done && or.dsKeyOf(c.key, c.peer) == r.Key {
						o = c
						break
					}
				}
			}
			if o != nil {
				o.puts++
			}
		case "delete":
			if r.Err != nil {
				continue
			}
			delete(e.content, r.Key)
			if !r.Found {
				continue
			}
			ent, known := or.entryOf[r.Key]
			if !known {
				s.Violate("foreign-delete", "provider store deleted datastore key %s which is not one of its entries", r.Key)
				continue
			}
			pt, ok := c07ParseTime(r.Prev)
			if !ok {
				s.Count("probe_malformed_entry_dropped")
				continue // malformed: may go
			}
			age := s.Start.Add(r.At).Sub(pt)
			if age >= or.V {
				if o == nil {
					s.Count("probe_sweep_delete")
				} else {
					s.Count("probe_lazy_delete")
				}
				continue // expired (the instant age == V is unconstrained)
			}
			// still valid content was deleted: only the documented race excuses it.
			// (Untagged deletes are the sweep's; in the handler scenario they may
			// also be a remote query's lazy delete, which then gets the benefit of
			// the doubt.)
			raced := false
			if o == nil && e.hasSnap {
				if sv, had := e.snap[r.Key]; had {
					st, sok := c07ParseTime(sv)
					if !sok || (s.Start.Add(e.snapAt).Sub(st) >= or.V && pt.After(st)) {
						raced = true
					}
				}
			}
			if !raced {
				who := "the sweep"
				if o != nil {
					who = "operation " + o.tag
				}
				s.Violate("deleted-unexpired", "%s deleted the entry (key %d, peer %d) at age %v, validity %v, and it was not a re-add racing the sweep", who, ent.k, ent.p, age, or.V)
				continue
			}
			s.Count("probe_readd_raced_sweep")
			or.events = append(or.events, c07Event{key: ent.k, peer: ent.p, stamp: int64(r.Step)*8 + 3})
		}
	}
}

// addAttempts: adds of (k,p), whatever their outcome, called before stamp.
func (or *c07Oracle) addAttempts(k, p int, before int64) (out []*c07Op) {
	for _, a := range or.ops {
		if a.kind == "add" && a.started && a.key == k && a.peer == p && a.call < before {
			out = append(out, a)
		}
	}
	return
}

func c07ClosedErr(o *c07Op) bool { return errors.Is(o.err, records.ErrClosed) }

// direct reports a violation of one of the definite per-operation rules that
// the linearizability layer would also find (later, and less legibly).
func (or *c07Oracle) direct(rule, format string, a ...any) {
	if !c07OnlyLin {
		or.s.Violate(rule, format, a...)
	}
}

// setResult maps a query result to peer indices; false if it is malformed.
func (or *c07Oracle) setResult(o *c07Op, ids []peer.ID) bool {
	seen := map[int]bool{}
	o.got = []int{}
	for _, id := range ids {
		pi, ok := or.peerIdx[id]
		if !ok {
			or.s.Violate("never-added", "query %s (key %d) returned an unknown peer", o.tag, o.key)
			return false
		}
		if seen[pi] {
			or.s.Violate("duplicate", "query %s (key %d) returned peer %d twice", o.tag, o.key, pi)
			return false
		}
		seen[pi] = true
		o.got = append(o.got, pi)
	}
	sort.Ints(o.got)
	return true
}

// judge applies the direct rules to an operation that has just returned.
func (or *c07Oracle) judge(o *c07Op) {
	s, V, m := or.s, or.V, o.mgr
	if o.hop != nil && o.hop.Panic != "" {
		s.Violate("panic", "%s %s panicked: %s", o.kind, o.tag, firstLine(o.hop.Panic))
		return
	}
	if o.kind == "close" {
		if o.err != nil {
			s.Violate("close-error", "Close returned %v", o.err)
		}
		return
	}
	if o.kind == "badadd" {
		return // never an addition; a query that returns its peer is judged there
	}
	// closed fence
	if o.afterClose {
		if !c07ClosedErr(o) {
			s.Violate("not-closed-after-close", "%s %s called after Close had returned did not report closed (err=%v, %d results)", o.kind, o.tag, o.err, len(o.res))
		} else {
			s.Count("probe_closed_call")
		}
		return
	}
	if c07ClosedErr(o) {
		if m.state == 0 || m.closeCall > o.ret {
			s.Violate("spurious-closed", "%s %s reported closed although Close had not been called", o.kind, o.tag)
		}
		return
	}
	if o.cancelled {
		if o.err != nil {
			s.Count("probe_cancelled_call_failed")
		} else {
			s.Count("probe_cancelled_call_completed")
		}
	}
	if o.err != nil {
		abandoned := o.cancelled && errors.Is(o.err, context.Canceled)
		if !o.faulted && !o.mayFail && !abandoned {
			s.Violate(o.kind+"-error", "%s %s failed without an injected fault: %v", o.kind, o.tag, o.err)
		}
		if o.kind == "add" {
			s.Count("probe_failed_add")
		}
		return
	}
	switch o.kind {
	case "add":
		if o.puts == 0 {
			or.direct("ack-without-write", "add %s (key %d, peer %d) was acknowledged but no datastore write of it succeeded: a restart right now loses it", o.tag, o.key, o.peer)
		}
	case "get":
		if o.got == nil {
			ids := make([]peer.ID, len(o.res))
			for i, ai := range o.res {
				ids[i] = ai.ID
			}
			if !or.setResult(o, ids) {
				return
			}
		}
		seen := map[int]bool{}
		for _, p := range o.got {
			seen[p] = true
		}
		if o.queries > 0 && len(o.got) > 0 {
			s.Count("probe_miss_load")
		}
		for _, c := range or.ops {
			if c.kind == "get" && c.cancelled && c.done && c.key == o.key && c.mgr == o.mgr && c.ret < o.call {
				s.Count("probe_query_after_cancelled_query")
				break
			}
		}
		for p := 0; p < c07MaxPeers; p++ {
			att := or.addAttempts(o.key, p, o.ret)
			if seen[p] {
				if len(att) == 0 {
					or.direct("never-added", "query %s (key %d) returned peer %d which was never added for that key", o.tag, o.key, p)
					return
				}
				allExpired := true
				var lastAck *c07Op
				for _, a := range att {
					if o.t-a.t <= V {
						allExpired = false
					}
					if a.done && a.err == nil && (lastAck == nil || a.ret > lastAck.ret) {
						lastAck = a
					}
				}
				if allExpired {
					or.direct("served-expired", "query %s (key %d) at %v returned peer %d whose most recent addition is older than the validity %v", o.tag, o.key, o.t, p, V)
					return
				}
				if lastAck != nil && lastAck.mgr.gen < m.gen {
					s.Count("probe_restart_survivor")
				}
				continue
			}
			// omitted: definite loss iff some acknowledged add that returned before
			// this query was called is still younger than V and no documented
			// race happened since that add was called (later adds only refresh)
			for _, a := range att {
				if !(a.done && a.err == nil && a.ret < o.call) {
					continue
				}
				age := o.t - a.t
				if age == V {
					s.Count("probe_boundary_age")
				}
				if age > V {
					s.Count("probe_expired_on_read")
				}
				if age >= V || o.faulted {
					continue
				}
				excused := false
				for _, ev := range or.events {
					if ev.key == o.key && ev.peer == p && ev.stamp > a.call {
						excused = true
					}
				}
				if !excused {
					or.direct("lost-provider", "query %s (key %d) at %v (manager #%d) omitted peer %d although add %s at %v (manager #%d) was acknowledged %v ago, validity %v", o.tag, o.key, o.t, m.gen, p, a.tag, a.t, a.mgr.gen, age, V)
					return
				}
			}
		}
	}
}

func (or *c07Oracle) describe(o *c07Op) string {
	r := ""
	if o.remote {
		r = "rpc-"
	}
	switch {
	case o.kind == "add" || o.kind == "badadd":
		return fmt.Sprintf("ret %s %s%s k%d p%d err=%v", o.tag, r, o.kind, o.key, o.peer, o.err)
	case o.kind == "get" && o.err == nil:
		return fmt.Sprintf("ret %s %sget k%d -> %v", o.tag, r, o.key, o.got)
	case o.kind == "get":
		return fmt.Sprintf("ret %s %sget k%d err=%v", o.tag, r, o.key, o.err)
	}
	return fmt.Sprintf("ret %s close err=%v", o.tag, o.err)
}

// fence: nothing reaches the datastore once Close of m has returned.
func (or *c07Oracle) fence(m *c07Mgr) {
	s := or.s
	if m.state != 2 || m.crashed {
		return
	}
	if n := m.ds.d.LogLen(); n != m.logAtRet {
		r := m.ds.d.Log()[m.logAtRet]
		s.Violate("touch-after-close", "datastore operation %s %s was performed after Close had returned", r.Op, r.Key)
		m.logAtRet = n
	}
	for _, p := range s.ParkedKind("ds") {
		if op := p.Data.(*simds.Op); op.DS == m.ds.d {
			s.Violate("touch-after-close", "datastore operation %s %s arrived after Close had returned", op.Op, op.Key)
		}
	}
}

// linearize checks, per key, the whole history against the sequential model.
// It runs after the simulated part of the run; it is pure computation and its
// only effect on the run is an Illegal verdict.
func (or *c07Oracle) linearize(endStamp int64) {
	s := or.s
	// always present in the statistics, also when zero (unknown is expected to
	// stay zero: it is the inconclusive outcome, not something to reach)
	s.CountN("probe_lin_unknown", 0)
	s.CountN("probe_lin_illegal", 0)
	for k := 0; k < or.nKeys; k++ {
		var h []porcupine.Operation
		var text []string
		for _, o := range or.ops {
			if !o.started || o.key != k || o.kind == "close" || o.kind == "badadd" {
				continue
			}
			ret := o.ret
			if !o.done && !o.crashed {
				ret = endStamp
			}
			switch {
			case o.kind == "add" && o.done && o.err == nil:
				h = append(h, porcupine.Operation{ClientId: o.client, Input: c07In{kind: c07Add, peer: o.peer, t: int64(o.t)}, Call: o.call, Return: ret})
				text = append(text, fmt.Sprintf("[%06d,%06d] add p%d @%v", o.call, ret, o.peer, o.t))
			case o.kind == "add" && o.done && o.afterClose && c07ClosedErr(o):
				// refused behind the fence, and the log shows no access: no effect
			case o.kind == "add":
				h = append(h, porcupine.Operation{ClientId: o.client, Input: c07In{kind: c07AddMaybe, peer: o.peer, t: int64(o.t)}, Call: o.call, Return: ret})
				text = append(text, fmt.Sprintf("[%06d,%06d] add? p%d @%v", o.call, ret, o.peer, o.t))
			case o.kind == "get" && o.done && o.err == nil && o.got != nil:
				kind := c07Get
				if o.faulted {
					kind = c07GetSubset
				}
				h = append(h, porcupine.Operation{ClientId: o.client, Input: c07In{kind: kind, t: int64(o.t)}, Output: c07Out{peers: o.got}, Call: o.call, Return: ret})
				text = append(text, fmt.Sprintf("[%06d,%06d] get%s @%v -> %v", o.call, ret, map[bool]string{true: "(faulted)"}[o.faulted], o.t, o.got))
			}
		}
		for _, ev := range or.events {
			if ev.key == k {
				h = append(h, porcupine.Operation{ClientId: or.nClients, Input: c07In{kind: c07Raced, peer: ev.peer}, Call: ev.stamp, Return: ev.stamp + 1})
				text = append(text, fmt.Sprintf("[%06d,%06d] sweep-race p%d", ev.stamp, ev.stamp+1, ev.peer))
			}
		}
		if len(h) == 0 {
			continue
		}
		steps := 0
		const maxModelSteps = 400000
		res := porcupine.CheckOperationsTimeout(c07Model(int64(or.V), &steps, maxModelSteps), h, 10*time.Second)
		s.Count("probe_lin_checked")
		s.CountN("probe_lin_ops", len(h))
		switch {
		case steps > maxModelSteps || res == porcupine.Unknown:
			s.Count("probe_lin_unknown") // inconclusive: counted, never reported
		case res == porcupine.Illegal:
			s.Count("probe_lin_illegal")
			sort.Strings(text)
			if len(text) > 24 {
				text = text[:24]
			}
			s.Violate("not-linearizable", "history of key %d (validity %v) has no linearization against the expiring-set model: %s", k, or.V, strings.Join(text, "; "))
		}
	}
}

// ---------------------------------------------------------------------------
// scenario 1: the provider manager on its own

func runC07(s *sim.Sim, dsErrors bool) {
	s.MaxSteps = 900
	s.LockSched = true
	if s.Chance("yield-all", 1, 2) {
		s.YieldSites["*"] = true
	}
	V := []time.Duration{10 * time.Minute, 30 * time.Minute}[s.Draw("validity", 2)]
	I := []time.Duration{V / 4, 0, V + time.Minute, time.Minute}[s.Draw("sweep", 4)]
	cacheSize := s.Range("cache", 2, 3)
	nKeys := s.Range("keys", 2, 6)
	nPeers := s.Range("peers", 1, 4)
	nClients := s.Range("clients", 1, 4)
	nPhases := s.Range("phases", 1, 5)
	plantGarbage := s.Chance("plant-garbage", 1, 3)
	abortOnCancel := c07CtxIter && s.Chance("iterator-honours-ctx", 1, 2)
	s.Summary["cfg"] = fmt.Sprintf("V=%v sweep=%v cache=%d keys=%d peers=%d clients=%d phases=%d yieldAll=%v garbage=%v dsErrors=%v",
		V, I, cacheSize, nKeys, nPeers, nClients, nPhases, s.YieldSites["*"], plantGarbage, dsErrors)

	or := newC07Oracle(s, V, nKeys, nClients)
	u, keys := or.u, or.keys
	self := u.Peers[0].ID // adds of peer 0 take the "own address" path

	var pstore peerstore.Peerstore
	pstore, err := pstoremem.NewPeerstore()
	if err != nil {
		panic(err)
	}

	var allDS []*c07DS
	newDS := func(d *simds.DS) *c07DS {
		e := or.newDS(d)
		allDS = append(allDS, e)
		return e
	}
	d0 := simds.New(s, "ds0")
	d0.Poke("/other/thing", []byte("foreign"))
	if plantGarbage {
		// a malformed entry for a peer that is never added: must never be served
		d0.Poke(or.dsKeyOf(0, c07MaxPeers-1), []byte{})
	}

	var allMgr []*c07Mgr
	var cur *c07Mgr
	newMgr := func(e *c07DS) *c07Mgr {
		cache, cerr := lru.NewLRU(cacheSize, func(k, v interface{}) { s.Count("probe_cache_eviction") })
		if cerr != nil {
			panic(cerr)
		}
		pm, perr := records.NewProviderManager(self, pstore, &c07IterDS{DS: e.d, s: s, abortOnCancel: abortOnCancel},
			records.Cache(cache), records.ProvideValidity(V), records.CleanupInterval(I), records.ProviderAddrTTL(time.Hour))
		if perr != nil {
			panic(perr)
		}
		records.VerifSetShuffle(pm, func(int, func(i, j int)) {})
		e.closing = false
		m := &c07Mgr{gen: len(allMgr), pm: pm, ds: e}
		allMgr = append(allMgr, m)
		s.Quiesce()
		return m
	}
	cur = newMgr(newDS(d0))

	zombie := map[string]bool{}
	var clients opSet
	restarts := 0

	start := func(o *c07Op) {
		m := cur
		o.mgr, o.started, o.t, o.call = m, true, s.Now(), or.stamp(1)
		o.afterClose = m.state == 2
		if o.kind == "close" {
			if m.state == 0 {
				m.state = 1
				m.closeCall = o.call
				m.ds.closing = true
			}
		}
		ctx := sim.WithTag(context.Background(), o.tag)
		if o.cancellable {
			ctx, o.cancel = context.WithCancel(context.WithValue(ctx, c07IterKey{}, true))
		}
		o.hop = clients.Go(s, o.tag, func() (any, error) {
			switch o.kind {
			case "add":
				o.err = m.pm.AddProvider(ctx, keys[o.key], u.Peers[o.peer].AddrInfo())
			case "get":
				o.res, o.err = m.pm.GetProviders(ctx, keys[o.key])
			case "close":
				o.err = m.pm.Close()
			}
			o.fin = true
			return nil, nil
		})
	}

	observe := func() {
		or.processLog(cur.ds)
		for _, o := range or.ops {
			if !o.started || o.done || o.crashed || !(o.fin || (o.hop != nil && o.hop.Done)) {
				continue
			}
			o.done, o.ret = true, or.stamp(6)
			or.judge(o)
			s.Tracef("%s", or.describe(o))
			if o.kind == "close" && o.mgr.state == 1 {
				o.mgr.state, o.mgr.closeRet, o.mgr.logAtRet = 2, o.ret, o.mgr.ds.d.LogLen()
			}
		}
		or.fence(cur)
	}

	inflight := func() (n int) {
		for _, o := range or.ops {
			if o.started && !o.done && !o.crashed {
				n++
			}
		}
		return
	}

	crash := func() {
		restarts++
		n := inflight()
		s.Tracef("crash gen=%d inflight=%d", cur.gen, n)
		s.Count("probe_crash_restart")
		if n > 0 {
			s.Count("probe_inflight_at_crash")
		}
		for _, o := range or.ops {
			if o.started && !o.done && !o.crashed {
				o.crashed, o.ret = true, or.stamp(6)
			}
		}
		for _, p := range s.Parked() {
			if p.Kind == "lock" || p.Kind == "yield" {
				zombie[p.ID] = true
			}
		}
		or.processLog(cur.ds)
		cur.crashed, cur.ds.dead = true, true
		// durable-on-acknowledge: everything applied so far survives; whatever is
		// parked never happens (the abandoned instance keeps the old datastore)
		nd := cur.ds.d.Fork(-1, fmt.Sprintf("ds%d", len(allDS)))
		cur = newMgr(newDS(nd))
	}

	reopen := func() {
		restarts++
		s.Tracef("reopen after close gen=%d", cur.gen)
		s.Count("probe_clean_restart")
		or.processLog(cur.ds)
		cur = newMgr(cur.ds)
	}

	advance := func() {
		menu := []time.Duration{time.Second, V - time.Second, V, V + time.Second, 2*V + time.Second, V / 4, time.Minute}
		if I > 0 {
			menu = append(menu, I, I+time.Second)
		}
		dt := menu[s.Draw("dt", len(menu))]
		s.Count("time_advance")
		s.Tracef("advance %v", dt)
		s.Sleep(dt)
	}

	// drive runs the scheduler until every operation of the list has returned
	// (or was lost in a crash).
	drive := func(list []*c07Op, allowCrash bool) {
		for {
			pending := false
			for _, o := range list {
				pending = pending || !(o.done || o.crashed)
			}
			if !pending || !s.Step() {
				return
			}
			var acts []sim.Action
			for _, p := range s.ParkedKind("ds") {
				p := p
				if p.Data.(*simds.Op).DS != cur.ds.d {
					continue // abandoned by a crash
				}
				acts = append(acts, sim.Action{ID: p.ID, Do: func() {
					// (the hand-over of one scanned entry is not an operation that can fail)
					if dsErrors && p.Data.(*simds.Op).Op != "next" && s.Chance("ds-error", 1, 6) {
						s.Release(p, simds.ErrInjected)
					} else {
						s.Release(p, nil)
					}
				}})
				if p.Cancelled() {
					acts = append(acts, sim.Action{ID: "cancel>" + p.ID, Do: func() {
						s.Count("fault_cancel_observed_by_ds")
						if p.Data.(*simds.Op).Op == "next" {
							// the scan of this call ends in a read error: like any call one of
							// whose own datastore operations failed it may omit anything
							if i, j := strings.LastIndex(p.ID, "@"), strings.LastIndex(p.ID, "#"); i >= 0 && j > i {
								if o := or.byTag[p.ID[i+1:j]]; o != nil {
									o.faulted = true
								}
							}
						}
						s.ReleaseCancelled(p)
					}})
				}
			}
			// caller cancellation: any quiescent point while the call is in flight
			for _, o := range or.ops {
				if !(o.cancellable && o.started && !o.done && !o.crashed && !o.cancelled && !(o.fin || (o.hop != nil && o.hop.Done))) {
					continue
				}
				o := o
				acts = append(acts, sim.Action{ID: "ctx-cancel:" + o.tag, Do: func() {
					s.Count("fault_ctx_cancel")
					// reached "the middle of a load": at least one entry of this call's
					// scan was handed over and the call waits for a further NextSync
					for _, p := range s.ParkedKind("ds") {
						if op := p.Data.(*simds.Op); op.Op == "next" && strings.Contains(p.ID, ":next@"+o.tag+"#") && !strings.HasSuffix(p.ID, "#0") {
							s.Count("probe_cancel_mid_scan")
						}
					}
					o.cancelled = true
					o.cancel()
				}})
			}
			for _, a := range s.LockActions() {
				if !zombie[a.ID] {
					acts = append(acts, a)
				}
			}
			busy := map[int]bool{}
			for _, o := range or.ops {
				if o.started && !o.done && !o.crashed {
					busy[o.client] = true
				}
			}
			for _, o := range list {
				if o.started {
					continue
				}
				if !busy[o.client] {
					o := o
					acts = append(acts, sim.Action{ID: fmt.Sprintf("start:c%d:%s:%s", o.client, o.tag, o.kind), Do: func() { start(o) }})
				}
				busy[o.client] = true // clients are sequential
			}
			if allowCrash && restarts < 4 && inflight() > 0 && s.Chance("crash", 1, 60) {
				crash()
				observe()
				continue
			}
			if len(acts) == 0 {
				s.Violate("store-wedged", "provider store operations did not finish although nothing is parked")
				return
			}
			s.Choose("next", acts)
			observe()
			if s.Failed() {
				return
			}
		}
	}

	solo := func(kind string, key, p int) *c07Op {
		o := or.newOp(0, kind, key, p)
		drive([]*c07Op{o}, false)
		return o
	}

	// ---- phases and barriers ----
	for ph := 0; ph < nPhases && !s.Failed() && s.Steps <= s.MaxSteps; ph++ {
		n := s.Range("ops", 1, 12)
		var list []*c07Op
		closeAt := -1
		if s.Chance("close-in-phase", 1, 10) {
			closeAt = s.Draw("close-at", n)
		}
		for i := 0; i < n; i++ {
			if i == closeAt {
				list = append(list, or.newOp(i%nClients, "close", 0, 0))
				continue
			}
			kind := "add"
			if s.Draw("kind", 4) >= 2 {
				kind = "get"
			}
			o := or.newOp(i%nClients, kind, s.Draw("key", nKeys), s.Draw("peer", nPeers))
			o.cancellable = s.Chance("cancellable", 1, 4)
			list = append(list, o)
		}
		s.Tracef("phase %d ops=%d", ph, n)
		if closeAt >= 0 && nClients > 1 {
			s.Count("probe_close_concurrent")
		}
		drive(list, true)
		if s.Failed() || s.Steps > s.MaxSteps {
			break
		}
		fresh := 0
		for _, e := range c07SortedKeys(cur.ds.content) {
			if pt, ok := c07ParseTime(cur.ds.content[e]); ok && time.Since(pt) < V {
				fresh++
			}
		}
		s.State("mgr=%d fresh=%d sweepParked=%v", cur.state, fresh, len(s.ParkedKind("ds")) > 0)

		// barrier (no client operation in flight)
		b := s.Draw("barrier", 8)
		switch {
		case b == 5 && restarts < 4:
			crash()
		case b == 4 && restarts < 4:
			if cur.state == 0 {
				solo("close", 0, 0)
			}
			if !s.Failed() && cur.state == 2 {
				reopen()
			}
		case b == 7 && cur.state == 0:
			solo("close", 0, 0) // stays closed: the next phase must see the fence
		case b == 1 || b == 2 || b == 3 || b == 6:
			advance()
		default:
			if cur.state == 2 && restarts < 4 {
				reopen()
			}
		}
		observe()
	}

	// ---- epilogue: Close, the fence, no sweep afterwards ----
	if !s.Failed() && s.Steps <= s.MaxSteps {
		if cur.state == 0 {
			solo("close", 0, 0)
		}
		if !s.Failed() && cur.state == 2 {
			drive([]*c07Op{or.newOp(0, "add", 0, 0), or.newOp(1%nClients, "get", 0, 0)}, false)
			s.Tracef("advance after close")
			s.Sleep(2*V + time.Second)
			observe()
		}
	}
	if s.Steps > s.MaxSteps {
		s.Count("step_budget_exhausted")
	}

	nGetNonEmpty, nAddOK := 0, 0
	for _, o := range or.ops {
		if o.done && o.err == nil && o.kind == "get" && len(o.got) > 0 {
			nGetNonEmpty++
		}
		if o.done && o.err == nil && o.kind == "add" {
			nAddOK++
		}
	}
	s.Tracef("done adds_ok=%d gets_nonempty=%d events=%d", nAddOK, nGetNonEmpty, len(or.events))
	s.NonTrivial = nGetNonEmpty >= 1 && (s.Stats["probe_cache_eviction"] > 0 || restarts > 0 || s.Stats["probe_sweep_delete"] > 0 || s.Stats["probe_lazy_delete"] > 0)

	// ---- shut down: release everything that was abandoned ----
	endStamp := or.stamp(7)
	failedInSim := s.Failed()
	for _, e := range allDS {
		e.d.ParkOp = nil
	}
	s.LockSched = false
	closeAndCensus(s, func() {
		for _, m := range allMgr {
			_ = m.pm.Close()
		}
		_ = pstore.Close()
	})

	// ---- linearizability, per key, after the simulated part ----
	if !failedInSim && !s.Failed() {
		or.linearize(endStamp)
	}
	s.Finish()
}

func c07SortedKeys(m map[string][]byte) []string {
	out := make([]string, 0, len(m))
	for k := range m {
		out = append(out, k)
	}
	sort.Strings(out)
	return out
}
