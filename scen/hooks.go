package scen

import (
	"github.com/libp2p/go-libp2p-kad-dht/verifhook"

	"verif/sim"
)

func init() {
	sim.OnRunStart = func(s *sim.Sim) {
		verifhook.LockHook = s.HookLock
		verifhook.UnlockHook = s.HookUnlock
	}
	sim.OnRunEnd = func(*sim.Sim) {
		verifhook.LockHook = nil
		verifhook.UnlockHook = nil
	}
}
