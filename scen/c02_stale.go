//go:build all || c02

package scen

// C02, generator extension "leftovers of earlier encounters" (used by all four
// C02 scenarios) and the ground-truth reading of "learned" in rule
// `terminate-early`.
//
// Property clauses encoded (no new rule id):
//
//   * "If every peer answers, knows every peer of each of its non-full
//     k-buckets ... and replies with the K nearest peers it knows, an
//     uncancelled closest-peers lookup returns the globally nearest peer
//     first, and returns exactly the K globally nearest peers when every peer
//     knows the whole network" -> `converge-nearest`, `converge-full`. The
//     premise describes the network as it is WHILE the lookup runs. It says
//     nothing about what the node remembers of a peer from before: a node that
//     has been running for a while has met some peers of the network earlier,
//     and its peerstore still holds what it noted then — the protocol list of
//     an identify exchange (the peer may have been a DHT client at the time,
//     or part of another DHT, and serves this DHT now), its agent string, a
//     latency sample. The peers answer now; the conclusion must hold whatever
//     those notes say.
//
//   * "A lookup that ends without being cancelled or stopped has received
//     answers from the beta nearest non-failed peers it LEARNED" ->
//     `terminate-early`. What the lookup learned is a fact of the exchange:
//     the peers named in the replies it received. The rule used to take the
//     lookup's own event stream for it; it now adds every peer named in the
//     delivered reply of a responder the lookup reports as queried (minus the
//     node itself and the peers the configured query filter rejects). On the
//     unchanged tree the two readings coincide: the lookup reports every named
//     peer that passes the filter as heard.
//
// What is generated (half of the runs; all derived from three tape draws):
// for a share (1/8, 1/4, 1/2 or all) of the peers of the network — seeds and
// peers the node will only hear of alike, near and far — the node's peerstore
// holds, before the lookup starts, a protocol list of one of three kinds
// (one kind for the whole run, or mixed per peer):
//     other   services only (identify, ping, an application protocol),
//     foreign the DHT protocol of another network, plus those,
//     current this network's DHT protocol, plus those (an up-to-date note),
// together with an agent string and, for half of them, a latency sample of
// several seconds. Nothing else changes: those peers answer like all others.
//
// Regressions this exposes: any place where the lookup decides from cached
// local knowledge about a peer (protocol list, agent, latency) whether to
// track it, ask it, rank it or return it, instead of contacting it.
//
// Soundness: the unchanged lookup path never reads the protocol list, the
// metadata or the latency of a peer (the protocol list is consulted only when
// an identification event or an inbound request proposes a peer for the
// routing table); writing the peerstore emits no event.
//
// Probes: fault_stale_protocols (a peer got a protocol list WITHOUT this
// network's DHT protocol), probe_stale_peer_named (such a peer, not in the
// routing table, was named in a delivered reply), probe_stale_peer_asked (it
// was sent the request), probe_stale_peer_returned (it is part of the result
// of an uncancelled lookup).

import (
	"fmt"
	"time"

	"github.com/libp2p/go-libp2p/core/peer"
	"github.com/libp2p/go-libp2p/core/protocol"

	"verif/sim"
	"verif/simnet"
)

var c02StaleFaults = []string{"fault_stale_protocols", "probe_stale_peer_named", "probe_stale_peer_asked", "probe_stale_peer_returned"}

const (
	staleOther = iota
	staleForeign
	staleCurrent
	staleMixed
)

type staleWorld struct {
	s     *sim.Sim
	seed  uint64
	share int // eighths of the peers the node has notes about
	kind  int
	done  map[peer.ID]bool
	// notServing: peers whose noted protocol list lacks this network's DHT protocol
	notServing map[peer.ID]bool
}

// drawStaleWorld returns nil (a node without notes about anybody) in half of
// the runs.
func drawStaleWorld(s *sim.Sim) *staleWorld {
	if !s.Chance("stale", 1, 2) {
		return nil
	}
	w := &staleWorld{s: s, seed: uint64(s.Draw("stale-seed", 1<<20)), done: map[peer.ID]bool{}, notServing: map[peer.ID]bool{}}
	w.share = []int{1, 2, 4, 8}[s.Draw("stale-share", 4)]
	w.kind = s.Draw("stale-kind", 4)
	return w
}

func (w *staleWorld) String() string {
	if w == nil {
		return "off"
	}
	return fmt.Sprintf("share=%d/8,kind=%s", w.share, [...]string{"other", "foreign", "current", "mixed"}[w.kind])
}

var (
	staleServices = []protocol.ID{"/ipfs/id/1.0.0", "/ipfs/ping/1.0.0", "/other/1.0.0"}
	staleForeignP = protocol.ID("/othernet/kad/1.0.0")
	staleCurrentP = protocol.ID("/sim/kad/1.0.0") // newH1: ProtocolPrefix("/sim")
)

// note writes, once per peer, what the node remembers of p (if anything).
// Simulator goroutine only, system under test quiescent.
func (w *staleWorld) note(h *H1, p *simnet.Peer) {
	if w == nil || w.done[p.ID] {
		return
	}
	w.done[p.ID] = true
	z := bareMix(w.seed ^ kad64(p.Kad))
	if int(z%8) >= w.share {
		return
	}
	kind := w.kind
	if kind == staleMixed {
		kind = int((z >> 8) % 3)
	}
	protos := append([]protocol.ID(nil), staleServices...)
	switch kind {
	case staleForeign:
		protos = append(protos, staleForeignP)
	case staleCurrent:
		protos = append(protos, staleCurrentP)
	}
	ps := h.Host.Peerstore()
	if err := ps.SetProtocols(p.ID, protos...); err != nil {
		panic(err)
	}
	_ = ps.Put(p.ID, "AgentVersion", "old-agent/0.1.0")
	_ = ps.Put(p.ID, "ProtocolVersion", "ipfs/0.1.0")
	if (z>>16)%2 == 0 {
		ps.RecordLatency(p.ID, time.Duration(2+(z>>20)%8)*time.Second)
	}
	if kind != staleCurrent {
		w.notServing[p.ID] = true
		w.s.Count("fault_stale_protocols")
	}
}

// prepare is the lookupCfg.Prepare hook: notes about every peer of the network.
func (w *staleWorld) prepare(h *H1) {
	for _, p := range h.U.Peers {
		w.note(h, p)
	}
}

func (w *staleWorld) install(c *lookupCfg) {
	if w == nil {
		return
	}
	c.Prepare = w.prepare
}

// staleProbes classifies what a run with leftovers reached.
func (w *staleWorld) probes(s *sim.Sim, o *lookupObs, res []peer.ID) {
	if w == nil {
		return
	}
	inTable := idSet(o.table)
	named := map[peer.ID]bool{}
	for _, d := range o.deliveries {
		if d.Kind != "reply" {
			continue
		}
		for _, p := range d.Peers {
			if w.notServing[p] && !inTable[p] {
				named[p] = true
			}
		}
	}
	if len(named) == 0 {
		return
	}
	s.Count("probe_stale_peer_named")
	for _, r := range o.h.Snd.Snapshot() {
		if named[r.To] && string(r.Req.GetKey()) == o.cfg.Key {
			s.Count("probe_stale_peer_asked")
			break
		}
	}
	if o.op.Err == nil && o.cancelStep == 0 {
		for _, p := range res {
			if named[p] {
				s.Count("probe_stale_peer_returned")
				break
			}
		}
	}
}
