//go:build all || c13

package scen

// C13 — client-mode nodes never serve; auto mode follows reachability.
//
// Harness H2 (byte level). The system under test is one real IpfsDHT on a
// simhost.Host. The scenario owns (a) the local-reachability events, emitted on
// the host's real event bus, and (b) 1-3 scripted remote peers that open
// inbound DHT streams and write honest FIND_NODE / PING frames on them. Bytes
// are delivered to the node by scheduler decisions (whole chunks or split), the
// node's response writes can be parked (ParkWrites), so a request can be in
// flight across a mode switch.
//
// How an inbound stream reaches the node (model of what a real libp2p host
// does): the stream is accepted on the connection (it is listed by
// Conn.GetStreams from then on), the protocol is negotiated against the host's
// *current* handler table (no handler => the negotiation is refused, which is
// the correct behaviour of a client), the protocol id is set on the stream and
// the handler found by the negotiation is invoked on a new goroutine. Those
// are separate instants in a real host; the scenario draws whether other steps
// may happen (1) between the handler look-up and SetProtocol or (2) between
// SetProtocol and the handler's first instruction. Window (1) is the one in
// which a demotion's sweep over the host's streams cannot yet recognise the
// stream as a DHT stream, so only the per-message mode check keeps a client
// from serving it.
//
// What the remote proposes (c13_nego.go): the remote does not pick the stream's
// protocol ID, it PROPOSES a list of IDs and the host answers from its handler
// table (simhost.Host.Negotiate, faithful to a real host's multistream muxer
// including handlers registered with a match function). The proposals are
// drawn: the node's exact ID alone (benign), or 1-3 IDs out of the exact one
// and look-alikes derived from it (other revisions of the trailing version,
// longer / shorter IDs, another network's, another spelling). The node's own ID
// is an input too: /sim/kad/1.0.0, with a protocol extension
// (/sim/lan/kad/1.0.0) or a legacy override without a version (/sim/legacy-dht).
// An "inbound DHT stream" is, for every rule below, a stream the host handed to
// the DHT's handler, whatever ID it was negotiated under; no rule looks at the
// ID. On the unchanged tree only the exact ID is ever accepted.
//
// Mode model (the oracle's, derived from the property text only): fixed modes
// are constant; auto modes start as client (ModeAuto) / server (ModeAutoServer)
// and afterwards follow the LAST reachability event: public => server,
// private => client, unknown => server only for auto-server.
//
// When is an event "delivered"? The subscriber goroutine of the DHT consumes
// the event bus asynchronously. Every scheduler step ends with s.Quiesce()
// (all goroutines durably blocked), and the subscriber has no park point
// between receiving the event and returning from setMode, so at the quiescent
// point that ends the emit step the event has been processed. The oracle is
// evaluated at quiescent points only. A step that emits an event which changes
// the model's mode is a "switch step"; lastSwitch is the number of the most
// recent one (0 = none).
//
// SOUNDNESS RULE for judging requests. Request k on a stream becomes readable
// by the node's handler at step t_k = max(step at which the last byte of its
// frame was delivered, step at which the handler goroutine was started). A
// request is judged only if t_k > lastSwitch, i.e. the complete frame and the
// handler turn that consumes it lie inside the current mode epoch, and only at
// quiescent points at which no response write of that stream is parked. A
// request with t_k <= lastSwitch whose outcome was not yet observed when the
// switch happened (response write parked across the switch, frame split across
// the switch) may go either way and is never judged; the only thing demanded
// of its stream is the demotion rule below.
//
// Rules (rule id -> clause of the property):
//   fixed-mode-changed           fixed modes never change (handler table is the observable)
//   auto-mode-wrong              auto modes: mode after any event sequence = f(last event)
//   stray-handler                in client mode the host has no DHT handler at all
//   open-at-demotion-not-reset   inbound DHT streams open at a switch to client are reset (every stream handed
//                                to the DHT handler whose protocol ID was set by then, under whatever ID)
//   client-served                a request readable within a client epoch gets no response
//   client-request-stream-open   ... and its stream is ended by the node (reset in the real code; not left open)
//   server-unanswered            a request readable within a server epoch is answered
//   server-reset-stream          a stream whose whole life lies in one server epoch is not reset by the node
//   response-malformed / response-mismatch / unsolicited-response
//                                exactly one well-formed response (same message type) per request
//
// The host's OTHER notifications (c13_pstore.go): between reachability events
// the scenario also emits, as steps of their own, what a real host puts on the
// same bus — identification completed / protocols updated for a peer (that
// speaks the DHT protocol or not, drawn), a peer disconnected, local addresses
// updated — each with a drawn transient peerstore fault (the n-th protocol-book
// read fails once). The property's clauses do not mention them, so all rules
// stay as they are: in particular auto-mode-wrong demands that the node still
// follows the next reachability event ("the mode after ANY sequence of
// reachability events is determined by the last event"). No rule is attached to
// what the node does with the peer (routing-table admission is C12's subject).
//
// Not judged: virtual time does not advance in the main phase, so the node's
// idle-stream time-out (a legitimate reason to reset a stream in server mode)
// never interferes.

import (
	"fmt"
	"strings"

	dht "github.com/libp2p/go-libp2p-kad-dht"
	pb "github.com/libp2p/go-libp2p-kad-dht/pb"
	"github.com/libp2p/go-libp2p/core/event"
	"github.com/libp2p/go-libp2p/core/network"
	"github.com/libp2p/go-libp2p/core/protocol"
	"github.com/libp2p/go-libp2p/p2p/host/eventbus"

	"verif/sim"
	"verif/simhost"
	"verif/simnet"
)

func init() {
	sim.Register(&sim.Scenario{Prop: "C13", Name: "mode-switch", Run: runC13,
		Real: []string{"IpfsDHT.New mode selection", "subscriber_notifee reachability handling (real event bus)", "setMode / moveToServerMode / moveToClientMode", "handleNewStream / handleNewMessage per-message mode check", "FIND_NODE and PING handlers", "msgio framing"},
		Stub: []string{"host.Host handler table, connections and stream lists (simhost)", "streams (simhost.Fabric byte pipes, scheduler-owned delivery)", "remote peers (scripted: honest FIND_NODE / PING frames)", "local reachability (events emitted by the scenario instead of AutoNAT)"},
		Faults: []string{"fault_split_chunk", "fault_park_writes", "fault_remote_eof", "fault_nego_window",
			"fault_alien_proposal", "probe_alien_refused_by_server", "probe_alien_refused_by_client", "probe_alien_then_exact_negotiated",
			"probe_proto_extension", "probe_proto_override",
			"probe_promotion", "probe_demotion", "probe_demotion_open_streams", "probe_same_mode_event",
			"probe_request_after_demotion_old_stream", "probe_request_unswept_stream_client", "probe_refused_negotiation_client",
			"probe_split_across_switch", "probe_inflight_across_switch", "probe_window_across_demotion",
			"probe_fixed_mode_event", "probe_pre_construction_event", "probe_answered", "probe_stream_reused_server",
			"fault_peerstore_error", "probe_peer_event_ident", "probe_peer_event_protocols", "probe_peer_event_disconnected", "probe_local_addrs_event",
			"probe_peer_event_speaks_dht", "probe_reach_event_after_other_event", "probe_switch_after_peerstore_error"},
	})
}

const c13Proto = protocol.ID("/sim/kad/1.0.0")

type c13Req struct {
	typ          pb.Message_MessageType
	end          int // offset of the frame's last byte + 1 in the remote's byte stream
	completeStep int // step at which the whole frame had been delivered (0: not yet)
}

type c13Stream struct {
	name      string
	proto     protocol.ID // the ID the stream was negotiated under
	peer      *simnet.Peer
	a, b      *simhost.Stream // a: scripted remote end, b: the node's (inbound) end
	handler   network.StreamHandler
	negoStep  int
	startStep int // 0: handler goroutine not started yet
	protoSet  bool
	window    int
	reqs      []*c13Req
	wrote     int
	eofSent   bool
	sendFail  bool
	sweptAt   int // switch step at which a demotion found the stream open (0: never)
	countedUn bool
}

// readableAt returns t_k (0 when request k is not yet readable).
func (st *c13Stream) readableAt(k int) int {
	if k >= len(st.reqs) || st.reqs[k].completeStep == 0 || st.startStep == 0 {
		return 0
	}
	if st.startStep > st.reqs[k].completeStep {
		return st.startStep
	}
	return st.reqs[k].completeStep
}

// c13Expected is the oracle's mode model: true = server.
func c13Expected(opt dht.ModeOpt, last *network.Reachability) bool {
	switch opt {
	case dht.ModeClient:
		return false
	case dht.ModeServer:
		return true
	}
	if last == nil {
		return opt == dht.ModeAutoServer
	}
	switch *last {
	case network.ReachabilityPublic:
		return true
	case network.ReachabilityPrivate:
		return false
	default:
		return opt == dht.ModeAutoServer
	}
}

func runC13(s *sim.Sim) {
	s.MaxSteps = 500
	opts := []dht.ModeOpt{dht.ModeAuto, dht.ModeAutoServer, dht.ModeServer, dht.ModeClient}
	optNames := []string{"auto", "auto-server", "server", "client"}
	// auto modes get half of the runs each third; fixed modes one sixth each
	oi := []int{0, 1, 0, 1, 2, 3}[s.Draw("mode-opt", 6)]
	opt := opts[oi]
	fixed := opt == dht.ModeServer || opt == dht.ModeClient
	nRemotes := s.Range("remotes", 1, 3)
	eventsLeft := s.Range("events", 0, 8)
	streamsLeft := s.Range("streams", 1, 6)
	reqsLeft := s.Range("requests", 1, 12)
	eofLeft := s.Draw("eofs", 3)
	preEvent := s.Chance("pre-event", 1, 4)
	othersLeft := s.Draw("other-events", 4) // the host's other notifications (0: none)
	// the node's own DHT protocol ID (public options; value 0/1: the plain one)
	exact := c13Proto
	protoOpts := []dht.Option{dht.ProtocolPrefix("/sim")}
	switch s.Draw("proto-cfg", 4) {
	case 2:
		exact = "/sim/lan/kad/1.0.0"
		protoOpts = append(protoOpts, dht.ProtocolExtension("/lan"))
		s.Count("probe_proto_extension")
	case 3:
		exact = "/sim/legacy-dht"
		protoOpts = append(protoOpts, dht.V1ProtocolOverride(exact))
		s.Count("probe_proto_override")
	}
	aliens := c13AlienIDs(exact)

	u := simnet.NewUniverse(uint64(s.Draw("universe", 1<<16)), nRemotes+2)
	h := simhost.New(s, u.Self.ID, u.Self.Addrs, u.Name)
	fab := simhost.NewFabric(s)
	fab.ParkWrites = s.Chance("park-writes", 1, 2)
	if fab.ParkWrites {
		s.Count("fault_park_writes")
	}
	remotes := u.Peers[:nRemotes]
	for _, q := range remotes {
		// who dialed the connection is independent of who opens streams on it:
		// a peer the node dialed itself can open inbound DHT streams too
		c := h.Net().SetConnected(q.ID, true)
		if s.Chance("conn-outbound", 1, 2) {
			c.SetDirection(network.DirOutbound)
			s.Count("probe_inbound_stream_on_dialed_conn")
		} else {
			c.SetDirection(network.DirInbound)
		}
	}

	// The emitter is stateful like AutoNAT's: a DHT constructed after an event
	// receives the last one when it subscribes.
	em, err := h.RealBus().Emitter(new(event.EvtLocalReachabilityChanged), eventbus.Stateful)
	if err != nil {
		panic(err)
	}
	defer em.Close()

	reach := []network.Reachability{network.ReachabilityPublic, network.ReachabilityPrivate, network.ReachabilityUnknown}
	var last *network.Reachability
	if preEvent {
		r := reach[s.Draw("reach", 3)]
		last = &r
		if err := em.Emit(event.EvtLocalReachabilityChanged{Reachability: r}); err != nil {
			panic(err)
		}
		s.Count("probe_pre_construction_event")
		s.Tracef("pre-construction event %v", r)
	}

	// the node sees the host through a peerstore that can fail (c13_pstore.go)
	hw := newC13Host(h)
	emOther := map[string]event.Emitter{}
	for _, x := range []struct {
		name string
		typ  any
	}{{"ident", new(event.EvtPeerIdentificationCompleted)}, {"protocols", new(event.EvtPeerProtocolsUpdated)},
		{"connectedness", new(event.EvtPeerConnectednessChanged)}, {"addrs", new(event.EvtLocalAddressesUpdated)}} {
		e, err := h.RealBus().Emitter(x.typ)
		if err != nil {
			panic(err)
		}
		defer e.Close()
		emOther[x.name] = e
	}

	d, err := dht.New(hw, append(protoOpts, dht.Mode(opt), dht.DisableAutoRefresh())...)
	if err != nil {
		panic(err)
	}
	s.Quiesce()
	s.Summary["cfg"] = fmt.Sprintf("mode=%s proto=%s remotes=%d events=%d others=%d streams=%d requests=%d parkWrites=%v preEvent=%v", optNames[oi], exact, nRemotes, eventsLeft, othersLeft, streamsLeft, reqsLeft, fab.ParkWrites, preEvent)

	var streams []*c13Stream
	lastSwitch := 0
	nSwitches, nAnswered, nRefused, nResetByNode := 0, 0, 0, 0
	afterOther, afterPsFault := false, false // another notification since the last reachability event / a peerstore error so far
	answered := map[string]bool{}

	parkedWrites := func() map[*simhost.Stream]bool {
		m := map[*simhost.Stream]bool{}
		for _, p := range s.ParkedKind("swrite") {
			if st, ok := p.Data.(*simhost.Stream); ok {
				m[st] = true
			}
		}
		return m
	}

	// observe: the oracle, at a quiescent point.
	observe := func() {
		wantServer := c13Expected(opt, last)
		registered := h.Handler(exact) != nil
		if registered != wantServer {
			if fixed {
				s.Violate("fixed-mode-changed", "option %s: DHT stream handler registered=%v after reachability events (last=%v); a fixed mode never changes", optNames[oi], registered, c13Last(last))
			} else {
				s.Violate("auto-mode-wrong", "option %s, last reachability event %s: expected server=%v but DHT stream handler registered=%v", optNames[oi], c13Last(last), wantServer, registered)
			}
			return
		}
		if !wantServer {
			if ps := h.HandlerProtocols(); len(ps) > 0 {
				s.Violate("stray-handler", "client mode but the host still has stream handlers %v", ps)
				return
			}
		}
		pw := parkedWrites()
		var sb strings.Builder
		for _, st := range streams {
			var rp frameParser
			rp.Feed(st.b.WroteBytes())
			nResp := len(rp.Frames)
			nComplete := 0
			for _, r := range st.reqs {
				if r.completeStep > 0 {
					nComplete++
				}
			}
			fmt.Fprintf(&sb, " %s[start=%v reset=%v/%s open=%v req=%d/%d resp=%d]", st.name, st.startStep > 0, st.b.IsReset(), st.b.ResetBy, st.b.IsOpen(), nComplete, len(st.reqs), nResp)
			if rp.Bad {
				s.Violate("response-malformed", "stream %s: the node wrote bytes that are not a length-delimited frame", st.name)
				continue
			}
			if nResp > nComplete || (nResp > 0 && st.startStep == 0) {
				s.Violate("unsolicited-response", "stream %s: %d responses written but only %d complete requests were delivered", st.name, nResp, nComplete)
				continue
			}
			for k, f := range rp.Frames {
				m, err := decodeMsg(f)
				if err != nil {
					s.Violate("response-malformed", "stream %s: response %d does not decode: %v", st.name, k, err)
					continue
				}
				if m.GetType() != st.reqs[k].typ {
					s.Violate("response-mismatch", "stream %s: request %d was %v, response is %v", st.name, k, st.reqs[k].typ, m.GetType())
				}
				id := fmt.Sprintf("%s/%d", st.name, k)
				if !answered[id] {
					answered[id] = true
					nAnswered++
					s.Count("probe_answered")
					if k > 0 {
						s.Count("probe_stream_reused_server")
					}
				}
			}
			if st.startStep == 0 {
				continue
			}
			if !wantServer {
				// client epoch
				for k := range st.reqs {
					t := st.readableAt(k)
					if t == 0 || t <= lastSwitch {
						continue // not readable yet, or in flight across the switch: either way
					}
					if !st.countedUn && st.negoStep <= lastSwitch {
						st.countedUn = true
						s.Count("probe_request_unswept_stream_client")
					}
					if k < nResp {
						s.Violate("client-served", "stream %s: request %d (%v) became readable at step %d, inside the client epoch that began at step %d, and was answered", st.name, k, st.reqs[k].typ, t, lastSwitch)
					} else if st.b.IsOpen() {
						// The real code resets; the property text only says the stream is
						// not handled, so a node that ended the stream in another way
						// (closed both directions) is not flagged here.
						s.Violate("client-request-stream-open", "stream %s: request %d (%v) became readable at step %d in client mode (epoch began at step %d) but the node left the stream open", st.name, k, st.reqs[k].typ, t, lastSwitch)
					}
				}
				continue
			}
			// server epoch
			if st.negoStep > lastSwitch && st.b.ResetBy == "local" {
				s.Violate("server-reset-stream", "stream %s was negotiated at step %d and started at step %d, both inside the server epoch that began at step %d, carried only honest requests, and was reset by the node", st.name, st.negoStep, st.startStep, lastSwitch)
				continue
			}
			if st.b.IsReset() || pw[st.b] || rp.Partial() {
				continue
			}
			judge := true
			nReadable := 0
			for k := range st.reqs {
				t := st.readableAt(k)
				if t == 0 {
					break
				}
				nReadable++
				if k >= nResp && t <= lastSwitch {
					judge = false // in flight across a switch
				}
			}
			if judge && nResp < nReadable {
				s.Violate("server-unanswered", "stream %s: %d honest requests were readable within the server epoch that began at step %d (first unanswered became readable at step %d) but only %d responses were written and no write is pending", st.name, nReadable, lastSwitch, st.readableAt(nResp), nResp)
			}
		}
		s.Tracef("obs server=%v%s", registered, sb.String())
		nOpen := 0
		for _, st := range streams {
			if st.startStep > 0 && st.b.IsOpen() {
				nOpen++
			}
		}
		s.State("opt=%d srv=%v open=%d streams=%d answered=%d sw=%d", oi, registered, nOpen, len(streams), nAnswered, nSwitches)
	}

	start := func(st *c13Stream) {
		if !st.protoSet {
			_ = st.b.SetProtocol(st.proto)
			st.protoSet = true
		}
		st.startStep = s.Steps
		if st.negoStep <= lastSwitch && !c13Expected(opt, last) {
			s.Count("probe_window_across_demotion")
		}
		go st.handler(st.b)
	}

	for s.Step() {
		observe()
		if s.Failed() {
			break
		}
		var acts []sim.Action
		if eventsLeft > 0 {
			acts = append(acts, sim.Action{ID: "emit", Do: func() {
				eventsLeft--
				r := reach[s.Draw("reach", 3)]
				before := c13Expected(opt, last)
				last = &r
				after := c13Expected(opt, last)
				// inbound DHT streams the host lists as open right now
				var openBefore []*c13Stream
				pw := parkedWrites()
				inflight, split := false, false
				for _, st := range streams {
					if st.protoSet && !st.b.IsReset() && st.b.IsOpen() {
						openBefore = append(openBefore, st)
					}
					if pw[st.b] {
						inflight = true
					}
					for _, rq := range st.reqs {
						if rq.completeStep == 0 && st.b.Delivered > rq.end-c13FrameLen(st, rq) && !st.b.IsReset() {
							split = true
						}
					}
				}
				s.Tracef("emit %v (model %v -> %v)", r, before, after)
				if err := em.Emit(event.EvtLocalReachabilityChanged{Reachability: r}); err != nil {
					panic(err)
				}
				s.Quiesce()
				if afterOther {
					s.Count("probe_reach_event_after_other_event")
				}
				if afterPsFault && before != after {
					s.Count("probe_switch_after_peerstore_error")
				}
				afterOther = false
				switch {
				case fixed:
					s.Count("probe_fixed_mode_event")
				case before == after:
					s.Count("probe_same_mode_event")
				case after:
					s.Count("probe_promotion")
				default:
					s.Count("probe_demotion")
				}
				if before != after {
					lastSwitch = s.Steps
					nSwitches++
					if inflight {
						s.Count("probe_inflight_across_switch")
					}
					if split {
						s.Count("probe_split_across_switch")
					}
				}
				if before && !after {
					if len(openBefore) > 0 {
						s.Count("probe_demotion_open_streams")
					}
					for _, st := range openBefore {
						st.sweptAt = s.Steps
						if !st.b.IsReset() {
							s.Violate("open-at-demotion-not-reset", "inbound DHT stream %s (handler started=%v) was open when the node switched to client mode at step %d and is still not reset at the next quiescent point", st.name, st.startStep > 0, s.Steps)
						} else {
							nResetByNode++
						}
					}
				}
			}})
		}
		if othersLeft > 0 {
			acts = append(acts, sim.Action{ID: "host-event", Do: func() {
				othersLeft--
				afterOther = true
				kind := s.Draw("host-event-kind", 4)
				q := u.Peers[nRemotes] // a peer the node has no connection to
				var ev any
				var emr event.Emitter
				switch kind {
				case 0, 1:
					// whom it is about: a connected remote or that other peer
					q = u.Peers[s.Draw("about", nRemotes+1)]
					// what identify left in the peerstore about the peer (writes never fail)
					speaks := s.Chance("speaks-dht", 1, 2)
					if speaks {
						_ = h.Peerstore().SetProtocols(q.ID, exact, "/sim/other/1.0.0")
						s.Count("probe_peer_event_speaks_dht")
					} else {
						_ = h.Peerstore().SetProtocols(q.ID, "/sim/other/1.0.0")
					}
					if kind == 0 {
						ev, emr = event.EvtPeerIdentificationCompleted{Peer: q.ID}, emOther["ident"]
						s.Count("probe_peer_event_ident")
					} else {
						pe := event.EvtPeerProtocolsUpdated{Peer: q.ID}
						if speaks {
							pe.Added = []protocol.ID{exact}
						} else {
							pe.Removed = []protocol.ID{exact}
						}
						ev, emr = pe, emOther["protocols"]
						s.Count("probe_peer_event_protocols")
					}
				case 2:
					ev, emr = event.EvtPeerConnectednessChanged{Peer: q.ID, Connectedness: network.NotConnected}, emOther["connectedness"]
					s.Count("probe_peer_event_disconnected")
				default:
					ev, emr = event.EvtLocalAddressesUpdated{Diffs: true}, emOther["addrs"]
					s.Count("probe_local_addrs_event")
				}
				fault := s.Draw("peerstore-fault", 3) // 0: none; n: the n-th protocol-book read from now fails once
				hw.ps.arm(fault)
				s.Tracef("host event kind=%d about %s, peerstore fault at read %d", kind, q.Name, fault)
				if err := emr.Emit(ev); err != nil {
					panic(err)
				}
				s.Quiesce()
				reads, failed := hw.ps.disarm()
				if failed > 0 {
					afterPsFault = true
					s.Count("fault_peerstore_error")
				}
				s.Tracef("host event processed: %d protocol-book reads, %d failed", reads, failed)
			}})
		}
		if streamsLeft > 0 {
			for _, q := range remotes {
				q := q
				acts = append(acts, sim.Action{ID: "open:" + q.Name, Do: func() {
					streamsLeft--
					props, alienFirst := c13DrawProposals(s, exact, aliens)
					id, hd := h.Negotiate(props...)
					c13CountNegotiation(s, exact, id, props, alienFirst, h.Handler(exact) != nil)
					if hd == nil {
						// a real host refuses the protocol negotiation: correct for a
						// client whatever is proposed, and (the property does not say
						// otherwise) for a server that is proposed other IDs than its own
						if h.Handler(exact) == nil {
							nRefused++
							s.Count("probe_refused_negotiation_client")
						}
						s.Tracef("negotiation refused for %s proposing %s", q.Name, c13ProposalString(props))
						return
					}
					if len(props) > 1 || id != exact {
						s.Tracef("%s proposes %s: negotiated %q", q.Name, c13ProposalString(props), id)
					}
					win := s.Draw("window", 3)
					p0 := id
					if win == 1 {
						p0 = "" // handler looked up, SetProtocol not yet called
					}
					conn := h.Net().SetConnected(q.ID, true)
					a, b := fab.NewPair("in:"+q.Name, p0, q.ID, u.Self.ID, nil, conn)
					a.Scripted = true
					st := &c13Stream{name: strings.TrimSuffix(b.Name(), "/b"), proto: id, peer: q, a: a, b: b, handler: hd, negoStep: s.Steps, protoSet: win != 1, window: win}
					streams = append(streams, st)
					if win == 0 {
						start(st)
					} else {
						s.Count("fault_nego_window")
					}
				}})
			}
		}
		for _, st := range streams {
			st := st
			if st.startStep == 0 {
				acts = append(acts, sim.Action{ID: "start:" + st.name, Do: func() { start(st) }})
			}
			if reqsLeft > 0 && !st.eofSent && !st.sendFail {
				acts = append(acts, sim.Action{ID: "send:" + st.name, Do: func() {
					reqsLeft--
					typ := pb.Message_FIND_NODE
					key := []byte(u.Peers[len(u.Peers)-1].ID)
					if s.Chance("ping", 1, 3) {
						typ, key = pb.Message_PING, nil
					}
					frame := encodeFrame(pb.NewMessage(typ, key, 0))
					if _, err := st.a.Write(frame); err != nil {
						// the remote learns that the stream is gone
						st.sendFail = true
						if st.sweptAt > 0 {
							s.Count("probe_request_after_demotion_old_stream")
						}
						s.Tracef("send on %s failed: %v", st.name, err)
						return
					}
					st.wrote += len(frame)
					st.reqs = append(st.reqs, &c13Req{typ: typ, end: st.wrote})
				}})
			}
			if eofLeft > 0 && !st.eofSent && !st.sendFail && len(st.reqs) > 0 {
				acts = append(acts, sim.Action{ID: "zeof:" + st.name, Do: func() {
					eofLeft--
					st.eofSent = true
					s.Count("fault_remote_eof")
					_ = st.a.CloseWrite()
				}})
			}
			if n, eof := st.b.Pending(); n > 0 || eof {
				acts = append(acts, sim.Action{ID: "deliver:" + st.name, Do: func() {
					l := st.b.NextChunkLen()
					if l > 1 && s.Chance("split", 1, 4) {
						s.Count("fault_split_chunk")
						st.b.Deliver(1 + s.Draw("split-at", l-1))
					} else {
						st.b.Deliver(0)
					}
					for _, rq := range st.reqs {
						if rq.completeStep == 0 && st.b.Delivered >= rq.end {
							rq.completeStep = s.Steps
						}
					}
				}})
			}
		}
		for _, p := range s.ParkedKind("swrite") {
			p := p
			acts = append(acts, sim.Action{ID: p.ID, Do: func() { s.Release(p, nil) }})
		}
		if len(acts) == 0 {
			break
		}
		s.Choose("next", acts)
	}
	if !s.Failed() {
		observe()
	}
	if s.Steps > s.MaxSteps {
		s.Count("step_budget_exhausted")
	}
	s.Tracef("done switches=%d answered=%d refused=%d resetAtDemotion=%d streams=%d", nSwitches, nAnswered, nRefused, nResetByNode, len(streams))
	s.NonTrivial = nSwitches > 0 && nAnswered > 0 && (nRefused > 0 || nResetByNode > 0)

	// the host goes away: every connection (and with it every stream) is torn down
	for _, st := range streams {
		st.b.SimReset()
	}
	closeAndCensus(s, func() {
		_ = d.Close()
		_ = h.Close()
	})
	s.Finish()
}

func c13FrameLen(st *c13Stream, rq *c13Req) int {
	prev := 0
	for _, o := range st.reqs {
		if o == rq {
			break
		}
		prev = o.end
	}
	return rq.end - prev
}

func c13Last(last *network.Reachability) string {
	if last == nil {
		return "none"
	}
	return last.String()
}
