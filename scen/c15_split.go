//go:build all || c15

package scen

// C15, FindPeer merge over two independent inner DHTs: "FindPeer returns the
// union of both address sets ... for every arrival order of the two DHTs'
// results".
//
// Why a second world. In c15.go both inner DHTs live on ONE host (dual.New
// takes one), hence on one peerstore and one connection table: each inner
// FindPeer returns a snapshot of the same peerstore entry, the stop condition
// of either lookup ("the target is connected") is satisfied by the other's
// dial, and the two "address sets" differ only if the entry changes between
// the two inner returns. In that world a merge that loses one side's answer
// (keeps only the first / only the WAN / only the non-empty result, gives up
// on the slower lookup, ...) is almost unobservable: the oracle there can only
// compare the result with the shared peerstore. Here the merge itself is under
// test with address sets that really are two sets:
//
//   the dual.DHT is assembled from its two exported fields (as the package's
//   own test helper does) out of two real IpfsDHT instances, each on its OWN
//   simulated host (own peerstore, own connections, own message sender, own
//   scripted population of responders). Both hosts carry the node's identity.
//   No dual.New filters are installed - the option layering is the business of
//   the other C15 scenarios - so every referral is followed and every address
//   kept, and what an inner DHT knows about the target is exactly what its own
//   host's peerstore holds.
//
// World per side X in {wan, lan}: 0..4 scripted responders (referral graph,
// some know the target t; a responder reports t with the side's "said"
// addresses or with none), addresses for t held by X's peerstore beforehand,
// t connected to X's host or not, t's dial on X's host succeeding or not,
// failing responders, routing table seeded with some / none / all. All address
// sets are pairwise disjoint, so every returned address is attributable.
// 1..2 FindPeer(t) calls run one after the other (the second meets the state
// the first one left: t connected on the sides that reached it, peerstores
// grown); between calls the harness may drop t's connection on a side. During
// a call the harness never touches a connection, so "connected at the call"
// means "connected throughout".
//
// Oracle. Because the sides are independent, whether side X finds t and what
// its address set then is follow from X's own world:
//
//   found(X), predicted from the state at the call (schedule-independent):
//     (A) t is connected to X's host: X answers from its local knowledge; or
//     (B) X's routing table is non-empty, every responder of X answers its
//         dial and its requests and refers to t, and t answers X's dial: the
//         first answer X receives names t, t is the closest possible peer to
//         the key, so X's lookup cannot end before it has dialled t.
//   found(X), observed: t is connected to X's host after the call and was not
//     before it - only X's own lookup dials on X's host.
//   An inner FindPeer that finds t returns what its peerstore holds for t; the
//   entry cannot change after the inner call returned (only X's lookup writes
//   to X's peerstore), so its address set is X's entry at the end of the call.
//   In case (B) with t neither connected nor in the table at the call, and all
//   of X's responders reporting t with addresses, that set provably includes
//   the said addresses (t is unknown until a referral is delivered, and a
//   referral for a peer that is not connected is stored).
//
//   findpeer-union     for every side X with found(X): every address of X's
//                      set is in the result (clause: union of BOTH address
//                      sets, whichever side answered first - the sets are
//                      disjoint, so nothing the other side returned can stand
//                      in for it).
//   findpeer-invented  every returned address is in one of the two peerstores'
//                      entries for t (the union contains nothing else).
//   findpeer-error     found(X) for some X => nil error and the target's ID
//                      (a found peer is returned, not an error: "returns the
//                      union").
//   no-return, panic   as in c15.go.
//
// Excluded: cancelling the caller's context in mid-search (then neither inner
// result is constrained); connection changes during a call (would make
// found(X) schedule-dependent); relay/limited connections.

import (
	"context"
	"fmt"
	"sort"
	"strings"
	"time"

	dht "github.com/libp2p/go-libp2p-kad-dht"
	"github.com/libp2p/go-libp2p-kad-dht/dual"
	pb "github.com/libp2p/go-libp2p-kad-dht/pb"
	"github.com/libp2p/go-libp2p/core/host"
	"github.com/libp2p/go-libp2p/core/network"
	"github.com/libp2p/go-libp2p/core/peer"
	"github.com/libp2p/go-libp2p/core/protocol"
	ma "github.com/multiformats/go-multiaddr"

	"verif/sim"
	"verif/simhost"
	"verif/simnet"
)

func init() {
	sim.Register(&sim.Scenario{Prop: "C15", Name: "dual-findpeer-split", Weight: 1, Run: c15RunSplit,
		Real: []string{"dual.DHT.FindPeer (merge of the two inner results)", "two IpfsDHT instances (FindPeer, FindLocal, lookup engine, maybeAddAddrs)", "two pstoremem peerstores"},
		Stub: []string{"two host.Hosts (simhost, one per inner DHT, same identity)", "two pb.MessageSenders (level A, simnet.Sender)", "remote peers (scripted responders: referrals, failures)"},
		Faults: []string{"fault_dial_fail", "fault_rpc_error", "time_advance", "cancel_observed",
			"probe_split_fast_local_slow_walk", "probe_split_both_walk", "probe_split_both_local", "probe_split_one_side_found", "probe_split_notfound",
			"probe_split_union_from_both", "probe_split_found_observed_only", "probe_split_said_addrs_expected", "probe_split_wan_returned_first", "probe_split_lan_returned_first",
			"probe_split_second_call", "probe_split_target_dropped_between_calls"},
	})
}

type c15sPeer struct {
	p        *simnet.Peer
	side     string
	dialFail bool
	reqErr   bool
	knows    []*simnet.Peer
	knowsT   bool
	tAddrs   bool // reports t with the side's said addresses (otherwise without addresses)
}

type c15sSide struct {
	name    string
	host    *simhost.Host
	snd     *simnet.Sender
	d       *dht.IpfsDHT
	k       int
	peers   []*c15sPeer
	said    []ma.Multiaddr // what this side's responders report for t
	tDialOK bool
	tReqErr bool
	clean   bool // every responder answers, refers to t; t answers the dial
	allSay  bool // every responder reports t with the said addresses
}

type c15sWorld struct {
	s     *sim.Sim
	u     *simnet.Universe
	d     *dual.DHT
	t     *simnet.Peer
	sides map[string]*c15sSide
	byID  map[peer.ID]*c15sPeer
	cl    opSet
}

func (sd *c15sSide) connected(p peer.ID) bool {
	return sd.host.Network().Connectedness(p) == network.Connected
}

func c15AddrSet(addrs []ma.Multiaddr) map[string]string {
	m := map[string]string{}
	for _, a := range addrs {
		m[string(a.Bytes())] = a.String()
	}
	return m
}

func c15SetNames(m map[string]string) string {
	var out []string
	for _, n := range m {
		out = append(out, n)
	}
	sort.Strings(out)
	return strings.Join(out, ",")
}

func c15BuildSplit(s *sim.Sim) *c15sWorld {
	w := &c15sWorld{s: s, sides: map[string]*c15sSide{}, byID: map[peer.ID]*c15sPeer{}}
	useed := uint64(s.Draw("universe", 1<<16))
	w.u = simnet.NewUniverse(useed, 0)
	u := w.u
	pal := newC15Palette(simnet.MakeID(useed^0x5e1a, 999))
	rng := newSubRng(s, "world")
	classes := []string{"pub4", "priv4", "pub6", "priv6", "loop4", "ll6", "relaypub"}
	fresh := func(n int) []ma.Multiaddr {
		var out []ma.Multiaddr
		for i := 0; i < n; i++ {
			out = append(out, pal.mk(classes[rng.Intn(len(classes))]))
		}
		return out
	}
	idn := 0
	w.t = u.Add("t", simnet.MakeID(useed, idn), nil)
	idn++

	var cfg []string
	for _, name := range []string{c15W, c15L} {
		sd := &c15sSide{name: name}
		w.sides[name] = sd
		n := s.Range("n-"+name, 0, 4)
		sd.k = s.Range("k-"+name, 1, 3)
		alpha, beta := s.Range("alpha-"+name, 1, 3), s.Range("beta-"+name, 1, sd.k)
		faulty := s.Chance("faulty-"+name, 1, 3)
		tKnownPct := []int{100, 50, 0}[s.Draw("t-known-"+name, 3)]
		sayPct := []int{100, 50, 0}[s.Draw("t-said-"+name, 3)]
		sd.said = fresh(s.Range("n-said-"+name, 1, 2))
		sd.tDialOK = !s.Chance("t-dial-fails-"+name, 1, 4)
		sd.tReqErr = faulty && rng.Intn(3) == 0

		sd.host = simhost.New(s, u.Self.ID, fresh(1), u.Name)
		sd.host.Label = name + "/"
		opts := []dht.Option{dht.ProtocolPrefix("/sim"), dht.Mode(dht.ModeClient), dht.BucketSize(sd.k), dht.Concurrency(alpha), dht.Resiliency(beta),
			dht.DisableAutoRefresh(), dht.WithCustomMessageSender(func(_ host.Host, _ []protocol.ID) pb.MessageSenderWithDisconnect {
				sd.snd = &simnet.Sender{S: s, U: u, Label: name + ":"}
				return sd.snd
			})}
		if name == c15L {
			opts = append(opts, dht.ProtocolExtension(dual.LanExtension))
		}
		d, err := dht.New(sd.host, opts...)
		if err != nil {
			panic(err)
		}
		sd.d = d
		s.Quiesce()

		for i := 0; i < n; i++ {
			sp := u.Add(fmt.Sprintf("%c%02d", name[0], i), simnet.MakeID(useed, idn), fresh(1+rng.Intn(2)))
			idn++
			cp := &c15sPeer{p: sp, side: name, knowsT: rng.Intn(100) < tKnownPct, tAddrs: rng.Intn(100) < sayPct}
			if faulty {
				switch rng.Intn(8) {
				case 0, 1:
					cp.dialFail = true
				case 2, 3:
					cp.reqErr = true
				}
			}
			sd.peers = append(sd.peers, cp)
			w.byID[sp.ID] = cp
		}
		density := []int{5, 2, 8}[s.Draw("density-"+name, 3)]
		sd.clean, sd.allSay = sd.tDialOK, true
		for _, x := range sd.peers {
			for _, q := range sd.peers {
				if q != x && rng.Intn(8) < density {
					x.knows = append(x.knows, q.p)
				}
			}
			sd.clean = sd.clean && !x.dialFail && !x.reqErr && x.knowsT
			sd.allSay = sd.allSay && x.tAddrs
		}

		// what this side's host knows beforehand
		if pre := fresh(s.Draw("t-prestored-"+name, 3)); len(pre) > 0 {
			sd.host.Peerstore().AddAddrs(w.t.ID, pre, time.Hour)
		}
		if s.Chance("t-connected-"+name, 1, 3) {
			sd.host.Net().SetConnected(w.t.ID, true)
		}
		// routing table: 0,1 some; 2 none; 3 all (direct TryAddPeer: seeding is the harness' business)
		mode := s.Draw("seed-"+name, 4)
		var seeds []*c15sPeer
		for _, cp := range sd.peers {
			if mode == 3 || (mode < 2 && rng.Intn(2) == 0) {
				seeds = append(seeds, cp)
			}
		}
		if mode < 2 && len(seeds) == 0 && len(sd.peers) > 0 {
			seeds = append(seeds, sd.peers[rng.Intn(len(sd.peers))])
		}
		for _, cp := range seeds {
			sd.host.Peerstore().AddAddrs(cp.p.ID, cp.p.Addrs, time.Hour)
			_, _ = d.RoutingTable().TryAddPeer(cp.p.ID, true, false)
		}
		if s.Chance("t-in-table-"+name, 1, 6) {
			_, _ = d.RoutingTable().TryAddPeer(w.t.ID, true, false)
		}
		s.Quiesce()
		cfg = append(cfg, fmt.Sprintf("%s: n=%d K=%d a=%d b=%d faulty=%v clean=%v allSay=%v table=%d tdial=%v", name, n, sd.k, alpha, beta, faulty, sd.clean, sd.allSay, d.RoutingTable().Size(), sd.tDialOK))
	}
	w.d = &dual.DHT{WAN: w.sides[c15W].d, LAN: w.sides[c15L].d}
	s.Summary["cfg"] = strings.Join(cfg, "; ")
	return w
}

func (w *c15sWorld) reply(sd *c15sSide, r *simnet.RPC) simnet.Reply {
	resp := &pb.Message{Type: r.Req.GetType(), Key: r.Req.GetKey()}
	if r.To == w.t.ID {
		if sd.tReqErr {
			w.s.Count("fault_rpc_error")
			return simnet.Reply{Err: errReqFailed}
		}
		return simnet.Reply{Msg: resp} // the target knows nobody
	}
	x := w.byID[r.To]
	if x == nil || x.side != sd.name || x.reqErr {
		w.s.Count("fault_rpc_error")
		return simnet.Reply{Err: errReqFailed}
	}
	cands := append([]*simnet.Peer(nil), x.knows...)
	if x.knowsT {
		cands = append(cands, w.t)
	}
	for _, q := range simnet.Nearest(cands, simnet.KadOfKey(string(r.Req.GetKey())), sd.k) {
		m := &pb.Message_Peer{Id: []byte(q.ID)}
		addrs := q.Addrs
		if q == w.t {
			addrs = nil
			if x.tAddrs {
				addrs = sd.said
			}
		}
		for _, a := range addrs {
			m.Addrs = append(m.Addrs, a.Bytes())
		}
		resp.CloserPeers = append(resp.CloserPeers, m)
	}
	return simnet.Reply{Msg: resp}
}

func (w *c15sWorld) sideOfPark(p *sim.Parked) *c15sSide {
	for _, name := range []string{c15W, c15L} {
		if strings.HasPrefix(p.ID, "rpc:"+name+":") || strings.HasPrefix(p.ID, "dial:"+name+"/") {
			return w.sides[name]
		}
	}
	panic("c15 split: parked call of unknown side: " + p.ID)
}

func (w *c15sWorld) actions() []sim.Action {
	s := w.s
	var acts []sim.Action
	for _, p := range s.Parked() {
		p := p
		if p.Cancelled() {
			// a cancelled call only ever observes its cancellation
			acts = append(acts, sim.Action{ID: "cancel>" + p.ID, Do: func() { s.ReleaseCancelled(p) }})
			continue
		}
		sd := w.sideOfPark(p)
		switch p.Kind {
		case "dial":
			who := p.Data.(peer.ID)
			acts = append(acts, sim.Action{ID: p.ID, Do: func() {
				ok := sd.tDialOK
				if who != w.t.ID {
					cp := w.byID[who]
					ok = cp != nil && cp.side == sd.name && !cp.dialFail
				}
				if !ok {
					s.Count("fault_dial_fail")
					s.Release(p, simhost.ErrDialFailed)
					return
				}
				s.Release(p, nil)
			}})
		case "rpc":
			r := p.Data.(*simnet.RPC)
			acts = append(acts, sim.Action{ID: p.ID, Do: func() { s.Release(p, w.reply(sd, r)) }})
		}
	}
	return acts
}

// c15sCall is the state at a FindPeer call plus what the oracle derives from it.
type c15sCall struct {
	tag       string
	op        *Op
	cancel    context.CancelFunc
	connAt    map[string]bool
	inTable   map[string]bool
	tableSize map[string]int
	heldAt    map[string]map[string]string
	predicted map[string]string // side -> "A" | "B" | ""
	rpcFrom   map[string]int    // side -> length of the side's request log at the call
	startStep int
}

func (w *c15sWorld) runCall(idx int) bool {
	s := w.s
	t := w.t.ID
	s.Quiesce()
	c := &c15sCall{tag: fmt.Sprintf("o%d", idx), rpcFrom: map[string]int{}, startStep: s.Steps, connAt: map[string]bool{}, inTable: map[string]bool{}, tableSize: map[string]int{}, heldAt: map[string]map[string]string{}, predicted: map[string]string{}}
	for _, name := range []string{c15W, c15L} {
		sd := w.sides[name]
		c.connAt[name] = sd.connected(t)
		rt := sd.d.RoutingTable().ListPeers()
		c.tableSize[name], c.inTable[name] = len(rt), idSet(rt)[t]
		c.heldAt[name] = c15AddrSet(sd.host.Peerstore().Addrs(t))
		c.rpcFrom[name] = len(sd.snd.Snapshot())
		switch {
		case c.connAt[name]:
			c.predicted[name] = "A"
		case len(rt) > 0 && sd.clean:
			c.predicted[name] = "B"
		}
	}
	s.Tracef("call %s conn=%v/%v table=%d/%d tInTable=%v/%v predicted=%q/%q", c.tag, c.connAt[c15W], c.connAt[c15L], c.tableSize[c15W], c.tableSize[c15L],
		c.inTable[c15W], c.inTable[c15L], c.predicted[c15W], c.predicted[c15L])
	base, cancel := context.WithCancel(context.Background())
	c.cancel = cancel
	defer func() {
		cancel()
		s.Quiesce()
	}()
	ctx := sim.WithTag(base, c.tag)
	d := w.d
	c.op = w.cl.Go(s, "findpeer", func() (any, error) { return d.FindPeer(ctx, t) })
	s.Quiesce()
	idle, judged := 0, false
	for {
		if c.op.Done && !judged {
			judged = true
			w.judge(c)
		}
		if s.Failed() {
			return false
		}
		if c.op.Done && len(s.Parked()) == 0 {
			break
		}
		if !s.Step() {
			break
		}
		if s.Chance("tick", 1, 16) {
			s.Sleep(time.Duration(1+s.Draw("tick-ms", 40)) * time.Millisecond)
			s.Count("time_advance")
		}
		acts := w.actions()
		if len(acts) == 0 {
			idle++
			if idle > 20 {
				break
			}
			s.Sleep(time.Second)
			continue
		}
		idle = 0
		s.Choose("next", acts)
	}
	if s.Failed() {
		return false
	}
	if !c.op.Done {
		if s.Steps > s.MaxSteps {
			s.Summary["budget"] = "step budget exhausted"
			s.Count("step_budget_exhausted")
			return false
		}
		s.Violate("no-return", "FindPeer did not return although nothing is parked and %d s of virtual time passed", idle)
		return false
	}
	return s.Steps <= s.MaxSteps
}

func (w *c15sWorld) judge(c *c15sCall) {
	s := w.s
	t := w.t.ID
	if c.op.Panic != "" {
		s.Violate("panic", "FindPeer panicked: %s", firstLine(c.op.Panic))
		return
	}
	ai, _ := c.op.Result.(peer.AddrInfo)
	got := c15AddrSet(ai.Addrs)
	s.Tracef("done %s findpeer err=%s addrs=%s", c.tag, c15ErrText(c.op.Err), c15SetNames(got))

	held := map[string]map[string]string{}
	found := map[string]string{}
	for _, name := range []string{c15W, c15L} {
		sd := w.sides[name]
		held[name] = c15AddrSet(sd.host.Peerstore().Addrs(t)) // the quiescent point right after the call returned
		found[name] = c.predicted[name]
		if found[name] == "" && !c.connAt[name] && sd.connected(t) {
			// only this side's own lookup dials on this side's host
			found[name] = "observed"
			s.Count("probe_split_found_observed_only")
		}
	}
	// rule findpeer-invented
	for k, n := range got {
		if held[c15W][k] == "" && held[c15L][k] == "" {
			s.Violate("findpeer-invented", "FindPeer returned %s; the WAN DHT knows [%s], the LAN DHT knows [%s] for the target", n, c15SetNames(held[c15W]), c15SetNames(held[c15L]))
			break
		}
	}
	// rule findpeer-union
	contributed := map[string]bool{}
	for _, name := range []string{c15W, c15L} {
		if found[name] == "" {
			continue
		}
		sd := w.sides[name]
		want := map[string]string{}
		for k, n := range held[name] {
			want[k] = n
		}
		if found[name] == "B" && !c.inTable[name] && sd.allSay {
			// the said addresses must have been learned (see the header); they are
			// in held[name] on a correct run, and expected even if they are not
			for k, n := range c15AddrSet(sd.said) {
				want[k] = n
			}
			s.Count("probe_split_said_addrs_expected")
		}
		for k := range want {
			contributed[name] = contributed[name] || got[k] != ""
		}
		for k, n := range want {
			if got[k] == "" {
				how := map[string]string{"A": "is connected to the target", "B": "reaches the target through responders that all answer and all refer to it", "observed": "connected to the target during the call"}[found[name]]
				s.Violate("findpeer-union", "FindPeer returned [%s] without %s: the %s DHT %s and its address set for the target is [%s] (the other side's: [%s])",
					c15SetNames(got), n, strings.ToUpper(name), how, c15SetNames(want), c15SetNames(held[map[string]string{c15W: c15L, c15L: c15W}[name]]))
				break
			}
		}
	}
	// rule findpeer-error
	if found[c15W] != "" || found[c15L] != "" {
		if c.op.Err != nil || ai.ID != t {
			s.Violate("findpeer-error", "FindPeer returned id=%q err=%v although the target is found on the WAN side (%q) / LAN side (%q)", w.u.Name(ai.ID), c.op.Err, found[c15W], found[c15L])
		}
	}
	// probes
	fw, fl := found[c15W], found[c15L]
	switch {
	case (fw == "A" && fl != "" && fl != "A") || (fl == "A" && fw != "" && fw != "A"):
		s.Count("probe_split_fast_local_slow_walk")
	case fw == "A" && fl == "A":
		s.Count("probe_split_both_local")
	case fw != "" && fl != "":
		s.Count("probe_split_both_walk")
	case fw != "" || fl != "":
		s.Count("probe_split_one_side_found")
	default:
		s.Count("probe_split_notfound")
	}
	if contributed[c15W] && contributed[c15L] {
		s.Count("probe_split_union_from_both")
	}
	// which side finished first (step of the last answer each side's lookup got
	// during the call; a side without traffic finished at once; probe only)
	last := map[string]int{}
	for _, name := range []string{c15W, c15L} {
		last[name] = c.startStep
		for _, r := range w.sides[name].snd.Snapshot()[c.rpcFrom[name]:] {
			if r.Done && !r.Cancelled && r.DoneStep > last[name] {
				last[name] = r.DoneStep
			}
		}
	}
	if fw != "" && fl != "" && last[c15W] != last[c15L] {
		if last[c15W] < last[c15L] {
			s.Count("probe_split_wan_returned_first")
		} else {
			s.Count("probe_split_lan_returned_first")
		}
	}
	s.State("split found=%q/%q err=%v n=%d", fw, fl, c.op.Err != nil, len(got))
}

func c15RunSplit(s *sim.Sim) {
	s.MaxSteps = 1200
	w := c15BuildSplit(s)
	n := s.Range("n-calls", 1, 2)
	for i := 0; i < n; i++ {
		if i > 0 {
			s.Count("probe_split_second_call")
			// between calls the target may drop its connection to either host
			for _, name := range []string{c15W, c15L} {
				if sd := w.sides[name]; sd.connected(w.t.ID) && s.Chance("drop-target-"+name, 1, 2) {
					sd.host.Net().SetConnected(w.t.ID, false)
					s.Tracef("target drops its connection to the %s host", name)
					s.Count("probe_split_target_dropped_between_calls")
				}
			}
		}
		if !w.runCall(i) {
			break
		}
	}
	s.NonTrivial = len(w.sides[c15W].snd.Snapshot())+len(w.sides[c15L].snd.Snapshot()) > 0
	closeAndCensus(s, func() {
		_ = w.d.Close()
		_ = w.sides[c15W].host.Close()
		_ = w.sides[c15L].host.Close()
	})
	s.Finish()
}
