//go:build all || c10

package scen

// C10, harness H2: the real internal/net message sender (reached through
// IpfsDHT.MessageSender()) under pb.ProtocolMessenger, over scheduler-owned
// byte streams, against scripted remotes that answer every request with an
// item drawn from the response space (c10.go) or with byte-level junk.
//
// Oracle rules (rule id -> clause of the property):
//
//	caller-panic             "cannot crash": a ProtocolMessenger method panicked on the caller's goroutine
//	putvalue-echo-nil-record same clause, the PUT_VALUE-echo-without-record class (scenario putvalue-echo only)
//	call-wedged              "cannot permanently block": a call did not return within 10 min of virtual
//	                         time after the remote stopped producing new adversarial answers (silence that
//	                         was already chosen persists: the client's own read time-out has to end it)
//	wrong-key-record-accepted "records for a different key are rejected": GetValue returned a record whose
//	                         key is not the requested key
//	peer-record-oversize / peer-record-bad-addr   "peer records are cut to 8 KiB each
//	                         with undecodable addresses dropped" on every returned AddrInfo (c10.go)
//	call-opens-too-many-streams  "no response ... can permanently block the requesting node: the RPC
//	                         returns an error": a request whose reply did not arrive has to FAIL; a call that
//	                         goes round for as long as the remote keeps producing the same non-reply is held
//	                         by the remote for ever. Scheduled streams make every round a handful of harness
//	                         actions and no virtual time passes in it, so the time bounds above cannot see
//	                         such a loop; the observable is the number of streams one call has opened. The
//	                         bound (c10MaxStreamsPerCall = 8) is a harness choice for "permanently" - the
//	                         property names none; it is not derived from the implementation's retry policy
//	                         and leaves room for several retries.
//
// Persistent responders. Besides remotes that draw every answer afresh (so that
// a given non-reply hits the first stream AND every retry stream only with a
// vanishing probability) a remote may be drawn "persistent": it reacts to every
// request, on every stream, with the same byte-level non-reply (read the request
// and close in an orderly way without a byte (EOF) | reset | silence | unframed
// junk | framed junk | a frame cut short, then silence | a frame cut short, then
// EOF | an over-limit length prefix | the zero-length frame). These are single
// points of "any byte string, or silence" - what is new is that the remote is
// consistent, which is what a real misbehaving or foreign implementation is.
// Class of regressions exposed: any change of the retry / stream re-use logic
// that does not count some class of failure (clean EOF, unexpected EOF, reset,
// decode error, ...) against the attempts of the call.
//
// Recording tracer (c10_trace.go). A third of the calls of messenger-bytes carry
// a context whose spans are recording, so the tracing-only blocks of every
// ProtocolMessenger method run on the decoded response; a panic there is rule
// caller-panic like any other ("cannot crash" names no configuration).
//
// A panic on a goroutine owned by the system under test kills the worker
// process; the driver reports that as rule "crash".

import (
	"context"
	"encoding/binary"
	"errors"
	"fmt"
	"runtime/debug"
	"strings"
	"time"

	dht "github.com/libp2p/go-libp2p-kad-dht"
	pb "github.com/libp2p/go-libp2p-kad-dht/pb"
	recpb "github.com/libp2p/go-libp2p-record/pb"
	"github.com/libp2p/go-libp2p/core/network"
	"github.com/libp2p/go-libp2p/core/peer"
	"github.com/libp2p/go-msgio"
	mh "github.com/multiformats/go-multihash"

	"verif/sim"
	"verif/simhost"
	"verif/simnet"
)

var c10ByteFaults = []string{
	"fault_silence", "fault_reset", "fault_eof", "fault_garbage_raw", "fault_garbage_framed", "fault_truncated_frame",
	"fault_oversize_prefix", "fault_extra_frame", "fault_empty_frame", "fault_split_chunk", "fault_reply_late", "time_advance",
	"fault_wrong_type", "fault_unknown_type", "fault_key_empty", "fault_key_other", "fault_key_huge",
	"fault_record_absent", "fault_record_other_key", "fault_record_empty_key", "fault_record_empty", "fault_record_other_value", "fault_record_no_value",
	"fault_peers_many", "fault_peers_thousands", "fault_peers_bad_addrs", "fault_peers_fat", "fault_peers_bad_ids", "fault_peers_mixed",
	"fault_unknown_conn", "fault_unknown_fields", "fault_cluster_level",
	"probe_read_timeout_fired", "probe_oversize_frame_rejected", "probe_garbage_rejected", "probe_wrong_key_rejected",
	"probe_peer_record_trimmed", "probe_bad_addr_dropped", "probe_retry_second_stream", "probe_stream_reused", "probe_sanitised_result",
	"fault_truncated_then_eof",
	"fault_persistent_eof", "fault_persistent_reset", "fault_persistent_silence", "fault_persistent_garbage_raw", "fault_persistent_garbage_framed",
	"fault_persistent_truncated_frame", "fault_persistent_truncated_frame_eof", "fault_persistent_oversize_prefix", "fault_persistent_empty_frame",
	"probe_persistent_call_gave_up", "fault_traced_call", "probe_traced_call_returned", "probe_traced_response_described",
}

// c10MaxStreamsPerCall bounds the streams a single call may open (rule
// call-opens-too-many-streams; a harness choice for "permanently", see above).
const c10MaxStreamsPerCall = 8

// c10Persistent describes a remote that reacts to every request on every
// stream in the same way. item / close select the reaction in the scripted
// remote's answer function; thenEOF: a frame cut short is followed by an
// orderly close.
type c10Persistent struct {
	name    string
	item    int
	close   int
	thenEOF bool
}

// (index 0 of the draw is the benign choice: no persistent behaviour)
var c10PersistentKinds = []c10Persistent{
	{name: "eof", item: 11, close: 1},
	{name: "reset", item: 11, close: 0},
	{name: "silence", item: 10},
	{name: "garbage_raw", item: 6},
	{name: "garbage_framed", item: 7},
	{name: "truncated_frame", item: 8},
	{name: "truncated_frame_eof", item: 8, thenEOF: true},
	{name: "oversize_prefix", item: 9},
	{name: "empty_frame", item: 13},
}

func init() {
	real := []string{"pb.ProtocolMessenger (every method)", "pb.PBPeersToPeerInfos / boundPeerRecordAddrs / Message_Peer.Addresses", "internal/net messageSenderImpl + peerMessageSender incl. read time-out, retry, frame size limit (reached through IpfsDHT.MessageSender())", "msgio framing, protobuf decoding"}
	stub := []string{"host.Host / NewStream (simhost)", "streams (simhost.Fabric byte pipes, scheduler-owned delivery)", "remote peers (scripted: answer from the generated response space)"}
	sim.Register(&sim.Scenario{Prop: "C10", Name: "messenger-bytes", Weight: 6, Run: func(s *sim.Sim) { runC10Messenger(s, false) },
		Real: real, Stub: stub, Faults: c10ByteFaults})
	sim.Register(&sim.Scenario{Prop: "C10", Name: "putvalue-echo", Weight: 1, Run: func(s *sim.Sim) { runC10Messenger(s, true) },
		Real: real, Stub: stub, Faults: []string{"fault_put_echo_without_record", "fault_empty_frame", "probe_put_echo_nil_survived"}})
}

const (
	c10PutValue = iota
	c10GetValue
	c10FindNode
	c10AddProvider
	c10GetProviders
	c10Ping
	c10Methods
)

var c10MethodNames = []string{"PutValue", "GetValue", "GetClosestPeers", "PutProviderAddrs", "GetProviders", "Ping"}

type c10Answer struct {
	kind    string
	info    *c10Info    // nil for byte-level junk
	msg     *pb.Message // the one well-formed message sent (nil for junk)
	garbage bool
	over    bool
	silent  bool
	// scenario messenger-frame-limit (c10_frame.go): a complete frame sized around the transport limit
	body  int    // length of the frame body on the wire
	sized int    // c10Frame* class of body (0: not sized)
	pad   string // where the filler went
}

type c10Call struct {
	id     int
	client int
	peer   *simnet.Peer
	method int
	key    []byte // key carried by the request ("" for Ping)
	value  []byte
	ctx    context.Context
	cancel context.CancelFunc

	started, done   bool
	startAt, doneAt time.Duration
	err             error
	panicMsg        string
	panicSite       string
	rec             *recpb.Record
	closer, provs   []*peer.AddrInfo
	answers         []*c10Answer // what the remote produced for requests carrying this call's key
	opens           int          // streams opened under this call's context
	received        int          // times the remote received this call's request (keyed requests only)
	trace           *c10TraceStats
}

type c10Pair struct {
	a, b     *simhost.Stream
	peer     *simnet.Peer
	atRemote frameParser   // requests received so far
	reqs     []*pb.Message // requests that expect a reply, in arrival order
	answered int           // how many of them the remote has dealt with
	wrote    frameParser   // everything the remote wrote (for the echo veto)
}

func (c *c10Call) run(s *sim.Sim, pm *pb.ProtocolMessenger, self peer.AddrInfo) {
	defer func() {
		if r := recover(); r != nil {
			c.panicMsg = fmt.Sprintf("%v", r)
			c.panicSite = c10PanicSite(string(debug.Stack()))
		}
		c.done, c.doneAt = true, s.Now()
	}()
	switch c.method {
	case c10PutValue:
		c.err = pm.PutValue(c.ctx, c.peer.ID, &recpb.Record{Key: c.key, Value: c.value})
	case c10GetValue:
		c.rec, c.closer, c.err = pm.GetValue(c.ctx, c.peer.ID, string(c.key))
	case c10FindNode:
		c.closer, c.err = pm.GetClosestPeers(c.ctx, c.peer.ID, peer.ID(c.key))
	case c10AddProvider:
		c.err = pm.PutProviderAddrs(c.ctx, c.peer.ID, mh.Multihash(c.key), self)
	case c10GetProviders:
		c.provs, c.closer, c.err = pm.GetProviders(c.ctx, c.peer.ID, mh.Multihash(c.key))
	case c10Ping:
		c.err = pm.Ping(c.ctx, c.peer.ID)
	}
}

func runC10Messenger(s *sim.Sim, echoNil bool) {
	s.MaxSteps = 900
	nPeers := s.Range("peers", 1, 3)
	nClients := s.Range("clients", 1, 3)
	nCalls := s.Range("calls", 1, 12)
	hostile := 1 + s.Draw("hostility", 3) // share of adversarial answers: 1/4, 2/4, 3/4
	u := simnet.NewUniverse(uint64(s.Draw("universe", 1<<16)), nPeers+4)
	remotes := u.Peers[:nPeers]
	others := u.Peers[nPeers:] // peers an honest answer names
	h := simhost.New(s, u.Self.ID, u.Self.Addrs, u.Name)
	fab := simhost.NewFabric(s)
	var pairs []*c10Pair
	fab.OnOpen = func(a, b *simhost.Stream) { pairs = append(pairs, &c10Pair{a: a, b: b, peer: u.ByID(a.Remote)}) }
	h.OpenStream = fab.StreamOpener(func(peer.ID) *simhost.Host { return nil }, nil)

	d, err := dht.New(h, dht.ProtocolPrefix("/sim"), dht.Mode(dht.ModeClient), dht.DisableAutoRefresh())
	if err != nil {
		panic(err)
	}
	pm, err := pb.NewProtocolMessenger(d.MessageSender())
	if err != nil {
		panic(err)
	}
	s.Quiesce()
	w := &c10World{S: s, U: u, Self: u.Self.ID, EchoNil: echoNil}
	// persistent responders (not in the dedicated echo scenario, which stays as it was)
	persistent := map[*simnet.Peer]*c10Persistent{}
	persistentCfg := ""
	if !echoNil {
		c10InstallTracing()
		for _, p := range remotes {
			if s.Chance("persistent", 1, 4) {
				k := &c10PersistentKinds[s.Draw("persistent-kind", len(c10PersistentKinds))]
				persistent[p] = k
				persistentCfg += fmt.Sprintf(" %s=%s", p.Name, k.name)
			}
		}
	}
	s.Summary["cfg"] = fmt.Sprintf("peers=%d clients=%d calls=%d hostility=%d/4 echoNil=%v persistent=[%s]", nPeers, nClients, nCalls, hostile, echoNil, strings.TrimSpace(persistentCfg))

	// ---- the calls
	calls := make([]*c10Call, nCalls)
	byKey := map[string]*c10Call{}
	byTag := map[string]*c10Call{}
	hasPut := false
	for i := range calls {
		c := &c10Call{id: i, client: i % nClients, peer: remotes[s.Draw("to", nPeers)]}
		c.method = s.Draw("method", c10Methods)
		if echoNil && s.Draw("put", 4) != 3 {
			c.method = c10PutValue
		}
		switch c.method {
		case c10PutValue:
			c.key = []byte(fmt.Sprintf("/c10/put-%02d", i))
			c.value = []byte(fmt.Sprintf("value-%02d", i))
			if s.Chance("empty-value", 1, 6) {
				c.value = nil
			}
			hasPut = true
		case c10GetValue:
			c.key = []byte(fmt.Sprintf("/c10/get-%02d", i))
		case c10FindNode:
			c.key = []byte(simnet.MakeID(0xc10, i))
		case c10AddProvider, c10GetProviders:
			m, err := mh.Sum([]byte(fmt.Sprintf("c10-content-%02d", i)), mh.SHA2_256, -1)
			if err != nil {
				panic(err)
			}
			c.key = m
		}
		if len(c.key) > 0 {
			byKey[string(c.key)] = c
		}
		base := sim.WithTag(context.Background(), fmt.Sprintf("c%02d", i))
		if !echoNil && s.Chance("traced", 1, 3) {
			// the spans of this call are recording (c10_trace.go)
			base, c.trace = c10Traced(base)
			s.Count("fault_traced_call")
		}
		c.ctx, c.cancel = context.WithCancel(base)
		byTag[sim.TagOf(c.ctx)] = c
		calls[i] = c
	}
	stop := false
	selfInfo := peer.AddrInfo{ID: u.Self.ID, Addrs: u.Self.Addrs}
	var ops opSet
	for cl := 0; cl < nClients; cl++ {
		cl := cl
		ops.Go(s, fmt.Sprintf("client%d", cl), func() (any, error) {
			for _, c := range calls {
				if c.client != cl {
					continue
				}
				s.Park("client", fmt.Sprintf("cl%d:c%02d", cl, c.id), nil, c)
				if stop {
					return nil, nil
				}
				c.started, c.startAt = true, s.Now()
				c.run(s, pm, selfInfo)
			}
			return nil, nil
		})
	}
	s.Quiesce()

	// ---- the scripted remote
	feedRemote := func() {
		for _, p := range pairs {
			data, _, _ := p.b.TakeDelivered()
			if len(data) == 0 {
				continue
			}
			for _, f := range p.atRemote.Feed(data) {
				m, err := decodeMsg(f)
				if err != nil {
					s.Violate("wire-garbage", "remote received an undecodable frame on %s", p.a.Name())
					continue
				}
				if m.GetType() != pb.Message_ADD_PROVIDER {
					p.reqs = append(p.reqs, m)
					if c := byKey[string(m.GetKey())]; c != nil && m.GetType() != pb.Message_PING {
						c.received++
					}
				}
			}
		}
	}
	// echoVeto: in the broad scenario no decodable frame without a record may
	// reach a PutValue call. Frames pair with requests by position on a stream
	// (a failed read resets the stream), so frame k is judged against request k;
	// frames beyond the requests received so far are judged as if a PUT_VALUE
	// could consume them.
	echoVeto := func(p *c10Pair, raw []byte) bool {
		if echoNil || !hasPut || !c10VetoEchoNil {
			return false
		}
		probe := frameParser{buf: append([]byte(nil), p.wrote.buf...)}
		base := len(p.wrote.Frames)
		for i, f := range probe.Feed(raw) {
			k := base + i
			if k < len(p.reqs) && p.reqs[k].GetType() != pb.Message_PUT_VALUE {
				continue
			}
			if m, err := decodeMsg(f); err == nil && m.Record == nil {
				return true
			}
		}
		return false
	}
	honestFor := func(req *pb.Message) []*simnet.Peer {
		return simnet.Nearest(others, simnet.KadOfKey(string(req.GetKey())), 3)
	}
	// answer produces the remote's reaction to request number p.answered.
	answer := func(p *c10Pair, benign bool) {
		req := p.reqs[p.answered]
		p.answered++
		call := byKey[string(req.GetKey())]
		if req.GetType() == pb.Message_PING {
			call = nil
		}
		ans := &c10Answer{}
		if call != nil {
			call.answers = append(call.answers, ans)
		}
		var raw []byte
		closeAfter, resetAfter := false, false
		wellFormed := func(mutate bool) {
			rng := newSubRng(s, "reply-seed")
			m, info := w.genMessage(rng, req, p.peer.ID, honestFor(req), mutate)
			ans.msg, ans.info, ans.kind = m, info, info.Kind()
			raw = encodeFrame(m)
		}
		item := 0
		pers := persistent[p.peer]
		switch {
		case benign:
			pers = nil
		case pers != nil:
			// a persistent responder: the same non-reply to every request on every stream
			item = pers.item
			s.Count("fault_persistent_" + pers.name)
		case s.Chance("hostile", hostile, 4):
			item = 1 + s.Draw("item", 13)
		}
		if echoNil && req.GetType() == pb.Message_PUT_VALUE && !benign {
			// the dedicated scenario: a decodable reply without a record
			// (0: the plain echo minus its record; 1-2: other fields mutated as
			// well; 3: the zero-length frame, which decodes as the empty message)
			item = []int{0, 1, 1, 13}[s.Draw("echo-shape", 4)]
		}
		switch item {
		case 0:
			wellFormed(false)
		case 1, 2, 3, 4, 5:
			wellFormed(true)
		case 6:
			ans.kind, ans.garbage = "garbage_raw", true
			raw = c10RandBytes(newSubRng(s, "junk-seed"), 1+s.Draw("junk-len", 300))
		case 7:
			ans.kind, ans.garbage = "garbage_framed", true
			raw = appendFrame(nil, c10RandBytes(newSubRng(s, "junk-seed"), 1+s.Draw("junk-len", 300)))
		case 8:
			ans.kind, ans.silent = "truncated_frame", true
			wellFormed(true)
			ans.msg, ans.info = nil, nil
			ans.kind = "truncated_frame"
			raw = raw[:1+s.Draw("cut", len(raw)-1)]
			if (pers != nil && pers.thenEOF) || (pers == nil && s.Chance("cut-then-eof", 1, 3)) {
				// the partial frame is followed by an orderly close
				closeAfter = true
				s.Count("fault_truncated_then_eof")
			}
		case 9:
			ans.kind, ans.over = "oversize_prefix", true
			var l [binary.MaxVarintLen64]byte
			over := uint64(network.MessageSizeMax) + 1 + uint64(s.Draw("over-by", 3))*uint64(1<<20)
			raw = append(l[:binary.PutUvarint(l[:], over)], c10RandBytes(newSubRng(s, "junk-seed"), 64)...)
		case 10:
			ans.kind, ans.silent = "silence", true
		case 11:
			how := 0
			if pers != nil {
				how = pers.close
			} else {
				how = s.Draw("close", 2)
			}
			switch how {
			case 0:
				ans.kind, resetAfter = "reset", true
			default:
				ans.kind, closeAfter = "eof", true
			}
		case 12:
			// the reply, followed by a second, unsolicited frame that the next
			// request on this stream will read as its answer
			wellFormed(true)
			ans.kind += "+extra_frame"
			extra := &pb.Message{Type: pb.Message_MessageType(s.Draw("extra-type", 7)), Key: []byte("stale"), Record: &recpb.Record{Key: []byte("stale"), Value: []byte("stale")}}
			raw = append(raw, encodeFrame(extra)...)
			s.Count("fault_extra_frame")
		case 13:
			// a zero-length frame decodes as the empty message
			ans.kind = "empty_frame"
			ans.msg, ans.info = &pb.Message{}, &c10Info{NoRecord: true}
			raw = []byte{0}
		}
		if len(raw) > 0 && echoVeto(p, raw) {
			// vetoed: answer honestly instead (the decision stays on the tape)
			s.Count("veto_put_echo_without_record")
			*ans = c10Answer{}
			m, info := w.genMessage(&subRng{x: 1}, req, p.peer.ID, honestFor(req), false)
			if m.Record == nil {
				m.Record = &recpb.Record{} // whichever request reads this frame finds a record
				info.NoRecord, info.WrongKey = false, true
			}
			ans.msg, ans.info, ans.kind = m, info, "honest(veto)"
			raw = encodeFrame(m)
			closeAfter, resetAfter = false, false
		}
		if ans.info != nil {
			for _, t := range ans.info.Tags {
				s.Count(t)
			}
		}
		switch {
		case ans.garbage, ans.over, ans.silent && ans.kind == "silence", ans.kind == "truncated_frame", ans.kind == "reset", ans.kind == "eof", ans.kind == "empty_frame":
			s.Count("fault_" + ans.kind)
		}
		s.Tracef("remote %s answers %s request %d: %s (%d bytes)", p.peer.Name, req.GetType(), p.answered-1, ans.kind, len(raw))
		if len(raw) > 0 {
			p.wrote.Feed(raw)
			_, _ = p.b.Write(raw)
		}
		if closeAfter {
			_ = p.b.CloseWrite()
		}
		if resetAfter {
			p.b.SimReset()
		}
	}

	allDone := func() bool {
		for _, c := range calls {
			if !c.done {
				return false
			}
		}
		return true
	}
	checked := map[int]bool{}
	checkReturned := func() {
		for _, c := range calls {
			if !c.done || checked[c.id] {
				continue
			}
			checked[c.id] = true
			c10JudgeCall(s, c, echoNil)
			if persistent[c.peer] != nil && c.panicMsg == "" && c.err != nil && c.received >= 2 {
				// the request was sent again after the first non-reply, and then the call gave up
				s.Count("probe_persistent_call_gave_up")
			}
		}
	}

	// ---- main loop
	const quiet = 10 * time.Minute // bound B: virtual time without any enabled event
	draining := false
	var idleFor time.Duration
	for s.Step() {
		feedRemote()
		checkReturned()
		if s.Failed() || allDone() {
			break
		}
		if s.Steps > s.MaxSteps*2/3 {
			draining = true
		}
		var acts []sim.Action
		for _, p := range s.Parked() {
			p := p
			switch p.Kind {
			case "client":
				acts = append(acts, sim.Action{ID: p.ID, Do: func() { s.Release(p, nil) }})
			case "open":
				// (streams always open: a failing dial is not a *response*; C11 covers it)
				acts = append(acts, sim.Action{ID: p.ID, Do: func() {
					if c := byTag[sim.TagOf(p.Ctx)]; c != nil {
						c.opens++
						if c.opens > c10MaxStreamsPerCall {
							// rule call-opens-too-many-streams; the stream is not opened, the
							// shut-down below cancels the call
							var kinds []string
							for _, a := range c.answers {
								kinds = append(kinds, a.kind)
							}
							s.Violate("call-opens-too-many-streams", "c%02d %s to %s (context without deadline) asks for stream number %d; the remote received its request %d time(s) and reacted with [%s]: a request whose reply does not arrive has to fail, this call goes round for as long as the remote keeps it up (bound: %d streams per call)",
								c.id, c10MethodNames[c.method], c.peer.Name, c.opens, c.received, strings.Join(kinds, ", "), c10MaxStreamsPerCall)
							return
						}
					}
					s.Release(p, nil)
				}})
			}
		}
		for _, st := range fab.Streams() {
			st := st
			n, eof := st.Pending()
			if n == 0 && !eof {
				continue
			}
			acts = append(acts, sim.Action{ID: "deliver:" + st.Name(), Do: func() {
				l := st.NextChunkLen()
				if !draining && l > 1 && s.Chance("split", 1, 6) {
					s.Count("fault_split_chunk")
					st.Deliver(1 + s.Draw("split-at", l-1))
				} else {
					st.Deliver(0)
				}
			}})
		}
		for _, p := range pairs {
			p := p
			if p.answered < len(p.reqs) && !p.b.IsReset() {
				acts = append(acts, sim.Action{ID: fmt.Sprintf("answer:%s:%d", p.b.Name(), p.answered), Do: func() { answer(p, draining) }})
			}
		}
		if len(acts) == 0 {
			// nothing but the client's own timers can make progress
			if idleFor >= quiet {
				break
			}
			s.Sleep(5 * time.Second)
			idleFor += 5 * time.Second
			continue
		}
		idleFor = 0
		if !draining && s.Chance("tick", 1, 10) {
			dt := []time.Duration{time.Second, 9999 * time.Millisecond, 10001 * time.Millisecond, 25 * time.Second}[s.Draw("dt", 4)]
			s.Tracef("step time+%v", dt)
			s.Count("time_advance")
			for _, p := range pairs {
				if p.answered < len(p.reqs) && dt > 9*time.Second {
					s.Count("fault_reply_late")
					break
				}
			}
			s.Sleep(dt)
			continue
		}
		s.Choose("next", acts)
	}
	feedRemote()
	checkReturned()

	// ---- bounded completion
	if !s.Failed() && !allDone() {
		if s.Steps > s.MaxSteps {
			s.Count("step_budget_exhausted")
		} else {
			var stuck []string
			for _, c := range calls {
				if c.started && !c.done {
					last := "no answer yet"
					if n := len(c.answers); n > 0 {
						last = "last answer: " + c.answers[n-1].kind
					}
					stuck = append(stuck, fmt.Sprintf("c%02d %s to %s (started at %v, %s)", c.id, c10MethodNames[c.method], c.peer.Name, c.startAt, last))
				}
			}
			if len(stuck) > 0 {
				s.Violate("call-wedged", "%d call(s) did not return although no event has been pending for %v of virtual time: %s", len(stuck), quiet, strings.Join(stuck, "; "))
			}
		}
	}

	// ---- witness, measures
	nOK, nErr, nHostile := 0, 0, 0
	for _, c := range calls {
		res := "-"
		if c.done {
			switch {
			case c.panicMsg != "":
				res = "panic"
			case c.err == nil:
				res = fmt.Sprintf("ok closer=%d provs=%d rec=%v", len(c.closer), len(c.provs), c.rec != nil)
				nOK++
			case errors.Is(c.err, dht.ErrReadTimeout):
				res = "timeout"
				nErr++
			default:
				res = "error"
				nErr++
			}
		}
		for _, a := range c.answers {
			if a.kind != "honest" {
				nHostile++
			}
		}
		s.Tracef("c%02d %s to %s started=%v done=%v at=%v: %s", c.id, c10MethodNames[c.method], c.peer.Name, c.started, c.done, c.doneAt, res)
	}
	s.Tracef("done ok=%d err=%d streams=%d resets=%d", nOK, nErr, fab.Opened, fab.Resets)
	s.State("ok=%d err=%d streams=%d hostile=%d", nOK, nErr, fab.Opened, nHostile)
	s.NonTrivial = nOK > 0 && nHostile > 0
	if fab.Opened > nPeers {
		s.Count("probe_retry_second_stream")
	}
	for _, p := range pairs {
		if len(p.reqs) > 1 {
			s.Count("probe_stream_reused")
		}
	}

	// ---- shut down
	stop = true
	for _, c := range calls {
		c.cancel()
	}
	for _, p := range s.ParkedKind("client") {
		s.Release(p, nil)
		s.Quiesce()
	}
	closeAndCensus(s, func() {
		_ = d.Close()
		_ = h.Close()
	})
	s.Finish()
}

// c10JudgeCall evaluates the oracle on one call that has returned.
func c10JudgeCall(s *sim.Sim, c *c10Call, echoNil bool) {
	name := fmt.Sprintf("c%02d %s", c.id, c10MethodNames[c.method])
	var last *c10Answer
	if n := len(c.answers); n > 0 {
		last = c.answers[n-1]
	}
	if c.panicMsg != "" {
		if c.method == c10PutValue && strings.Contains(c.panicMsg, "nil pointer dereference") && strings.Contains(c.panicSite, "ProtocolMessenger).PutValue") {
			// the known class (DESIGN §7 #1); only the putvalue-echo scenario generates it
			s.Violate("putvalue-echo-nil-record", "ProtocolMessenger.PutValue panicked on the caller's goroutine when the reply to PUT_VALUE was a decodable message without a record: %s at %s", c.panicMsg, c.panicSite)
		} else {
			s.Violate("caller-panic", "%s panicked on the caller's goroutine: %s at %s", name, c.panicMsg, c.panicSite)
		}
		return
	}
	if c.trace != nil {
		s.Count("probe_traced_call_returned")
		if c.err == nil && c.trace.attrs.Load() >= 2 {
			// the tracing-only block that describes the decoded response ran
			s.Count("probe_traced_response_described")
		}
	}
	if c.err != nil {
		switch {
		case errors.Is(c.err, dht.ErrReadTimeout):
			s.Count("probe_read_timeout_fired")
		case errors.Is(c.err, msgio.ErrMsgTooLarge):
			s.Count("probe_oversize_frame_rejected")
		case last != nil && last.garbage:
			s.Count("probe_garbage_rejected")
		case c.method == c10GetValue && last != nil && last.info != nil && last.info.WrongKey:
			s.Count("probe_wrong_key_rejected")
		}
		if echoNil && c.method == c10PutValue && last != nil && last.info != nil && last.info.NoRecord {
			s.Count("probe_put_echo_nil_survived")
		}
		return
	}
	if echoNil && c.method == c10PutValue && last != nil && last.info != nil && last.info.NoRecord {
		s.Count("probe_put_echo_nil_survived")
	}
	// successful return: the result must be sanitised
	if c.method == c10GetValue && c.rec != nil && string(c.rec.GetKey()) != string(c.key) {
		s.Violate("wrong-key-record-accepted", "%s for key %q returned a record filed under key %q", name, c.key, c.rec.GetKey())
	}
	c10CheckAddrInfos(s, name+" closer peers", c.closer)
	c10CheckAddrInfos(s, name+" providers", c.provs)
	if len(c.closer)+len(c.provs) > 0 {
		s.Count("probe_sanitised_result")
	}
	if last != nil && last.msg != nil {
		c10SentVsReturned(s, last.msg.GetCloserPeers(), c.closer)
		if c.method == c10GetProviders {
			c10SentVsReturned(s, last.msg.GetProviderPeers(), c.provs)
		}
	}
}
