//go:build all || c08

package scen

// C08 — provider searches yield only reported providers, bounded by count.
//
// One provider search (FindProvidersAsync) per run, on harness H1 (level A:
// the simulator is the message sender). Three clients: the standard client
// (this file), the dual client (c08_dual.go) and the accelerated client
// (c08_fullrt.go). World generation, scheduling loop and oracle are shared.
//
// What the oracle takes as observable:
//   * an item received on the result channel, stamped with the scheduler step
//     in which the consumer goroutine received it, and the close of the channel;
//   * a reply handed to a parked GET_PROVIDERS request ("delivered"), stamped
//     with the step of the release. A parked request whose context is done is
//     only ever let observe the cancellation, so a delivered reply always went
//     to a request the search was still waiting for;
//   * the sender's request log (step at which a request reached the seam).
//
// "Processed answer" (property wording) is taken to be: a reply delivered to a
// live request of the search no later than the step in which the result
// channel was closed. Soundness clauses (what may be yielded) use every reply
// delivered up to the yield; the completeness clause (count 0) is evaluated
// only for searches that were not cancelled and whose channel closed.
//
// Drawn variants added after seeded changes were missed:
//
//   * query-event subscription (all three clients). The caller's context may be
//     registered for routing query events (routing.RegisterForQueryEvents), the
//     way command-line "findprovs" callers do. The property quantifies over
//     every caller context, and every rule applies unchanged; a harness
//     goroutine drains the event channel at all times. Events are neither
//     traced nor used for decisions: the dual client forwards them through a
//     select that also serves the result channels, so which of them get
//     through before the count is reached is the Go runtime's choice.
//
//   * silent responders (fault). A responder drawn as silent takes a request
//     and does not answer it: its parked request is not offered to the
//     scheduler while the request's context is live (and observes the
//     cancellation once the context is done). The message sender is below the
//     client and has a time-out of its own in any real deployment; here that
//     time-out is longer than everything else in the run: only when nothing
//     else can be scheduled and `patience` seconds of virtual time passed
//     (30 s, plus the client's own per-operation time-out where it has one)
//     do the requests that are waiting on silent responders fail with a
//     sender time-out, and the search goes on. Up to that point the search is
//     simply not over (the standard client, for one, waits for requests that
//     were in flight when it reached the count or its end condition), so the
//     completion clauses are judged as usual once the channel is closed.
//     One liveness rule follows from "the result channel is always closed,
//     after completion":
//       - not-closed-after-timeout (accelerated client only): that client is
//         built with a per-operation time-out (WithTimeoutPerOperation, a value
//         the scenario draws) after which the operation is over by the
//         client's own contract, whatever the responders do. The channel is
//         therefore closed once that much virtual time plus 30 s passed with
//         nothing but requests to silent responders outstanding - whether the
//         count was reached before or not. (Reaching the count earlier than
//         that is covered too: a search that reached its count and is still
//         open after the time-out fails the same rule.)
//     The standard and the dual client have no time-out above the message
//     sender; for them a silent responder only delays the close until the
//     sender gives up, which is what the property allows ("closed after
//     completion", no bound on when).

import (
	"context"
	"fmt"
	"sort"
	"strings"
	"sync/atomic"
	"time"

	"github.com/ipfs/go-cid"
	dht "github.com/libp2p/go-libp2p-kad-dht"
	pb "github.com/libp2p/go-libp2p-kad-dht/pb"
	"github.com/libp2p/go-libp2p-kad-dht/records"
	"github.com/libp2p/go-libp2p/core/peer"
	"github.com/libp2p/go-libp2p/core/routing"
	ma "github.com/multiformats/go-multiaddr"
	mh "github.com/multiformats/go-multihash"

	"verif/sim"
	"verif/simds"
	"verif/simhost"
	"verif/simnet"
)

var c08Faults = []string{
	"fault_dial_fail", "fault_rpc_error", "fault_cancel", "time_advance", "cancel_observed",
	"probe_count_local_only", "probe_count_mid_search", "probe_count_unreached", "probe_repeat_with_addrs",
	"probe_cancel_mid_search", "probe_closed_after_cancel", "probe_count0_complete", "probe_no_peers",
	"probe_local_and_remote", "probe_late_reply_after_count", "probe_dup_named_suppressed", "probe_cancel_before_start",
	"fault_silent_responder", "probe_silent_cut_by_count", "probe_silent_abandoned_by_client", "fault_silent_sender_timeout", "probe_silent_held_search",
	"probe_query_events_subscribed", "probe_count_with_requests_in_flight",
}

var c08LazyFaults = []string{"probe_cancel_consumer_not_reading", "probe_lazy_consumer", "probe_cancel_with_provider_undelivered"}

func init() {
	sim.Register(&sim.Scenario{Prop: "C08", Name: "find-providers", Weight: 4, Run: func(s *sim.Sim) {
		s.MaxSteps = 600
		w := c08BuildStd(s)
		c08RunAndCheck(w)
		s.Finish()
	},
		Real: []string{"IpfsDHT.FindProvidersAsync / findProvidersAsyncRoutine", "query.go state machine incl. follow-up phase and stop function", "records.ProviderManager (local providers)", "ProtocolMessenger.GetProviders", "kbucket routing table", "pstoremem peerstore"},
		Stub: []string{"host.Host/network (simhost)", "pb.MessageSender (level A, simnet.Sender)", "remote peers (scripted provider and closer-peer lists; silent ones, on which the sender gives up only after everything else has drained)", "provider datastore (simds, no faults)", "provider-order shuffles (deterministic permutation through injected accessor)"},
		Faults: append(append(append([]string{}, c08Faults...), c08LazyFaults...),
			"probe_term_stopped", "probe_term_completed", "probe_term_starvation", "probe_followup_request", "probe_silent_held_after_count"),
	})
}

// ---------------------------------------------------------------------------
// world

type c08Named struct {
	ID     peer.ID
	NAddrs int
}

// c08Beh scripts one responder.
type c08Beh struct {
	DialFail bool
	ReqErr   bool
	Silent   bool // takes a request and never answers it (the request only ever observes its cancellation)
	Knows    []*simnet.Peer
	Provs    []c08Named // provider entries of its GET_PROVIDERS reply, in reply order
	K        int        // closer-peer list length of the network it lives in
}

type c08Cfg struct {
	Client     string
	N          int
	Count      int
	CancelAt   int
	FaultLevel int
	Silent     int  // 0: every responder answers; 1, 2: a few / many responders are silent
	QEvents    bool // the caller's context is registered for routing query events
}

type c08Yield struct {
	ID     peer.ID
	NAddrs int
	Step   int
}

type c08Delivery struct {
	Step  int
	From  peer.ID
	Kind  string // reply rpc-err cancel dial-ok dial-fail
	Provs []c08Named
	RPC   *simnet.RPC
}

// c08World is one generated instance plus everything observed about its run.
type c08World struct {
	s     *sim.Sim
	u     *simnet.Universe
	useed uint64
	host  *simhost.Host
	cfg   c08Cfg

	key    cid.Cid
	keyMH  []byte
	keyKad simnet.Kad

	pool  []*simnet.Peer // provider identities
	beh   map[peer.ID]*c08Beh
	local map[peer.ID]bool // stored locally as provider for the key

	// client under test
	find     func(ctx context.Context, c cid.Cid, count int) <-chan peer.AddrInfo
	closeSUT func()
	snds     []*simnet.Sender
	merged   bool // dual / accelerated client: a peer is never repeated
	// racyStop: reaching the count cancels the sub-searches from another
	// goroutine than the one that processes replies (dual). What happens in the
	// remainder of that step is decided by the Go scheduler (the channel is
	// closed in that step too, so the scheduled part of the run ends there, see
	// afterCount) and the stop clause only counts requests that reached the
	// sender with a live context in a later step.
	racyStop bool
	// lazy: the consumer takes an item only when the scheduler lets it (kind
	// "consume"), so the search can be cancelled while it is blocked handing
	// over a provider. With the dual client only in worlds in which one of the
	// two networks names providers (c08_dual.go): two sub-searches blocked on
	// their channels would make the merging select racy.
	lazy bool
	// oneHandOver (dual client with a lazy consumer, deterministic scenario): an
	// answer that names providers is offered to the scheduler only while the
	// consumer is waiting on the result channel (not parked at "consume"), i.e.
	// while nothing is queued for it anywhere. So at most one answer handler at a
	// time sits blocked on a sub-search channel. Otherwise, whenever the merging
	// goroutine drops an item it has already handed out (an address upgrade the
	// sub-search repeats, a peer named on both paths) it takes the next one at
	// once, two blocked handlers are let go in the same instant, and the order
	// in which they queue up again - the order of the following yields - is the
	// Go scheduler's (HARNESS pitfall 8). find-providers-dual-racy has no such
	// restriction.
	oneHandOver bool
	tablePeers  int
	// ownTimeout: the client was built with a time-out of its own for the whole
	// operation (accelerated client: WithTimeoutPerOperation, drawn by the
	// scenario); 0: nothing above the message sender bounds a request.
	ownTimeout time.Duration
	evCh       <-chan *dht.LookupEvent
	ctxWrap    func(context.Context) context.Context
	// dual client: LAN responders, and the sides on which a peer is stored as a
	// local provider (bit 1 WAN, bit 2 LAN); used by probes only
	lanPeer map[peer.ID]bool
	srcBits map[peer.ID]int

	// observations
	ops         opSet
	op          *Op
	yields      []c08Yield
	closed      bool
	closeStep   int
	startStep   int
	cancelStep  int
	cancelBusy  bool                 // requests or dials were parked when the context was cancelled
	cancelLazy  bool                 // the consumer was not reading when the context was cancelled
	silentHeld  bool                 // the run idled out with live requests to silent responders outstanding
	heldBy      string               // ... their names
	expired     map[*simnet.RPC]bool // requests to silent responders whose sender time-out has fired
	expiries    int                  // number of times the sender time-out fired
	heldAtCount bool                 // the sender time-out fired for a request outstanding since before the count was reached
	deliveries  []c08Delivery
	termStep    int
	termReason  string
	traced      int
	closeTraced bool
}

func c08Splitmix(x uint64) uint64 {
	x += 0x9e3779b97f4a7c15
	z := x
	z = (z ^ (z >> 30)) * 0xbf58476d1ce4e5b9
	z = (z ^ (z >> 27)) * 0x94d049bb133111eb
	return z ^ (z >> 31)
}

// c08Shuffle is the deterministic replacement of the repository's
// rand.Shuffle fields: seed 0 is the identity, otherwise the k-th call
// applies a permutation derived from (seed, k). Calls on one instance are
// never concurrent in these scenarios (one reply is processed per step).
func c08Shuffle(seed uint64) func(n int, swap func(i, j int)) {
	if seed == 0 {
		return func(int, func(i, j int)) {}
	}
	var ctr atomic.Uint64
	return func(n int, swap func(i, j int)) {
		x := seed*0x9e3779b97f4a7c15 + ctr.Add(1)
		for i := n - 1; i > 0; i-- {
			x = c08Splitmix(x)
			swap(i, int(x%uint64(i+1)))
		}
	}
}

func c08DrawShuffleSeed(s *sim.Sim, label string) uint64 {
	if !s.Chance(label, 3, 4) {
		return 0
	}
	return uint64(1 + s.Draw(label+"-seed", 1<<16))
}

func c08GenCfg(s *sim.Sim, client string) c08Cfg {
	c := c08Cfg{Client: client}
	switch s.Draw("size-class", 4) {
	case 0:
		c.N = s.Range("n", 1, 5)
	case 1:
		c.N = s.Range("n", 4, 12)
	default:
		c.N = s.Range("n", 8, 24)
	}
	c.Count = s.Draw("count", 7)
	c.FaultLevel = s.Draw("fault-level", 3)
	if s.Chance("cancel", 1, 4) {
		// 1 = the context is already cancelled when the search is started
		c.CancelAt = s.Range("cancel-at", 1, []int{6, 14, 40}[s.Draw("cancel-class", 3)])
	}
	c.Silent = []int{0, 0, 1, 2}[s.Draw("silent-level", 4)]
	c.QEvents = s.Chance("query-events", 1, 2)
	return c
}

// c08NewWorld creates universe, key and provider pool.
func c08NewWorld(s *sim.Sim, c c08Cfg) *c08World {
	w := &c08World{s: s, cfg: c, beh: map[peer.ID]*c08Beh{}, local: map[peer.ID]bool{}}
	w.useed = uint64(s.Draw("universe", 1<<16))
	w.u = simnet.NewUniverse(w.useed, c.N)
	keyStr := fmt.Sprintf("c08-key-%d", s.Draw("key", 1<<16))
	h, err := mh.Sum([]byte(keyStr), mh.SHA2_256, -1)
	if err != nil {
		panic(err)
	}
	w.keyMH = h
	w.key = cid.NewCidV1(cid.Raw, h)
	w.keyKad = simnet.KadOfKey(string(h))
	return w
}

// c08GenProviders draws the provider pool, the per-responder provider lists
// and returns the local provider entries to store.
func (w *c08World) c08GenProviders(responders []*simnet.Peer) []c08Named {
	s, u := w.s, w.u
	rng := newSubRng(s, "providers")
	nv := s.Range("pool", 0, 12)
	inPool := map[peer.ID]bool{}
	for i := 0; i < nv; i++ {
		var p *simnet.Peer
		switch r := rng.Intn(16); {
		case r == 0:
			p = u.Self
		case r <= 3 && len(responders) > 0:
			p = responders[rng.Intn(len(responders))]
		default:
			p = u.Add(fmt.Sprintf("v%02d", i), simnet.MakeID(w.useed^0xc08c08, i), []ma.Multiaddr{ma.StringCast(fmt.Sprintf("/ip4/7.%d.0.1/tcp/4001", i+1))})
		}
		if !inPool[p.ID] {
			inPool[p.ID] = true
			w.pool = append(w.pool, p)
		}
	}
	density := []int{1, 3, 6}[s.Draw("prov-density", 3)]
	addrBias := s.Draw("addr-bias", 3) // 0: coin, 1: mostly without, 2: mostly with
	withAddrs := func() int {
		switch addrBias {
		case 1:
			if rng.Intn(4) == 0 {
				return 1
			}
			return 0
		case 2:
			if rng.Intn(4) == 0 {
				return 0
			}
			return 1
		}
		return rng.Intn(2)
	}
	for _, r := range responders {
		b := w.beh[r.ID]
		if b == nil {
			continue
		}
		for _, p := range w.pool {
			if rng.Intn(8) < density {
				b.Provs = append(b.Provs, c08Named{p.ID, withAddrs()})
			}
		}
		// occasionally the same provider twice in one reply, address-less first
		if len(b.Provs) > 0 && rng.Intn(8) == 0 {
			e := b.Provs[rng.Intn(len(b.Provs))]
			b.Provs = append(b.Provs, c08Named{e.ID, 1 - e.NAddrs})
		}
		for i := len(b.Provs) - 1; i > 0; i-- {
			j := rng.Intn(i + 1)
			b.Provs[i], b.Provs[j] = b.Provs[j], b.Provs[i]
		}
	}
	var local []c08Named
	if lc := s.Draw("local-class", 6); lc > 2 {
		p := []int{0, 0, 0, 1, 3, 6}[lc]
		for _, q := range w.pool {
			if rng.Intn(8) < p {
				local = append(local, c08Named{q.ID, withAddrs()})
			}
		}
	}
	return local
}

// c08GenGraph gives every responder a drawn knowledge set and fault behaviour.
func (w *c08World) c08GenGraph(responders []*simnet.Peer, k int, label string) {
	s := w.s
	rng := newSubRng(s, label+"graph")
	density := []int{1, 3, 8}[s.Draw(label+"density", 3)]
	for _, p := range responders {
		b := &c08Beh{K: k}
		for _, q := range responders {
			if q != p && rng.Intn(8) < density {
				b.Knows = append(b.Knows, q)
			}
		}
		if w.cfg.FaultLevel > 0 {
			pct := []int{0, 10, 35}[w.cfg.FaultLevel]
			if rng.Intn(100) < pct {
				b.DialFail = true
			} else if rng.Intn(100) < pct {
				b.ReqErr = true
			}
		}
		if w.cfg.Silent > 0 && rng.Intn(100) < []int{0, 15, 45}[w.cfg.Silent] {
			b.Silent, b.DialFail, b.ReqErr = true, false, false
		}
		w.beh[p.ID] = b
	}
}

func c08DrawSeeds(s *sim.Sim, label string, responders []*simnet.Peer) []*simnet.Peer {
	if len(responders) == 0 || s.Chance(label+"no-seeds", 1, 12) {
		return nil
	}
	rng := newSubRng(s, label+"seeds")
	frac := 1 + s.Draw(label+"seed-frac", 4)
	var seeds []*simnet.Peer
	for _, p := range responders {
		if rng.Intn(4) < frac {
			seeds = append(seeds, p)
		}
	}
	if len(seeds) == 0 {
		seeds = []*simnet.Peer{responders[rng.Intn(len(responders))]}
	}
	return seeds
}

func (w *c08World) addrsOf(n c08Named) []ma.Multiaddr {
	if n.NAddrs == 0 {
		return nil
	}
	if p := w.u.ByID(n.ID); p != nil {
		return p.Addrs
	}
	return nil
}

func (w *c08World) storeLocal(store records.ProviderStore, entries []c08Named) {
	for _, e := range entries {
		if err := store.AddProvider(context.Background(), w.keyMH, peer.AddrInfo{ID: e.ID, Addrs: w.addrsOf(e)}); err != nil {
			panic(err)
		}
		w.local[e.ID] = true
	}
}

// c08BuildStd builds the world around one standard client.
func c08BuildStd(s *sim.Sim) *c08World {
	c := c08GenCfg(s, "std")
	w := c08NewWorld(s, c)
	k := s.Range("k", 1, 8)
	alpha := s.Range("alpha", 1, 5)
	beta := s.Range("beta", 1, k+1)
	h, err := newH1(s, w.u, k, alpha, beta, dht.Datastore(simds.New(s, "ds")))
	if err != nil {
		panic(err)
	}
	w.host = h.Host
	w.snds = []*simnet.Sender{h.Snd}
	responders := w.u.Peers[:c.N]
	w.c08GenGraph(responders, k, "")
	local := w.c08GenProviders(responders)

	dht.VerifSetShuffle(h.DHT, c08Shuffle(c08DrawShuffleSeed(s, "shuffle-remote")))
	if pm, ok := h.DHT.ProviderStore().(*records.ProviderManager); ok {
		records.VerifSetShuffle(pm, c08Shuffle(c08DrawShuffleSeed(s, "shuffle-local")))
	} else {
		panic("c08: provider store is not a *records.ProviderManager")
	}
	w.storeLocal(h.DHT.ProviderStore(), local)
	w.tablePeers = len(h.Seed(c08DrawSeeds(s, "", responders)))
	w.lazy = s.Chance("lazy-consumer", 1, 3)

	evCtx, evCancel := context.WithCancel(context.Background())
	regCtx, evCh := dht.RegisterForLookupEvents(evCtx)
	w.evCh = evCh
	w.ctxWrap = func(context.Context) context.Context { return regCtx }
	w.find = h.DHT.FindProvidersAsync
	w.closeSUT = func() {
		evCancel()
		_ = h.DHT.Close()
		_ = h.Host.Close()
	}
	s.Summary["cfg"] = fmt.Sprintf("client=std N=%d K=%d alpha=%d beta=%d count=%d pool=%d local=%d table=%d faults=%d silent=%d qevents=%v cancelAt=%d lazy=%v",
		c.N, k, alpha, beta, c.Count, len(w.pool), len(w.local), w.tablePeers, c.FaultLevel, c.Silent, c.QEvents, c.CancelAt, w.lazy)
	return w
}

// ---------------------------------------------------------------------------
// scheduling

func (w *c08World) isSearchReq(r *simnet.RPC) bool {
	return r != nil && r.Req.GetType() == pb.Message_GET_PROVIDERS && string(r.Req.GetKey()) == string(w.keyMH)
}

func (w *c08World) replyFor(r *simnet.RPC) (*pb.Message, []c08Named) {
	x := w.u.ByID(r.To)
	b := w.beh[r.To]
	var cands []*simnet.Peer
	for _, p := range b.Knows {
		if p != x {
			cands = append(cands, p)
		}
	}
	resp := &pb.Message{Type: r.Req.GetType(), Key: r.Req.GetKey(),
		CloserPeers: simnet.ToPB(simnet.Nearest(cands, simnet.KadOfKey(string(r.Req.GetKey())), b.K))}
	if !w.isSearchReq(r) {
		return resp, nil
	}
	for _, e := range b.Provs {
		m := &pb.Message_Peer{Id: []byte(e.ID)}
		for _, a := range w.addrsOf(e) {
			m.Addrs = append(m.Addrs, a.Bytes())
		}
		resp.ProviderPeers = append(resp.ProviderPeers, m)
	}
	named := make([]c08Named, len(b.Provs))
	for i, e := range b.Provs {
		named[i] = c08Named{e.ID, len(w.addrsOf(e))}
	}
	return resp, named
}

func (w *c08World) actions() []sim.Action {
	s := w.s
	var acts []sim.Action
	for _, p := range s.Parked() {
		p := p
		if p.Kind == "consume" {
			acts = append(acts, sim.Action{ID: p.ID, Do: func() { s.Release(p, nil) }})
			continue
		}
		if p.Kind != "dial" && p.Kind != "rpc" {
			continue
		}
		if p.Cancelled() {
			acts = append(acts, sim.Action{ID: "cancel>" + p.ID, Do: func() {
				d := c08Delivery{Step: s.Steps, Kind: "cancel"}
				switch x := p.Data.(type) {
				case peer.ID:
					d.From = x
				case *simnet.RPC:
					d.From, d.RPC = x.To, x
				}
				s.ReleaseCancelled(p)
				w.deliveries = append(w.deliveries, d)
			}})
			continue
		}
		switch p.Kind {
		case "dial":
			who := p.Data.(peer.ID)
			acts = append(acts, sim.Action{ID: p.ID, Do: func() {
				if b := w.beh[who]; b == nil || b.DialFail {
					s.Count("fault_dial_fail")
					s.Release(p, simhost.ErrDialFailed)
					w.deliveries = append(w.deliveries, c08Delivery{Step: s.Steps, From: who, Kind: "dial-fail"})
				} else {
					s.Release(p, nil)
					w.deliveries = append(w.deliveries, c08Delivery{Step: s.Steps, From: who, Kind: "dial-ok"})
				}
			}})
		case "rpc":
			r := p.Data.(*simnet.RPC)
			if b := w.beh[r.To]; b != nil && b.Silent {
				if !w.expired[r] {
					continue // not answered
				}
				acts = append(acts, sim.Action{ID: "timeout>" + p.ID, Do: func() {
					s.Count("fault_silent_sender_timeout")
					s.Release(p, simnet.Reply{Err: errSenderTimeout})
					w.deliveries = append(w.deliveries, c08Delivery{Step: s.Steps, From: r.To, Kind: "rpc-err", RPC: r})
				}})
				continue
			}
			if w.oneHandOver && w.isSearchReq(r) && r.To != w.u.Self.ID && len(s.ParkedKind("consume")) > 0 {
				if b := w.beh[r.To]; b != nil && !b.ReqErr && len(b.Provs) > 0 {
					continue // held back until the consumer is waiting on the channel, see oneHandOver
				}
			}
			acts = append(acts, sim.Action{ID: p.ID, Do: func() {
				if r.To == w.u.Self.ID {
					// the node asked itself (accelerated client with its own ID in
					// the crawled table): fails locally, like a swarm's dial to self
					s.Count("fault_self_asked")
					s.Release(p, simnet.Reply{Err: errDialSelf})
					w.deliveries = append(w.deliveries, c08Delivery{Step: s.Steps, From: r.To, Kind: "rpc-err", RPC: r})
					return
				}
				if b := w.beh[r.To]; b == nil || b.ReqErr {
					s.Count("fault_rpc_error")
					s.Release(p, simnet.Reply{Err: errReqFailed})
					w.deliveries = append(w.deliveries, c08Delivery{Step: s.Steps, From: r.To, Kind: "rpc-err", RPC: r})
					return
				}
				resp, named := w.replyFor(r)
				if len(named) > 0 {
					var l []string
					for _, n := range named {
						l = append(l, fmt.Sprintf("%s/%d", w.u.Name(n.ID), n.NAddrs))
					}
					s.Tracef("reply of %s names providers %s", w.u.Name(r.To), strings.Join(l, ","))
				}
				s.Release(p, simnet.Reply{Msg: resp})
				w.deliveries = append(w.deliveries, c08Delivery{Step: s.Steps, From: r.To, Kind: "reply", Provs: named, RPC: r})
			}})
		}
	}
	return acts
}

var errDialSelf = fmt.Errorf("sim: dial to self attempted")

var errSenderTimeout = fmt.Errorf("sim: no answer, the message sender gave up: %w", context.DeadlineExceeded)

// silentWaiting returns the requests to silent responders that are parked
// with a live context.
func (w *c08World) silentWaiting() []*simnet.RPC {
	var l []*simnet.RPC
	for _, p := range w.s.ParkedKind("rpc") {
		if r, ok := p.Data.(*simnet.RPC); ok && !p.Cancelled() {
			if b := w.beh[r.To]; b != nil && b.Silent {
				l = append(l, r)
			}
		}
	}
	return l
}

func (w *c08World) drainEvents() {
	if w.evCh == nil {
		return
	}
	for {
		select {
		case ev := <-w.evCh:
			if ev != nil && ev.Terminate != nil && w.termStep == 0 {
				w.termStep, w.termReason = w.s.Steps, ev.Terminate.Reason.String()
			}
		default:
			return
		}
	}
}

// traceYields adds the yields (and the close) observed since the last call to
// the trace. Called from the simulator goroutine at quiescent points only.
func (w *c08World) traceYields() {
	for ; w.traced < len(w.yields); w.traced++ {
		y := w.yields[w.traced]
		w.s.Tracef("yield %s addrs=%d", w.u.Name(y.ID), y.NAddrs)
	}
	if w.closed && !w.closeTraced {
		w.closeTraced = true
		w.s.Tracef("closed")
	}
}

// reachedStep returns the step in which the count-th distinct peer was
// yielded (0 if that never happened or count is 0).
func (w *c08World) reachedStep() int {
	if w.cfg.Count == 0 {
		return 0
	}
	seen := map[peer.ID]bool{}
	for _, y := range w.yields {
		seen[y.ID] = true
		if len(seen) == w.cfg.Count {
			return y.Step
		}
	}
	return 0
}

// run performs the search under the scheduler. It returns false when the
// step budget ran out (nothing is judged then).
func (w *c08World) run() bool {
	s, c := w.s, w.cfg
	base := context.Background()
	if w.ctxWrap != nil {
		base = w.ctxWrap(base)
	}
	if c.QEvents {
		// the caller subscribes to query events and reads them at all times
		evCtx, evCancel := context.WithCancel(base)
		defer evCancel()
		regCtx, qev := routing.RegisterForQueryEvents(evCtx)
		go func() {
			for range qev {
			}
		}()
		base = regCtx
	}
	ctx, cancel := context.WithCancel(base)
	defer cancel()

	s.Step()
	w.startStep = s.Steps
	if c.CancelAt == 1 {
		w.cancelStep = s.Steps
		s.Tracef("cancel before start")
		s.Count("fault_cancel")
		s.Count("probe_cancel_before_start")
		cancel()
	}
	s.Tracef("start client=%s count=%d", c.Client, c.Count)
	w.op = w.ops.Go(s, "FindProvidersAsync", func() (any, error) {
		ch := w.find(ctx, w.key, c.Count)
		for {
			if w.lazy {
				s.Park("consume", "item", nil, nil)
			}
			ai, ok := <-ch
			if !ok {
				break
			}
			w.yields = append(w.yields, c08Yield{ai.ID, len(ai.Addrs), s.Steps})
		}
		w.closed, w.closeStep = true, s.Steps
		return nil, nil
	})
	s.Quiesce()
	w.drainEvents()
	w.traceYields()

	// Patience: the loop gives up when nothing can be scheduled for this many
	// seconds of virtual time in a row. A client with a time-out of its own gets
	// that time-out on top.
	patience := 30 + int(w.ownTimeout/time.Second)
	w.expired = map[*simnet.RPC]bool{}
	doCancel := func() {
		w.cancelStep = s.Steps
		w.cancelBusy = len(s.ParkedKind("rpc"))+len(s.ParkedKind("dial")) > 0
		w.cancelLazy = len(s.ParkedKind("consume")) > 0
		s.Tracef("cancel")
		s.Count("fault_cancel")
		cancel()
		s.Quiesce()
		w.drainEvents()
		w.traceYields()
	}
	idle := 0
	for !w.op.Done {
		if w.racyStop && w.lazy && w.reachedStep() != 0 {
			break // see drainLazyAfterCount
		}
		if !s.Step() {
			break
		}
		if c.CancelAt > 0 && s.Steps >= c.CancelAt && w.cancelStep == 0 {
			doCancel()
			continue
		}
		if s.Chance("tick", 1, 8) {
			s.Sleep(time.Duration(1+s.Draw("tick-ms", 2000)) * time.Millisecond)
			s.Count("time_advance")
			w.drainEvents()
			w.traceYields()
			continue
		}
		acts := w.actions()
		if len(acts) == 0 {
			idle++
			if idle > patience {
				waiting := w.silentWaiting()
				if w.cancelStep != 0 || len(waiting) == 0 {
					break
				}
				if w.ownTimeout > 0 {
					w.silentHeld = true
					var l []string
					for _, r := range waiting {
						l = append(l, w.u.Name(r.To))
					}
					sort.Strings(l)
					w.heldBy = strings.Join(l, ",")
					break // judged by rule not-closed-after-timeout
				}
				// Nothing above the message sender bounds these requests: now the
				// sender gives up on them (scheduled like any other outcome).
				reached := w.reachedStep()
				for _, r := range waiting {
					w.expired[r] = true
					if reached != 0 && r.SentStep < reached {
						w.heldAtCount = true
					}
				}
				w.expiries++
				s.Tracef("sender time-out for %d silent request(s)", len(waiting))
				idle = 0
				patience = 5 // later rounds: the first one showed that time alone changes nothing
				continue
			}
			d := time.Second
			if w.ownTimeout == 0 && w.cancelStep == 0 && len(w.silentWaiting()) > 0 {
				// no timer of the client can fire: take the rest of the wait in one jump
				d, idle = time.Duration(patience-idle+1)*time.Second, patience
			}
			s.Sleep(d)
			w.drainEvents()
			w.traceYields()
			continue
		}
		idle = 0
		s.Choose("next", acts)
		w.drainEvents()
		w.traceYields()
	}
	w.drainEvents()
	if s.Failed() {
		return true
	}
	w.drainLazyAfterCount()
	if !w.op.Done && s.Steps > s.MaxSteps {
		s.Summary["budget"] = "step budget exhausted"
		s.Count("step_budget_exhausted")
		return false
	}
	if w.op.Done && w.reachedStep() != 0 {
		w.afterCount()
	}
	return true
}

// drainLazyAfterCount: dual client with a consumer that reads only when the
// scheduler lets it. The merging goroutine cancels the sub-searches in the
// step in which the consumer took the count-th peer; the consumer itself is
// parked again by then and has not seen the close yet. From there on the run
// is drained without draws and traces (racyStop): the consumer is let read
// until it has seen the close. A channel that is still open after that and
// after 30 s of virtual time is reported by rule not-closed.
func (w *c08World) drainLazyAfterCount() {
	s := w.s
	if !w.racyStop || !w.lazy || w.op.Done || w.reachedStep() == 0 || s.Steps > s.MaxSteps {
		return
	}
	for i := 0; i < 8 && !w.op.Done; i++ {
		ps := s.ParkedKind("consume")
		if len(ps) == 0 {
			break
		}
		s.Steps++
		s.Release(ps[0], nil)
		s.Quiesce()
	}
	if !w.op.Done {
		s.Sleep(30 * time.Second)
	}
	w.drainEvents()
}

// afterCount runs after the channel was closed with the count reached and
// before the caller's context is cancelled: whatever is still parked is
// answered (honestly; cancelled calls observe their cancellation), in
// canonical order, without draws and without traces, so that a client that
// keeps searching after the count was reached shows up in the request log.
// With the dual client (racyStop) this phase is also what keeps the racy
// remainder of the stop out of the trace: there the channel is closed in the
// very step in which the count is reached.
func (w *c08World) afterCount() {
	s := w.s
	reached := w.reachedStep()
	for i := 0; i < 60; i++ {
		s.Quiesce()
		if w.lateRequest(reached) != nil {
			return // reported by rule asked-after-count
		}
		var pick *sim.Parked
		for _, p := range s.Parked() {
			if p.Kind != "dial" && p.Kind != "rpc" {
				continue
			}
			if r, ok := p.Data.(*simnet.RPC); ok && !p.Cancelled() {
				if b := w.beh[r.To]; b != nil && b.Silent {
					continue // stays unanswered (the run is over before the sender gives up)
				}
			}
			pick = p
			break
		}
		if pick == nil {
			return
		}
		p := pick
		s.Steps++
		d := c08Delivery{Step: s.Steps}
		switch x := p.Data.(type) {
		case peer.ID:
			d.From = x
		case *simnet.RPC:
			d.From, d.RPC = x.To, x
		}
		switch {
		case p.Cancelled():
			d.Kind = "cancel"
			s.ReleaseCancelled(p)
		case p.Kind == "dial":
			if b := w.beh[d.From]; b == nil || b.DialFail {
				d.Kind = "dial-fail"
				s.Release(p, simhost.ErrDialFailed)
			} else {
				d.Kind = "dial-ok"
				s.Release(p, nil)
			}
		default:
			if b := w.beh[d.From]; b == nil || b.ReqErr {
				d.Kind = "rpc-err"
				s.Release(p, simnet.Reply{Err: errReqFailed})
			} else {
				resp, named := w.replyFor(d.RPC)
				d.Kind, d.Provs = "reply", named
				s.Release(p, simnet.Reply{Msg: resp})
			}
		}
		w.deliveries = append(w.deliveries, d)
	}
	s.Quiesce()
}

// lateRequest returns the first search request issued after the count was
// reached (nil if there is none, or the count was not reached).
func (w *c08World) lateRequest(reached int) *simnet.RPC {
	if reached == 0 {
		return nil
	}
	for _, snd := range w.snds {
		for _, r := range snd.Snapshot() {
			if !w.isSearchReq(r) {
				continue
			}
			late := r.SentStep >= reached
			if w.racyStop {
				late = r.SentStep > reached && r.CtxLive
			}
			if late {
				return r
			}
		}
	}
	return nil
}

// ---------------------------------------------------------------------------
// oracle

func c08RunAndCheck(w *c08World) {
	judged := w.run()
	if judged && !w.s.Failed() {
		w.check()
	}
	closeAndCensus(w.s, w.closeSUT)
}

func (w *c08World) check() {
	s, u, c := w.s, w.u, w.cfg

	if w.op.Panic != "" {
		s.Violate("panic", "FindProvidersAsync or its consumer panicked: %s", firstLine(w.op.Panic))
		return
	}

	// rule not-closed: the result channel is closed in every case. The loop only
	// ends without the close when nothing was parked any more and 30 s of
	// virtual time passed on top.
	if !w.closed {
		why := "search ran to its end"
		switch {
		case w.cancelStep != 0:
			why = fmt.Sprintf("context cancelled at step %d", w.cancelStep)
		case w.ownTimeout > 0 && w.silentHeld:
			// rule not-closed-after-timeout: the client's own per-operation
			// time-out has long passed.
			what := "the count was not reached"
			if r := w.reachedStep(); r != 0 {
				what = fmt.Sprintf("count=%d was reached at step %d", c.Count, r)
			}
			s.Violate("not-closed-after-timeout", "%s client built with a per-operation time-out of %v (%s): the only requests still outstanding are those to %s, which took the request and do not answer, and %v of virtual time passed with nothing else in flight, yet the result channel is still open; %d item(s) yielded",
				c.Client, w.ownTimeout, what, w.heldBy, w.ownTimeout+30*time.Second, len(w.yields))
			return
		case w.reachedStep() != 0:
			why = fmt.Sprintf("count reached at step %d", w.reachedStep())
		case w.tablePeers == 0:
			why = "no peers to ask"
		}
		s.Violate("not-closed", "result channel still open although nothing is in flight and 30 s of virtual time passed (%s); %d item(s) yielded", why, len(w.yields))
		return
	}

	// replies delivered, by named provider: earliest delivery step
	namedAt := map[peer.ID]int{}
	var replies []c08Delivery
	for _, d := range w.deliveries {
		if d.Kind != "reply" || !w.isSearchReq(d.RPC) {
			continue
		}
		replies = append(replies, d)
		for _, n := range d.Provs {
			if st, ok := namedAt[n.ID]; !ok || d.Step < st {
				namedAt[n.ID] = d.Step
			}
		}
	}

	// rule yield-unreported: every yielded peer is a local provider or was named
	// as provider in a reply delivered no later than the yield.
	perID := map[peer.ID][]c08Yield{}
	var order []peer.ID
	fromLocal, fromRemote := 0, 0
	for _, y := range w.yields {
		if _, ok := perID[y.ID]; !ok {
			order = append(order, y.ID)
		}
		perID[y.ID] = append(perID[y.ID], y)
		st, named := namedAt[y.ID]
		switch {
		case w.local[y.ID]:
			fromLocal++
		case named && st <= y.Step:
			fromRemote++
		default:
			s.Violate("yield-unreported", "yielded %s (step %d), which is neither stored locally as provider nor named as provider in any reply delivered by then", u.Name(y.ID), y.Step)
		}
	}

	// rule count-exceeded
	if c.Count > 0 && len(order) > c.Count {
		s.Violate("count-exceeded", "count=%d but %d distinct peers were yielded: %s", c.Count, len(order), names(u, order))
	}

	// rule repeat / repeat-merged
	for _, id := range order {
		ys := perID[id]
		if len(ys) == 1 {
			continue
		}
		if w.merged {
			s.Violate("repeat-merged", "%s client yielded %s %d times", c.Client, u.Name(id), len(ys))
			continue
		}
		if len(ys) == 2 && ys[0].NAddrs == 0 && ys[1].NAddrs > 0 {
			s.Count("probe_repeat_with_addrs")
			continue
		}
		var pat []string
		for _, y := range ys {
			pat = append(pat, fmt.Sprintf("%d addrs", y.NAddrs))
		}
		s.Violate("repeat", "%s yielded %d times (%s); a repeat is only allowed once, to add addresses the first yield lacked", u.Name(id), len(ys), strings.Join(pat, ", "))
	}

	// rule asked-after-count: once the count-th distinct peer has been yielded no
	// new request is issued. Standard and accelerated client: the count is
	// reached on the goroutine that processes the reply (or the local records),
	// every other goroutine of the search is blocked in that step, so a request
	// that reaches the sender in the same or a later step was issued afterwards.
	reached := w.reachedStep()
	nreq, inFlightAtCount, silentAsked, silentCut, silentAbandoned, silentTimedOut, selfAsked := 0, false, false, false, false, false, false
	for _, snd := range w.snds {
		for _, r := range snd.Snapshot() {
			if !w.isSearchReq(r) {
				continue
			}
			nreq++
			if r.To == u.Self.ID {
				selfAsked = true
			}
			if b := w.beh[r.To]; b != nil && b.Silent && r.CtxLive {
				silentAsked = true
				if reached != 0 && r.SentStep < reached && r.Cancelled {
					silentCut = true // abandoned by the client when the count was reached
				}
				if reached == 0 && w.cancelStep == 0 && r.Cancelled {
					silentAbandoned = true
					if w.ownTimeout > 0 && r.DoneAt-r.SentAt >= w.ownTimeout {
						silentTimedOut = true
					}
				}
			}
			if reached != 0 && r.SentStep < reached && (!r.Done || r.DoneStep > reached) {
				inFlightAtCount = true
			}
		}
	}
	if r := w.lateRequest(reached); r != nil {
		s.Violate("asked-after-count", "count=%d was reached at step %d, yet a GET_PROVIDERS request to %s was issued at step %d", c.Count, reached, u.Name(r.To), r.SentStep)
	}

	// rule missing-provider: count 0, not cancelled, search ended: every local
	// provider and every provider named in a processed answer was yielded.
	if c.Count == 0 && w.cancelStep == 0 {
		want := map[peer.ID]string{}
		for id := range w.local {
			want[id] = "stored locally"
		}
		for _, d := range replies {
			if d.Step > w.closeStep {
				continue
			}
			for _, n := range d.Provs {
				if _, ok := want[n.ID]; !ok {
					want[n.ID] = fmt.Sprintf("named by %s in the reply delivered at step %d", u.Name(d.From), d.Step)
				}
			}
		}
		var ids []peer.ID
		for id := range want {
			ids = append(ids, id)
		}
		sort.Slice(ids, func(i, j int) bool { return u.Name(ids[i]) < u.Name(ids[j]) })
		for _, id := range ids {
			if _, ok := perID[id]; ok {
				continue
			}
			if c.Client == "fullrt" && w.lazy {
				// Own rule id: with a consumer that is not reading at every instant
				// the accelerated client's "good enough" early exit (execOnMany
				// cancels the per-operation context once successes*2+failures
				// reach the number of peers, on its ticker, or on its time-out)
				// aborts a handler that is in the middle of handing over the
				// providers of an answer it already received. Recorded as a
				// finding of its own (see known_findings.json / report).
				s.Violate("fullrt-answer-cut-short", "accelerated client, count=0, consumer taking one item per step: search ended (channel closed at step %d) without yielding %s, %s; the handler of that answer was cut short by the client's own early-exit cancellation while it was handing providers to the consumer", w.closeStep, u.Name(id), want[id])
				continue
			}
			s.Violate("missing-provider", "count=0 search ended (channel closed at step %d) without yielding %s, %s", w.closeStep, u.Name(id), want[id])
		}
		s.Count("probe_count0_complete")
	}

	// reach
	if reached != 0 {
		if reached == w.startStep && nreq == 0 {
			s.Count("probe_count_local_only")
		} else if reached > w.startStep {
			s.Count("probe_count_mid_search")
		}
		for _, d := range replies {
			if d.Step > reached {
				s.Count("probe_late_reply_after_count")
				break
			}
		}
	} else if c.Count > 0 && w.cancelStep == 0 {
		s.Count("probe_count_unreached")
	}
	if silentAsked {
		s.Count("fault_silent_responder")
	}
	if silentCut {
		s.Count("probe_silent_cut_by_count")
	}
	if silentAbandoned {
		s.Count("probe_silent_abandoned_by_client")
	}
	if silentTimedOut {
		s.Count("probe_silent_cut_by_timeout")
	}
	if selfAsked {
		// the node itself was among the peers the search fanned out to, and the
		// channel was closed all the same (check() got here)
		s.Count("probe_self_among_closest")
		if w.cancelStep == 0 {
			s.Count("probe_self_asked_search_closed")
		} else if w.cancelBusy {
			s.Count("probe_self_asked_cancelled_search")
		}
	}
	if inFlightAtCount {
		s.Count("probe_count_with_requests_in_flight")
	}
	if c.QEvents {
		s.Count("probe_query_events_subscribed")
	}
	if w.expiries > 0 {
		s.Count("probe_silent_held_search")
	}
	if w.heldAtCount {
		// the count was reached and the search still waited for a request that
		// had been in flight at that moment until the sender gave up
		s.Count("probe_silent_held_after_count")
	}
	if w.cancelStep != 0 {
		if w.cancelBusy {
			s.Count("probe_cancel_mid_search")
		}
		if w.cancelLazy {
			s.Count("probe_cancel_consumer_not_reading")
			// ... and a provider the search already knew of (stored locally, or
			// named in a reply delivered before the cancellation) had not reached
			// the consumer, with the count not yet used up: the search (or the
			// merging goroutine of the dual client) was holding it for the
			// consumer when the context was cancelled.
			before := map[peer.ID]bool{}
			for _, y := range w.yields {
				if y.Step < w.cancelStep {
					before[y.ID] = true
				}
			}
			pending := false
			for id := range w.local {
				pending = pending || !before[id]
			}
			for _, d := range replies {
				if d.Step < w.cancelStep {
					for _, n := range d.Provs {
						pending = pending || !before[n.ID]
					}
				}
			}
			if pending && (c.Count == 0 || len(before) < c.Count) {
				s.Count("probe_cancel_with_provider_undelivered")
			}
		}
		if w.closeStep >= w.cancelStep {
			s.Count("probe_closed_after_cancel")
		}
	}
	if w.tablePeers == 0 {
		s.Count("probe_no_peers")
	}
	if w.lazy {
		s.Count("probe_lazy_consumer")
	}
	if fromLocal > 0 && fromRemote > 0 {
		s.Count("probe_local_and_remote")
	}
	dupNamed := 0
	for _, d := range replies {
		for _, n := range d.Provs {
			if ys := perID[n.ID]; len(ys) > 0 && ys[0].Step < d.Step {
				dupNamed++
			}
		}
	}
	if dupNamed > 0 {
		s.Count("probe_dup_named_suppressed")
	}
	if w.termReason != "" {
		s.Count("probe_term_" + strings.ToLower(w.termReason))
		for _, snd := range w.snds {
			for _, r := range snd.Snapshot() {
				if w.isSearchReq(r) && r.SentStep >= w.termStep && w.termReason != "cancelled" {
					s.Count("probe_followup_request")
					break
				}
			}
		}
	}
	s.NonTrivial = len(replies) > 0 && len(w.yields) > 0 && (reached != 0 || w.cancelStep != 0 || len(replies) > 1)
	s.State("client=%s count=%d reached=%v cancelled=%v replies=%d yields=%d distinct=%d local=%d", c.Client, c.Count, reached != 0, w.cancelStep != 0, len(replies), len(w.yields), len(order), fromLocal)
}
