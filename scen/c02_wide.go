//go:build all || c02

package scen

// C02, generator extensions "wide configurations" and "reply order" (used by
// all four C02 scenarios). No new rule: the existing rule ids judge the runs.
//
// Property clauses encoded:
//
//   * "... returns the globally nearest peer first, and returns exactly the K
//     globally nearest peers when every peer knows the whole network", "for
//     ... every (K, alpha, beta) with beta>=1" -> `converge-full`,
//     `converge-nearest`; "has received answers from the beta nearest
//     non-failed peers it learned" -> `terminate-early`; "has sent the request
//     at least once to every peer it returns" -> `returned-unasked`.
//     K is an input of the lookup (the BucketSize option). The scenarios used
//     to draw it from 1..8 only; a third of the runs now draws it from 9..48,
//     with beta from 1..K+1 and a network of up to 3K peers (so that "the K
//     nearest" is a proper subset of the network, replies carry K records, and
//     the result has K members), or keeps the small network (then K exceeds
//     the network and the lookup must return everybody).
//
//   * "replies with the K nearest peers it knows": the premise fixes WHICH
//     peers a reply names, not the order in which the records travel. The
//     scripted peers used to send them nearest first; the order is now drawn
//     per run: nearest first, farthest first, or a per-responder shuffle.
//
// Regressions this exposes: every bound on what the lookup accepts, tracks or
// returns that does not follow the configured K (a cap on the records read
// from one reply, on the size of the query peer set, of the result, of the
// follow-up phase, fixed-size buffers sized for the protocol's default K), and
// every place where the lookup takes the position of a record in a reply for
// its rank (reading only a prefix of the reply, taking the first record for
// the nearest).
//
// Soundness: the convergence theorem of DESIGN §5 C02(b) holds for every
// K >= 1 and treats a reply as a set; the unchanged lookup reads every record
// of a reply that has no more than 2K of them (honest replies have at most K)
// and ranks peers by its own distance computation.
//
// Probes (thresholds classify what was generated, they are not taken from the
// implementation): probe_wide_k_judged (a run with K above the small range
// reached the oracle), probe_wide_reply_16 / probe_wide_reply_32 (a reply
// naming at least 16 / 32 peers was delivered), probe_wide_result_16 /
// probe_wide_result_32 (an uncancelled lookup returned at least 16 / 32
// peers), probe_reply_reordered (a reply of two or more records went out in
// another order than nearest first).

import (
	"encoding/binary"
	"sort"

	pb "github.com/libp2p/go-libp2p-kad-dht/pb"
	"github.com/libp2p/go-libp2p/core/peer"

	"verif/sim"
	"verif/simnet"
)

var c02WideFaults = []string{"probe_wide_k_judged", "probe_wide_reply_16", "probe_wide_reply_32", "probe_wide_result_16", "probe_wide_result_32", "probe_reply_reordered"}

const c02SmallK = 8 // upper end of the K range the scenarios drew before

// drawWideK replaces, in a third of the runs, (K, beta) — and in two thirds of
// those the network size — of a generated configuration by a wide one.
func drawWideK(s *sim.Sim, c *lookupCfg) {
	if !s.Chance("wide-k", 1, 3) {
		return
	}
	c.K = s.Range("k-wide", c02SmallK+1, 48)
	c.Beta = s.Range("beta-wide", 1, c.K+1)
	switch s.Draw("n-wide", 3) {
	case 0: // network as drawn (often smaller than K)
	case 1:
		c.N = s.Range("n", c.K+1, 2*c.K)
	default:
		c.N = s.Range("n", 2*c.K, 3*c.K)
	}
}

const (
	orderNearestFirst = iota
	orderFarthestFirst
	orderShuffled
)

// replyOrder: the order in which the records of a reply go on the wire. A
// pure function of (seed, responder, record), so it does not depend on the
// order in which peers are asked.
type replyOrder struct {
	s    *sim.Sim
	mode int
	seed uint64
}

func drawReplyOrder(s *sim.Sim) *replyOrder {
	r := &replyOrder{s: s, mode: s.Draw("reply-order", 3)}
	if r.mode == orderShuffled {
		r.seed = uint64(s.Draw("reply-order-seed", 1<<20))
	}
	return r
}

func (r *replyOrder) String() string {
	return [...]string{"nearest-first", "farthest-first", "shuffled"}[r.mode]
}

func kad64(k simnet.Kad) uint64 { return binary.BigEndian.Uint64(k[8:16]) }

// arrange is the lookupCfg.Arrange hook (records arrive nearest first).
func (r *replyOrder) arrange(responder *simnet.Peer, recs []*pb.Message_Peer) []*pb.Message_Peer {
	if r.mode == orderNearestFirst || len(recs) < 2 {
		return recs
	}
	out := append([]*pb.Message_Peer(nil), recs...)
	switch r.mode {
	case orderFarthestFirst:
		for i, j := 0, len(out)-1; i < j; i, j = i+1, j-1 {
			out[i], out[j] = out[j], out[i]
		}
	case orderShuffled:
		base := bareMix(r.seed ^ kad64(responder.Kad))
		rank := make(map[*pb.Message_Peer]uint64, len(out))
		for _, m := range out {
			rank[m] = bareMix(base ^ kad64(simnet.KadOfPeer(peer.ID(m.Id))))
		}
		sort.SliceStable(out, func(i, j int) bool { return rank[out[i]] < rank[out[j]] })
	}
	for i := range out {
		if out[i] != recs[i] {
			r.s.Count("probe_reply_reordered")
			break
		}
	}
	return out
}

// wideProbes classifies what a run reached (called with the lookup judged).
func wideProbes(s *sim.Sim, o *lookupObs, res []peer.ID) {
	if o.cfg.K > c02SmallK {
		s.Count("probe_wide_k_judged")
	}
	big := 0
	for _, d := range o.deliveries {
		if d.Kind == "reply" && len(d.Peers) > big {
			big = len(d.Peers)
		}
	}
	if big >= 16 {
		s.Count("probe_wide_reply_16")
	}
	if big >= 32 {
		s.Count("probe_wide_reply_32")
	}
	if o.op.Err == nil && o.cancelStep == 0 {
		if len(res) >= 16 {
			s.Count("probe_wide_result_16")
		}
		if len(res) >= 32 {
			s.Count("probe_wide_result_32")
		}
	}
}
