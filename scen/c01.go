//go:build all || c01

package scen

import (
	"github.com/libp2p/go-libp2p/core/peer"

	"verif/sim"
	"verif/simnet"
)

// C01 scenarios: one GetClosestPeers against a scripted universe, the oracle
// recomputes the result from what the lookup was told (checkC01).
//
// Key space (drawC01Key). The property quantifies over "every key". A key is
// an arbitrary byte string; the strings a real node looks up most often are
// peer identities (FindPeer, the table refresh, the lookup for the node's own
// identity at bootstrap). So besides ordinary keys the generator draws a key
// that is the identity of
//   - a member of the universe (which may be a seed, may be named in replies,
//     may be rejected by the query filter, may fail its dial or its request),
//   - a peer that exists only in the lies of lying peers (never reachable),
//   - the local node itself.
// Nothing in the property makes such a key special: every clause is judged
// exactly as for an ordinary key ("at most K", "never the local node", "none
// of them had failed a dial or request when the search phase ended", "exactly
// the K nearest of the learned non-failed set"). The one documented
// particularity of the library (a peer whose identity IS the key is learned
// even when the query filter rejects it) only widens the learned set and is
// taken from the published Heard lists, as for every other peer.
//
// Rules added with the key space:
//   result-failed-on-wire  "none of them had failed a dial or request when the
//       lookup's search phase ended", judged against the simulator's own
//       delivery log instead of the lookup's events (independent of the events
//       being right): no returned peer had a failed dial or a failed request
//       for this key delivered to the lookup strictly before the step in which
//       the search phase ended. Judged only where "before the search phase
//       ended" is unambiguous: events consumed at once (no lazy consumption),
//       failure delivered before any cancellation.

// drawC01Key draws the kind of key; value 0 keeps the ordinary key.
func drawC01Key(s *sim.Sim, c *lookupCfg) {
	kind := []string{"plain", "plain", "plain", "peer", "peer", "peer", "ghost", "self"}[s.Draw("key-kind", 8)]
	if kind == "ghost" && !c.Lies {
		kind = "peer" // nobody ever names a ghost in a world without lies
	}
	switch kind {
	case "peer":
		i := s.Draw("key-peer", c.N)
		c.KeyFor = func(u *simnet.Universe) string { return string(u.Peers[i].ID) }
	case "ghost":
		// (ghost identities: see lookupCfg.KeyFor; the first K are the ones a
		// "non-existent peers first" lie names)
		i := s.Draw("key-ghost", c.K)
		c.KeyFor = func(*simnet.Universe) string { return string(simnet.MakeID(0xdead, i)) }
	case "self":
		c.KeyFor = func(u *simnet.Universe) string { return string(u.Self.ID) }
	}
	s.Summary["key"] = kind
	s.Count("probe_key_" + kind)
}

func init() {
	common := func(sc *sim.Scenario) *sim.Scenario {
		sc.Real = []string{"IpfsDHT.GetClosestPeers", "query.go state machine", "qpeerset", "lookup events", "kbucket routing table", "pstoremem peerstore", "ProtocolMessenger"}
		sc.Stub = []string{"host.Host/network (simhost)", "pb.MessageSender (level A, simnet.Sender)", "remote peers (scripted)"}
		sc.Faults = []string{"fault_dial_fail", "fault_rpc_error", "fault_lying_reply", "fault_cancel", "time_advance", "cancel_observed", "fault_bad_addr_presentation", "probe_event_consumed_with_calls_parked", "probe_named_bad_then_good",
			"probe_key_peer", "probe_key_ghost", "probe_key_self", "probe_target_learned", "probe_target_failed", "probe_target_failed_k_others_live", "probe_target_filter_rejected_learned", "probe_target_returned"}
		if sc.Name == "lookup-faulty" {
			sc.Faults = append(sc.Faults, c01ReqErrFaults()...)
		}
		return sc
	}
	sim.Register(common(&sim.Scenario{Prop: "C01", Name: "lookup-faulty", Weight: 3, Run: func(s *sim.Sim) {
		c := genLookupCfg(s, "random")
		c.FaultLevel = s.Draw("fault-level", 3)
		c.Lies = s.Chance("lies", 1, 2)
		drawC01Key(s, &c)
		switch s.Draw("filter-kind", 4) {
		case 1:
			c.AddrFilter = true // address-sensitive query filter
		case 2:
			c.Universe = "random-nofilter"
		}
		c.ReqErr = c01ReqErr(s) // the shape of a request failure (c01_reqerr.go)
		c.LazyEvents = s.Chance("lazy-events", 1, 4)
		if !c.LazyEvents && s.Chance("cancel", 1, 4) {
			// (a cancelled lookup drops events it cannot publish at once, so the
			// two are not combined)
			c.CancelAt = s.Range("cancel-at", 1, 40)
		}
		s.MaxSteps = 600
		o := runLookup(s, c)
		if o != nil && !s.Failed() {
			checkC01(s, o)
		}
		if o != nil {
			o.h.closeAndCensus()
		}
		s.Finish()
	}}))
	sim.Register(common(&sim.Scenario{Prop: "C01", Name: "lookup-clean", Weight: 1, Run: func(s *sim.Sim) {
		c := genLookupCfg(s, "random")
		drawC01Key(s, &c)
		s.MaxSteps = 600
		o := runLookup(s, c)
		if o != nil && !s.Failed() {
			checkC01(s, o)
		}
		if o != nil {
			o.h.closeAndCensus()
		}
		s.Finish()
	}}))
}

// checkC01 evaluates the C01 oracle on one finished lookup.
func checkC01(s *sim.Sim, o *lookupObs) { checkC01x(s, o, nil) }

// checkC01x: div != nil when the node runs the per-response IP-diversity
// filter (c01_diversity.go); it supplies that filter's verdicts per reply.
func checkC01x(s *sim.Sim, o *lookupObs, div *c01Div) {
	u, self, K := o.h.U, o.h.U.Self.ID, o.cfg.K
	res, _ := o.op.Result.([]peer.ID)

	// rule shape: <= K distinct peers, never self, strictly ascending distance
	if len(res) > K {
		s.Violate("shape-len", "lookup returned %d peers, K=%d", len(res), K)
	}
	seen := map[peer.ID]bool{}
	for i, p := range res {
		if p == self {
			s.Violate("shape-self", "result contains the local node")
		}
		if seen[p] {
			s.Violate("shape-dup", "result contains %s twice", u.Name(p))
		}
		seen[p] = true
		if i > 0 {
			a, b := simnet.KadOfPeer(res[i-1]).Xor(o.keyKad), simnet.KadOfPeer(p).Xor(o.keyKad)
			if !a.Less(b) {
				s.Violate("shape-order", "result not strictly ascending at %d: %s", i, names(u, res))
			}
		}
	}

	v, bad := o.view()
	if bad != "" {
		s.Violate("events-wellformed", "%s", bad)
		return
	}
	if o.op.Err != nil && len(o.events) == 0 {
		// lookup failed before starting (no seeds); nothing to compare
		return
	}

	// rule seeds: the lookup starts from the K nearest members of the table
	wantSeeds := append([]peer.ID(nil), o.table...)
	simnet.SortByDistance(wantSeeds, o.keyKad)
	if len(wantSeeds) > K {
		wantSeeds = wantSeeds[:K]
	}
	if !sameSet(v.seeds, wantSeeds) {
		s.Violate("seeds", "lookup seeded with {%s}, K nearest table members are {%s}", sortedNames(u, v.seeds), sortedNames(u, wantSeeds))
	}

	// rule events-vs-wire
	dialed := map[peer.ID]bool{}
	for _, p := range o.h.Host.DialLog {
		dialed[p] = true
	}
	asked := map[peer.ID]bool{}
	for _, r := range o.h.Snd.Snapshot() {
		if string(r.Req.GetKey()) == o.cfg.Key {
			asked[r.To] = true
		}
	}
	for p := range v.requested {
		if !dialed[p] && !asked[p] {
			s.Violate("event-request-unsent", "Request event names %s but no dial or request ever reached it", u.Name(p))
		}
	}
	for _, p := range v.causeMismatch {
		s.Violate("event-cause-mismatch", "a Response event reports the outcome of %s under another peer's cause or together with other peers' outcomes", u.Name(p))
	}
	delivAt := map[int]delivery{}
	firstReply := map[peer.ID]delivery{}
	firstFail := map[peer.ID]delivery{}
	for _, d := range o.deliveries {
		if d.Kind != "dial-ok" {
			delivAt[d.Step] = d
		}
		if d.Kind == "reply" {
			if _, ok := firstReply[d.Peer]; !ok {
				firstReply[d.Peer] = d
			}
		} else if d.Kind != "dial-ok" {
			if _, ok := firstFail[d.Peer]; !ok {
				firstFail[d.Peer] = d
			}
		}
	}
	// find the delivery an event refers to: published in the very step of the
	// delivery, or (lazy event consumption) the peer's first delivery of that
	// kind at an earlier step
	replyFor := func(p peer.ID, st int) (delivery, bool) {
		if o.cfg.LazyEvents {
			d, ok := firstReply[p]
			return d, ok && d.Step <= st
		}
		d, ok := delivAt[st]
		return d, ok && d.Peer == p && d.Kind == "reply"
	}
	failFor := func(p peer.ID, st int) (delivery, bool) {
		if o.cfg.LazyEvents {
			d, ok := firstFail[p]
			return d, ok && d.Step <= st
		}
		d, ok := delivAt[st]
		return d, ok && d.Peer == p && (d.Kind == "dial-fail" || d.Kind == "rpc-err" || d.Kind == "cancel")
	}
	// namedGood[x]: x was presented with a good address in a reply delivered so far
	everGood := func(x peer.ID, upTo int) bool {
		for _, d := range o.deliveries {
			if d.Kind == "reply" && d.Step < upTo && d.Good[x] {
				return true
			}
		}
		return false
	}
	tblSet := idSet(o.table)
	for p, st := range v.queried {
		d, ok := replyFor(p, st)
		if !ok {
			s.Violate("event-queried-unanswered", "Response event says %s answered (step %d) but the simulator delivered no reply from it then", u.Name(p), st)
			continue
		}
		// heard agrees with the reply: nothing invented, nothing dropped
		reply := d.Peers
		inReply := idSet(reply)
		heard := v.heardBy[p]
		var divMay, divMust map[peer.ID]bool
		if div != nil {
			divMay, divMust = div.verdicts(d.Step, K, self)
			div.probes(d.Step, K, self, divMay, divMust)
		}
		for _, hp := range heard {
			if divMust[hp] && string(hp) != o.cfg.Key {
				s.Violate("event-heard-filtered", "Response event for %s lists %s although its IP group is over-represented in that reply (more than %d distinct peers)", u.Name(p), u.Name(hp), div.hi())
			}
			if !inReply[hp] {
				s.Violate("event-heard-invented", "Response event for %s lists %s which its reply did not contain", u.Name(p), u.Name(hp))
			}
			if hp == self {
				s.Violate("event-heard-self", "Response event for %s lists the local node", u.Name(p))
			}
			if o.cfg.Deny[hp] && string(hp) != o.cfg.Key {
				s.Violate("event-heard-filtered", "Response event for %s lists %s which the query filter rejects", u.Name(p), u.Name(hp))
			}
			if o.cfg.AddrFilter && !d.Good[hp] && !tblSet[hp] && !o.seeded[hp] && !everGood(hp, d.Step) && string(hp) != o.cfg.Key {
				s.Violate("event-heard-filtered", "Response event for %s lists %s although it has only ever been named without a filter-passing address", u.Name(p), u.Name(hp))
			}
		}
		capped := reply
		if len(capped) > 2*K {
			capped = capped[:2*K]
		}
		hs := idSet(heard)
		for _, rp := range capped {
			if rp == self || (o.cfg.Deny[rp] && string(rp) != o.cfg.Key) {
				continue
			}
			if o.cfg.AddrFilter && !d.Good[rp] && string(rp) != o.cfg.Key {
				continue // presented without a filter-passing address: may be dropped
			}
			if divMay[rp] {
				if divMust[rp] && !v.learned[rp] {
					s.Count("probe_div_crowded_peer_never_learned")
				}
				continue // one of its IP groups may count as over-represented in this reply
			}
			if o.cfg.AddrFilter && !tblSet[rp] {
				for _, e := range o.deliveries {
					if e.Kind == "reply" && e.Step < d.Step && !e.Good[rp] && idSet(e.Peers)[rp] {
						s.Count("probe_named_bad_then_good")
						break
					}
				}
			}
			if !hs[rp] {
				s.Violate("event-heard-dropped", "reply of %s named %s (within the first 2K) but the Response event omits it", u.Name(p), u.Name(rp))
			}
		}
	}
	for p, st := range v.unreach {
		if _, ok := failFor(p, st); !ok {
			s.Violate("event-unreachable-unfailed", "Response event says %s is unreachable (step %d) but no failure was delivered for it then", u.Name(p), st)
		}
	}
	// every reply/failure delivered during the search phase has its event
	// (with lazy event consumption the lookup runs behind the deliveries and may
	// legitimately end before it reaches one: not judged there)
	for _, d := range o.deliveries {
		if d.Kind == "dial-ok" || o.cfg.LazyEvents {
			continue
		}
		if _, req := v.requested[d.Peer]; !req {
			continue // not a search-phase query of this lookup
		}
		if d.RPC != nil && string(d.RPC.Req.GetKey()) != o.cfg.Key {
			continue
		}
		inSearch := d.Step < v.termStep || (v.termIdx >= 0 && d.Step == v.termStep)
		if o.cancelStep != 0 && d.Step >= o.cancelStep {
			inSearch = false
		}
		if !inSearch {
			continue
		}
		_, q := v.queried[d.Peer]
		_, f := v.unreach[d.Peer]
		if d.Kind == "reply" && !q {
			s.Violate("event-missing-response", "reply from %s delivered at step %d (search ended at %d) has no Response event", u.Name(d.Peer), d.Step, v.termStep)
		}
		if d.Kind != "reply" && !f {
			s.Violate("event-missing-unreachable", "failure of %s delivered at step %d (search ended at %d) has no Response event", u.Name(d.Peer), d.Step, v.termStep)
		}
	}

	// rule result: exactly the K nearest of learned \ failed
	want := o.expectedResult(v)
	if len(want) != len(res) {
		s.Violate("result", "returned [%s], K nearest learned non-failed peers are [%s]", names(u, res), names(u, want))
	} else {
		for i := range want {
			if want[i] != res[i] {
				s.Violate("result", "returned [%s], K nearest learned non-failed peers are [%s]", names(u, res), names(u, want))
				break
			}
		}
	}
	// every returned peer was in the table at start or named in a processed reply
	tbl := idSet(o.table)
	for _, p := range res {
		named := false
		for _, hl := range v.heardBy {
			for _, hp := range hl {
				named = named || hp == p
			}
		}
		if !tbl[p] && !named {
			s.Violate("result-unlearned", "returned peer %s was neither in the table nor named in a processed reply", u.Name(p))
		}
	}

	// rule result-failed-on-wire (see the header): the simulator's own log of
	// failures it delivered, not the lookup's account of them
	if !o.cfg.LazyEvents {
		inRes := idSet(res)
		for _, d := range o.deliveries {
			if d.Kind != "dial-fail" && d.Kind != "rpc-err" {
				continue
			}
			if d.RPC != nil && string(d.RPC.Req.GetKey()) != o.cfg.Key {
				continue
			}
			if d.Step >= v.termStep || (o.cancelStep != 0 && d.Step >= o.cancelStep) {
				continue
			}
			if inRes[d.Peer] {
				s.Violate("result-failed-on-wire", "returned peer %s had failed (%s delivered at step %d, search phase ended at step %d); returned [%s]", u.Name(d.Peer), d.Kind, d.Step, v.termStep, names(u, res))
			}
		}
	}

	// probes of the key space: the key is a peer's identity and the lookup met it
	if tgt := peer.ID(o.cfg.Key); u.ByID(tgt) != nil && tgt != self {
		if v.learned[tgt] {
			s.Count("probe_target_learned")
			if o.cfg.Deny[tgt] {
				s.Count("probe_target_filter_rejected_learned")
			}
		}
		if _, f := v.unreach[tgt]; f {
			s.Count("probe_target_failed")
			if len(want) == K {
				s.Count("probe_target_failed_k_others_live")
			}
		}
		if idSet(res)[tgt] {
			s.Count("probe_target_returned")
		}
	}

	s.NonTrivial = len(v.queried) > 0 && (len(v.unreach) > 0 || s.Stats["fault_lying_reply"] > 0 || o.cancelStep > 0 || len(o.cfg.Deny) > 0)
	s.State("reason=%s q=%d u=%d res=%d", v.reason, len(v.queried), len(v.unreach), len(res))
	s.Count("probe_term_" + v.reason)
	if len(res) == K {
		s.Count("probe_full_result")
	}
	if len(v.unreach) > 0 {
		s.Count("probe_lookup_with_failures")
	}
}
