//go:build all || c14

package scen

// C14 scenario "fullrt-waiters": Close of the accelerated DHT while callers
// wait for the instance itself, not for its environment.
//
// Most operations of the other C14 workloads are, at the instant Close is
// called, inside an environment seam (an RPC, a dial, a datastore call): Close
// ends the context of that call, the seam returns, the operation fails. An
// operation can also be in flight without having anything out at a seam: it
// has handed a request to one of the instance's background loops and waits
// until the loop gets round to it. FullRT.TriggerRefresh is such a call - it
// waits until the crawl loop takes the request, and the loop takes nothing
// while a crawl is running. Close ends exactly that loop, so after Close
// nobody is left who could ever serve the caller; only Close itself can
// release it.
//
// Generator: FullRT with the stub crawler (a crawl parks at the "crawl" seam
// and lasts as long as the scheduler lets it), 2-4 TriggerRefresh callers whose
// start is a scheduler decision, at most one further routing operation, the
// drawn option combinations of the "fullrt" scenario (subsystems, stores,
// parked datastore). The callers' contexts outlive the instance
// (context.Background with a tag) unless the scheduler makes a caller give up
// while it waits (c14Flow.mayAbandon: one more way an in-flight call ends
// before Close). Close is aimed - drawn - either at a step count or at the
// first instant at which a drawn number of callers are waiting while a crawl
// is in progress.
//
// Oracle: no new rule. The clause "[Close] is safe while operations are in
// flight: those operations finish or fail without panic or deadlock" is
// op-hang / op-panic of c14Flow (c14.go): every operation that was in flight
// when Close was called has returned once Close returned, everything parked
// was released and B of virtual time passed; "returns only after all
// goroutines the instance started have exited" and "may be called repeatedly"
// are close-hang, close-early, second-close-*, leak as in "fullrt". The class
// this exposes: any regression in which a call that waits on an internal
// hand-over of the instance (request channel, queue, reply channel) is not
// woken by Close and stays blocked for as long as its own context lives.
//
// Replayability on the unchanged tree: callers are started one per scheduler
// decision and queue on the request channel in that order; the crawl loop is
// the only receiver; with the crawl interval out of reach the loop's select
// never has two ready cases (a request is only ever pending while the loop is
// inside a crawl, and when Close arrives every waiting caller sees the closed
// instance before the cancelled crawl is released).
//
// Probes: probe_close_with_waiters (Close issued while at least one caller
// waits for the busy crawl loop), probe_close_with_several_waiters,
// probe_waiter_served (a caller's request was taken by the crawl loop: the
// call returned nil), fault_caller_ctx_ended (a waiting caller gave
// up).

import (
	"context"

	"github.com/libp2p/go-libp2p-kad-dht/fullrt"

	"verif/sim"
	"verif/simnet"
)

func init() {
	sim.Register(&sim.Scenario{Prop: "C14", Name: "fullrt-waiters", Weight: 2, Run: func(s *sim.Sim) { runC14FullRTWith(s, true) },
		Real: []string{"fullrt.NewFullRT / FullRT.Close", "runCrawler (request hand-over to the crawl loop), runSubscriber", "FullRT.TriggerRefresh calls waiting for the busy crawl loop when Close arrives", "records.ProviderManager / ValueStore through FullRT"},
		Stub: []string{"host.Host/network/streams (simhost)", "pb.MessageSender (level A: every RPC parks)", "crawler.Crawler (stub: a crawl parks until the scheduler ends it)", "datastore (simds: operations park)", "crypto/rand (constant per run)"},
		Faults: append([]string{"probe_close_with_waiters", "probe_close_with_several_waiters", "probe_waiter_served", "fault_caller_ctx_ended", "probe_close_during_crawl", "probe_cfg_providers_disabled", "probe_cfg_values_disabled", "probe_table_filled"},
			append(c14OverlapFaults, c14CommonFaults...)...),
	})
}

// c14FullRTWaiters registers the workload of "fullrt-waiters" on f and returns
// the function that counts the callers waiting for the crawl loop right now
// (meaningful at quiescent points only).
func c14FullRTWaiters(f *c14Flow, frt *fullrt.FullRT, u *simnet.Universe, more map[string]func(ctx context.Context) (any, error)) func() int {
	s := f.s
	const trig = "trigger-crawl"
	// a caller that waits may give up (scheduler choice); other operations keep
	// their context
	f.mayAbandon = func(c *c14Client) bool { return c.name == trig }
	var callers []*c14Client
	for i, n := 0, s.Range("waiters", 2, 4); i < n; i++ {
		callers = append(callers, f.client(trig, func(ctx context.Context) (any, error) { return nil, frt.TriggerRefresh(ctx) }))
	}
	delete(more, trig) // the further operation is a routing operation
	c14RoutingOps(f, frt, u, s.Range("ops", 0, 1), more)
	// A started call that has not returned at a quiescent point sits in
	// TriggerRefresh's hand-over (the call has no other blocking point).
	waiting := func() int {
		n := 0
		for _, c := range callers {
			if c.started && !c.op.Done && !c.abandoned {
				n++
			}
		}
		return n
	}
	served := map[*c14Client]bool{}
	aim := 0
	if s.Chance("aim-at-waiters", 1, 2) {
		aim = s.Range("aim-waiters", 1, len(callers))
	}
	f.closeNow = func() bool {
		for _, c := range callers {
			if c.started && c.op.Done && !c.abandoned && !served[c] {
				served[c] = true
				if c.op.Err == nil {
					s.Count("probe_waiter_served")
				}
			}
		}
		return aim > 0 && waiting() >= aim
	}
	return waiting
}
