//go:build all || c04

package scen

// C04, inputs and seams added in wave 6. None of them adds a clause: every rule
// named below is one of c04World.check / provenance, and each is a clause of the
// property text read for an input the generator did not draw before.
//
// 1. Requested keys OUTSIDE the configured validator's namespaces (c04KeyClass).
//    The clients are built with a real record.NamespacedValidator (the default
//    one plus the harness' rank validator under "r"); the oracle judges with a
//    NamespacedValidator of its own making (c04NSV: the public-key validator
//    under "pk", the rank validator under "r"). "The configured validator
//    accepts [a value] for the requested key" is a statement about THAT
//    validator: for a key in a namespace nobody registered, a key without a
//    namespace, without a leading slash, or consisting of a namespace only, it
//    accepts nothing, whatever the responders serve and whatever sits in local
//    storage - records that the rank validator itself would gladly accept
//    included. Rules (unchanged): yield-invalid, yield-invalid-local
//    ("only yield values that the configured validator accepts for the
//    requested key"), notfound-error ("if no valid value was supplied the
//    result is not-found, never an invalid ... record"). One drawn class is the
//    opposite boundary: the registered namespace with an empty remainder
//    ("/r/"), for which the configured validator does accept values - the
//    ordinary rules apply.
//    Local storage for such keys cannot be filled through the client (PutValue
//    validates), so the record is written by ANOTHER value store over the same
//    datastore - the repository's own records.ValueStore, configured with a
//    validator that accepts the namespace (the node ran with another validator
//    set before; the harness does not mirror the datastore key layout).
//
// 2. A client with NO starting points (c04Cfg.NoPeers): the standard and the
//    dual client with empty routing tables, the accelerated client while its
//    first crawl is still running or after a crawl that found nobody. "The
//    final value is ranked at least as good as every valid value supplied by
//    local storage" does not depend on there being anybody to ask: rules
//    best-known / valid-value-lost with the local record as the only supplier,
//    notfound-error when local storage holds nothing valid.
//
// 3. The VALIDATOR as a scheduler-owned seam (c04Cfg.SlowVal, accelerated
//    client, eager consumers): Validate parks (kind "validate", labelled by key
//    and value) and the scheduler decides when each validation completes
//    relative to the delivery of other peers' answers and to other validations
//    - a validator that checks signatures takes time, and the client's per-peer
//    workers run concurrently. Rules (unchanged): yield-invalid / yield-miskeyed
//    / yield-unsupplied for whatever comes out; best-known / valid-value-lost
//    for every valid value whose validation COMPLETED at a step before which
//    the output was still open (that is when "the answer was processed";
//    c04Supply.OpenBefore is set at that step instead of the delivery step).
//    Left out, for determinism and soundness:
//      - the standard client: its workers hand an approved record over under
//        the lookup's own context, which the lookup cancels when the closest
//        peers have answered; a validation completing after that meets a select
//        with two ready cases (HARNESS pitfall 3), and "processed before the
//        search ended" is not observable for it. The dual client wraps two of
//        them (and validates the local record twice in the same instant,
//        pitfall 2).
//      - cancelling the caller's context while a validation is parked (the
//        value loop then selects between a ready value and a done context:
//        pitfall 3); the cancellation is postponed until no validation is
//        parked.
//      - values that expire while the search runs (as in the lazy scenarios:
//        the property does not say at which instant of a long validation "the
//        validator accepts" is read).
//      - more than three validations parked at once: replies to GET_VALUE are
//        held back meanwhile (keeps the menu small; one reply is delivered per
//        step, so two validations never start in the same step and the
//        per-label sequence numbers are schedule-determined, pitfall 2).

import (
	"context"
	"fmt"
	"hash/fnv"
	"sync/atomic"

	pb "github.com/libp2p/go-libp2p-kad-dht/pb"
	"github.com/libp2p/go-libp2p-kad-dht/records"
	record "github.com/libp2p/go-libp2p-record"

	"verif/sim"
	"verif/simds"
	"verif/simnet"
)

// ---------------------------------------------------------------------------
// 1. key classes

const (
	c04KeyRegistered      = iota // "/r/key-n": the rank validator's namespace
	c04KeyUnknownNS              // "/u/key-n": well-formed, nobody registered "u"
	c04KeyBare                   // "key-n": no namespace at all
	c04KeyNoLeadingSlash         // "r/key-n": looks namespaced, no leading slash
	c04KeyNoPath                 // "/key-n": leading slash, no second component
	c04KeyBareNS                 // "/r": the registered namespace and nothing else
	c04KeyUnknownNSEmpty         // "/u/": unknown namespace, empty remainder
	c04KeyEmptyNS                // "//key-n": empty namespace
	c04KeyRegisteredEmpty        // "/r/": registered namespace, empty remainder (values CAN be valid)
	c04KeyClasses
)

func c04KeyOfClass(class, n int) string { return c04KeyOfClassNS(class, n, "r") }

// c04KeyOfClassNS: the same, the registered namespace being ns.
func c04KeyOfClassNS(class, n int, ns string) string {
	switch class {
	case c04KeyUnknownNS:
		return fmt.Sprintf("/u/key-%d", n)
	case c04KeyBare:
		return fmt.Sprintf("key-%d", n)
	case c04KeyNoLeadingSlash:
		return fmt.Sprintf("%s/key-%d", ns, n)
	case c04KeyNoPath:
		return fmt.Sprintf("/key-%d", n)
	case c04KeyBareNS:
		return "/" + ns
	case c04KeyUnknownNSEmpty:
		return "/u/"
	case c04KeyEmptyNS:
		return fmt.Sprintf("//key-%d", n)
	case c04KeyRegisteredEmpty:
		return "/" + ns + "/"
	}
	return fmt.Sprintf("/%s/key-%d", ns, n)
}

// c04NSV is the oracle's own copy of the validator the clients are configured
// with, as far as the generated keys go: the public-key validator under "pk",
// the rank validator under "r" (never the seam wrapper: the oracle's validations
// do not park). The clients' default set also has "ipns"; no generated key
// lies there.
func c04NSV(rv rankValidator) record.NamespacedValidator { return c04NSVFor(rv, "r") }

// c04NSVFor: the same for a node whose configuration puts the rank validator
// under ns. A namespace the configuration names is validated by what the
// configuration says - also where the library would otherwise install a
// validator of its own ("pk", "ipns").
func c04NSVFor(rv rankValidator, ns string) record.NamespacedValidator {
	v := record.NamespacedValidator{"pk": record.PublicKeyValidator{}}
	v[ns] = rv
	return v
}

// c04AcceptAll is the validator of the OTHER value store that wrote a record
// for a key outside the client's namespaces into the shared datastore.
type c04AcceptAll struct{}

func (c04AcceptAll) Validate(string, []byte) error        { return nil }
func (c04AcceptAll) Select(string, [][]byte) (int, error) { return 0, nil }

// foreignPut stores a record (key, val) in every datastore of the client
// through a records.ValueStore of its own that accepts everything.
func (w *c04World) foreignPut(key string, val []byte) bool {
	s := w.s
	op := w.ops.Go(s, "foreign-put", func() (any, error) {
		for _, d := range w.sut.dss {
			st := records.NewValueStore(d, c04AcceptAll{}, 0)
			if err := st.Put(context.Background(), key, record.MakePutRecord(key, val)); err != nil {
				return nil, err
			}
		}
		return nil, nil
	})
	s.Quiesce()
	return op.Done && op.Err == nil && op.Panic == "" && w.sut.stored(val)
}

// keyNote describes the requested key in violation messages.
func (w *c04World) keyNote() string {
	if w.cfg.KeyClass == c04KeyRegistered || w.cfg.KeyClass == c04KeyRegisteredEmpty {
		return ""
	}
	return fmt.Sprintf(" [the requested key %q lies outside every namespace of the configured (namespaced) validator, which therefore rejects EVERY value for it: %v]",
		w.cfg.Key, w.validate(w.cfg.Key, []byte("x")))
}

// ---------------------------------------------------------------------------
// 3. the validator as a seam

// c04Validation is the Data of a parked validation.
type c04Validation struct {
	Key string
	Val []byte
}

// c04SeamValidator wraps the rank validator handed to the CLIENT. While armed,
// every Validate parks until the scheduler lets it complete; the verdict is the
// rank validator's, read when the validation completes.
type c04SeamValidator struct {
	s     *sim.Sim
	inner rankValidator
	armed atomic.Bool
}

var _ record.Validator = (*c04SeamValidator)(nil)

func c04ValLabel(key string, val []byte) string {
	h := fnv.New64a()
	h.Write([]byte(key))
	h.Write([]byte{0})
	h.Write(val)
	return fmt.Sprintf("%016x", h.Sum64())
}

func (v *c04SeamValidator) Validate(key string, value []byte) error {
	if v.armed.Load() {
		v.s.Park("validate", c04ValLabel(key, value), nil, &c04Validation{Key: key, Val: append([]byte(nil), value...)})
	}
	return v.inner.Validate(key, value)
}

func (v *c04SeamValidator) Select(key string, values [][]byte) (int, error) {
	return v.inner.Select(key, values)
}

// c04Slow is the scenario-side state of a run with the validator seam.
type c04Slow struct {
	v *c04SeamValidator
	// pending: indices into w.supplies of delivered records whose validation
	// has not completed yet (delivery order)
	pending []int
}

const c04SlowMaxParked = 3

// room: may this parked request be answered now?
func (sl *c04Slow) room(w *c04World, rpc *simnet.RPC) bool {
	if rpc.Req.GetType() != pb.Message_GET_VALUE || len(w.s.ParkedKind("validate")) < c04SlowMaxParked {
		return true
	}
	w.s.Count("probe_slowval_reply_held_back")
	return false
}

// delivered: the reply carrying supply #idx (a correctly keyed record that the
// validator accepts) is being delivered; whether it counts as "processed while
// the output was open" is decided when its validation completes.
func (sl *c04Slow) delivered(w *c04World, idx int) {
	w.supplies[idx].OpenBefore = false
	sl.pending = append(sl.pending, idx)
	if len(w.s.ParkedKind("validate")) > 0 {
		w.s.Count("probe_slowval_reply_delivered_during_validation")
	}
}

// complete lets one parked validation finish. At this quiescent point the
// output is open or not: a delivered record carrying these bytes has then been
// "processed before the search ended" or not.
func (sl *c04Slow) complete(w *c04World, p *sim.Parked) {
	s := w.s
	vd := p.Data.(*c04Validation)
	s.Count("probe_slowval_validation_completed")
	if len(s.ParkedKind("validate")) > 1 {
		s.Count("probe_slowval_completed_while_another_in_progress")
	}
	open := w.outputOpen() && w.cancelStep == 0
	for i, idx := range sl.pending {
		sp := &w.supplies[idx]
		if vd.Key != w.cfg.Key || string(sp.Val) != string(vd.Val) {
			continue
		}
		if i > 0 {
			s.Count("probe_slowval_completed_out_of_delivery_order")
		}
		sp.OpenBefore = open
		sl.pending = append(sl.pending[:i:i], sl.pending[i+1:]...)
		break
	}
	s.Release(p, nil)
}

// c04DSS collects the datastores of a client for foreignPut.
func c04DSS(ds ...*simds.DS) []*simds.DS { return ds }
