//go:build all || c14

package scen

// C14 "ctor-failures": one constructor failure point per run. The constructor
// runs on a client goroutine (whatever it parks is answered honestly), must
// return an error, and must leave
//
//   - the goroutine census at the baseline taken before it was called
//     (rule ctor-leak; provider/dual.New has its own rule
//     ctor-leak-provider-dual so that it can be tracked separately),
//   - the real event bus without any subscription of the failed instance
//     (rule ctor-subscription: the set of event types the bus has emitters or
//     subscribers for — event.Bus.GetAllEventTypes, the one thing the bus
//     exposes — is back at the baseline),
//   - nothing that reacts to bus events emitted afterwards (rule ctor-reacts:
//     no call reaches a seam, census still at baseline after 5 min).
//
// Further rules: ctor-no-error (the failure point did not make the constructor
// fail), ctor-panic, ctor-hang.

import (
	"context"
	"errors"
	"fmt"
	"reflect"
	"sort"
	"strings"
	"time"

	ds "github.com/ipfs/go-datastore"
	dht "github.com/libp2p/go-libp2p-kad-dht"
	"github.com/libp2p/go-libp2p-kad-dht/crawler"
	"github.com/libp2p/go-libp2p-kad-dht/dual"
	"github.com/libp2p/go-libp2p-kad-dht/fullrt"
	pb "github.com/libp2p/go-libp2p-kad-dht/pb"
	"github.com/libp2p/go-libp2p-kad-dht/provider"
	dualprov "github.com/libp2p/go-libp2p-kad-dht/provider/dual"
	"github.com/libp2p/go-libp2p-kad-dht/provider/keystore"
	"github.com/libp2p/go-libp2p-kad-dht/records"
	record "github.com/libp2p/go-libp2p-record"
	"github.com/libp2p/go-libp2p/core/event"
	"github.com/libp2p/go-libp2p/core/host"
	"github.com/libp2p/go-libp2p/core/network"
	"github.com/libp2p/go-libp2p/core/peerstore"
	"github.com/libp2p/go-libp2p/core/protocol"
	ma "github.com/multiformats/go-multiaddr"

	"verif/sim"
	"verif/simds"
	"verif/simhost"
	"verif/simnet"
)

var errC14Boom = errors.New("c14: injected constructor failure")

// c14Bus lets the SUT see a bus whose n-th Subscribe fails.
type c14Bus struct {
	event.Bus
	failAt int
	n      int
}

func (b *c14Bus) Subscribe(t any, opts ...event.SubscriptionOpt) (event.Subscription, error) {
	b.n++
	if b.n == b.failAt {
		return nil, errC14Boom
	}
	return b.Bus.Subscribe(t, opts...)
}

type c14CtorEnv struct {
	s   *sim.Sim
	u   *simnet.Universe
	h   *simhost.Host
	w   *c14World
	dss []*simds.DS
	// callerOwned: closers of what the caller holds a handle to (run before the
	// census, on a client goroutine)
	callerOwned []func() error
}

func (e *c14CtorEnv) ds(name string) *simds.DS {
	d := simds.New(e.s, name)
	e.dss = append(e.dss, d)
	return d
}

func (e *c14CtorEnv) sender(label string) func(host.Host, []protocol.ID) pb.MessageSenderWithDisconnect {
	return func(_ host.Host, protos []protocol.ID) pb.MessageSenderWithDisconnect {
		l := label
		if c14IsLan(protos) {
			l += "lan:"
		}
		return &simnet.Sender{S: e.s, U: e.u, Label: l}
	}
}

// dhtOpts is a complete, valid option list for one IpfsDHT.
func (e *c14CtorEnv) dhtOpts(name string, mode dht.ModeOpt) []dht.Option {
	s := e.s
	opts := []dht.Option{
		dht.ProtocolPrefix("/sim"),
		dht.Mode(mode),
		dht.BucketSize(s.Range("k", 1, 4)),
		dht.Datastore(e.ds(name + "ds")),
		dht.Validator(record.NamespacedValidator{"v": rankValidator{}}),
		dht.MaxRecordAge(10 * time.Minute),
		dht.ValueGCInterval(time.Minute),
		dht.ProviderManagerOpts(records.CleanupInterval(time.Minute)),
		dht.WithCustomMessageSender(e.sender(name)),
	}
	if name == "lan-" {
		opts = append(opts, dht.ProtocolExtension(dual.LanExtension))
	}
	if s.Chance("no-auto-refresh", 1, 2) {
		opts = append(opts, dht.DisableAutoRefresh())
	}
	if s.Chance("sep-ds", 1, 3) {
		opts = append(opts, dht.ValueDatastore(e.ds(name+"vds")), dht.ProviderDatastore(e.ds(name+"pds")))
	}
	if s.Chance("opt-provide", 1, 3) {
		opts = append(opts, dht.EnableOptimisticProvide())
	}
	if s.Chance("bootstrap-peer", 1, 3) && name != "lan-" {
		opts = append(opts, dht.BootstrapPeers(e.u.Peers[0].AddrInfo()))
	}
	return opts
}

func (e *c14CtorEnv) drawMode() dht.ModeOpt {
	return []dht.ModeOpt{dht.ModeClient, dht.ModeServer, dht.ModeAuto, dht.ModeAutoServer}[e.s.Draw("mode", 4)]
}

// insertAt returns opts with x inserted at a drawn position.
func c14InsertAt[T any](s *sim.Sim, opts []T, x T) []T {
	i := s.Draw("fail-pos", len(opts)+1)
	out := append([]T{}, opts[:i]...)
	out = append(out, x)
	return append(out, opts[i:]...)
}

type c14Point struct {
	name string
	// rule for a goroutine leak ("" = ctor-leak) and the call-site text
	rule, site string
	// build runs the constructor; on unexpected success it returns a closer
	build func(e *c14CtorEnv) (func() error, error)
}

func c14ProviderOpts(e *c14CtorEnv) []provider.Option {
	known := map[string]string{string(e.u.Self.ID): "self"}
	return []provider.Option{
		provider.WithRouter(&c14Router{s: e.s, u: e.u, known: known}),
		provider.WithMessageSender(&simnet.Sender{S: e.s, U: e.u}),
		provider.WithPeerID(e.u.Self.ID),
		provider.WithSelfAddrs(func() []ma.Multiaddr { return e.u.Self.Addrs }),
		provider.WithReplicationFactor(2),
	}
}

// c14DualDHT builds a dual DHT whose two sides have the given bucket sizes.
func c14DualDHT(e *c14CtorEnv, kWan, kLan int) (*dual.DHT, error) {
	mk := func(name string, k int) []dht.Option {
		prefix := protocol.ID("/sim")
		if name == "lan-" {
			prefix += dual.LanExtension
		}
		return []dht.Option{
			dht.ProtocolPrefix(prefix), dht.Mode(dht.ModeClient), dht.BucketSize(k), dht.DisableAutoRefresh(),
			dht.Datastore(e.ds(name + "ds")), dht.Validator(record.NamespacedValidator{"v": rankValidator{}}),
			dht.WithCustomMessageSender(e.sender(name)),
		}
	}
	return dual.New(e.h, dual.WanDHTOption(mk("wan-", kWan)...), dual.LanDHTOption(mk("lan-", kLan)...))
}

func c14CloserOf[T interface{ Close() error }](x T, err error) (func() error, error) {
	if err != nil {
		return nil, err
	}
	return x.Close, nil
}

var c14Points = []c14Point{
	// ---- dht.New
	{name: "dht-option-fails", site: "dht.New", build: func(e *c14CtorEnv) (func() error, error) {
		opts := c14InsertAt(e.s, e.dhtOpts("", e.drawMode()), c14FailingOption[dht.Option](errC14Boom))
		return c14CloserOf(dht.New(e.h, opts...))
	}},
	{name: "dht-namespaced-validator-on-plain", site: "dht.New", build: func(e *c14CtorEnv) (func() error, error) {
		opts := append(e.dhtOpts("", e.drawMode()), dht.Validator(rankValidator{}), dht.NamespacedValidator("x", rankValidator{}))
		return c14CloserOf(dht.New(e.h, opts...))
	}},
	{name: "dht-amino-validation", site: "dht.New", build: func(e *c14CtorEnv) (func() error, error) {
		opts := append(e.dhtOpts("", e.drawMode()), dht.ProtocolPrefix("/ipfs"))
		return c14CloserOf(dht.New(e.h, opts...))
	}},
	{name: "dht-provider-manager-option-fails", site: "dht.New", build: func(e *c14CtorEnv) (func() error, error) {
		bad := func(*records.ProviderManager) error { return errC14Boom }
		opts := append(e.dhtOpts("", e.drawMode()), dht.ProviderManagerOpts(records.CleanupInterval(time.Minute), bad))
		return c14CloserOf(dht.New(e.h, opts...))
	}},
	{name: "dht-invalid-mode", site: "dht.New", build: func(e *c14CtorEnv) (func() error, error) {
		opts := append(e.dhtOpts("", dht.ModeClient), dht.Mode(dht.ModeOpt(99)))
		return c14CloserOf(dht.New(e.h, opts...))
	}},
	{name: "dht-subscribe-fails", site: "dht.New", build: func(e *c14CtorEnv) (func() error, error) {
		e.h.SetBus(&c14Bus{Bus: e.h.RealBus(), failAt: 1})
		return c14CloserOf(dht.New(e.h, e.dhtOpts("", e.drawMode())...))
	}},
	// ---- dual.New
	{name: "dual-option-fails", site: "dual.New", build: func(e *c14CtorEnv) (func() error, error) {
		opts := []dual.Option{dual.WanDHTOption(e.dhtOpts("wan-", e.drawMode())...), dual.LanDHTOption(e.dhtOpts("lan-", e.drawMode())...)}
		return c14CloserOf(dual.New(e.h, c14InsertAt(e.s, opts, c14FailingOption[dual.Option](errC14Boom))...))
	}},
	{name: "dual-wan-fails", site: "dual.New", build: func(e *c14CtorEnv) (func() error, error) {
		wan := c14InsertAt(e.s, e.dhtOpts("wan-", e.drawMode()), c14FailingOption[dht.Option](errC14Boom))
		return c14CloserOf(dual.New(e.h, dual.WanDHTOption(wan...), dual.LanDHTOption(e.dhtOpts("lan-", e.drawMode())...)))
	}},
	{name: "dual-lan-option-fails-after-wan", site: "dual.New", build: func(e *c14CtorEnv) (func() error, error) {
		lan := c14InsertAt(e.s, e.dhtOpts("lan-", e.drawMode()), c14FailingOption[dht.Option](errC14Boom))
		return c14CloserOf(dual.New(e.h, dual.WanDHTOption(e.dhtOpts("wan-", e.drawMode())...), dual.LanDHTOption(lan...)))
	}},
	{name: "dual-lan-invalid-mode-after-wan", site: "dual.New", build: func(e *c14CtorEnv) (func() error, error) {
		// the WAN side must be a client, otherwise dual.New overrides the LAN mode
		lan := append(e.dhtOpts("lan-", dht.ModeClient), dht.Mode(dht.ModeOpt(99)))
		return c14CloserOf(dual.New(e.h, dual.WanDHTOption(e.dhtOpts("wan-", dht.ModeClient)...), dual.LanDHTOption(lan...)))
	}},
	{name: "dual-lan-subscribe-fails-after-wan", site: "dual.New", build: func(e *c14CtorEnv) (func() error, error) {
		e.h.SetBus(&c14Bus{Bus: e.h.RealBus(), failAt: 2})
		return c14CloserOf(dual.New(e.h, dual.WanDHTOption(e.dhtOpts("wan-", e.drawMode())...), dual.LanDHTOption(e.dhtOpts("lan-", e.drawMode())...)))
	}},
	{name: "dual-lan-provider-manager-option-fails-after-wan", site: "dual.New", build: func(e *c14CtorEnv) (func() error, error) {
		bad := func(*records.ProviderManager) error { return errC14Boom }
		lan := append(e.dhtOpts("lan-", e.drawMode()), dht.ProviderManagerOpts(bad))
		return c14CloserOf(dual.New(e.h, dual.WanDHTOption(e.dhtOpts("wan-", e.drawMode())...), dual.LanDHTOption(lan...)))
	}},
	// ---- fullrt.NewFullRT
	{name: "fullrt-option-fails", site: "fullrt.NewFullRT", build: func(e *c14CtorEnv) (func() error, error) {
		opts := []fullrt.Option{fullrt.DHTOption(e.dhtOpts("", dht.ModeClient)...), fullrt.WithCrawler(&c14Crawler{s: e.s, h: e.h})}
		var bad fullrt.Option
		switch e.s.Draw("bad", 3) {
		case 0:
			bad = c14FailingOption[fullrt.Option](errC14Boom)
		case 1:
			bad = fullrt.WithSuccessWaitFraction(2)
		default:
			bad = fullrt.WithBulkSendParallelism(0)
		}
		return c14CloserOf(fullrt.NewFullRT(e.h, "/sim", c14InsertAt(e.s, opts, bad)...))
	}},
	{name: "fullrt-dht-option-fails", site: "fullrt.NewFullRT", build: func(e *c14CtorEnv) (func() error, error) {
		dopts := c14InsertAt(e.s, append(e.dhtOpts("", dht.ModeClient), dht.BootstrapPeers()), c14FailingOption[dht.Option](errC14Boom))
		return c14CloserOf(fullrt.NewFullRT(e.h, "/sim", fullrt.DHTOption(dopts...), fullrt.WithCrawler(&c14Crawler{s: e.s, h: e.h})))
	}},
	{name: "fullrt-subscribe-fails", site: "fullrt.NewFullRT", build: func(e *c14CtorEnv) (func() error, error) {
		e.h.SetBus(&c14Bus{Bus: e.h.RealBus(), failAt: 1})
		opts := []fullrt.Option{fullrt.DHTOption(append(e.dhtOpts("", dht.ModeClient), dht.BootstrapPeers())...)}
		if e.s.Chance("stub-crawler", 1, 2) {
			opts = append(opts, fullrt.WithCrawler(&c14Crawler{s: e.s, h: e.h}))
		} else {
			dc, err := crawler.NewDefaultCrawler(e.h, crawler.WithCustomMessageSender(e.sender("crawl:")))
			if err != nil {
				panic(err)
			}
			opts = append(opts, fullrt.WithCrawler(dc))
		}
		return c14CloserOf(fullrt.NewFullRT(e.h, "/sim", opts...))
	}},
	{name: "fullrt-provider-manager-option-fails", site: "fullrt.NewFullRT", build: func(e *c14CtorEnv) (func() error, error) {
		bad := func(*records.ProviderManager) error { return errC14Boom }
		opts := []fullrt.Option{fullrt.DHTOption(append(e.dhtOpts("", dht.ModeClient), dht.BootstrapPeers())...), fullrt.WithCrawler(&c14Crawler{s: e.s, h: e.h})}
		if e.s.Chance("via-dht-option", 1, 2) {
			opts = append(opts, fullrt.DHTOption(dht.ProviderManagerOpts(bad)))
		} else {
			opts = append(opts, fullrt.WithProviderManagerOptions(bad))
		}
		return c14CloserOf(fullrt.NewFullRT(e.h, "/sim", opts...))
	}},
	// ---- records.NewProviderManager
	{name: "provider-manager-option-fails", site: "records.NewProviderManager", build: func(e *c14CtorEnv) (func() error, error) {
		bad := func(*records.ProviderManager) error { return errC14Boom }
		opts := c14InsertAt(e.s, []records.Option{records.CleanupInterval(time.Minute), records.ProvideValidity(time.Hour)}, bad)
		return c14CloserOf(records.NewProviderManager(e.u.Self.ID, e.h.Peerstore(), e.ds("ds"), opts...))
	}},
	// ---- provider.New
	{name: "provider-option-invalid", site: "provider.New", build: func(e *c14CtorEnv) (func() error, error) {
		var bad provider.Option
		switch e.s.Draw("bad", 5) {
		case 0:
			bad = provider.WithReplicationFactor(0)
		case 1:
			bad = provider.WithMaxWorkers(-1)
		case 2:
			bad = provider.WithSendProviderRecordTimeout(0)
		case 3:
			bad = provider.WithDedicatedPeriodicWorkers(9) // exceeds max workers: rejected after all options applied
		default:
			bad = c14FailingOption[provider.Option](errC14Boom)
		}
		return c14CloserOf(provider.New(c14InsertAt(e.s, c14ProviderOpts(e), bad)...))
	}},
	{name: "provider-missing-router", site: "provider.New", build: func(e *c14CtorEnv) (func() error, error) {
		return c14CloserOf(provider.New(c14ProviderOpts(e)[1:]...))
	}},
	{name: "provider-connectivity-options-invalid", site: "provider.New", build: func(e *c14CtorEnv) (func() error, error) {
		// accepted by provider's own option, rejected by the connectivity checker
		// after the default keystore (and its datastore) were created
		opts := append(c14ProviderOpts(e), provider.WithConnectivityCheckOnlineInterval(0))
		if e.s.Chance("own-ds", 1, 2) {
			opts = append(opts, provider.WithDatastore(e.ds("pds")))
		}
		return c14CloserOf(provider.New(opts...))
	}},
	// ---- provider/dual.New
	{name: "dual-provider-option-invalid", site: "provider/dual.New", rule: "ctor-leak-provider-dual", build: func(e *c14CtorEnv) (func() error, error) {
		d, err := c14DualDHT(e, 2, 2)
		if err != nil {
			panic(err)
		}
		e.callerOwned = append(e.callerOwned, d.Close)
		bad := []dualprov.Option{dualprov.WithMaxWorkers(0), dualprov.WithMaxWorkersWAN(1), dualprov.WithOfflineDelay(-time.Second)}[e.s.Draw("bad", 3)]
		return c14CloserOf(dualprov.New(d, dualprov.WithReprovideInterval(time.Hour), bad))
	}},
	{name: "dual-provider-second-fails", site: "provider/dual.New", rule: "ctor-leak-provider-dual", build: func(e *c14CtorEnv) (func() error, error) {
		// the second provider (WAN) is rejected: its DHT's bucket size — the
		// replication factor handed to provider.New — is not positive
		d, err := c14DualDHT(e, 0, 2)
		if err != nil {
			panic(err)
		}
		e.callerOwned = append(e.callerOwned, d.Close)
		var opts []dualprov.Option
		if e.s.Chance("own-keystore", 1, 2) {
			ks, err := keystore.NewKeystore(e.ds("ksds"))
			if err != nil {
				panic(err)
			}
			e.callerOwned = append(e.callerOwned, ks.Close)
			opts = append(opts, dualprov.WithKeystore(ks))
		}
		return c14CloserOf(dualprov.New(d, opts...))
	}},
	{name: "dual-provider-first-fails", site: "provider/dual.New", rule: "ctor-leak-provider-dual", build: func(e *c14CtorEnv) (func() error, error) {
		// the first provider (LAN) is rejected; without a caller-supplied
		// keystore the constructor has already created one
		d, err := c14DualDHT(e, 2, 0)
		if err != nil {
			panic(err)
		}
		e.callerOwned = append(e.callerOwned, d.Close)
		return c14CloserOf(dualprov.New(d))
	}},
	// ---- keystores
	{name: "keystore-option-invalid", site: "keystore.NewKeystore", build: func(e *c14CtorEnv) (func() error, error) {
		bad := []keystore.Option{keystore.WithBatchSize(0), keystore.WithPrefixBits(7)}[e.s.Draw("bad", 2)]
		if e.s.Chance("resettable", 1, 2) {
			return c14CloserOf(keystore.NewResettableKeystore(e.ds("ds"), keystore.KeystoreOption(bad)))
		}
		return c14CloserOf(keystore.NewKeystore(e.ds("ds"), bad))
	}},
	{name: "resettable-keystore-marker-read-fails", site: "keystore.NewResettableKeystore", build: func(e *c14CtorEnv) (func() error, error) {
		d := e.ds("ds")
		d.FailNext("get", 1)
		return c14CloserOf(keystore.NewResettableKeystore(d))
	}},
	{name: "resettable-keystore-factory-fails", site: "keystore.NewResettableKeystore", build: func(e *c14CtorEnv) (func() error, error) {
		create := func(string) (ds.Batching, error) { return nil, errC14Boom }
		return c14CloserOf(keystore.NewResettableKeystore(e.ds("ds"), keystore.WithDatastoreFactory(create, func(string) error { return nil })))
	}},
}

func init() {
	faults := append([]string{}, c14CommonFaults[:2]...)
	for _, p := range c14Points {
		faults = append(faults, "probe_ctor_fail_"+p.name)
	}
	faults = append(faults, "probe_ctor_events_emitted", "probe_ctor_census_clean", "probe_ctor_bus_clean")
	sim.Register(&sim.Scenario{Prop: "C14", Name: "ctor-failures", Weight: 4, Run: runC14Ctor,
		Real:   []string{"error paths of dht.New, dual.New, fullrt.NewFullRT, records.NewProviderManager, provider.New, provider/dual.New, keystore.NewKeystore, keystore.NewResettableKeystore", "real libp2p event bus (subscriber bookkeeping)"},
		Stub:   []string{"host (simhost); event bus wrapper whose n-th Subscribe fails", "message senders, router, crawler (parking stubs)", "datastores (simds, single-shot errors)"},
		Faults: faults,
	})
}

func c14BusTypes(b event.Bus) []string {
	var out []string
	for _, t := range b.GetAllEventTypes() {
		out = append(out, t.String())
	}
	sort.Strings(out)
	return out
}

var _ = reflect.TypeOf

func runC14Ctor(s *sim.Sim) {
	s.MaxSteps = 400
	defer c14ConstRand(s)()
	pt := c14Points[s.Draw("point", len(c14Points))]
	u := simnet.NewUniverse(uint64(s.Draw("universe", 1<<16)), 3)
	h := simhost.New(s, u.Self.ID, u.Self.Addrs, u.Name)
	for _, p := range u.Peers {
		// connected peers that speak the protocol: a surviving subscriber would
		// react to identification events with a lookup check
		h.Peerstore().AddAddrs(p.ID, p.Addrs, peerstore.PermanentAddrTTL)
		_ = h.Peerstore().AddProtocols(p.ID, c14Proto)
		h.Net().SetConnected(p.ID, true)
		h.Net().SetRemoteAddr(p.ID, p.Addrs[0])
	}
	e := &c14CtorEnv{s: s, u: u, h: h, w: &c14World{s: s, u: u, hosts: []*simhost.Host{h}, k: 2}}
	f := newC14Flow(s, "ctor:"+pt.name)
	f.answer = func(p *sim.Parked, drain bool) {
		if p.Kind == "gcp" {
			s.Release(p, simnet.IDs(u.Peers[:2]))
			return
		}
		if p.Kind == "crawl" {
			s.Release(p, u.Peers)
			return
		}
		e.w.answer(p, drain)
	}
	f.baseline()
	busBase := c14BusTypes(h.RealBus())
	s.Summary["cfg"] = pt.name
	s.Count("probe_ctor_fail_" + pt.name)
	s.NonTrivial = true
	s.State("point=%s", pt.name)

	var closer func() error
	ctor := f.ops.Go(s, "ctor", func() (any, error) {
		c, err := pt.build(e)
		closer = c
		return nil, err
	})
	if !f.drain(func() bool { return ctor.Done }) {
		s.Violate("ctor-hang", "%s (%s): the constructor did not return although every parked call was answered and %v passed", pt.site, pt.name, c14B)
		s.Finish()
		return
	}
	if ctor.Panic != "" {
		s.Violate("ctor-panic", "%s (%s): the constructor panicked: %s", pt.site, pt.name, firstLine(ctor.Panic))
		s.Finish()
		return
	}
	s.Tracef("ctor returned err=%v", ctor.Err != nil)
	runClosers := func(cs []func() error) {
		for i := len(cs) - 1; i >= 0; i-- {
			c := cs[i]
			op := f.ops.Go(s, "caller-close", func() (any, error) { return nil, c() })
			f.drain(func() bool { return op.Done })
		}
	}
	if ctor.Err == nil {
		s.Violate("ctor-no-error", "%s (%s): the constructor returned no error at this failure point", pt.site, pt.name)
		if closer != nil {
			runClosers([]func() error{closer})
		}
		runClosers(e.callerOwned)
		_ = h.Close()
		s.Finish()
		return
	}

	// what the failed constructor cancelled winds down first
	f.drain(func() bool { return len(f.nonClientParked()) == 0 })

	// (1) subscriptions: before the harness creates any emitter (a companion
	// the caller still runs keeps its own subscriptions: checked at the end)
	if len(e.callerOwned) > 0 {
	} else if now := c14BusTypes(h.RealBus()); strings.Join(now, ",") != strings.Join(busBase, ",") {
		s.Violate("ctor-subscription", "%s (%s): after the failed constructor the event bus still has subscribers for {%s} (baseline {%s})", pt.site, pt.name, strings.Join(now, ","), strings.Join(busBase, ","))
	} else {
		s.Count("probe_ctor_bus_clean")
	}
	if hd := h.Handler(c14Proto); hd != nil {
		// not part of the property (a handler registration is neither a goroutine
		// nor a subscription); recorded as an observation only
		s.Count("obs_ctor_stream_handler_left_registered")
	}

	// (2) events after the failed constructor: nothing of the instance reacts
	type em struct {
		typ any
		evs []any
	}
	p0 := u.Peers[0].ID
	for _, x := range []em{
		{new(event.EvtPeerIdentificationCompleted), []any{event.EvtPeerIdentificationCompleted{Peer: p0}}},
		{new(event.EvtPeerProtocolsUpdated), []any{event.EvtPeerProtocolsUpdated{Peer: p0, Added: []protocol.ID{c14Proto}}}},
		{new(event.EvtLocalAddressesUpdated), []any{event.EvtLocalAddressesUpdated{}}},
		{new(event.EvtPeerConnectednessChanged), []any{event.EvtPeerConnectednessChanged{Peer: p0, Connectedness: network.NotConnected}}},
		{new(event.EvtLocalReachabilityChanged), []any{event.EvtLocalReachabilityChanged{Reachability: network.ReachabilityPublic}, event.EvtLocalReachabilityChanged{Reachability: network.ReachabilityPrivate}}},
	} {
		emt, err := h.RealBus().Emitter(x.typ)
		if err != nil {
			panic(err)
		}
		for _, ev := range x.evs {
			_ = emt.Emit(ev)
		}
		_ = emt.Close()
	}
	s.Count("probe_ctor_events_emitted")
	s.Quiesce()
	if ps := f.nonClientParked(); len(ps) > 0 {
		// the caller-owned companions (a running dual DHT) legitimately react
		if len(e.callerOwned) == 0 {
			var ids []string
			for _, p := range ps {
				ids = append(ids, p.ID)
			}
			s.Violate("ctor-reacts", "%s (%s): after the failed constructor something still reacts to bus events: %s", pt.site, pt.name, strings.Join(ids, ", "))
		}
	}

	// (3) what the caller holds a handle to is closed by the caller
	runClosers(e.callerOwned)

	// (4) census against the baseline
	var extra []string
	for i := 0; i < 6; i++ {
		f.drain(func() bool { return len(f.nonClientParked()) == 0 })
		extra = c14Extra(f.base, c14Census())
		if len(extra) == 0 {
			break
		}
		s.Sleep(time.Minute)
	}
	if len(extra) > 0 {
		rule := pt.rule
		if rule == "" {
			rule = "ctor-leak"
		}
		what := fmt.Sprintf("%s (%s)", pt.site, pt.name)
		switch pt.name {
		case "dual-provider-second-fails":
			what = "provider/dual.New: first provider left running when the second fails"
		case "dual-provider-first-fails":
			what = "provider/dual.New: internally created keystore left running when the first provider fails"
		}
		s.Violate(rule, "%s: the constructor returned an error (%v) and left %d goroutine(s) behind: %s", what, firstLine(ctor.Err.Error()), len(extra), strings.Join(extra, ", "))
	} else {
		s.Count("probe_ctor_census_clean")
		s.Tracef("census clean")
	}
	if now := c14BusTypes(h.RealBus()); len(extra) == 0 && strings.Join(now, ",") != strings.Join(busBase, ",") {
		s.Violate("ctor-subscription", "%s (%s): event bus not back at its baseline after the failed constructor: {%s}", pt.site, pt.name, strings.Join(now, ","))
	}
	_ = h.Close()
	s.Quiesce()
	s.Finish()
}

var _ = context.Background
