//go:build all || c09

package scen

// C09, scenario "server-fill": GET_PROVIDERS responses that fill the transport
// limit to the last bytes, served from a provider set whose records have
// finely varied sizes and whose providers the node is (partly) connected to.
//
// Clause: "every peer record is at most 8 KiB and every FIND_NODE and
// GET_PROVIDERS response at most the transport message limit", quantified
// "against any routing-table/peerstore/provider-store content". No new rule:
// response-too-large and peer-record-size judge the bytes read back from the
// stream, whatever the node did to produce them. What was missing is the part
// of the input space in which the clause is tight:
//
//   * server-bulk stores providers that all advertise the same over-long list:
//     every record is cut to the 8 KiB bound, all records have one size, and
//     the room a cut response has left is (per key and closer-peer list) one
//     fixed number of bytes, thousands of bytes wide. A response budget that
//     is off by a few bytes per record (a field not counted, framing bytes not
//     counted, a field filled in after the budget was applied) never shows.
//     Here every provider advertises 1..3 addresses whose lengths are drawn
//     byte by byte from the run's seed and stay below the 8 KiB bound (nothing
//     is trimmed, so a record's size does not depend on peerstore order). The
//     room left by a cut response then sweeps 0 .. one record size at byte
//     granularity from run to run and, within a run, from requester to
//     requester and with every provider a request adds (the order in which
//     the store hands the providers out depends on their number), in three
//     size classes (records of about 1.2..2.5 KiB, 3..8 KiB, 0.3..8 KiB);
//   * what a peer record says depends on the state of the NETWORK, not only of
//     the stores: the record of a peer the node has a connection to carries a
//     connection type, and is a little larger on the wire than the record of
//     the same peer while unconnected. In the other scenarios the only
//     connected peers are the 1..4 requesters. Here the share of providers the
//     node is connected to is drawn: none, all, about half, a handful.
//
// Every run ends with an honest GET_PROVIDERS for the filled key from a fresh
// peer (the final probe of runC09), so each run judges at least one response
// at the limit; the streams of the run ask for it about every other request,
// and requesters may add themselves (connected by construction) as providers.
//
// Nothing here depends on how the node computes its budget. The number of
// providers per size class is chosen so that the set never fits one response.
//
// Configuration of this scenario: the provider manager runs with a cache that
// holds nothing (records.Cache, a public option). On a cache hit the manager
// rebuilds a key's provider list by ranging over a Go map, so the order of the
// providers - and with it which record is the first that does not fit, how
// many connected providers are listed and how many bytes are left - would be
// the runtime's choice: a response a few bytes over the limit could not be
// replayed. Without cache hits every read is a datastore query (sorted by
// simds) permuted by the harness's seeded shuffle. The cache path is exercised
// by server and server-bulk (where all records of the big key have one size,
// so the order does not matter).
//
// Not generated: connections the network reports as Limited (simhost has no
// such connection; the wire format has no value for it either).

import (
	"fmt"
	"strings"

	pb "github.com/libp2p/go-libp2p-kad-dht/pb"
	"github.com/libp2p/go-libp2p/core/network"
	"github.com/libp2p/go-libp2p/core/peer"
	ma "github.com/multiformats/go-multiaddr"
	"google.golang.org/protobuf/encoding/protowire"

	"verif/sim"
	"verif/simnet"
)

var c09FillProbes = []string{
	"probe_bulk_providers_served", "probe_budget_truncated",
	"probe_fill_cut_response", "probe_fill_connected_listed", "probe_fill_conn_bytes_exceed_slack", "probe_fill_slack_under_256",
}

func init() {
	real := []string{"IpfsDHT.handleNewStream / handleNewMessage (msgio framing, idle time-out, mode check)", "all RPC handlers (handlers.go)", "closestPeersToQuery + kbucket routing table", "pb peer-record conversion and bounding (connection type from the host's network)", "records.ProviderManager (cache of capacity nothing)", "records.ValueStore", "pstoremem peerstore"}
	stub := []string{"host.Host / network.Conn (simhost; connectedness of provider peers set by the scenario)", "streams (simhost.Fabric byte pipes, scheduler-owned delivery)", "remote peers (scripted, generated requests)", "datastore (simds, not parked)", "validator (harness rank validator)"}
	sim.Register(&sim.Scenario{Prop: "C09", Name: "server-fill", Weight: 1, Run: func(s *sim.Sim) { runC09(s, c09Fill) },
		Real: real, Stub: stub, Faults: c09FillProbes})
}

// c09FillPad is the pool long host names are cut from (immutable).
var c09FillPad = strings.Repeat("x", 8<<10)

// c09SizedAddr returns /dns4/<name>/tcp/4001 with a name of exactly n bytes
// (at least the eight of its prefix) that starts with the provider's index.
func c09SizedAddr(i, j, n int) ma.Multiaddr {
	name := fmt.Sprintf("f%04d%c.", i, 'a'+j)
	if n < len(name) {
		n = len(name)
	}
	return ma.StringCast("/dns4/" + name + c09FillPad[:n-len(name)] + "/tcp/4001")
}

// setupFill fills one key with providers whose records differ in size byte by
// byte and connects the node to a drawn share of them.
func (w *c09World) setupFill(addProv func(key []byte, id peer.ID, addrs []ma.Multiaddr)) {
	s := w.s
	switch s.Draw("fill-key-len", 3) {
	case 0:
		w.bigKey = c09Key("prov-fill", 32)
	case 1:
		w.bigKey = []byte("F")
	default:
		w.bigKey = c09Key("prov-fill", 80)
	}
	w.provKeys = append(w.provKeys, w.bigKey)
	// name bytes per provider: lo..hi; n providers make the set larger than one
	// response whatever the draws
	class := s.Draw("fill-size-class", 3)
	lo, hi, n := 1200, 2500, 2700
	switch class {
	case 1:
		lo, hi, n = 3000, 7900, 950
	case 2:
		lo, hi, n = 300, 7900, 1300
	}
	w.nBig = n
	connMode := s.Draw("fill-connected", 4) // 0 none, 1 all, 2 about half, 3 a handful
	few := 0
	if connMode == 3 {
		few = 1 + s.Draw("fill-connected-few", 12)
	}
	rng := c09Rng(w.nseed ^ 0xf111<<20 ^ uint64(class)<<40)
	nConn := 0
	for i := 0; i < n; i++ {
		id := simnet.MakeID(w.seed, 5000+i)
		total := lo + int(rng.next()%uint64(hi-lo+1))
		k := 1 + int(rng.next()%3)
		addrs := make([]ma.Multiaddr, 0, k)
		for j := 0; j < k; j++ {
			part := total / (k - j)
			if j < k-1 {
				// an uneven split: 1/4 .. 3/4 of an even share
				part = part/4 + int(rng.next()%uint64(part/2+1))
			}
			total -= part
			addrs = append(addrs, c09SizedAddr(i, j, part))
		}
		addProv(w.bigKey, id, addrs)
		coin := rng.next()&1 == 0
		if connMode == 1 || (connMode == 2 && coin) || (connMode == 3 && i%(n/few) == 0 && nConn < few) {
			w.h.Net().SetConnected(id, true)
			nConn++
		}
	}
	s.Summary["fill"] = fmt.Sprintf("class=%d providers=%d connected=%d keylen=%d", class, n, nConn, len(w.bigKey))
	s.Tracef("fill class=%d providers=%d connected=%d", class, n, nConn)
}

// fillProbes records how close to the limit a response for the filled key is.
// Reach evidence only; nothing here is a demand.
func (w *c09World) fillProbes(resp *pb.Message, bodyLen int) {
	s := w.s
	slack := network.MessageSizeMax - bodyLen
	// the record that did not fit is at most 8 KiB plus its framing
	if len(resp.GetProviderPeers()) >= w.nBig || slack < 0 || slack > c09MaxPeerRecord+8 {
		return
	}
	s.Count("probe_fill_cut_response")
	connBytes := 0
	for _, rec := range resp.GetProviderPeers() {
		if c := rec.GetConnection(); c != 0 {
			connBytes += protowire.SizeTag(3) + protowire.SizeVarint(uint64(int64(c)))
		}
	}
	if connBytes > 0 {
		s.Count("probe_fill_connected_listed")
	}
	if connBytes > slack {
		// the response fits only because the connection types were paid for
		s.Count("probe_fill_conn_bytes_exceed_slack")
	}
	if slack < 256 {
		s.Count("probe_fill_slack_under_256")
	}
}

// c09NoCache is an LRU cache (simplelru.LRUCache) of capacity nothing.
type c09NoCache struct{}

func (c09NoCache) Add(key, value interface{}) bool                { return true }
func (c09NoCache) Get(key interface{}) (interface{}, bool)        { return nil, false }
func (c09NoCache) Contains(key interface{}) bool                  { return false }
func (c09NoCache) Peek(key interface{}) (interface{}, bool)       { return nil, false }
func (c09NoCache) Remove(key interface{}) bool                    { return false }
func (c09NoCache) RemoveOldest() (interface{}, interface{}, bool) { return nil, nil, false }
func (c09NoCache) GetOldest() (interface{}, interface{}, bool)    { return nil, nil, false }
func (c09NoCache) Keys() []interface{}                            { return nil }
func (c09NoCache) Len() int                                       { return 0 }
func (c09NoCache) Purge()                                         {}
func (c09NoCache) Resize(int) int                                 { return 0 }
