//go:build all || c06

package scen

// C06 on the accelerated client (fullrt): PutValue / Provide send to every
// peer its own GetClosestPeers returns, with the same content rules.
//
// There is no lookup and there are no lookup events here: FullRT answers
// GetClosestPeers from the table its crawler built. R is therefore FullRT's own
// GetClosestPeers result for the key, read through the public API immediately
// before and after the operation (the clause is only judged when both agree;
// no crawl runs in between). The crawler is a stub that reports a drawn subset
// of the universe as reachable; the real crawler belongs to C16.
//
// "Sent" means: the request reached the message sender while its context was
// live. FullRT returns before all of its requests completed (sloppy exit) and
// cancels the rest; a request that was cancelled after it reached the sender
// still counts as sent. While the operation has NOT returned, however, nothing
// but the configured time-out per operation may cancel a request in flight
// (frt-inflight-cancelled, frt-cancelled-by-failure; see c06.go choose /
// checkInflight).
//
// The host's addresses change between operations (with or without the
// address-update event); a provide advertises what the host has when it runs.
//
// frt-local-provider ("Provide with announce records the local node as
// provider", for every network and address set): after every FullRT.Provide
// that returned - with an error or not, with an empty crawled table, without a
// single host address - the provider manager lists the local peer for the key
// (c06.go checkLocalProvider).
//
// Value search (GetValue / SearchValue through FullRT): "after a completed
// value search the peers among the closest that did not return the best value
// are sent it while peers that did are not". FullRT asks its GetClosestPeers
// result R for the value; scripted peers hold nothing, values of different
// rank, invalid or misfiled records, or fail the request; requests FullRT gives
// up on (its heuristics stop waiting once enough peers answered) count as "did
// not return the best value". The corrective-put rules are those of the
// standard client (c06.go judgeCorrective, rule prefix frt-cp): content, no put
// without a value, none to a peer whose processed reply carried the best value,
// recipients = R minus those peers; and frt-cp-put-cancelled (c06.go
// checkAtReturn): a corrective put must not be cancelled the instant it is
// started. The caller either keeps its context or releases it on return, as in
// the corrective-put scenario. Whether a put that was cancelled right after it
// was started reaches the sender dead or alive is the Go scheduler's choice, so
// the recipient rule here only asks that the request reached the sender and
// leaves the state of its context to frt-cp-put-cancelled.
//
// pv-store-own ("PutValue has stored the record locally first", c06.go header
// and checkPutContent): FullRT.PutValue is judged by the same rule; a run puts
// the key of its previous PutValue again (the same value or another rank), so
// that a call which relies on the copy an earlier call stored shows.

import (
	"bytes"
	"context"
	"fmt"
	"time"

	dht "github.com/libp2p/go-libp2p-kad-dht"
	"github.com/libp2p/go-libp2p-kad-dht/crawler"
	"github.com/libp2p/go-libp2p-kad-dht/fullrt"
	pb "github.com/libp2p/go-libp2p-kad-dht/pb"
	"github.com/libp2p/go-libp2p/core/host"
	"github.com/libp2p/go-libp2p/core/peer"
	"github.com/libp2p/go-libp2p/core/protocol"
	ma "github.com/multiformats/go-multiaddr"

	"verif/sim"
	"verif/simds"
	"verif/simhost"
	"verif/simnet"
)

func init() {
	sim.Register(&sim.Scenario{Prop: "C06", Name: "fullrt", Weight: 2, Run: runC06FullRT,
		Real: []string{"fullrt.FullRT.PutValue/Provide/execOnMany", "fullrt.FullRT.GetClosestPeers (trie over the crawled table)", "ProtocolMessenger.PutValue/PutProviderAddrs", "records.ValueStore", "records.ProviderManager"},
		Stub: []string{"host.Host/network (simhost)", "pb.MessageSender (level A, simnet.Sender behind a recording wrapper)", "crawler (stub: reports a drawn set of peers as reachable)", "remote peers (scripted)", "datastore (simds, recording)", "validator (harness rank validator)"},
		Faults: []string{"fault_recipient_fail", "fault_recipient_hang", "fault_recipient_slow", "fault_recipient_bad_echo", "time_advance",
			"probe_fullrt_put_ok", "probe_fullrt_provide_ok", "probe_fullrt_op_failed", "probe_fullrt_inflight_at_return", "probe_fullrt_empty_table", "probe_fullrt_no_addrs",
			"probe_local_provider_judged", "probe_local_provider_judged_no_addrs", "probe_local_provider_judged_op_failed", "probe_fullrt_local_provider_judged_empty_R",
			"probe_recipient_failed_others_served", "probe_recipient_hung_others_served",
			"probe_recipient_failed_while_others_inflight", "probe_addrs_changed_with_event", "probe_addrs_changed_silently", "probe_provide_after_addr_change",
			"fault_rpc_error", "fault_invalid_record", "fault_wrong_key_record", "probe_fullrt_search_completed", "probe_fullrt_search_no_value", "probe_fullrt_best_changed",
			"probe_fullrt_corrective_put_sent", "probe_fullrt_corrective_none_needed", "probe_fullrt_holder_of_best_in_R", "probe_fullrt_get_given_up",
			"probe_local_value_in_search", "probe_search_via_getvalue", "probe_quorum_not_reached", "probe_caller_released_ctx", "probe_at_return_requests_judged",
			"probe_put_own_store_judged", "probe_fullrt_put_republish_same_value", "probe_fullrt_put_republish_judged",
			"probe_key_identity_hash", "probe_key_hash_not_sha256", "probe_key_cid_v0", "probe_key_codec_not_raw"},
	})
}

// c06Crawler reports a fixed set of peers as crawled: it connects them on the
// simulated network and puts their addresses into the peerstore (what a real
// crawl leaves behind), then calls the success handler.
type c06Crawler struct {
	h     *simhost.Host
	peers []*simnet.Peer
}

var _ crawler.Crawler = (*c06Crawler)(nil)

func (c *c06Crawler) Run(ctx context.Context, _ []*peer.AddrInfo, ok crawler.HandleQueryResult, _ crawler.HandleQueryFail) {
	for _, p := range c.peers {
		c.h.Peerstore().AddAddrs(p.ID, p.Addrs, time.Hour)
		c.h.Net().SetConnected(p.ID, true)
		ok(p.ID, nil)
	}
}

func runC06FullRT(s *sim.Sim) {
	s.MaxSteps = 500
	K := s.Range("k", 1, 6)
	N := s.Range("n", 1, 24)
	u := simnet.NewUniverse(uint64(s.Draw("universe", 1<<16)), N)
	rng := newSubRng(s, "world")
	hst := simhost.New(s, u.Self.ID, u.Self.Addrs, u.Name)
	inner := &simnet.Sender{S: s, U: u}
	w := &c06World{s: s, K: K, recip: map[peer.ID]c06Recip{}, holds: map[peer.ID][]byte{}, wrongKey: map[peer.ID]bool{}, ticks: true}
	w.ds = simds.New(s, "ds")
	w.h = &H1{S: s, U: u, K: K, Beh: map[peer.ID]*Behaviour{}, Host: hst, Snd: inner}
	defer s.Finish()

	// crawled table: a drawn subset (empty with small probability)
	var crawled []*simnet.Peer
	frac := 1 + s.Draw("crawl-frac", 4)
	for _, p := range u.Peers {
		if rng.Intn(4) < frac {
			crawled = append(crawled, p)
		}
	}
	if len(crawled) == 0 && !s.Chance("empty-table", 1, 8) {
		crawled = []*simnet.Peer{u.Peers[rng.Intn(N)]}
	}
	recipFaults := []int{1, 2, 0}[s.Draw("recip-faults", 3)]
	// peers that fail GET_VALUE requests (value search)
	getFaultPct := []int{0, 15, 40}[s.Draw("get-faults", 3)]
	for _, p := range u.Peers {
		w.h.Beh[p.ID] = &Behaviour{}
		if rng.Intn(100) < getFaultPct {
			w.h.Beh[p.ID].ReqMode = reqError
		}
		var r c06Recip
		if recipFaults > 0 {
			pct := []int{0, 12, 35}[recipFaults]
			switch x := rng.Intn(100); {
			case x < pct:
				r.Mode = c06RecipFail
			case x < 2*pct:
				r.Mode = c06RecipHang
			case x < 2*pct+pct/2:
				r.Mode = c06RecipSlow
				r.Delay = time.Duration(1+rng.Intn(8000)) * time.Millisecond
			case x < 2*pct+pct:
				r.Mode = c06RecipBadEcho
			}
		}
		w.recip[p.ID] = r
	}
	waitFrac := []float64{0.3, 1, 0.05, 0.6}[s.Draw("wait-frac", 4)]
	perOp := []time.Duration{5 * time.Second, 40 * time.Second}[s.Draw("timeout-per-op", 2)]
	frt, err := fullrt.NewFullRT(hst, "/sim",
		fullrt.DHTOption(
			dht.BucketSize(K),
			dht.Datastore(w.ds),
			dht.Validator(rankValidator{}),
			dht.BootstrapPeers(u.Peers[0].AddrInfo()),
			dht.WithCustomMessageSender(func(_ host.Host, _ []protocol.ID) pb.MessageSenderWithDisconnect {
				return &c06Sender{Sender: inner, w: w}
			}),
		),
		fullrt.WithCrawler(&c06Crawler{h: hst, peers: crawled}),
		fullrt.WithSuccessWaitFraction(waitFrac),
		fullrt.WithTimeoutPerOperation(perOp),
	)
	if err != nil {
		panic(err)
	}
	defer closeAndCensus(s, func() { _ = frt.Close(); _ = hst.Close() })
	defer w.endOp()
	w.prefix = "frt"
	// documented option, chosen above: no request is given up earlier than this
	// long after its operation started (unless the operation returns)
	w.patience = perOp
	s.Quiesce() // the first crawl runs at once

	// host addresses for Provide
	pal := c06Palette(u)
	drawAddrs := func(sfx string) []ma.Multiaddr {
		var addrs []ma.Multiaddr
		if !s.Chance("no-addrs"+sfx, 1, 6) {
			arng := newSubRng(s, "addrs"+sfx)
			for _, a := range pal {
				if arng.Intn(2) == 0 && len(addrs) < 6 {
					addrs = append(addrs, a)
				}
			}
		}
		if len(addrs) == 0 {
			s.Count("probe_fullrt_no_addrs")
		}
		return addrs
	}
	addrs := drawAddrs("")
	hst.SetAddrs(addrs)
	if len(crawled) == 0 {
		s.Count("probe_fullrt_empty_table")
	}
	s.Summary["cfg"] = fmt.Sprintf("fullrt N=%d K=%d crawled=%d recipFaults=%d waitFrac=%v perOp=%v addrs=%d", N, K, len(crawled), recipFaults, waitFrac, perOp, len(addrs))

	closest := func(key string) ([]peer.ID, bool) {
		var ops opSet
		var res []peer.ID
		op := ops.Go(s, "GetClosestPeers", func() (any, error) {
			r, err := frt.GetClosestPeers(context.Background(), key)
			res = r
			return nil, err
		})
		s.Quiesce()
		return res, op.Done && op.Err == nil && op.Panic == ""
	}

	nOps := 1 + s.Draw("ops", 3)
	addrChanges := 0
	// the key and value of the previous PutValue of this run (puts of the same
	// key again: a republish of the same value, or another rank)
	var lastPutKey string
	var lastPutVal []byte
	for i := 0; i < nOps && !s.Failed(); i++ {
		if i > 0 && s.Chance("addr-change", 1, 2) {
			// the host's addresses change between two operations, announced on
			// the event bus or not (see runC06Provide)
			addrs = drawAddrs(fmt.Sprintf("-%d", i))
			hst.SetAddrs(addrs)
			addrChanges++
			announced := s.Chance("addr-event", 1, 2)
			if announced {
				c06EmitAddrsUpdated(s, hst)
				s.Count("probe_addrs_changed_with_event")
			} else {
				s.Count("probe_addrs_changed_silently")
			}
			s.Tracef("host addresses changed: host=%d event=%v", len(addrs), announced)
		}
		kind := s.Draw("kind", 3)
		if kind == 2 {
			if !w.fullRTSearch(frt, i, closest) {
				return
			}
		} else if kind == 0 {
			var key string
			var val []byte
			if lastPutKey != "" {
				// put the same key again (pv-store-own, see c06.go): the same value
				// (a republish) or a drawn one
				switch s.Draw("put-again", 3) {
				case 1:
					key, val = lastPutKey, lastPutVal
				case 2:
					key = lastPutKey
				}
			}
			if key == "" {
				key = fmt.Sprintf("key-%d", s.Draw("key", 1<<16))
			}
			if val == nil {
				val = rankValue(1+s.Draw("rank", 3), time.Time{}, key)
			}
			lastPutKey, lastPutVal = key, val
			R0, ok0 := closest(key)
			prev, hadPrev := w.localRecord(key)
			republish := hadPrev && bytes.Equal(prev, val)
			if republish {
				s.Count("probe_fullrt_put_republish_same_value")
			}
			ob := w.runOp(fmt.Sprintf("FullRT.PutValue#%d", i), key, 0, func(ctx context.Context) (any, error) {
				return nil, frt.PutValue(ctx, key, val)
			}, nil)
			if ob == nil || s.Failed() {
				return
			}
			if len(s.ParkedKind("rpc")) > 0 {
				s.Count("probe_fullrt_inflight_at_return")
			}
			w.finishInflight()
			R1, ok1 := closest(key)
			msgs, good := w.checkPutContent(ob, key, val)
			if good && republish && len(msgs) > 0 {
				s.Count("probe_fullrt_put_republish_judged") // pv-store-own was judged on a republish
			}
			if !good || !ok0 || !ok1 || !sameSet(R0, R1) {
				continue
			}
			if ob.op.Err != nil && hadPrev && c06Rank(prev) > c06Rank(val) {
				// refused before the lookup (older than the local record)
				s.Count("probe_fullrt_op_failed")
				continue
			}
			w.checkFullRTRecipients("FullRT.PutValue", msgs, R0)
			if ob.op.Err == nil {
				s.Count("probe_fullrt_put_ok")
			} else {
				s.Count("probe_fullrt_op_failed")
			}
			w.recipientProbes(msgs)
			s.State("fullrt put R=%d sent=%d err=%v", len(R0), len(msgs), ob.op.Err != nil)
		} else {
			content := s.Draw("content", 1<<16)
			// the form of the key is drawn (c06_keys.go)
			form := c06DrawKeyForm(s)
			s.Summary["key-form"] = form.String()
			s.Tracef("provide key form %s", form)
			sum := form.sum(fmt.Sprintf("content-%d-%d", i, content))
			key := form.cid(sum)
			R0, ok0 := closest(string(sum))
			ob := w.runOp(fmt.Sprintf("FullRT.Provide#%d", i), string(sum), 0, func(ctx context.Context) (any, error) {
				return nil, frt.Provide(ctx, key, true)
			}, nil)
			if ob == nil || s.Failed() {
				return
			}
			if len(s.ParkedKind("rpc")) > 0 {
				s.Count("probe_fullrt_inflight_at_return")
			}
			w.finishInflight()
			R1, ok1 := closest(string(sum))
			if addrChanges > 0 {
				s.Count("probe_provide_after_addr_change")
			}
			// FullRT has no address filter: it advertises the host's addresses
			// (those it had while this provide ran)
			msgs, good := w.checkProvideContent(ob, sum, addrs)
			if !good {
				return
			}
			// "records the local node as provider": judged after every Provide
			// that returned, whatever it returned and whatever GetClosestPeers
			// says (empty table, no address to advertise, every recipient failed)
			if !w.checkLocalProvider("frt", ob, sum, len(addrs), frt.ProviderManager.GetProviders) {
				return
			}
			if ok0 && len(R0) == 0 {
				s.Count("probe_fullrt_local_provider_judged_empty_R")
			}
			if !ok0 || !ok1 || !sameSet(R0, R1) {
				continue
			}
			if len(addrs) > 0 {
				w.checkFullRTRecipients("FullRT.Provide", msgs, R0)
			}
			if ob.op.Err == nil {
				s.Count("probe_fullrt_provide_ok")
			} else {
				s.Count("probe_fullrt_op_failed")
			}
			w.recipientProbes(msgs)
			s.State("fullrt provide R=%d sent=%d err=%v addrs=%d", len(R0), len(msgs), ob.op.Err != nil, len(addrs))
		}
		s.NonTrivial = s.NonTrivial || s.Stats["fault_recipient_fail"]+s.Stats["fault_recipient_hang"]+s.Stats["fault_recipient_bad_echo"] > 0
	}
}

func c06Rank(v []byte) int {
	r, _, _, err := parseRankValue(v)
	if err != nil {
		return -1
	}
	return r
}

// checkFullRTRecipients: every peer of R was sent the message while the
// request's context was live, nobody else was addressed, nobody twice.
func (w *c06World) checkFullRTRecipients(what string, msgs []*simnet.RPC, R []peer.ID) {
	s, u := w.s, w.h.U
	var live []*simnet.RPC
	for _, r := range msgs {
		if r.CtxLive {
			live = append(live, r)
		}
	}
	inR := idSet(R)
	for _, r := range msgs {
		if !inR[r.To] {
			s.Violate("frt-recipient-extra", "%s addressed %s, GetClosestPeers returns {%s}", what, u.Name(r.To), sortedNames(u, R))
			return
		}
	}
	got := map[peer.ID]int{}
	for _, r := range live {
		got[r.To]++
	}
	for _, p := range R {
		if got[p] == 0 {
			s.Violate("frt-recipient-missing", "%s: GetClosestPeers returns {%s} but no request reached the sender for %s with a live context (live recipients {%s})", what, sortedNames(u, R), u.Name(p), sortedNames(u, c06To(live)))
			return
		}
		if got[p] > 1 {
			s.Violate("frt-recipient-twice", "%s addressed %s %d times", what, u.Name(p), got[p])
			return
		}
	}
}

// fullRTSearch runs one value search through FullRT and judges its corrective
// puts (see the header). It returns false when the run is over.
func (w *c06World) fullRTSearch(frt *fullrt.FullRT, i int, closest func(string) ([]peer.ID, bool)) bool {
	s := w.s
	key := fmt.Sprintf("key-%d", s.Draw("key", 1<<16))
	// what the scripted peers hold for this key
	w.holds, w.wrongKey = map[peer.ID][]byte{}, map[peer.ID]bool{}
	w.drawHoldings(newSubRng(s, fmt.Sprintf("holdings-%d", i)), []int{50, 90, 15}[s.Draw("hold-pct", 3)], key)
	// optionally a local record (stored through the public API, not under test here)
	if s.Chance("local-record", 1, 3) {
		lv := rankValue(1+s.Draw("local-rank", 3), time.Time{}, key)
		w.endOp()
		op := w.h.Ops.Go(s, "prep-put", func() (any, error) { return nil, frt.PutValue(context.Background(), key, lv) })
		if !w.settle(func() bool { return op.Done && len(s.Parked()) == 0 }) {
			s.Violate("no-return", "the preparatory FullRT.PutValue did not return")
			return false
		}
	}
	// Only quorums that cannot be reached (a quorum that is reached aborts the
	// search, outside the clause): every holder is asked at most once, plus the
	// local record; the margin is that of the standard scenario.
	quorum := 0
	if s.Chance("quorum", 1, 4) {
		quorum = 2*len(w.holds) + 1 + s.Draw("quorum-slack", 3)
		s.Count("probe_quorum_not_reached")
	}
	R0, ok0 := closest(key)
	sr := w.runSearch(frt, "frt-cp", "FullRT.", key, quorum)
	if sr == nil {
		return false
	}
	R1, ok1 := closest(key)
	carriers, completed := w.searchValues(sr)
	if !completed || !ok0 || !ok1 || !sameSet(R0, R1) {
		return true
	}
	// reach: a GET_VALUE of the search was given up before it was answered
	for _, r := range w.h.Snd.Snapshot()[sr.ob.base:] {
		if r.Req.GetType() == pb.Message_GET_VALUE && r.Cancelled {
			s.Count("probe_fullrt_get_given_up")
			break
		}
	}
	expect, holderInR, judged := w.judgeCorrective("frt-cp", "probe_fullrt_", sr, carriers, R0, false)
	if !judged {
		return !s.Failed()
	}
	s.NonTrivial = s.NonTrivial || (len(expect) > 0 && holderInR)
	s.State("fullrt search R=%d expect=%d emitted=%d", len(R0), len(expect), len(sr.emitted))
	return true
}
