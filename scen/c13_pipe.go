//go:build all || c13

package scen

// C13, fourth scenario: PIPELINED requests on an already-open stream, with the
// switch to client mode landing while the node is partway through them.
//
// The property quantifies over "every interleaving of [reachability] events
// with inbound requests on new and already-open streams". In the other three
// scenarios a remote writes one request per send action and the handlers have
// no seam inside a request except the response write, so a request is either
// fully dealt with or not yet looked at when a switch happens. A real remote
// (a reprovide sweep sending ADD_PROVIDER, a client pipelining PUT_VALUE and
// FIND_NODE) writes SEVERAL complete requests back to back, they arrive in one
// delivery, and the node is somewhere inside the first of them — in its request
// hook, in a datastore operation, in the response write — when the host
// reports that it is no longer reachable. The requests QUEUED BEHIND the one in
// progress were received while the node was a server but would be taken up
// while it is a client.
//
// Generator: an auto / auto-server node with a parking datastore (simds), a
// parking request hook (public option OnRequestHook) and parking response
// writes (each of the three drawn per run); 1-2 scripted remotes open inbound
// streams whenever the host has a handler and write BATCHES of 1-5 honest
// requests (FIND_NODE, PING, PUT_VALUE, ADD_PROVIDER — the last one is the
// request type without a reply) with ONE write; deliveries move a whole write
// or a drawn part of it; reachability events are emitted at any step, in
// particular while a handler is parked at one of the seams. Protocol
// negotiation windows and look-alike IDs are left to mode-switch / mode-race:
// here a stream is negotiated under the exact ID, its protocol is set and its
// handler runs at once.
//
// Mode model and "delivered event" exactly as in c13.go: the subscriber has no
// seam between taking the event and returning from the mode switch (no lock of
// the switch is ever held by a goroutine parked at one of this scenario's
// seams), so at the quiescent point that ends the emit step the switch is
// complete; that is itself checked (auto-mode-wrong / stray-handler).
//
// The request hook is the node's own account of "handling a request": it is
// called with every request the node has read and is about to dispatch. For a
// stream S, handled(S) is the number of hook calls so far. When a switch to
// client mode completes (quiescent point ending the emit step, step L) the
// oracle records floor(S) = handled(S): requests [0, floor) were handled or in
// progress when the node became a client and may complete either way (their
// datastore writes and response writes are never judged). Everything behind
// them was NOT handled by a server.
//
// Rules (rule id -> clause of the property):
//   auto-mode-wrong / stray-handler   as in c13.go
//   open-at-demotion-not-reset   "on switching to client mode it resets inbound DHT streams that are already open"
//   client-handled               "a node in client mode handles no inbound DHT stream": while the model mode is
//                                client, at every quiescent point after step L, handled(S) <= floor(S) — the node
//                                hands no further request to its handlers, whenever that request was received
//   client-stored                ... and no datastore write attributable to a request with index >= floor(S)
//                                (PUT_VALUE record / ADD_PROVIDER entry, unique key per request) is applied
//   client-served                ... and no reply is written for such a request
//   server-unhandled             "in server mode it handles them": a stream opened inside the current server epoch,
//                                not reset, nothing of it parked: every completely delivered request was handed to
//                                the handlers (a batch is worked off entirely, not only its head)
//   server-unanswered            ... and every one of them that has a reply was answered
//   server-reset-stream          ... and the node did not reset the stream (honest requests only)
//   response-malformed / response-mismatch / unsolicited-response
//                                replies are well-formed, in request order, of the request's type
//
// Soundness on the unchanged tree: a handler that is mid-request at the switch
// finishes that request, comes back to the per-message mode check and leaves; a
// handler waiting for bytes is woken by the reset; no stream can be opened in a
// client epoch (no handler to negotiate). Virtual time does not advance in the
// main phase (no idle-stream time-out, no provider GC).

import (
	"context"
	"fmt"
	"strings"
	"sync"
	"time"

	dht "github.com/libp2p/go-libp2p-kad-dht"
	pb "github.com/libp2p/go-libp2p-kad-dht/pb"
	"github.com/libp2p/go-libp2p-kad-dht/records"
	record "github.com/libp2p/go-libp2p-record"
	recpb "github.com/libp2p/go-libp2p-record/pb"
	"github.com/libp2p/go-libp2p/core/event"
	"github.com/libp2p/go-libp2p/core/network"
	"github.com/libp2p/go-libp2p/core/peer"
	"github.com/libp2p/go-libp2p/p2p/host/eventbus"
	"github.com/multiformats/go-base32"
	"google.golang.org/protobuf/proto"

	"verif/sim"
	"verif/simds"
	"verif/simhost"
	"verif/simnet"
)

func init() {
	sim.Register(&sim.Scenario{Prop: "C13", Name: "mode-pipeline", Weight: 2, Run: runC13Pipe,
		Real: []string{"IpfsDHT mode switching driven by the real event bus", "handleNewStream / handleNewMessage request loop with the per-message mode check", "FIND_NODE, PING, PUT_VALUE and ADD_PROVIDER handlers", "records.ValueStore and records.ProviderManager write paths", "OnRequestHook", "msgio framing"},
		Stub: []string{"host handler table, connections, stream lists (simhost)", "streams (simhost.Fabric: one write = one chunk, scheduler-owned delivery)", "scripted remote peers writing batches of honest requests", "datastore (simds, operations park)", "validator (harness rank validator)"},
		Faults: []string{"fault_pipe_park_hooks", "fault_pipe_park_ds", "fault_pipe_park_writes", "fault_pipe_split_chunk",
			"probe_pipe_batch_sent", "probe_pipe_batch_whole", "probe_pipe_batch_handled_server",
			"probe_pipe_promotion", "probe_pipe_demotion", "probe_pipe_same_mode_event", "probe_pipe_demotion_streams_reset",
			"probe_pipe_demotion_mid_request_hook", "probe_pipe_demotion_mid_request_ds", "probe_pipe_demotion_mid_request_write",
			"probe_pipe_demotion_queue_behind", "probe_pipe_demotion_queue_behind_noreply", "probe_pipe_queue_dropped",
			"probe_pipe_refused_client", "probe_pipe_answered", "probe_pipe_value_stored_server", "probe_pipe_provider_stored_server",
			"probe_pipe_inflight_store_after_demotion"},
	})
}

type c13pReq struct {
	typ          pb.Message_MessageType
	key          string // PUT_VALUE: record key; ADD_PROVIDER: provided key (unique per request)
	reply        bool   // the request type has a reply (protocol: ADD_PROVIDER has none)
	batch        int    // number of the write it was part of
	end          int    // offset of the frame's last byte + 1 in the remote's byte stream
	completeStep int    // step that delivered the last byte (0: not yet)
}

type c13pStream struct {
	ix       int
	name     string
	peer     *simnet.Peer
	a, b     *simhost.Stream // a: scripted remote end, b: the node's inbound end
	openStep int
	reqs     []*c13pReq
	wrote    int
	sendFail bool
	// floor: handled(S) when the node completed its latest switch to client
	// mode (-1: no such switch in the stream's life yet)
	floor int
	// number of completely delivered requests at that switch
	completeAtSwitch int
	countedBatch     bool
	countedDropped   bool
}

// replies returns how many of the first n requests have a reply.
func (st *c13pStream) replies(n int) int {
	c := 0
	for _, r := range st.reqs[:n] {
		if r.reply {
			c++
		}
	}
	return c
}

func (st *c13pStream) complete() int {
	n := 0
	for _, r := range st.reqs {
		if r.completeStep > 0 {
			n++
		}
	}
	return n
}

func runC13Pipe(s *sim.Sim) {
	s.MaxSteps = 600
	opts := []dht.ModeOpt{dht.ModeAuto, dht.ModeAutoServer}
	optNames := []string{"auto", "auto-server"}
	oi := s.Draw("mode-opt", 2)
	opt := opts[oi]
	nRemotes := s.Range("remotes", 1, 2)
	eventsLeft := s.Range("events", 1, 6)
	streamsLeft := s.Range("streams", 1, 4)
	batchesLeft := s.Range("batches", 1, 6)
	parkHooks := s.Chance("park-hooks", 2, 3)
	parkDS := s.Draw("park-ds", 3) // 0 nothing, 1 writes, 2 every operation

	u := simnet.NewUniverse(uint64(s.Draw("universe", 1<<16)), nRemotes+2)
	h := simhost.New(s, u.Self.ID, u.Self.Addrs, u.Name)
	fab := simhost.NewFabric(s)
	fab.ParkWrites = s.Chance("park-writes", 1, 2)
	if fab.ParkWrites {
		s.Count("fault_pipe_park_writes")
	}
	if parkHooks {
		s.Count("fault_pipe_park_hooks")
	}
	if parkDS > 0 {
		s.Count("fault_pipe_park_ds")
	}
	store := simds.New(s, "ds")
	remotes := u.Peers[:nRemotes]
	for _, q := range remotes {
		c := h.Net().SetConnected(q.ID, true)
		if s.Chance("conn-outbound", 1, 2) {
			c.SetDirection(network.DirOutbound)
		} else {
			c.SetDirection(network.DirInbound)
		}
	}

	em, err := h.RealBus().Emitter(new(event.EvtLocalReachabilityChanged), eventbus.Stateful)
	if err != nil {
		panic(err)
	}
	defer em.Close()
	reach := []network.Reachability{network.ReachabilityPublic, network.ReachabilityPrivate, network.ReachabilityUnknown}
	var last *network.Reachability

	// the node's own account of what it handled (public option); the call can
	// be made to wait, like a hook that does some accounting of its own
	var hookMu sync.Mutex
	handled := map[*simhost.Stream]int{}
	hook := func(_ context.Context, ns network.Stream, _ *pb.Message) {
		x, ok := ns.(*simhost.Stream)
		if !ok {
			return
		}
		hookMu.Lock()
		k := handled[x]
		handled[x] = k + 1
		hookMu.Unlock()
		if parkHooks {
			_, _ = s.Park("hook", fmt.Sprintf("%s/%d", strings.TrimSuffix(x.Name(), "/b"), k), nil, x)
		}
	}
	d, err := dht.New(h, dht.ProtocolPrefix("/sim"), dht.Mode(opt), dht.DisableAutoRefresh(),
		dht.Datastore(store), dht.Validator(record.NamespacedValidator{"v": rankValidator{}}), dht.OnRequestHook(hook))
	if err != nil {
		panic(err)
	}
	s.Quiesce()
	switch parkDS {
	case 1:
		store.ParkOp = func(op, _ string) bool { return op == "put" || op == "commit" || op == "delete" }
	case 2:
		store.ParkOp = func(string, string) bool { return true }
	}
	s.Summary["cfg"] = fmt.Sprintf("pipeline mode=%s remotes=%d events=%d streams=%d batches=%d parkHooks=%v parkDS=%d parkWrites=%v", optNames[oi], nRemotes, eventsLeft, streamsLeft, batchesLeft, parkHooks, parkDS, fab.ParkWrites)

	var streams []*c13pStream
	byValueKey := map[string][2]int{} // PUT_VALUE record key -> (stream, request)
	byProvKey := map[string][2]int{}  // datastore key prefix of an ADD_PROVIDER entry -> (stream, request)
	var provPrefixes []string         // keys of byProvKey in creation order
	lastSwitch := 0
	nSwitches, nAnswered, nBatchHandled, nQueueBehind := 0, 0, 0, 0
	answered := map[string]bool{}
	storedSeen := 0
	nBatches := 0

	handledOn := func(st *c13pStream) int {
		hookMu.Lock()
		defer hookMu.Unlock()
		return handled[st.b]
	}
	// parkedOn: streams whose handler is parked at the hook or in a response write
	parkedOn := func() (hooks, writes map[*simhost.Stream]bool, nDS int) {
		hooks, writes = map[*simhost.Stream]bool{}, map[*simhost.Stream]bool{}
		for _, p := range s.Parked() {
			switch p.Kind {
			case "hook":
				if x, ok := p.Data.(*simhost.Stream); ok {
					hooks[x] = true
				}
			case "swrite":
				if x, ok := p.Data.(*simhost.Stream); ok {
					writes[x] = true
				}
			case "ds":
				nDS++
			}
		}
		return
	}
	// attribute maps a datastore write to the request it belongs to.
	attribute := func(r *simds.Rec) (st *c13pStream, k int, kind string, ok bool) {
		if r.Err != nil || (r.Op != "put" && r.Op != "batch-put") {
			return nil, 0, "", false
		}
		rec := new(recpb.Record)
		if proto.Unmarshal(r.Val, rec) == nil {
			if ix, found := byValueKey[string(rec.GetKey())]; found {
				return streams[ix[0]], ix[1], "value record", true
			}
		}
		for _, pfx := range provPrefixes {
			if strings.HasPrefix(r.Key, pfx) {
				ix := byProvKey[pfx]
				return streams[ix[0]], ix[1], "provider entry", true
			}
		}
		return nil, 0, "", false
	}

	observe := func() {
		wantServer := c13Expected(opt, last)
		registered := h.Handler(c13Proto) != nil
		if registered != wantServer {
			s.Violate("auto-mode-wrong", "option %s, last reachability event %s: expected server=%v but DHT stream handler registered=%v", optNames[oi], c13Last(last), wantServer, registered)
			return
		}
		if !wantServer {
			if ps := h.HandlerProtocols(); len(ps) > 0 {
				s.Violate("stray-handler", "client mode but the host still has stream handlers %v", ps)
				return
			}
		}
		hooks, writes, nDS := parkedOn()
		var sb strings.Builder
		for _, st := range streams {
			var rp frameParser
			rp.Feed(st.b.WroteBytes())
			nResp := len(rp.Frames)
			nHandled := handledOn(st)
			nComplete := st.complete()
			fmt.Fprintf(&sb, " %s[reset=%v/%s open=%v req=%d/%d handled=%d resp=%d floor=%d]", st.name, st.b.IsReset(), st.b.ResetBy, st.b.IsOpen(), nComplete, len(st.reqs), nHandled, nResp, st.floor)
			if rp.Bad {
				s.Violate("response-malformed", "stream %s: the node wrote bytes that are not a length-delimited frame", st.name)
				continue
			}
			if nHandled > nComplete {
				s.Violate("unsolicited-response", "stream %s: %d requests handed to the handlers but only %d complete requests were delivered", st.name, nHandled, nComplete)
				continue
			}
			if nResp > st.replies(nHandled) {
				s.Violate("unsolicited-response", "stream %s: %d replies written but only %d of the %d requests handed to the handlers have a reply", st.name, nResp, st.replies(nHandled), nHandled)
				continue
			}
			// the k-th reply answers the k-th request that has one
			ri := 0
			for k, rq := range st.reqs {
				if !rq.reply {
					continue
				}
				if ri >= nResp {
					break
				}
				m, err := decodeMsg(rp.Frames[ri])
				if err != nil {
					s.Violate("response-malformed", "stream %s: reply %d does not decode: %v", st.name, ri, err)
				} else if m.GetType() != rq.typ {
					s.Violate("response-mismatch", "stream %s: request %d was %v, its reply is %v", st.name, k, rq.typ, m.GetType())
				}
				id := fmt.Sprintf("%s/%d", st.name, k)
				if !answered[id] {
					answered[id] = true
					nAnswered++
					s.Count("probe_pipe_answered")
				}
				ri++
			}
			if !wantServer {
				// ---- client epoch (began at the quiescent point that ended step lastSwitch) ----
				if st.floor < 0 {
					continue // cannot happen: a stream is only opened while the host has a handler
				}
				if nHandled > st.floor {
					s.Violate("client-handled", "stream %s: the node completed its switch to client mode at step %d having handed %d request(s) of this stream to its handlers; in client mode it handed over request %d (%v, batch %d, delivered at step %d) as well", st.name, lastSwitch, st.floor, st.floor, st.reqs[st.floor].typ, st.reqs[st.floor].batch, st.reqs[st.floor].completeStep)
					continue
				}
				if nResp > st.replies(st.floor) {
					s.Violate("client-served", "stream %s: %d replies written, but only %d of the %d requests handed to the handlers before the switch to client mode (step %d) have a reply", st.name, nResp, st.replies(st.floor), st.floor, lastSwitch)
					continue
				}
				if !st.countedDropped && st.completeAtSwitch > st.floor && !hooks[st.b] && !writes[st.b] && nDS == 0 {
					st.countedDropped = true
					s.Count("probe_pipe_queue_dropped") // the rest of the batch was left alone
				}
				continue
			}
			// ---- server epoch ----
			if st.openStep <= lastSwitch {
				continue // older than the epoch: a demotion in between has reset it
			}
			if st.b.ResetBy == "local" {
				s.Violate("server-reset-stream", "stream %s was opened at step %d, inside the server epoch that began at step %d, carried only honest requests, and was reset by the node", st.name, st.openStep, lastSwitch)
				continue
			}
			if st.b.IsReset() || hooks[st.b] || writes[st.b] || nDS > 0 || rp.Partial() {
				continue
			}
			if nHandled < nComplete {
				s.Violate("server-unhandled", "stream %s: %d honest requests were delivered completely within the server epoch that began at step %d, nothing of the stream is parked, but only %d were handed to the handlers (request %d, %v, batch %d, is left)", st.name, nComplete, lastSwitch, nHandled, nHandled, st.reqs[nHandled].typ, st.reqs[nHandled].batch)
				continue
			}
			if nResp < st.replies(nComplete) {
				s.Violate("server-unanswered", "stream %s: %d of the %d honest requests delivered within the server epoch that began at step %d have a reply, nothing of the stream is parked, but only %d replies were written", st.name, st.replies(nComplete), nComplete, lastSwitch, nResp)
				continue
			}
			if !st.countedBatch {
				for k := 1; k < nHandled; k++ {
					if st.reqs[k].batch == st.reqs[k-1].batch {
						st.countedBatch = true
						nBatchHandled++
						s.Count("probe_pipe_batch_handled_server")
						break
					}
				}
			}
		}
		// datastore: writes that belong to a request
		log := store.Log()
		for _, r := range log[storedSeen:] {
			st, k, kind, ok := attribute(r)
			if !ok {
				continue
			}
			switch {
			case wantServer && kind == "value record":
				s.Count("probe_pipe_value_stored_server")
			case wantServer:
				s.Count("probe_pipe_provider_stored_server")
			case st.floor >= 0 && k >= st.floor:
				s.Violate("client-stored", "stream %s: request %d (%v, batch %d) had not been handed to the handlers when the node completed its switch to client mode at step %d (%d had), yet its %s was written to the datastore at step %d", st.name, k, st.reqs[k].typ, st.reqs[k].batch, lastSwitch, st.floor, kind, r.Step)
			default:
				s.Count("probe_pipe_inflight_store_after_demotion") // in progress at the switch: either way
			}
		}
		storedSeen = len(log)
		s.Tracef("obs server=%v ds=%d%s", registered, nDS, sb.String())
		nOpen, nH := 0, 0
		for _, st := range streams {
			if st.b.IsOpen() {
				nOpen++
			}
			nH += handledOn(st)
		}
		s.State("pipe opt=%d srv=%v open=%d streams=%d handled=%d answered=%d sw=%d parked=%d", oi, registered, nOpen, len(streams), nH, nAnswered, nSwitches, len(s.Parked()))
	}

	for s.Step() {
		observe()
		if s.Failed() {
			break
		}
		var acts []sim.Action
		if eventsLeft > 0 {
			acts = append(acts, sim.Action{ID: "emit", Do: func() {
				eventsLeft--
				r := reach[s.Draw("reach", 3)]
				before := c13Expected(opt, last)
				last = &r
				after := c13Expected(opt, last)
				var openBefore []*c13pStream
				for _, st := range streams {
					if !st.b.IsReset() && st.b.IsOpen() {
						openBefore = append(openBefore, st)
					}
				}
				hooks, writes, nDS := parkedOn()
				s.Tracef("emit %v (model %v -> %v)", r, before, after)
				if err := em.Emit(event.EvtLocalReachabilityChanged{Reachability: r}); err != nil {
					panic(err)
				}
				s.Quiesce()
				switch {
				case before == after:
					s.Count("probe_pipe_same_mode_event")
					return
				case after:
					s.Count("probe_pipe_promotion")
				default:
					s.Count("probe_pipe_demotion")
				}
				lastSwitch = s.Steps
				nSwitches++
				if after {
					return
				}
				// the switch to client mode is complete (checked by observe at the
				// next step): what was handed to the handlers by now is in progress
				// or done, everything behind it is not a server's business any more
				storedSeen = store.LogLen()
				midHook, midWrite, queue, queueNoReply := false, false, false, false
				for _, st := range streams {
					st.floor = handledOn(st)
					st.completeAtSwitch = st.complete()
				}
				for _, st := range openBefore {
					if hooks[st.b] {
						midHook = true
					}
					if writes[st.b] {
						midWrite = true
					}
					if st.completeAtSwitch > st.floor && st.floor > 0 {
						queue = true
						if !st.reqs[st.floor-1].reply {
							queueNoReply = true
						}
					}
					if !st.b.IsReset() {
						s.Violate("open-at-demotion-not-reset", "inbound DHT stream %s was open when the node switched to client mode at step %d and is still not reset at the next quiescent point", st.name, s.Steps)
					}
				}
				if len(openBefore) > 0 {
					s.Count("probe_pipe_demotion_streams_reset")
				}
				if midHook {
					s.Count("probe_pipe_demotion_mid_request_hook")
				}
				if midWrite {
					s.Count("probe_pipe_demotion_mid_request_write")
				}
				if nDS > 0 {
					s.Count("probe_pipe_demotion_mid_request_ds")
				}
				if queue {
					nQueueBehind++
					s.Count("probe_pipe_demotion_queue_behind")
				}
				if queueNoReply {
					s.Count("probe_pipe_demotion_queue_behind_noreply")
				}
			}})
		}
		if streamsLeft > 0 {
			for _, q := range remotes {
				q := q
				acts = append(acts, sim.Action{ID: "open:" + q.Name, Do: func() {
					streamsLeft--
					id, hd := h.Negotiate(c13Proto)
					if hd == nil {
						// a real host refuses the protocol negotiation: a client has no handler
						s.Count("probe_pipe_refused_client")
						s.Tracef("negotiation refused for %s", q.Name)
						return
					}
					conn := h.Net().SetConnected(q.ID, true)
					a, b := fab.NewPair("in:"+q.Name, id, q.ID, u.Self.ID, nil, conn)
					a.Scripted = true
					st := &c13pStream{ix: len(streams), name: strings.TrimSuffix(b.Name(), "/b"), peer: q, a: a, b: b, openStep: s.Steps, floor: -1}
					streams = append(streams, st)
					go hd(b)
				}})
			}
		}
		for _, st := range streams {
			st := st
			if batchesLeft > 0 && !st.sendFail {
				acts = append(acts, sim.Action{ID: "batch:" + st.name, Do: func() {
					batchesLeft--
					nBatches++
					n := s.Range("batch-len", 1, 5)
					var out []byte
					var rqs []*c13pReq
					for i := 0; i < n; i++ {
						k := len(st.reqs) + i
						rq := &c13pReq{batch: nBatches, reply: true}
						var m *pb.Message
						switch s.Draw("req-type", 6) {
						case 0:
							rq.typ = pb.Message_FIND_NODE
							m = pb.NewMessage(rq.typ, []byte(u.Peers[len(u.Peers)-1].ID), 0)
						case 1:
							rq.typ = pb.Message_PING
							m = pb.NewMessage(rq.typ, nil, 0)
						case 2:
							rq.typ = pb.Message_PUT_VALUE
							rq.key = fmt.Sprintf("/v/%s/%d.", st.name, k)
							m = pb.NewMessage(rq.typ, []byte(rq.key), 0)
							m.Record = record.MakePutRecord(rq.key, rankValue(1, time.Time{}, rq.key))
						default:
							// the provider announces itself, with its addresses
							rq.typ, rq.reply = pb.Message_ADD_PROVIDER, false
							rq.key = fmt.Sprintf("prov/%s/%d", st.name, k)
							m = pb.NewMessage(rq.typ, []byte(rq.key), 0)
							m.ProviderPeers = pb.RawPeerInfosToPBPeers([]peer.AddrInfo{{ID: st.peer.ID, Addrs: st.peer.Addrs}})
						}
						f := encodeFrame(m)
						out = append(out, f...)
						rq.end = st.wrote + len(out)
						rqs = append(rqs, rq)
					}
					if _, err := st.a.Write(out); err != nil {
						st.sendFail = true // the remote learns that the stream is gone
						s.Tracef("batch on %s failed: %v", st.name, err)
						return
					}
					for i, rq := range rqs {
						switch rq.typ {
						case pb.Message_PUT_VALUE:
							byValueKey[rq.key] = [2]int{st.ix, len(st.reqs) + i}
						case pb.Message_ADD_PROVIDER:
							// where the provider store keeps the entries of a key
							// (attribution only; nothing is demanded of the layout)
							pfx := records.ProvidersKeyPrefix + base32.RawStdEncoding.EncodeToString([]byte(rq.key)) + "/"
							byProvKey[pfx] = [2]int{st.ix, len(st.reqs) + i}
							provPrefixes = append(provPrefixes, pfx)
						}
					}
					st.wrote += len(out)
					st.reqs = append(st.reqs, rqs...)
					if n > 1 {
						s.Count("probe_pipe_batch_sent")
					}
				}})
			}
			if n, _ := st.b.Pending(); n > 0 {
				acts = append(acts, sim.Action{ID: "deliver:" + st.name, Do: func() {
					l := st.b.NextChunkLen()
					if l > 1 && s.Chance("split", 1, 4) {
						s.Count("fault_pipe_split_chunk")
						st.b.Deliver(1 + s.Draw("split-at", l-1))
					} else {
						st.b.Deliver(0)
					}
					got := 0
					for _, rq := range st.reqs {
						if rq.completeStep == 0 && st.b.Delivered >= rq.end {
							rq.completeStep = s.Steps
							got++
						}
					}
					if got > 1 {
						s.Count("probe_pipe_batch_whole")
					}
				}})
			}
		}
		for _, p := range s.Parked() {
			p := p
			switch p.Kind {
			case "hook", "swrite", "ds":
				acts = append(acts, sim.Action{ID: p.ID, Do: func() { s.Release(p, nil) }})
			}
		}
		if len(acts) == 0 {
			break
		}
		s.Choose("next", acts)
	}
	if !s.Failed() {
		observe()
	}
	if s.Steps > s.MaxSteps {
		s.Count("step_budget_exhausted")
	}
	s.Tracef("done switches=%d answered=%d batchHandled=%d queueBehind=%d streams=%d", nSwitches, nAnswered, nBatchHandled, nQueueBehind, len(streams))
	s.NonTrivial = nSwitches > 0 && nBatchHandled > 0 && nQueueBehind > 0

	// the host goes away: every connection (and with it every stream) is torn down
	store.ParkOp = nil
	for _, st := range streams {
		st.b.SimReset()
	}
	closeAndCensus(s, func() {
		_ = d.Close()
		_ = h.Close()
	})
	s.Finish()
}
