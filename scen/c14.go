//go:build all || c14

package scen

// C14 — "Close stops everything; failed constructors leave nothing running".
//
// Harness H5: one component per scenario, a drawn option combination, a short
// workload with operations in flight, Close from its own client goroutine at a
// drawn step, a second Close after the first returned, then a goroutine census
// by creation site against the baseline taken before the instance was built.
//
// Shared machinery of all C14 scenarios lives in this file:
//
//   - c14Flow: the common life cycle (workload -> Close at a drawn step ->
//     drawn interleaving of Close with the parked calls, and - drawn - a
//     second Close issued while the first is still running -> drain -> every
//     Close call judged at the instant it returned -> in-flight operations
//     return -> another Close after the first returned -> census);
//   - c14Census: creators of the goroutines of *this* bubble that were not
//     started by the harness;
//   - c14Answer*: honest answers for parked seam calls (RPCs, dials, datastore
//     operations);
//   - c14ConstRand: crypto/rand replaced for the run by a reader whose output
//     does not depend on which goroutine reads first (refresh keys, crawler
//     keys and the provider's prefix-length probes stay replayable).
//
// Oracle rules (rule id -> clause of the property):
//
//   close-panic / second-close-panic  Close (first / repeated) panicked.
//   close-hang                        everything parked was released
//                                     (cancellations first), nothing is parked,
//                                     and B = 10 min of virtual time later Close
//                                     has still not returned.
//   second-close-hang                 the same for the repeated Close.
//   close-early                       at the first quiescent instant after Close
//                                     returned (nothing further released yet) a
//                                     goroutine that the constructor left running
//                                     idle - a long-lived loop - still exists; for
//                                     components without documented exceptions
//                                     (stores, keystores, providers) and with no
//                                     operation in flight: any goroutine of the
//                                     instance still exists.
//   overlap-close-early               "may be called repeatedly" + "returns only
//                                     after all goroutines the instance started
//                                     have exited" hold for every call of Close,
//                                     also for one issued while an earlier Close
//                                     has not returned yet: the same census as
//                                     close-early, taken at the first quiescent
//                                     instant after the overlapping Close returned
//                                     while the first one is still blocked.
//   close-live-call                   "Close stops everything": at the first
//                                     quiescent instant after Close returned (no
//                                     other Close still running) a call of the
//                                     instance sits at an environment seam (RPC,
//                                     dial, datastore, router, crawl, caller's
//                                     keystore) with a
//                                     context that is NOT done, and it does not
//                                     belong to a caller's operation that is
//                                     still in flight (calls carry the tag of the
//                                     caller's context; untagged calls and calls
//                                     of operations that already returned are
//                                     work the instance runs on its own). Such a
//                                     goroutine has not even been told to stop:
//                                     it keeps using the host / datastore for as
//                                     long as the environment lets it.
//   op-panic                          an operation that was in flight when Close
//                                     was called panicked on its caller's
//                                     goroutine.
//   op-hang                           such an operation has not returned although
//                                     Close returned, every parked call was
//                                     answered and B passed.
//   leak                              after Close returned, parked calls were
//                                     released and 5 min of wind-down time
//                                     passed, goroutines created by repository
//                                     (or dependency) code that did not exist
//                                     before the instance was built remain.
//
//   owned-ds-closed-in-use /          datastores the instance created through a
//   owned-ds-use-after-close          factory it was given (it owns and closes
//                                     them): never closed while an operation the
//                                     instance issued is inside, never used after
//                                     the instance closed them ("safe while
//                                     operations are in flight ... without panic";
//                                     "returns only after all goroutines the
//                                     instance started have exited"). See
//                                     c14_ownedds.go; resettable-keystore in
//                                     factory mode.
//
// Callers that give up (c14Flow.mayAbandon; keystore scenarios, c14_stores.go):
// "the caller's context ends" is a scheduler choice for an operation in
// flight. No rule of its own - "those operations finish or fail without panic
// or deadlock" and "Close ... returns only after all goroutines the instance
// started have exited" are op-hang, close-hang, second-close-hang, close-early
// and leak above; the choice only produces the instants at which the instance
// finishes work nobody waits for any more.
//
// A keystore the caller supplied to a provider is closed by the caller after
// the provider; that Close is judged by close-hang / close-panic as well
// (c14JudgeCallerKeystoreClose, c14_provider.go): "Close on every component
// (... keystores)", after the provider's Close ended the context of calls the
// keystore was executing. What such a keystore still does on its own after the
// provider's Close returned is not work of the provider (c14Flow.callers).
//
// The overlapping Close is generated for every component except the sweeping
// provider and its wrappers: their Close is a sync.Once around blocking work,
// and a second caller blocks on the Once's internal mutex, which synctest
// cannot see (DESIGN §10). close-live-call never looks at calls while some
// Close is still running (a Close may itself write to the datastore), at
// calls without a context, or at calls tagged with an operation that has not
// returned: a caller's operation runs on the caller's context and the
// property only asks that it finishes or fails.
//
// Environment faults the flow itself knows about: a scenario may declare parked
// calls stalled (c14Flow.stall: a hung datastore). A stalled call is neither a
// scheduler choice nor answered by the drain phases; virtual time passes while
// it is parked - time that does not count towards B, because the instance is
// waiting for its environment - until the call's context is done (it is then
// released as cancelled) or the scenario's own bound for the stall has passed
// (it is then answered). See "buffered-provider" in c14_provider.go. The
// scenario "ipfsdht-stale-refresh" (c14_refresh.go) adds no rule either: it
// brings refresh rounds with a liveness-check phase under the rules above.
//
// Soundness notes: parked calls whose context is done are only ever released as
// "cancelled" (answering them would race with the cancellation inside the
// SUT); transient per-query goroutines and host-owned stream handlers get
// their parked calls released, their streams reset and 5 min of virtual time
// before the census counts; B only runs while nothing is parked, i.e. it never
// includes time the SUT spent waiting for the environment.
//
// Replayability: several components resolve multi-way selects, map iterations
// or lock races in the Go runtime (every outcome legal). Each scenario keeps
// its schedule menu out of the states where that would change what reaches
// the seams; the comments next to mayStart / mayClose / prio / enabled /
// tickQuietOnly and in the scenarios say which state and why. Debugging aid:
// C14_DEBUG=1 adds the parked set to the trace at every decision.

import (
	"context"
	crand "crypto/rand"
	"fmt"
	"io"
	"os"
	"reflect"
	"regexp"
	"runtime"
	"sort"
	"strings"
	"sync"
	"time"

	"github.com/ipfs/go-cid"
	pb "github.com/libp2p/go-libp2p-kad-dht/pb"
	"github.com/libp2p/go-libp2p/core/peer"
	mh "github.com/multiformats/go-multihash"

	recpb "github.com/libp2p/go-libp2p-record/pb"

	"verif/sim"
	"verif/simds"
	"verif/simhost"
	"verif/simnet"
)

var c14Debug = os.Getenv("C14_DEBUG") != ""

// c14B is the generous virtual-time bound of the property's "returns".
const c14B = 10 * time.Minute

var c14CommonFaults = []string{
	"time_advance", "cancel_observed",
	"probe_close_with_ops_inflight", "probe_close_with_rpc_parked", "probe_close_with_ds_parked",
	"probe_close_interleaved", "probe_second_close", "probe_census_clean",
}

// c14OverlapFaults: probes of the scenarios that generate a second Close which
// overlaps the first (see c14Flow.overlapOK).
var c14OverlapFaults = []string{"probe_overlap_close", "probe_overlap_close_with_calls_parked"}

// ---------------------------------------------------------------------------
// goroutine census

var c14BubbleRe = regexp.MustCompile(`synctest bubble (\d+)`)

// c14Census returns the sorted creation sites of the goroutines of the
// caller's bubble that were not created by harness code. Goroutines of other
// (dead) bubbles in the same process are ignored.
func c14Census() []string {
	buf := make([]byte, 1<<20)
	for {
		n := runtime.Stack(buf, true)
		if n < len(buf) {
			buf = buf[:n]
			break
		}
		buf = make([]byte, 2*len(buf))
	}
	gs := strings.Split(string(buf), "\n\n")
	if len(gs) == 0 {
		return nil
	}
	hdr, _, _ := strings.Cut(gs[0], "\n")
	m := c14BubbleRe.FindStringSubmatch(hdr)
	if m == nil {
		return nil
	}
	mine := "synctest bubble " + m[1]
	var out []string
	for _, g := range gs[1:] {
		hdr, _, _ := strings.Cut(g, "\n")
		if !strings.Contains(hdr, mine+"]") && !strings.Contains(hdr, mine+",") {
			continue
		}
		c := sim.CreatorOf(g)
		harness := false
		for _, pre := range harnessPrefixes {
			harness = harness || strings.HasPrefix(c, pre)
		}
		if !harness {
			out = append(out, c)
		}
	}
	sort.Strings(out)
	return out
}

// c14G describes one goroutine of the bubble that harness code did not create.
type c14G struct {
	creator string
	// entry is the function the goroutine runs (the frame below
	// sync.(*WaitGroup).Go's trampoline, if any)
	entry string
	// atSeam: blocked inside a simulator seam (parked call)
	atSeam bool
}

var c14FuncRe = regexp.MustCompile(`(?m)^([^\s].*)\(.*\)$`)

// c14Goroutines lists the goroutines of the caller's bubble that were not
// created by harness code.
func c14Goroutines() []c14G {
	buf := make([]byte, 1<<20)
	for {
		n := runtime.Stack(buf, true)
		if n < len(buf) {
			buf = buf[:n]
			break
		}
		buf = make([]byte, 2*len(buf))
	}
	gs := strings.Split(string(buf), "\n\n")
	if len(gs) == 0 {
		return nil
	}
	hdr, _, _ := strings.Cut(gs[0], "\n")
	m := c14BubbleRe.FindStringSubmatch(hdr)
	if m == nil {
		return nil
	}
	mine := "synctest bubble " + m[1]
	var out []c14G
	for _, g := range gs[1:] {
		hdr, body, _ := strings.Cut(g, "\n")
		if !strings.Contains(hdr, mine+"]") && !strings.Contains(hdr, mine+",") {
			continue
		}
		c := sim.CreatorOf(g)
		harness := false
		for _, pre := range harnessPrefixes {
			harness = harness || strings.HasPrefix(c, pre)
		}
		if harness {
			continue
		}
		if i := strings.LastIndex(body, "created by "); i >= 0 {
			body = body[:i]
		}
		entry := ""
		for _, fm := range c14FuncRe.FindAllStringSubmatch(body, -1) {
			if !strings.HasPrefix(fm[1], "sync.(*WaitGroup).Go") {
				entry = fm[1]
			}
		}
		out = append(out, c14G{creator: c, entry: entry, atSeam: strings.Contains(body, "verif/sim.(*Sim).Park")})
	}
	sort.Slice(out, func(i, j int) bool { return out[i].entry < out[j].entry })
	return out
}

// c14Extra is the multiset difference now - base.
func c14Extra(base, now []string) []string {
	cnt := map[string]int{}
	for _, c := range base {
		cnt[c]++
	}
	var out []string
	for _, c := range now {
		if cnt[c] > 0 {
			cnt[c]--
			continue
		}
		out = append(out, c)
	}
	return out
}

// ---------------------------------------------------------------------------
// deterministic crypto/rand

type c14Reader struct {
	seed uint64
	mu   sync.Mutex
	n    uint64
}

// Read fills p with a sequence that restarts at every call: the bytes a reader
// obtains do not depend on how many other goroutines read before it (two
// refresh loops, crawler workers). The one exception are the provider's
// prefix-length probes: four goroutines that each draw one random key and look
// it up concurrently; they are interchangeable, so they get distinct keys in
// arrival order (with identical keys their requests would carry identical
// labels and be told apart by arrival order instead).
func (r *c14Reader) Read(p []byte) (int, error) {
	ctr := uint64(0)
	var pcs [12]uintptr
	frames := runtime.CallersFrames(pcs[:runtime.Callers(2, pcs[:])])
	for {
		fr, more := frames.Next()
		if strings.Contains(fr.Function, "approxPrefixLen") {
			r.mu.Lock()
			r.n++
			ctr = r.n
			r.mu.Unlock()
			break
		}
		if !more {
			break
		}
	}
	x := (r.seed+ctr*0x100000001b3)*0x9e3779b97f4a7c15 + 0x1234567
	for i := range p {
		x += 0x9e3779b97f4a7c15
		z := x
		z = (z ^ (z >> 30)) * 0xbf58476d1ce4e5b9
		z = (z ^ (z >> 27)) * 0x94d049bb133111eb
		p[i] = byte(z ^ (z >> 31))
	}
	return len(p), nil
}

// c14ConstRand replaces crypto/rand.Reader for the run (kbucket refresh keys,
// crawler keys, provider prefix-length probes); the returned function restores
// it. Runs are sequential within a worker process.
func c14ConstRand(s *sim.Sim) func() {
	old := crand.Reader
	crand.Reader = &c14Reader{seed: uint64(s.Draw("rand-seed", 1<<16))}
	return func() { crand.Reader = old }
}

var _ io.Reader = (*c14Reader)(nil)

// ---------------------------------------------------------------------------
// failing options

// c14FailingOption builds a value of the (function) option type T — whose
// parameter type may be unexported — that returns err.
func c14FailingOption[T any](err error) T {
	var zero T
	t := reflect.TypeOf(zero)
	f := reflect.MakeFunc(t, func([]reflect.Value) []reflect.Value {
		return []reflect.Value{reflect.ValueOf(&err).Elem()}
	})
	return f.Interface().(T)
}

// ---------------------------------------------------------------------------
// keys

func c14MH(i int) mh.Multihash {
	h, err := mh.Sum([]byte(fmt.Sprintf("c14-content-%d", i)), mh.SHA2_256, -1)
	if err != nil {
		panic(err)
	}
	return h
}

func c14Cid(i int) cid.Cid { return cid.NewCidV1(cid.Raw, c14MH(i)) }

// ---------------------------------------------------------------------------
// honest answers for parked seam calls

type c14World struct {
	s     *sim.Sim
	u     *simnet.Universe
	hosts []*simhost.Host
	k     int
	// rpcFault / dsFault: 1-in-n chance of a failed answer before Close is
	// drained (0 = never)
	rpcFault, dsFault int
	// closer, when set, gives the peers a responder may name (default: the
	// whole universe)
	closer func(p *sim.Parked) []*simnet.Peer
}

// peersOf maps ids to universe peers (unknown ids dropped), in universe order.
func (w *c14World) peersOf(ids []peer.ID) []*simnet.Peer {
	in := idSet(ids)
	var out []*simnet.Peer
	for _, p := range w.u.Peers {
		if in[p.ID] {
			out = append(out, p)
		}
	}
	return out
}

func (w *c14World) peersExcept(x peer.ID) []*simnet.Peer {
	var out []*simnet.Peer
	for _, p := range w.u.Peers {
		if p.ID != x {
			out = append(out, p)
		}
	}
	return out
}

// answer releases one parked call that is neither a client nor cancelled.
func (w *c14World) answer(p *sim.Parked, drain bool) {
	s := w.s
	switch p.Kind {
	case "rpc":
		r := p.Data.(*simnet.RPC)
		if !drain && w.rpcFault > 0 && s.Chance("rpc-fail", 1, w.rpcFault) {
			s.Count("fault_rpc_error")
			s.Release(p, simnet.Reply{Err: errReqFailed})
			return
		}
		if !r.WantResp {
			s.Release(p, simnet.Reply{})
			return
		}
		req := r.Req
		resp := &pb.Message{Type: req.GetType(), Key: req.GetKey()}
		switch req.GetType() {
		case pb.Message_FIND_NODE, pb.Message_GET_VALUE, pb.Message_GET_PROVIDERS:
			k := w.k
			if k <= 0 {
				k = 1
			}
			cands := w.peersExcept(r.To)
			if w.closer != nil {
				cands = nil
				for _, x := range w.closer(p) {
					if x.ID != r.To {
						cands = append(cands, x)
					}
				}
			}
			resp.CloserPeers = simnet.ToPB(simnet.Nearest(cands, simnet.KadOfKey(string(req.GetKey())), k))
			if x := w.u.ByID(r.To); len(resp.CloserPeers) == 0 && x != nil && string(req.GetKey()) == string(r.To) {
				// a liveness probe (lookup for the responder's own id) counts the
				// peers named; an honest peer names at least somebody
				resp.CloserPeers = simnet.ToPB([]*simnet.Peer{x})
			}
			if req.GetType() == pb.Message_GET_VALUE && strings.HasPrefix(string(req.GetKey()), "/v/") {
				resp.Record = &recpb.Record{Key: req.GetKey(), Value: rankValue(1, time.Time{}, string(req.GetKey()))}
			}
			if req.GetType() == pb.Message_GET_PROVIDERS && len(w.u.Peers) > 0 {
				resp.ProviderPeers = simnet.ToPB(w.u.Peers[:1])
			}
		case pb.Message_PUT_VALUE:
			resp.Record = req.GetRecord()
		}
		s.Release(p, simnet.Reply{Msg: resp})
	case "dial":
		who, _ := p.Data.(peer.ID)
		if x := w.u.ByID(who); x != nil {
			// what a successful dial leaves behind: an open connection with the
			// peer's (public) address, as the routing-table filters read it
			for _, h := range w.hosts {
				h.Net().SetConnected(who, true)
				h.Net().SetRemoteAddr(who, x.Addrs[0])
			}
			s.Release(p, nil)
		} else {
			s.Release(p, simhost.ErrDialFailed)
		}
	case "ds":
		if !drain && w.dsFault > 0 && s.Chance("ds-fail", 1, w.dsFault) {
			s.Release(p, simds.ErrInjected)
			return
		}
		s.Release(p, nil)
	default:
		s.Release(p, nil)
	}
}

// ---------------------------------------------------------------------------
// the common life cycle

type c14Client struct {
	name    string
	tag     string
	run     func(ctx context.Context) (any, error)
	op      *Op
	started bool
	// cancel ends the caller's context (set only in flows with mayAbandon);
	// abandoned: it was called
	cancel    context.CancelFunc
	abandoned bool
}

type c14Flow struct {
	s    *sim.Sim
	name string
	ops  opSet

	clients []*c14Client
	base    []string // census before the instance was built
	// baseEntries: entry functions alive before the instance was built;
	// long: entry functions of the goroutines the constructor left running
	// idle (not inside a seam) - the long-lived loops Close has to join
	baseEntries, long map[string]int
	// strict: Close joins every goroutine the instance starts (no documented
	// exception): checked when no client operation is in flight any more
	strict bool
	// settling is set while constructed() answers what the constructor parked
	settling bool

	// answer releases a parked seam call (never a client, never cancelled).
	answer func(p *sim.Parked, drain bool)
	// extra: scenario actions offered while the workload runs (events, inbound
	// requests, ...); not offered once Close was issued.
	extra func() []sim.Action
	// always: actions that stay available in every phase (stream deliveries).
	always func() []sim.Action
	// pump runs at quiescent points (scripted endpoints).
	pump func()
	// atClose is called right before Close is issued (probes).
	atClose func()
	// afterClose releases what the host owns (reset inbound streams, ...).
	afterClose func()
	// mayStart filters which operations may be started at this quiescent point
	// and mayClose whether Close may be issued now; scenarios use them to keep
	// out of states in which the SUT itself resolves a multi-way select at
	// random (see the scenario comments). nil = always.
	mayStart func(c *c14Client) bool
	mayClose func() bool
	// enabled filters the parked calls offered as scheduler choices (nil = all)
	enabled func(p *sim.Parked) bool
	// prio, when set, orders the parked calls once Close was issued: only calls
	// of the lowest value present are released (same purpose as mayClose).
	prio func(p *sim.Parked) int
	// beforeCensus closes companions built after the baseline (e.g. the DHT a
	// provider routes through) so that the census covers them too.
	beforeCensus func()
	// check, when set, evaluates scenario-owned rules whose observations are
	// collected off the simulator goroutine (c14OwnedDS). It runs at the first
	// quiescent instant after each Close call returned and when run() ends.
	check func()

	closeFn    func() error
	closeAt    int
	interleave int
	// cancelLast: the drain phases answer the calls whose context is still
	// live before they let the calls whose context is done observe that (the
	// default is the other way round). Both orders are legal environments: a
	// call that is inside the datastore / the network notices a cancellation
	// whenever it gets to look, possibly after everything else was served.
	cancelLast bool
	// closeNow, when set, is asked at every quiescent point of the workload:
	// true ends the workload at once (Close is issued next), before closeAt
	// steps were made. Scenarios use it to aim Close at a drawn position in the
	// life of a long operation instead of at a step count.
	closeNow func() bool
	// dts: virtual-time jumps offered during the workload
	dts []time.Duration
	// tickQuietOnly: time only moves while no seam call is parked (a jump over
	// a time-out with several calls parked fails them all at once, and the
	// failure handlers then run in Go-scheduler order)
	tickQuietOnly bool
	// tickChunk, when set, splits every virtual-time jump of the workload into
	// chunks of this length and ends the jump after the first chunk in which a
	// seam call parked: the instance has begun to wait for its environment, and
	// what further timers would do while it waits (a second goroutine queueing
	// up behind the first) is then up to the scheduler's next decisions instead
	// of happening unseen within one jump.
	tickChunk time.Duration
	// drainDts: the two strides in which drain lets virtual time pass while
	// nothing can be released (the first for the first ten seconds, then the
	// second). Scenarios whose component runs timers of its own set odd values
	// (HARNESS pitfall 4).
	drainDts [2]time.Duration
	// stall, when set, is asked for every parked call that could be answered:
	// true = the environment does not answer this call for the time being (a
	// hung datastore). The call stays parked while virtual time passes and is
	// only released once its context is done (as cancelled) or stall stops
	// saying true; the scenario bounds the stall, because a component may wait
	// for its environment as long as the environment takes. Time that passes
	// while a stalled call is parked does not count towards B.
	stall func(p *sim.Parked) bool

	// callers, when set, says which parked calls are made by a component that
	// belongs to the caller, not to the instance (a keystore the caller built,
	// handed to the provider and closes itself after the provider): work such a
	// component still does on its own after the instance's Close returned - a
	// keystore that recounts its size after a call of the provider failed
	// half-way - is not work of the instance; close-live-call skips it. (The
	// instance's own goroutines stay under close-early, whose census ignores
	// only what existed before the instance was built, and under leak.)
	callers func(p *sim.Parked) bool
	// mayAbandon, when set (before the operations are registered), makes "the
	// caller's context ends" a scheduler choice of the workload phase for every
	// operation that is in flight and for which it says true: the caller gives
	// up (time-out, cancellation) at that instant, whatever the instance is
	// doing on its behalf. The operation then has to return like any other
	// ("those operations finish or fail"), and whatever the instance still does
	// for it must not keep a later operation or Close from returning. No rule of
	// its own: op-hang, close-hang, second-close-hang, close-early, leak.
	mayAbandon func(c *c14Client) bool
	// onAbandon is called right before the context ends (probes)
	onAbandon func(c *c14Client)
	// abandons counts the callers that gave up
	abandons int

	// overlapOK: the scenario allows a second Close that overlaps the first
	// (drawn in run). Not set for components whose Close is a sync.Once around
	// blocking work: the second caller would block on the Once's internal
	// mutex, which synctest cannot see (DESIGN §10).
	overlapOK bool
	// overlapOp is the overlapping Close (nil when none was issued);
	// closeSeen records which Close calls were already judged at their return
	overlapOp *Op
	closeSeen map[*Op]bool

	debugState func() string
	closeOp    *Op
	inflight   int // operations started and not finished when Close was issued
	// closing is set once no new work is started any more (from the moment the
	// flow looks for an instant at which Close may be issued)
	closing bool
}

func newC14Flow(s *sim.Sim, name string) *c14Flow {
	return &c14Flow{s: s, name: name, dts: []time.Duration{time.Second, 30 * time.Second, 2 * time.Minute},
		drainDts: [2]time.Duration{time.Second, 30 * time.Second}}
}

// baseline records the census; call it after the environment (hosts,
// datastores) exists and before the instance under test is constructed.
func (f *c14Flow) baseline() {
	f.s.Quiesce()
	f.base = c14Census()
	f.baseEntries = map[string]int{}
	for _, g := range c14Goroutines() {
		f.baseEntries[g.entry]++
	}
}

// constructed records which goroutines the constructor left running. With
// settle, everything the constructor parked is answered first, so that every
// long-lived loop is idle (and therefore recorded); without it, loops that sit
// in a parked call right now are not recorded (they cannot be told apart from
// transient work the constructor kicked off).
func (f *c14Flow) constructed(settle bool) {
	if settle {
		f.settling = true
		f.drain(func() bool { return len(f.nonClientParked()) == 0 })
		f.settling = false
	}
	f.s.Quiesce()
	f.long = map[string]int{}
	for _, g := range c14Goroutines() {
		if !g.atSeam {
			f.long[g.entry]++
		}
	}
	for e, n := range f.baseEntries {
		if f.long[e] -= n; f.long[e] <= 0 {
			delete(f.long, e)
		}
	}
}

// checkCloseInstant runs at the first quiescent point after a Close call
// returned, before anything else is released. overlapOnly: the call that
// returned is the overlapping one and the first Close is still running.
func (f *c14Flow) checkCloseInstant(overlapOnly bool) {
	s := f.s
	rule, what := "close-early", "Close"
	if overlapOnly {
		rule, what = "overlap-close-early", "a second Close, issued while the first had not returned yet,"
	}
	if f.check != nil {
		if f.check(); s.Failed() {
			return
		}
	}
	alive := map[string]int{}
	for _, g := range c14Goroutines() {
		alive[g.entry]++
	}
	var early []string
	for e := range f.long {
		if alive[e] > f.baseEntries[e] {
			early = append(early, e)
		}
	}
	sort.Strings(early)
	if len(early) > 0 {
		s.Violate(rule, "%s: %s returned while goroutines the constructor started are still running (they sit in calls that have not been answered yet): %s", f.name, what, strings.Join(early, ", "))
		return
	}
	// No Close call is running any more: whatever still waits for the
	// environment must at least have been told to stop.
	if f.closeOp.Done && (f.overlapOp == nil || f.overlapOp.Done) {
		inflight := map[string]bool{}
		for _, c := range f.clients {
			if c.started && !c.op.Done {
				inflight["@"+c.tag] = true
			}
		}
		var live []string
		for _, p := range s.Parked() {
			switch p.Kind {
			case "rpc", "dial", "ds", "gcp", "crawl", "ks":
			default:
				continue
			}
			if p.Ctx == nil || p.Cancelled() || inflight[sim.TagOf(p.Ctx)] {
				continue
			}
			if f.callers != nil && f.callers(p) {
				continue
			}
			live = append(live, p.ID)
		}
		if len(live) > 0 {
			s.Violate("close-live-call", "%s: Close returned, yet the instance still has calls out to its environment whose context is not done and which belong to no operation still in flight (background work that was not told to stop): %s", f.name, strings.Join(live, ", "))
			return
		}
	}
	if !f.strict {
		return
	}
	for _, c := range f.clients {
		if c.started && !c.op.Done {
			return // its own goroutines may legitimately still be around
		}
	}
	if extra := c14Extra(f.base, c14Census()); len(extra) > 0 {
		s.Violate(rule, "%s: %s returned (no operation in flight) while goroutines started by the instance are still running: %s", f.name, what, strings.Join(extra, ", "))
	}
}

// client registers an operation; starting it is a scheduler decision.
func (f *c14Flow) client(name string, run func(ctx context.Context) (any, error)) *c14Client {
	c := &c14Client{name: name, run: run}
	f.clients = append(f.clients, c)
	tag := fmt.Sprintf("o%02d", len(f.clients))
	c.tag = tag
	ctx := sim.WithTag(context.Background(), tag)
	if f.mayAbandon != nil {
		ctx, c.cancel = context.WithCancel(ctx)
	}
	c.op = f.ops.Go(f.s, name, func() (any, error) {
		out, _ := f.s.Park("client", tag+":"+name, nil, c)
		if out != nil {
			return nil, nil // skipped: never started
		}
		c.started = true
		return c.run(ctx)
	})
	return c
}

func (f *c14Flow) actions(closing bool) []sim.Action {
	s := f.s
	var acts []sim.Action
	if c14Debug {
		var l []string
		for _, p := range s.Parked() {
			l = append(l, fmt.Sprintf("%s(c=%v)", p.ID, p.Cancelled()))
		}
		st := ""
		if f.debugState != nil {
			st = f.debugState()
		}
		s.Tracef("DEBUG parked: %s | %s", strings.Join(l, " "), st)
	}
	anyCancelled := false
	minPrio := f.minPrio(closing)
	for _, p := range s.Parked() {
		p := p
		switch {
		case p.Kind == "client":
			if c, _ := p.Data.(*c14Client); !closing && (f.mayStart == nil || c == nil || f.mayStart(c)) {
				acts = append(acts, sim.Action{ID: p.ID, Do: func() { s.Release(p, nil) }})
			}
		case p.Kind == "lock" || p.Kind == "yield":
		case p.Cancelled():
			anyCancelled = true
		case closing && f.prio != nil && f.prio(p) > minPrio:
		case f.enabled != nil && !f.enabled(p):
		case f.stall != nil && f.stall(p):
		default:
			acts = append(acts, sim.Action{ID: p.ID, Do: func() { f.answer(p, false) }})
		}
	}
	if anyCancelled {
		// One action lets every call whose context is done observe that, and
		// follows up until no cancelled call is parked any more. (A loop of the
		// form "select { case <-ticker.C: work(ctx); case <-ctx.Done(): return }"
		// with a tick pending picks either branch at random once ctx is done;
		// both end in the same state after this action, so the schedule stays
		// replayable.)
		acts = append(acts, sim.Action{ID: "cancel>all", Do: f.observeCancellations})
	}
	if !closing && f.mayAbandon != nil {
		for _, c := range f.clients {
			c := c
			if c.cancel == nil || c.abandoned || !c.started || c.op.Done || !f.mayAbandon(c) {
				continue
			}
			acts = append(acts, sim.Action{ID: "abandon>" + c.tag, Do: func() {
				c.abandoned = true
				f.abandons++
				s.Count("fault_caller_ctx_ended")
				if f.onAbandon != nil {
					f.onAbandon(c)
				}
				c.cancel()
			}})
		}
	}
	if f.always != nil {
		acts = append(acts, f.always()...)
	}
	if !closing && f.extra != nil {
		acts = append(acts, f.extra()...)
	}
	return acts
}

// minPrio is the lowest prio value among the answerable parked calls.
func (f *c14Flow) minPrio(closing bool) int {
	m := 1 << 30
	if !closing || f.prio == nil {
		return m
	}
	for _, p := range f.s.Parked() {
		if p.Kind == "client" || p.Kind == "lock" || p.Kind == "yield" || p.Cancelled() {
			continue
		}
		if v := f.prio(p); v < m {
			m = v
		}
	}
	return m
}

func (f *c14Flow) observeCancellations() {
	s := f.s
	for i := 0; i < 500; i++ {
		var c *sim.Parked
		for _, p := range s.Parked() {
			if p.Kind != "client" && p.Kind != "lock" && p.Kind != "yield" && p.Cancelled() {
				c = p
				break
			}
		}
		if c == nil {
			return
		}
		s.ReleaseCancelled(c)
		s.Quiesce()
	}
}

// drain releases everything parked (cancellations first, then honest answers,
// canonical order, no decisions) until done() holds. It returns false when
// nothing was parked for c14B of virtual time and done() still does not hold.
func (f *c14Flow) drain(done func() bool) bool {
	s := f.s
	waited := time.Duration(0)
	for i := 0; i < 4000; i++ {
		s.Quiesce()
		if f.pump != nil {
			f.pump()
		}
		if done() {
			return true
		}
		var first, cancelled *sim.Parked
		stalled := false
		minPrio := f.minPrio(f.closeOp != nil)
		for _, p := range s.Parked() {
			if p.Kind == "client" || p.Kind == "lock" || p.Kind == "yield" {
				continue
			}
			if p.Cancelled() {
				if cancelled == nil {
					cancelled = p
				}
			} else if f.stall != nil && f.stall(p) {
				stalled = true
			} else if first == nil && (f.prio == nil || f.closeOp == nil || f.prio(p) <= minPrio) {
				first = p
			}
		}
		if cancelled != nil && !(f.cancelLast && first != nil) {
			s.ReleaseCancelled(cancelled)
			continue
		}
		if first != nil {
			f.answer(first, true)
			continue
		}
		if f.always != nil {
			if acts := f.always(); len(acts) > 0 {
				sort.SliceStable(acts, func(i, j int) bool { return acts[i].ID < acts[j].ID })
				acts[0].Do()
				continue
			}
		}
		if stalled {
			// the instance waits for its environment: not B's time
			s.Count("time_advance")
			s.Sleep(f.drainDts[0])
			continue
		}
		if waited >= c14B {
			return false
		}
		dt := f.drainDts[0]
		if waited >= 10*time.Second {
			dt = f.drainDts[1]
		}
		s.Sleep(dt)
		waited += dt
	}
	// the SUT keeps producing work: inconclusive, not a violation
	s.Count("step_budget_exhausted")
	return true
}

// sleep advances virtual time by d, in chunks if tickChunk is set (see there).
func (f *c14Flow) sleep(d time.Duration) {
	if f.tickChunk <= 0 {
		f.s.Sleep(d)
		return
	}
	for d > 0 {
		c := min(d, f.tickChunk)
		f.s.Sleep(c)
		d -= c
		if len(f.nonClientParked()) > 0 {
			return
		}
	}
}

// closeReturned: some Close call returned that has not been judged yet.
func (f *c14Flow) closeReturned() bool {
	for _, op := range []*Op{f.closeOp, f.overlapOp} {
		if op != nil && op.Done && !f.closeSeen[op] {
			return true
		}
	}
	return false
}

func (f *c14Flow) parkedKinds() map[string]int {
	m := map[string]int{}
	for _, p := range f.s.Parked() {
		m[p.Kind]++
	}
	return m
}

// run executes the life cycle. It returns after the census; the scenario then
// tears down its environment (hosts) and calls s.Finish().
func (f *c14Flow) run() {
	if f.check != nil {
		defer func() {
			f.s.Quiesce()
			f.check()
		}()
	}
	s := f.s
	s.Quiesce()
	// phase 1: the workload
	for step := 0; step < f.closeAt; step++ {
		if f.closeNow != nil && f.closeNow() {
			break
		}
		if !s.Step() {
			break
		}
		if f.pump != nil {
			f.pump()
		}
		acts := f.actions(false)
		if len(acts) == 0 || (len(f.dts) > 0 && !(f.tickQuietOnly && len(f.nonClientParked()) > 0) && s.Chance("tick", 1, 8)) {
			s.Count("time_advance")
			if len(f.dts) > 0 {
				f.sleep(f.dts[s.Draw("dt", len(f.dts))])
			} else {
				s.Sleep(time.Second)
			}
			if len(acts) == 0 {
				continue
			}
			acts = f.actions(false)
			if len(acts) == 0 {
				continue
			}
		}
		s.Choose("next", acts)
	}
	if s.Failed() {
		return
	}
	f.closing = true
	for i := 0; f.mayClose != nil && !f.mayClose() && i < 60; i++ {
		acts := f.actions(true)
		if len(acts) == 0 {
			s.Sleep(time.Second)
			continue
		}
		s.Count("close_postponed")
		s.Choose("pre-close", acts)
	}

	// Close, from its own client goroutine
	for _, c := range f.clients {
		if c.started && !c.op.Done {
			f.inflight++
		}
	}
	kinds := f.parkedKinds()
	if f.inflight > 0 {
		s.Count("probe_close_with_ops_inflight")
	}
	if kinds["rpc"] > 0 {
		s.Count("probe_close_with_rpc_parked")
	}
	if kinds["ds"] > 0 {
		s.Count("probe_close_with_ds_parked")
	}
	if f.atClose != nil {
		f.atClose()
	}
	s.NonTrivial = f.inflight > 0 || kinds["rpc"]+kinds["ds"]+kinds["dial"]+kinds["gcp"]+kinds["crawl"] > 0
	s.State("%s inflight=%d rpc=%d ds=%d dial=%d", f.name, f.inflight, min(kinds["rpc"], 3), min(kinds["ds"], 3), min(kinds["dial"], 2))
	s.Tracef("close issued inflight=%d parked=%d", f.inflight, len(s.Parked()))
	f.closeOp = f.ops.Go(s, "close", func() (any, error) { return nil, f.closeFn() })
	f.closeSeen = map[*Op]bool{}
	s.Quiesce()

	// A second Close that overlaps the first: issued after a drawn number of
	// phase-2 steps (0 = right away), provided the first has not returned.
	overlapAt := -1
	if f.overlapOK && s.Chance("overlap-close", 1, 2) {
		overlapAt = s.Draw("overlap-at", f.interleave+1)
	}
	issueOverlap := func() {
		overlapAt = -1
		if f.closeOp.Done {
			return
		}
		s.Count("probe_overlap_close")
		s.Tracef("overlapping close issued")
		f.overlapOp = f.ops.Go(s, "close-overlap", func() (any, error) { return nil, f.closeFn() })
		s.Quiesce()
		// the instance still waits for its environment (a GC sweep inside a
		// datastore query, a request, ...): returning now would be early
		if k := f.parkedKinds(); k["rpc"]+k["ds"]+k["dial"]+k["gcp"]+k["crawl"] > 0 {
			s.Count("probe_overlap_close_with_calls_parked")
		}
	}

	// phase 2: Close interleaves with the parked calls under the scheduler
	for i := 0; i < f.interleave && !f.closeReturned(); i++ {
		if i == overlapAt {
			issueOverlap()
			if f.closeReturned() {
				break
			}
		}
		if !s.Step() {
			break
		}
		acts := f.actions(true)
		if len(acts) == 0 {
			break
		}
		s.Count("probe_close_interleaved")
		s.Choose("during-close", acts)
	}
	if overlapAt >= 0 && !f.closeReturned() {
		issueOverlap()
	}

	// phase 3: release everything; every Close must return, and each is judged
	// at the first quiescent instant after it returned
	for {
		if !f.drain(f.closeReturned) {
			if !f.closeOp.Done {
				s.Violate("close-hang", "%s: Close did not return although every parked call was released and %v of virtual time passed with nothing parked", f.name, c14B)
			} else {
				s.Violate("second-close-hang", "%s: a second Close, issued while the first had not returned yet, did not return although the first did, every parked call was released and %v of virtual time passed with nothing parked", f.name, c14B)
			}
			return
		}
		for _, op := range []*Op{f.closeOp, f.overlapOp} {
			if op == nil || !op.Done || f.closeSeen[op] {
				continue
			}
			f.closeSeen[op] = true
			if op.Panic != "" {
				if op == f.closeOp {
					s.Violate("close-panic", "%s: Close panicked: %s", f.name, firstLine(op.Panic))
				} else {
					s.Violate("second-close-panic", "%s: a second Close, issued while the first had not returned yet, panicked: %s", f.name, firstLine(op.Panic))
				}
				return
			}
			if op == f.closeOp {
				s.Tracef("close returned")
			} else {
				s.Tracef("overlapping close returned")
			}
		}
		if f.long != nil {
			f.checkCloseInstant(!f.closeOp.Done)
			if s.Failed() {
				return
			}
		}
		if f.closeOp.Done && (f.overlapOp == nil || f.overlapOp.Done) {
			break
		}
	}

	// operations that were in flight return
	if f.afterClose != nil {
		f.afterClose()
	}
	for _, p := range s.ParkedKind("client") {
		s.Release(p, "skip")
	}
	allDone := func() bool {
		for _, c := range f.clients {
			if !c.op.Done {
				return false
			}
		}
		return true
	}
	if !f.drain(allDone) {
		var stuck []string
		for _, c := range f.clients {
			if !c.op.Done {
				stuck = append(stuck, c.name)
			}
		}
		s.Violate("op-hang", "%s: operations %v were in flight when Close was called and have not returned although Close returned, every parked call was answered and %v passed", f.name, stuck, c14B)
		return
	}
	for _, c := range f.clients {
		if c.op.Panic != "" {
			s.Violate("op-panic", "%s: operation %s in flight during Close panicked: %s", f.name, c.name, firstLine(c.op.Panic))
			return
		}
	}
	nStarted := 0
	for _, c := range f.clients {
		if c.started {
			nStarted++
		}
	}
	s.Tracef("ops returned started=%d", nStarted)

	// second Close, after the first returned
	s.Count("probe_second_close")
	second := f.ops.Go(s, "close2", func() (any, error) { return nil, f.closeFn() })
	if !f.drain(func() bool { return second.Done }) {
		s.Violate("second-close-hang", "%s: a second Close (after the first returned) did not return within %v", f.name, c14B)
		return
	}
	if second.Panic != "" {
		s.Violate("second-close-panic", "%s: a second Close panicked: %s", f.name, firstLine(second.Panic))
		return
	}
	s.Tracef("second close returned")

	if f.beforeCensus != nil {
		f.beforeCensus()
	}
	f.census("Close")
}

// census gives cancelled transient work the chance to wind down and then
// compares the bubble with the baseline.
func (f *c14Flow) census(after string) {
	s := f.s
	var extra []string
	for i := 0; i < 6; i++ {
		f.drain(func() bool { return len(f.nonClientParked()) == 0 })
		extra = c14Extra(f.base, c14Census())
		if len(extra) == 0 {
			s.Count("probe_census_clean")
			s.Tracef("census clean")
			return
		}
		s.Sleep(time.Minute)
	}
	s.Violate("leak", "%s: %d goroutine(s) started by the instance survive %s (baseline census restored otherwise): %s", f.name, len(extra), after, strings.Join(extra, ", "))
}

func (f *c14Flow) nonClientParked() []*sim.Parked {
	var out []*sim.Parked
	for _, p := range f.s.Parked() {
		if p.Kind != "client" {
			out = append(out, p)
		}
	}
	return out
}

// c14Teardown closes the environment after the census and makes sure the
// bubble can exit (harness sanity, not an oracle).
func c14Teardown(s *sim.Sim, f *c14Flow, closers ...func()) {
	for _, p := range s.ParkedKind("client") {
		s.Release(p, "skip")
	}
	s.Quiesce()
	for _, c := range closers {
		c()
	}
	s.Quiesce()
	if s.Steps > s.MaxSteps {
		s.Count("step_budget_exhausted")
	}
}
