//go:build all || c09

package scen

// C09, FIND_NODE targets and what the node knows about peers that are not
// table members (added after a seeded change that applied the response-size
// budget before the requested peer's own record went into the response).
//
// Clause: "Responses list at most K closer peers (plus the requested peer
// itself, first, for FIND_NODE when its addresses are known) ... every peer
// record is at most 8 KiB and every FIND_NODE and GET_PROVIDERS response at
// most the transport message limit". The requested peer's record is part of
// the response like any other: the limit holds for the K closer peers and the
// requested peer TOGETHER. No new rule is needed for that (response-too-large
// / closer-peers-exceed-transport-limit judge the whole body read back from
// the stream); what was missing is the input space in which the clause has
// anything to say:
//
//   * the requested peer is listed "in addition" only when it is not the
//     nearest table member: the requester itself, the node itself, a known
//     non-member, the final prober. Every such class is a FIND_NODE target of
//     ordinary and honest streams and, in server-huge-k, of the final honest
//     probe (one request per class, systematically, in every run);
//   * how much the node knows about such a peer is drawn: nothing, one ordinary
//     address, a list of 1..39 long addresses (a record of any size up to the
//     bound), a list far above 8 KiB (cut to the bound on the way out). In
//     server-huge-k this also goes for requesters that are not table members,
//     for the node's own peerstore entry and for the final prober;
//   * in server-huge-k the table members' lists are either all alike (all
//     records have the size of the bound; the room a cut response has left is
//     then the same for every request) or of 29..40 long addresses each, chosen
//     per member from the run's seed, so that the room left varies between 0
//     and a whole record: a size budget that is off by any amount (a record
//     not counted, framing bytes not counted) then shows for some request.
//
// Nothing here depends on how the node computes its budget; K, the table size
// and all address lists are inputs; 8 KiB and the transport limit are named by
// the property.

import (
	pb "github.com/libp2p/go-libp2p-kad-dht/pb"
	"github.com/libp2p/go-libp2p/core/peer"
	ma "github.com/multiformats/go-multiaddr"

	"verif/simnet"
)

// drawKnownAddrs draws what the node's peerstore holds for a peer that is not
// (necessarily) a table member; nil means nothing. All long addresses have one
// serialized size, so the size of a record does not depend on which of them
// survive the 8 KiB cut or in which order the peerstore returns them.
func (w *c09World) drawKnownAddrs(label string, p *simnet.Peer) []ma.Multiaddr {
	s := w.s
	switch s.Draw(label, 4) {
	case 0:
		return p.Addrs
	case 1:
		return c09FatAddrs(40)
	case 2:
		return c09FatAddrs(1 + s.Draw(label+"-n", 39))
	default:
		return nil
	}
}

// genPeerKey draws a peer id as a key: a table member, the requester, the
// node itself, a known non-member, an id nobody knows, the final prober.
func (w *c09World) genPeerKey(st *c09Stream) []byte {
	s := w.s
	switch s.Draw("key-peer", 6) {
	case 0:
		if len(w.rt) > 0 {
			return []byte(w.rt[s.Draw("key-rt", len(w.rt))])
		}
		return []byte(w.foreign[0])
	case 1:
		return []byte(st.sender.ID)
	case 2:
		return []byte(w.u.Self.ID)
	case 3:
		return []byte(w.extras[s.Draw("key-extra", len(w.extras))].ID)
	case 4:
		return []byte(w.foreign[s.Draw("key-foreign", len(w.foreign))])
	default:
		return []byte(w.prober.ID)
	}
}

// targetClassProbes: one honest FIND_NODE per class of peer the final prober
// can ask for besides a table member (which finalProbeMessages asks for
// already): itself, the node, every known non-member, the first requester of
// the run, a peer nobody knows.
func (w *c09World) targetClassProbes() []*pb.Message {
	ids := []peer.ID{w.prober.ID, w.u.Self.ID}
	for _, p := range w.extras {
		ids = append(ids, p.ID)
	}
	ids = append(ids, w.senders[0].ID, w.foreign[0])
	out := make([]*pb.Message, 0, len(ids))
	for _, id := range ids {
		out = append(out, pb.NewMessage(pb.Message_FIND_NODE, []byte(id), 0))
	}
	return out
}
