//go:build all || c14

package scen

// C14 scenario "sweeping-provider-reset": the sweeping provider on a caller's
// keystore.ResettableKeystore, with the work flow that keystore exists for -
// the caller replaces the keystore's content (ResetCids) and then asks the
// provider to bring its schedule in line with it (RefreshSchedule) - and Close
// landing at a drawn instant of that flow.
//
// What the other provider scenarios never produce: a RefreshSchedule that has
// anything to do. Their keystores only receive keys through the provider
// (which schedules them on the way in), so a caller's refresh finds no region
// that is missing from the schedule and returns without asking the keystore a
// single question; it is over within the step that started it and Close can
// never meet it half-way. Here
//
//   - the keystore may hold keys before the provider exists (drawn,
//     "initial-keys": a node that restarts on its old keystore), and the
//     provider has usually finished its start-up (drawn, "settle": it is online
//     and has bootstrapped its schedule) when the workload begins;
//   - one or two "reset-refresh" operations replace the keystore's content
//     with a drawn set of keys and call RefreshSchedule; from the first refresh
//     on the keystore's disk is slow (every operation of its datastore parks),
//     so the refresh's scan of the keystore - one question per region that is
//     not scheduled - takes steps, and so does whatever the refresh sets in
//     motion afterwards (the reprovides of the new regions go back to the
//     keystore);
//   - Close is issued at a drawn step or (drawn, "aim-close-refresh-scan") at
//     the n-th keystore operation that parks while a refresh is in flight.
//
// Clauses (no new rule; rules close-hang, op-hang, op-panic, close-early,
// close-live-call, leak of c14.go): Close "is safe while operations are in
// flight: those operations finish or fail without panic or deadlock" - the
// refresh in flight, and the provider's own reprovide work that it started -
// and "returns only after all goroutines the instance started have exited".
// Together with the writer-preferring lock model of c14_rwpref.go this is the
// place where lock-order faults between Close (the only writer of the
// provider's shutdown guard) and a long-running caller operation show.
//
// The caller's keystore after the provider's Close. The provider calls the
// keystore with its own context, which its Close ends: a call the keystore is
// executing on its slow disk at that instant loses its caller half-way
// (probe_close_keystore_call_inflight). The caller closes its keystore after
// the census; that Close is a Close of a component of the property's list
// ("keystores") after operations on it failed in flight, and is judged by
// close-hang / close-panic (c14JudgeCallerKeystoreClose in c14_provider.go;
// the same for the plain caller keystores of the other provider scenarios,
// whose disks are not slow). A keystore that the provider owns is built on an
// in-memory datastore the provider creates itself: its calls never wait for
// the environment, so this state is reachable with a caller's keystore only.
//
// Replayability. The keystore serves one request at a time, in arrival order;
// with its disk slow that order is visible. Requests therefore must not arrive
// in the same step: the variant only uses the worker pools in which regions
// are reprovided one at a time (the 16-worker pool would start the reprovides
// of all new regions in the step in which the refresh ends), and the keystore
// operation whose completion lets a refresh go on (and start the catch-up
// loop, a goroutine that waits for a pool worker) is held back while another
// goroutine already waits for a worker (see "waiters" in c14_provider.go).
// Excluded by this: the reset work flow against the 16-worker pool, behind
// the buffered wrapper and with a node without addresses.

import (
	"context"
	"fmt"
	"sync/atomic"

	"github.com/ipfs/go-cid"
	mh "github.com/multiformats/go-multihash"

	"github.com/libp2p/go-libp2p-kad-dht/provider"
	"github.com/libp2p/go-libp2p-kad-dht/provider/keystore"

	"verif/sim"
	"verif/simds"
)

func init() {
	stub := []string{"router (stub: every GetClosestPeers parks)", "pb.MessageSender (level A: every ADD_PROVIDER parks)", "datastores (simds: operations park; the keystore's from the first refresh on)", "host (simhost)", "crypto/rand (constant per run)", "instrumented read-write locks prefer writers (c14_rwpref.go)"}
	sim.Register(&sim.Scenario{Prop: "C14", Name: "sweeping-provider-reset", Weight: 3, Run: func(s *sim.Sim) { runC14Provider(s, false, false, true) },
		Real: []string{"provider.New / SweepingProvider.Close", "SweepingProvider.RefreshSchedule after keystore.ResettableKeystore.ResetCids (keystore scan, new regions scheduled, reprovide of everything)", "catch-up loop, provide/reprovide batches in flight", "keystore.ResettableKeystore (caller-supplied)"},
		Stub: stub,
		Faults: append([]string{"fault_rpc_error", "fault_gcp_error", "probe_close_provide_inflight", "probe_close_gcp_parked", "probe_close_offline", "probe_close_online", "probe_cfg_own_keystore", "probe_cfg_no_host",
			"probe_rwpref_installed", "probe_cfg_initial_keys", "probe_cfg_settled", "probe_reset_refresh_started", "probe_refresh_asked_keystore", "probe_close_during_refresh", "probe_close_during_refresh_scan", "probe_close_during_refresh_scan_bootstrapped", "probe_close_aimed_at_refresh_scan", "probe_refresh_completed", "probe_caller_keystore_closed", "probe_close_keystore_call_inflight"}, c14CommonFaults...),
	})
}

// c14ResetVariantCfg narrows a drawn provider configuration to the variant's
// space (see "Replayability" above; the draws themselves are unchanged).
func c14ResetVariantCfg(c *c14ProvCfg) {
	c.ownKeystore, c.slowKeystore, c.selfAddrs = true, false, true
	if c.reprovide == 0 {
		c.reprovide = c14ReprovLong // without a schedule there is nothing to refresh
	}
	if c.workers >= 16 {
		c.workers, c.per, c.burst = 2, 1, 1
	}
}

type c14ResetVariant struct {
	s    *sim.Sim
	f    *c14Flow
	ksds *simds.DS
	rks  *keystore.ResettableKeystore
	// settle: the provider's start-up work is answered before the workload
	settle bool
	// slow: the keystore's disk is slow (set by the first refresh, on its
	// caller's goroutine, before it calls RefreshSchedule; never reset)
	slow atomic.Bool
	// resetting: a ResetCids is running. The reset itself is not slowed down: it
	// writes to the keystore's datastore from its caller's goroutine while the
	// keystore's worker serves other requests, and the worker selects between
	// the reset's messages and ordinary requests (two ready channels: the Go
	// runtime's pick, HARNESS pitfall 3). A reset therefore starts only while
	// the keystore is idle and runs to its end within the step that started it;
	// Close in the middle of a reset is the business of "resettable-keystore".
	resetting atomic.Bool
	// refreshing[i]: reset-refresh operation i is past its reset
	refreshing []*atomic.Bool
	ops        []*c14Client
	seen       map[*sim.Parked]bool
	// asked: a keystore operation was seen parked while a refresh was in flight
	asked bool
}

func newC14ResetVariant(s *sim.Sim, f *c14Flow, ksds *simds.DS) *c14ResetVariant {
	rv := &c14ResetVariant{s: s, f: f, ksds: ksds, seen: map[*sim.Parked]bool{}}
	var err error
	rv.rks, err = keystore.NewResettableKeystore(ksds, keystore.KeystoreOption(keystore.WithBatchSize(2)))
	if err != nil {
		panic(err)
	}
	if n := s.Range("initial-keys", 0, 3); n > 0 {
		s.Count("probe_cfg_initial_keys")
		var keys []mh.Multihash
		for i := 0; i < n; i++ {
			keys = append(keys, c14MH(s.Draw("mh", 8)))
		}
		if _, err := rv.rks.Put(context.Background(), keys...); err != nil {
			panic(err)
		}
	}
	if rv.settle = s.Chance("settle", 3, 4); rv.settle {
		s.Count("probe_cfg_settled")
	}
	ksds.ParkOp = func(op, key string) bool { return rv.slow.Load() && !rv.resetting.Load() }
	return rv
}

// clients registers the reset-refresh operations.
func (rv *c14ResetVariant) clients(refresh func() error) {
	s := rv.s
	for r, nr := 0, s.Range("reset-refreshes", 1, 2); r < nr; r++ {
		cids := make([]cid.Cid, s.Range("reset-keys", 1, 8))
		for i := range cids {
			cids[i] = cid.NewCidV1(cid.Raw, c14MH(s.Draw("mh", 8)))
		}
		past := new(atomic.Bool)
		rv.refreshing = append(rv.refreshing, past)
		rv.ops = append(rv.ops, rv.f.client("reset-refresh", func(ctx context.Context) (any, error) {
			s.Count("probe_reset_refresh_started")
			ch := make(chan cid.Cid, len(cids))
			for _, c := range cids {
				ch <- c
			}
			close(ch)
			rv.resetting.Store(true)
			err := rv.rks.ResetCids(ctx, ch)
			rv.resetting.Store(false)
			if err != nil {
				return nil, fmt.Errorf("reset: %w", err)
			}
			rv.slow.Store(true)
			past.Store(true)
			err = refresh()
			if err == nil {
				s.Count("probe_refresh_completed")
			}
			return nil, err
		}))
	}
}

// inRefresh: a reset-refresh operation is in flight and past its reset.
func (rv *c14ResetVariant) inRefresh() bool {
	for i, c := range rv.ops {
		if c.started && !c.op.Done && rv.refreshing[i].Load() {
			return true
		}
	}
	return false
}

func (rv *c14ResetVariant) inFlight() bool {
	for _, c := range rv.ops {
		if c.started && !c.op.Done {
			return true
		}
	}
	return false
}

func (rv *c14ResetVariant) ksdsParked() []*sim.Parked {
	var out []*sim.Parked
	for _, p := range rv.s.ParkedKind("ds") {
		if op, _ := p.Data.(*simds.Op); op != nil && op.DS == rv.ksds {
			out = append(out, p)
		}
	}
	return out
}

// mayStart: one reset-refresh at a time, only while the keystore is idle (see
// resetting) and no goroutine waits for a pool worker (the refresh may start
// the catch-up loop).
func (rv *c14ResetVariant) mayStart(c *c14Client, waiters int) bool {
	if c.name != "reset-refresh" {
		return true
	}
	return waiters == 0 && !rv.inFlight() && len(rv.ksdsParked()) == 0
}

// startsCatchUp: releasing p may let a refresh reach its end, where it starts
// the catch-up loop.
func (rv *c14ResetVariant) startsCatchUp(p *sim.Parked) bool {
	op, _ := p.Data.(*simds.Op)
	if p.Kind == "ds" && op != nil && op.DS == rv.ksds && rv.inRefresh() {
		rv.asked = true
		return true
	}
	return false
}

// aimClose: in half of the runs Close is issued at the instant the n-th
// keystore operation parks while a refresh is in flight.
func (rv *c14ResetVariant) aimClose() {
	s, f := rv.s, rv.f
	if !s.Chance("aim-close-refresh-scan", 1, 2) {
		return
	}
	nth, n := s.Range("refresh-scan-nth", 1, 3), 0
	f.closeAt = 60
	f.closeNow = func() bool {
		if !rv.inRefresh() {
			return false
		}
		for _, p := range rv.ksdsParked() {
			if rv.seen[p] {
				continue
			}
			rv.seen[p] = true
			if n++; n == nth {
				s.Count("probe_close_aimed_at_refresh_scan")
				return true
			}
		}
		return false
	}
}

func (rv *c14ResetVariant) atClose(sp *provider.SweepingProvider) {
	s := rv.s
	if rv.asked || (rv.inRefresh() && len(rv.ksdsParked()) > 0) {
		s.Count("probe_refresh_asked_keystore")
	}
	if len(rv.ksdsParked()) > 0 {
		// the keystore is executing a call of the provider (or of the refresh)
		// on its slow disk: the provider's Close ends the context of that call
		s.Count("probe_close_keystore_call_inflight")
	}
	if !rv.inFlight() {
		return
	}
	s.Count("probe_close_during_refresh")
	if rv.inRefresh() && len(rv.ksdsParked()) > 0 {
		s.Count("probe_close_during_refresh_scan")
		if provider.VerifBootstrapped(sp) {
			s.Count("probe_close_during_refresh_scan_bootstrapped")
		}
	}
}
