//go:build all || c09

package scen

// Oracle of C09. Rule ids (stable) and the clause of the property they check:
//
//   malformed-response     bytes coming back are not a varint-framed pb.Message ("well-formed response")
//   extra-response         more responses than requests that can have one ("exactly one"; none for ADD_PROVIDER)
//   answered-garbage       a response where the request was not a decodable message / exceeded the transport limit
//   response-type          the response is not of the request's type ("well-formed response" to *that* request)
//   request-unanswered     a wholly delivered request got neither a response nor a reset although everything
//                          in flight was delivered ("either returns a well-formed response or resets that stream")
//   honest-reset           a valid request on an undisturbed stream was reset (serving continues for honest peers)
//   stopped-serving        the final honest probe from a fresh peer on a fresh stream is not answered
//   client-mode-answer     a response in client mode ("a client-mode node answers nothing")
//   client-handler-registered  a client-mode node keeps a stream handler registered
//   closer-too-many        more than K closer peers besides the FIND_NODE target
//   closer-order           closer peers not in ascending XOR distance from the key (harness metric), or duplicated
//   target-not-first       the FIND_NODE target listed anywhere but first
//   target-without-addrs   the FIND_NODE target listed although the node knows no address for it
//   closer-self            the node lists itself (other than as FIND_NODE target)
//   closer-requester       the node lists the requester (other than as FIND_NODE target)
//   closer-not-nearest     the list is not the nearest-first prefix (length min(K, candidates)) of the node's
//                          routing table without itself and the requester  [see note below]
//   peer-record-size       a peer record above 8 KiB serialized
//   response-too-large     a FIND_NODE / GET_PROVIDERS response above network.MessageSizeMax (judged on the
//                          bytes read back: whatever the records say, connection types included; the
//                          inputs that make it tight are in c09_targets.go and c09_fill.go)
//   echo-peer-records      a PING / PUT_VALUE echo carries peer records
//   ap-foreign-provider / ap-bad-key-stored / ap-unacceptable-stored / ap-unaccounted-entry
//                          provider store content not explained by the prefill plus acceptable ADD_PROVIDERs
//   ap-unfiltered-address / ap-foreign-address
//                          peerstore addresses not explained by the prefill plus filter-passing addresses a peer
//                          sent about itself
//
// Note on closer-not-nearest: the property says "at most K closer peers …
// nearest first". The rule reads this as "the K nearest the node knows",
// which is the anchor "K+1 nearest minus self and requester" and what makes a
// count+1 -> count regression visible (K-1 peers returned to a requester that
// sits among the K nearest). It is evaluated against the routing table read
// back through the public accessor and is skipped if the table changed.
//
// Nothing here uses an implementation constant: K, the address policy, record
// ages are inputs; 8 KiB and network.MessageSizeMax are named by the property.

import (
	"bytes"
	"context"
	"fmt"
	"sort"
	"strings"

	pb "github.com/libp2p/go-libp2p-kad-dht/pb"
	"github.com/libp2p/go-libp2p-kad-dht/records"
	"github.com/libp2p/go-libp2p/core/network"
	"github.com/libp2p/go-libp2p/core/peer"
	ma "github.com/multiformats/go-multiaddr"
	"google.golang.org/protobuf/encoding/protowire"
	"google.golang.org/protobuf/proto"

	"verif/simnet"
)

const (
	c09Msg = iota
	c09Garbage
	c09Oversize
	c09BadVarint
)

// c09Req is one request as the harness itself parses it from the bytes the
// remote wrote.
type c09Req struct {
	kind int
	msg  *pb.Message
	// end: once this many bytes of the stream are delivered the server holds
	// the whole request (for a bad prefix: enough to know it is bad)
	end           int
	epoch         int
	clientAtWrite bool
	answered      bool
}

// silent: a request type that has no response (ADD_PROVIDER).
func (r *c09Req) silent() bool {
	return r.kind == c09Msg && r.msg.GetType() == pb.Message_ADD_PROVIDER
}
func (r *c09Req) terminal() bool { return r.kind != c09Msg }

func (r *c09Req) String() string {
	switch r.kind {
	case c09Msg:
		return c09Describe(r.msg)
	case c09Garbage:
		return "undecodable frame"
	case c09Oversize:
		return "length prefix above the transport limit"
	}
	return "malformed length prefix"
}

// c09ReqParser splits the remote's byte stream into requests. After the first
// request a server cannot accept (undecodable, oversized, bad prefix) nothing
// further is parsed: the stream has to be reset there.
type c09ReqParser struct {
	buf  []byte
	off  int
	dead bool
}

func (p *c09ReqParser) partial() bool { return !p.dead && len(p.buf) > 0 }

// c09Uvarint decodes a base-128 varint; bad after ten bytes without an end or
// on 64-bit overflow. (A reader may give up earlier or reject non-minimal
// encodings; it then resets, which every expectation derived here allows.)
func c09Uvarint(buf []byte) (v uint64, n int, bad bool) {
	var x uint64
	var s uint
	for i, b := range buf {
		if b < 0x80 {
			if i == 9 && b > 1 {
				return 0, i + 1, true
			}
			return x | uint64(b)<<s, i + 1, false
		}
		if i == 9 {
			return 0, 10, true
		}
		x |= uint64(b&0x7f) << s
		s += 7
	}
	return 0, 0, false
}

func (p *c09ReqParser) feed(b []byte) (out []*c09Req) {
	if p.dead {
		p.off += len(b)
		return nil
	}
	p.buf = append(p.buf, b...)
	for !p.dead {
		l, n, bad := c09Uvarint(p.buf)
		if bad {
			p.dead = true
			out = append(out, &c09Req{kind: c09BadVarint, end: p.off + n})
			return
		}
		if n == 0 {
			return
		}
		if l > uint64(network.MessageSizeMax) {
			p.dead = true
			out = append(out, &c09Req{kind: c09Oversize, end: p.off + n})
			return
		}
		if uint64(len(p.buf)-n) < l {
			return
		}
		body := p.buf[n : n+int(l)]
		r := &c09Req{end: p.off + n + int(l)}
		m := new(pb.Message)
		if err := proto.Unmarshal(body, m); err != nil {
			r.kind = c09Garbage
			p.dead = true
		} else {
			r.kind, r.msg = c09Msg, m
		}
		p.off += n + int(l)
		p.buf = append([]byte{}, p.buf[n+int(l):]...)
		out = append(out, r)
	}
	return
}

// ---------------------------------------------------------------------------
// model of the stores

func c09Decodable(addrs [][]byte) []ma.Multiaddr {
	var out []ma.Multiaddr
	for _, b := range addrs {
		if a, err := ma.NewMultiaddrBytes(b); err == nil {
			out = append(out, a)
		}
	}
	return out
}

// noteRequest extends the model of what MAY end up in the stores. It is
// deliberately generous (a superset): an ADD_PROVIDER is acceptable when its
// key has 1..80 bytes and it carries a record whose id is the authenticated
// sender with at least one decodable address.
func (w *c09World) noteRequest(st *c09Stream, r *c09Req) {
	if r.kind != c09Msg {
		w.nGarbage++
		return
	}
	m := r.msg
	switch m.GetType() {
	case pb.Message_GET_PROVIDERS:
		w.apKeys[string(m.GetKey())] = true
	case pb.Message_ADD_PROVIDER:
		key := string(m.GetKey())
		w.apKeys[key] = true
		for _, rec := range m.GetProviderPeers() {
			if rec == nil || peer.ID(rec.GetId()) != st.sender.ID {
				continue
			}
			addrs := c09Decodable(rec.GetAddrs())
			if len(addrs) == 0 {
				continue
			}
			if len(key) >= 1 && len(key) <= 80 {
				if w.apAllowed[key] == nil {
					w.apAllowed[key] = map[peer.ID]bool{}
				}
				w.apAllowed[key][st.sender.ID] = true
			}
			mm := w.apAddrs[st.sender.ID]
			if mm == nil {
				mm = map[string]bool{}
				w.apAddrs[st.sender.ID] = mm
			}
			for _, a := range addrs {
				if !w.filter || c09FilterPass(a) {
					mm[string(a.Bytes())] = true
				}
			}
		}
	}
}

// ---------------------------------------------------------------------------
// observation at a quiescent point

func (w *c09World) observe() {
	s := w.s
	busy := 0
	for _, st := range w.streams {
		data, eof, reset := st.a.TakeDelivered()
		if len(data) > 0 {
			for _, f := range st.resp.Feed(data) {
				w.onResponse(st, f)
				if s.Failed() {
					return
				}
			}
			if st.resp.Bad {
				s.Violate("malformed-response", "bytes read back on %s do not carry a valid length prefix", st.name())
				return
			}
		}
		if reset && !st.resetSeen {
			st.resetSeen = true
			w.nResets++
			s.Tracef("reset %s by=%s", st.name(), st.a.ResetBy)
			w.onReset(st)
		}
		if eof && !st.eofSeen {
			st.eofSeen = true
			s.Tracef("eof %s", st.name())
			if st.closedRemote {
				s.Count("probe_graceful_close_after_eof")
			}
		}
		if !st.resetSeen && len(st.sent) > 0 && st.firstUnresolved(len(st.sent)) != nil {
			busy++
		}
		if st.b.Delivered > 0 && st.b.Delivered < len(st.sent) && st.parse.off < len(st.sent) {
			s.Count("probe_split_delivery")
		}
		n := 0
		for _, r := range st.reqs {
			if r.kind == c09Msg {
				n++
			}
		}
		if n > 1 && st.nResp > 1 {
			s.Count("probe_several_requests_one_stream")
		}
	}
	if busy >= 2 {
		s.Count("probe_concurrent_streams")
	}
}

// firstUnresolved: the first request within the first upTo bytes that expects
// a response or a reset and has seen neither.
func (st *c09Stream) firstUnresolved(upTo int) *c09Req {
	for _, r := range st.reqs {
		if r.end > upTo {
			return nil
		}
		if r.silent() || r.answered {
			continue
		}
		return r
	}
	return nil
}

func (w *c09World) onReset(st *c09Stream) {
	s := w.s
	if st.a.ResetBy != "remote" { // not reset by the node
		return
	}
	if st.late {
		s.Count("probe_late_handler_refused")
	}
	r := st.firstUnresolved(st.b.Delivered)
	if r == nil {
		// possibly an ADD_PROVIDER that was refused
		for _, q := range st.reqs {
			if q.end <= st.b.Delivered && q.silent() {
				s.Count("probe_ap_refused")
				break
			}
		}
		for _, q := range st.reqs {
			if q.end <= st.b.Delivered && q.silent() && c09LongestID(q.msg) >= c09MaxPeerRecord {
				s.Count("probe_overlong_id_ap_refused") // c09_ids.go
				break
			}
		}
		return
	}
	switch {
	case r.kind == c09Garbage || r.kind == c09BadVarint:
		s.Count("probe_garbage_reset")
	case r.kind == c09Oversize:
		s.Count("probe_oversize_reset")
	case int32(r.msg.GetType()) < 0 || int32(r.msg.GetType()) > 5:
		s.Count("probe_unknown_type_reset")
	default:
		s.Count("probe_reset_on_error")
		if len(r.msg.GetKey()) >= c09BigKeyMin {
			s.Count("probe_big_key_refused")
		}
	}
}

func (w *c09World) onResponse(st *c09Stream, frame []byte) {
	s := w.s
	st.nResp++
	resp, err := decodeMsg(frame)
	if err != nil {
		s.Violate("malformed-response", "frame %d read back on %s is not a decodable message: %v", st.nResp, st.name(), err)
		return
	}
	for st.matched < len(st.reqs) && st.reqs[st.matched].silent() {
		st.matched++
	}
	if st.matched >= len(st.reqs) || st.reqs[st.matched].end > st.b.Delivered {
		s.Violate("extra-response", "response %d (type %v) on %s has no request it could belong to: %d requests written, ADD_PROVIDER has no response", st.nResp, resp.GetType(), st.name(), len(st.reqs))
		return
	}
	r := st.reqs[st.matched]
	st.matched++
	if r.terminal() {
		s.Violate("answered-garbage", "response (type %v) on %s to a request that is a %s", resp.GetType(), st.name(), r)
		return
	}
	r.answered = true
	if c09LongestID(r.msg) >= c09MaxPeerRecord {
		s.Count("probe_overlong_id_request_answered") // c09_ids.go
	}
	nprov := fmt.Sprint(len(resp.GetProviderPeers()))
	if w.bigKey != nil && bytes.Equal(r.msg.GetKey(), w.bigKey) {
		nprov = "bulk"
	}
	s.Tracef("resp %s #%d type=%d closer=%d prov=%s rec=%v", st.name(), st.nResp, int32(resp.GetType()), len(resp.GetCloserPeers()), nprov, resp.GetRecord() != nil)

	// ---- client mode answers nothing ----
	if r.clientAtWrite && r.epoch == w.epoch {
		// The request was written after the node had become a client (at a
		// quiescent point) and the node has been a client ever since.
		if st.missed && st.openEpoch < r.epoch && st.clientAnswers[r.epoch] == 0 {
			// A stream the client-mode sweep could not see: its handler was already
			// blocked reading the next request when the mode changed and checks the
			// mode again only before the following read. That one read was in
			// flight at the switch (DESIGN §10: in-flight operations may go either
			// way); everything after it is judged.
			st.clientAnswers[r.epoch]++
			s.Count("probe_sweep_missed_stream_in_flight")
		} else {
			s.Violate("client-mode-answer", "node in client mode answered a %v request on %s that was written after the switch (stream opened in epoch %d, request in epoch %d, late-handler=%v, unlisted=%v)", r.msg.GetType(), st.name(), st.openEpoch, r.epoch, st.late, st.missed)
			return
		}
	}
	w.checkResponse(st, r, resp, len(frame))
}

func c09HasCloser(t pb.Message_MessageType) bool {
	return t == pb.Message_FIND_NODE || t == pb.Message_GET_VALUE || t == pb.Message_GET_PROVIDERS
}

func (w *c09World) checkResponse(st *c09Stream, r *c09Req, resp *pb.Message, bodyLen int) {
	s := w.s
	req := r.msg
	typ := req.GetType()
	w.nChecked++
	s.Count("probe_response_checked")
	if resp.GetType() != typ {
		s.Violate("response-type", "request %s on %s answered by a message of type %v", r, st.name(), resp.GetType())
		return
	}
	ps := w.h.Peerstore()
	for _, list := range [][]*pb.Message_Peer{resp.GetCloserPeers(), resp.GetProviderPeers()} {
		for _, rec := range list {
			if sz := proto.Size(rec); sz > c09MaxPeerRecord {
				s.Violate("peer-record-size", "%v response on %s carries a peer record of %d bytes (%d addresses) for %s", typ, st.name(), sz, len(rec.GetAddrs()), w.u.Name(peer.ID(rec.GetId())))
				return
			} else if sz > c09MaxPeerRecord-600 && len(ps.Addrs(peer.ID(rec.GetId()))) > len(rec.GetAddrs()) {
				s.Count("probe_record_trimmed")
			}
		}
	}
	if bodyLen == network.MessageSizeMax && typ == pb.Message_PING {
		s.Count("probe_max_size_frame_answered")
	}
	big := len(req.GetKey()) >= c09BigKeyMin
	if big {
		s.Count("probe_big_key_answered")
	}
	switch typ {
	case pb.Message_PING, pb.Message_PUT_VALUE:
		if n := len(resp.GetCloserPeers()) + len(resp.GetProviderPeers()); n > 0 {
			s.Violate("echo-peer-records", "%v echo on %s carries %d peer records (request had %d closer, %d provider records)", typ, st.name(), n, len(req.GetCloserPeers()), len(req.GetProviderPeers()))
			return
		}
	case pb.Message_FIND_NODE, pb.Message_GET_PROVIDERS:
		if bodyLen > network.MessageSizeMax {
			// how much of it is closer-peer records alone?
			closerBytes := 0
			for _, rec := range resp.GetCloserPeers() {
				closerBytes += protowire.SizeTag(8) + protowire.SizeBytes(proto.Size(rec))
			}
			// exact byte counts stay out of the message (they can depend on which
			// addresses survived a trim); they go to the run summary
			s.Summary["too_large"] = fmt.Sprintf("%v body=%d closer-bytes=%d limit=%d", typ, bodyLen, closerBytes, network.MessageSizeMax)
			if closerBytes > network.MessageSizeMax {
				first := ""
				if cp := resp.GetCloserPeers(); typ == pb.Message_FIND_NODE && len(cp) > 0 && bytes.Equal(cp[0].GetId(), req.GetKey()) {
					first = fmt.Sprintf("; the first is the requested peer %s, table member=%v", w.u.Name(peer.ID(req.GetKey())), w.rtSet[peer.ID(req.GetKey())])
				}
				s.Violate("closer-peers-exceed-transport-limit", "%v response on %s exceeds the transport limit of %d bytes: its %d closer-peer records alone do (K=%d; every single record is within 8 KiB%s)", typ, st.name(), network.MessageSizeMax, len(resp.GetCloserPeers()), w.K, first)
				return
			}
			s.Violate("response-too-large", "%v response on %s exceeds the transport limit of %d bytes (%d closer, %d provider records)", typ, st.name(), network.MessageSizeMax, len(resp.GetCloserPeers()), len(resp.GetProviderPeers()))
			return
		}
	}
	if c09HasCloser(typ) {
		if w.variant == c09HugeK && len(resp.GetCloserPeers()) > 500 {
			s.Count("probe_huge_k_response")
		}
		w.checkCloser(st, r, resp, bodyLen)
	}
	// reach probes
	switch typ {
	case pb.Message_GET_PROVIDERS:
		if w.bigKey != nil && bytes.Equal(req.GetKey(), w.bigKey) {
			if len(resp.GetProviderPeers()) >= 100 {
				s.Count("probe_bulk_providers_served")
			}
			if len(resp.GetProviderPeers()) < w.nBig && bodyLen > network.MessageSizeMax-2*c09MaxPeerRecord {
				s.Count("probe_budget_truncated")
			}
			if w.variant == c09Fill {
				w.fillProbes(resp, bodyLen)
			}
		}
	case pb.Message_GET_VALUE:
		if resp.GetRecord() != nil {
			s.Count("probe_value_served")
			if big {
				s.Count("probe_big_value_served")
			}
		} else if w.putOK[string(req.GetKey())] {
			s.Count("probe_value_expired")
		}
	case pb.Message_PUT_VALUE:
		if w.putOK == nil {
			w.putOK = map[string]bool{}
		}
		w.putOK[string(req.GetKey())] = true
		if big {
			s.Count("probe_big_value_stored")
		}
	}
	if big && typ == pb.Message_GET_VALUE && bodyLen > network.MessageSizeMax {
		// Not a demand (the property bounds FIND_NODE and GET_PROVIDERS responses):
		// the key that comes back and the record are what the requesters made them.
		// Reach evidence for the state in which a response has no room left for
		// anything the node adds (c09_bigkey.go).
		s.Count("probe_big_response_over_limit")
		if resp.GetRecord() == nil {
			// the key that came back alone does it
			s.Count("probe_big_key_alone_over_limit")
		}
	}
}

func (w *c09World) checkCloser(st *c09Stream, r *c09Req, resp *pb.Message, bodyLen int) {
	s := w.s
	req := r.msg
	typ := req.GetType()
	key := req.GetKey()
	kk := simnet.KadOfKey(string(key))
	self, requester := w.u.Self.ID, st.sender.ID
	isFN := typ == pb.Message_FIND_NODE
	ps := w.h.Peerstore()

	ids := make([]peer.ID, 0, len(resp.GetCloserPeers()))
	for _, rec := range resp.GetCloserPeers() {
		ids = append(ids, peer.ID(rec.GetId()))
	}
	others := ids
	targetListed := false
	if isFN && len(ids) > 0 && string(ids[0]) == string(key) {
		targetListed = true
		others = ids[1:]
		s.Count("probe_target_first")
	}
	for _, id := range others {
		if isFN && string(id) == string(key) {
			s.Violate("target-not-first", "FIND_NODE response on %s lists the requested peer, but not first: %v", st.name(), w.u.Names(ids))
			return
		}
		if id == self {
			s.Violate("closer-self", "%v response on %s lists the node itself: %v", typ, st.name(), w.u.Names(ids))
			return
		}
		if id == requester {
			s.Violate("closer-requester", "%v response on %s lists the requester %s: %v", typ, st.name(), st.sender.Name, w.u.Names(ids))
			return
		}
	}
	if len(others) > w.K {
		s.Violate("closer-too-many", "%v response on %s lists %d closer peers besides the requested one, K=%d", typ, st.name(), len(others), w.K)
		return
	}
	for i := 1; i < len(ids); i++ {
		a, b := simnet.KadOfPeer(ids[i-1]).Xor(kk), simnet.KadOfPeer(ids[i]).Xor(kk)
		if !a.Less(b) {
			s.Violate("closer-order", "%v response on %s: closer peers not in strictly ascending distance from the key at position %d: %v", typ, st.name(), i, w.u.Names(ids))
			return
		}
	}
	if targetListed && len(ps.Addrs(peer.ID(key))) == 0 {
		// peerstore addresses only ever get added during a run, so "none now"
		// implies "none when the request was handled"
		s.Violate("target-without-addrs", "FIND_NODE response on %s lists the requested peer %s although the node knows no address for it", st.name(), w.u.Name(peer.ID(key)))
		return
	}

	// ---- nearest-first prefix of the table ----
	if w.rtChanged() {
		s.Count("rt_changed_model_skipped")
		return
	}
	var cands []peer.ID
	for _, p := range w.rt {
		if p != self && p != requester {
			cands = append(cands, p)
		}
	}
	simnet.SortByDistance(cands, kk)
	if len(cands) > w.K {
		cands = cands[:w.K]
	}
	got := ids
	if isFN {
		// FIND_NODE lists only peers whose addresses are known; the K nearest are
		// chosen first. (Table members never gain or lose addresses in a run.)
		var with []peer.ID
		for _, p := range cands {
			if len(ps.Addrs(p)) > 0 {
				with = append(with, p)
			}
		}
		cands = with
		if targetListed && !(len(cands) > 0 && string(cands[0]) == string(key)) {
			got = ids[1:] // the requested peer, put in front in addition
		}
	}
	same := len(got) == len(cands)
	if len(got) < len(cands) && bodyLen > network.MessageSizeMax-2*c09MaxPeerRecord {
		// a nearest-first prefix that stops where one more record would no longer
		// fit the transport limit is all the property allows
		same = true
		cands = cands[:len(got)]
		s.Count("probe_closer_cut_by_transport_limit")
		if len(key) >= c09BigKeyMin {
			s.Count("probe_big_key_closer_cut")
		}
		nConn := 0
		for _, rec := range resp.GetCloserPeers() {
			if rec.GetConnection() != 0 {
				nConn++
			}
		}
		if nConn >= 10 {
			// more than the requesters of a run: members the scenario connected
			s.Count("probe_cut_list_many_connected")
		}
		if isFN && targetListed && len(got) < len(ids) {
			// the requested peer's record came on top of a list that had to be cut:
			// the transport limit (rule response-too-large) covers both together
			s.Count("probe_cut_list_plus_target")
			if proto.Size(resp.GetCloserPeers()[0]) > c09MaxPeerRecord/2 {
				s.Count("probe_cut_list_plus_big_target")
			}
		}
	}
	for i := 0; same && i < len(got); i++ {
		same = got[i] == cands[i]
	}
	if !same {
		s.Violate("closer-not-nearest", "%v response on %s to %s lists %v; the nearest (at most K=%d) table members without the node and the requester are %v", typ, st.name(), st.sender.Name, w.u.Names(got), w.K, w.u.Names(cands))
		return
	}
	if w.rtSet[requester] {
		all := append([]peer.ID{}, w.rt...)
		simnet.SortByDistance(all, kk)
		for i, p := range all {
			if p == requester && i <= w.K {
				s.Count("probe_requester_filtered")
			}
		}
	}
}

func (w *c09World) rtChanged() bool {
	now := w.d.RoutingTable().ListPeers()
	if len(now) != len(w.rt) {
		return true
	}
	for _, p := range now {
		if !w.rtSet[p] {
			return true
		}
	}
	return false
}

// ---------------------------------------------------------------------------
// end of run

// finalChecks runs after everything in flight was delivered and every parked
// write released: each handler is blocked reading (or gone).
func (w *c09World) finalChecks() {
	s := w.s
	for _, st := range w.streams {
		if st.a.IsReset() {
			if st.honest && !st.excused && st.a.ResetBy == "remote" {
				s.Violate("honest-reset", "stream %s carried only valid requests, nothing disturbed it (no time passed, no failed write, no network reset), yet the node reset it after %d of %d delivered requests were answered", st.name(), st.nResp, len(st.reqs))
				return
			}
			for _, r := range st.reqs {
				if r.clientAtWrite && r.end <= st.b.Delivered && !r.answered && !r.silent() {
					s.Count("probe_client_mode_silent")
					break
				}
			}
			continue
		}
		if r := st.firstUnresolved(st.b.Delivered); r != nil {
			s.Violate("request-unanswered", "request (%s) was wholly delivered on %s; everything in flight was delivered afterwards, yet there is neither a response nor a reset (%d responses for %d requests)", r, st.name(), st.nResp, len(st.reqs))
			return
		}
		if st.resp.Partial() {
			s.Violate("malformed-response", "stream %s is still open but the bytes read back end inside a frame", st.name())
			return
		}
	}
}

func (w *c09World) isSender(id peer.ID) bool {
	for _, p := range w.senders {
		if p.ID == id {
			return true
		}
	}
	return id == w.prober.ID || id == w.prefiller().ID
}

// audit compares the provider store and the peerstore with the model.
func (w *c09World) audit() {
	s := w.s
	if s.Failed() || s.Steps > s.MaxSteps {
		return
	}
	ctx := context.Background()
	keys := map[string]bool{}
	for k := range w.prefillProv {
		keys[k] = true
	}
	for k := range w.apKeys {
		keys[k] = true
	}
	total := 0
	for _, k := range c09SortedKeys(keys) {
		if len(k) == 0 {
			// GetProviders("") is a prefix query over the whole provider namespace
			// (not reachable over the wire: the handlers refuse empty keys). An
			// entry filed under the empty key is caught by the entry count below.
			continue
		}
		provs, err := w.d.ProviderStore().GetProviders(ctx, []byte(k))
		if err != nil {
			continue
		}
		ids := make([]string, 0, len(provs))
		byName := map[string]peer.ID{}
		for _, pi := range provs {
			n := w.u.Name(pi.ID)
			ids = append(ids, n)
			byName[n] = pi.ID
		}
		sort.Strings(ids)
		for _, n := range ids {
			id := byName[n]
			total++
			switch {
			case w.prefillProv[k][id]:
			case w.apAllowed[k][id]:
				s.Count("probe_ap_stored")
			case len(k) == 0 || len(k) > 80:
				s.Violate("ap-bad-key-stored", "provider store holds provider %s under a key of %d bytes", n, len(k))
				return
			case !w.isSender(id):
				s.Violate("ap-foreign-provider", "provider store holds %s as provider of a %d-byte key, but no peer with that id ever sent an ADD_PROVIDER (only the authenticated sender may be recorded)", n, len(k))
				return
			default:
				s.Violate("ap-unacceptable-stored", "provider store holds %s as provider of a %d-byte key, but %s never sent an ADD_PROVIDER for it with a record about itself that carries an address", n, len(k), n)
				return
			}
		}
	}
	snap := w.ds.Snapshot()
	for _, k := range c09SortedKeys(snap) {
		// An entry directly under the provider namespace belongs to an empty key
		// (or an empty provider id): the public read path cannot show it.
		if strings.HasPrefix(k, records.ProvidersKeyPrefix) && !strings.Contains(k[len(records.ProvidersKeyPrefix):], "/") {
			s.Violate("ap-bad-key-stored", "datastore holds provider entry %s, filed directly under the provider namespace (empty key or empty provider id)", k)
			return
		}
	}
	if !w.expiry {
		n := 0
		for k := range snap {
			if strings.HasPrefix(k, records.ProvidersKeyPrefix) {
				n++
			}
		}
		if n != total {
			s.Violate("ap-unaccounted-entry", "datastore holds %d provider entries, the keys that appeared in requests or the prefill account for %d", n, total)
			return
		}
	}
	ps := w.h.Peerstore()
	peers := ps.PeersWithAddrs()
	sort.Slice(peers, func(i, j int) bool { return peers[i] < peers[j] })
	for _, p := range peers {
		addrs := ps.Addrs(p)
		sort.Slice(addrs, func(i, j int) bool { return bytes.Compare(addrs[i].Bytes(), addrs[j].Bytes()) < 0 })
		for _, a := range addrs {
			b := string(a.Bytes())
			if w.prefillAddrs[p][b] || w.apAddrs[p][b] {
				continue
			}
			if w.filter && !c09FilterPass(a) {
				s.Violate("ap-unfiltered-address", "peerstore holds %s for %s, which the node's address filter rejects", a, w.u.Name(p))
			} else {
				s.Violate("ap-foreign-address", "peerstore holds %s for %s, which %s never sent about itself in an ADD_PROVIDER", a, w.u.Name(p), w.u.Name(p))
			}
			return
		}
	}
	s.Tracef("audit providers=%d", total)
}
