//go:build all || c04

package scen

// C04, lazy consumers: SearchValue on the standard and on the accelerated
// client whose caller does NOT sit in a tight receive loop. The
// consumer asks the scheduler before every receive ("consume"), and while it
// is between two receives the scheduler may let virtual minutes pass ("pause":
// 1-30 minutes, far above any per-request or per-operation time-out a client
// could reasonably apply) - the caller is busy with the value it just got,
// which is what callers of a streaming search do. Meanwhile the responders'
// answers keep arriving and pile up behind the result channel.
//
// Nothing new is demanded: every rule is the one of c04World.check, and each
// is a clause of the property that does not mention the consumer's pace:
//
//	yield-invalid / yield-miskeyed / yield-unsupplied / yield-*-local
//	    "only yield values that the configured validator accepts for the
//	    requested key"
//	stream-not-improving
//	    "the values streamed by a search are strictly improving"
//	best-known, valid-value-lost, best-known-backlog
//	    "the final value is ranked at least as good as every valid value
//	    supplied by local storage or by any peer whose answer was processed
//	    before the search ended". An answer counts when the simulator delivered
//	    it to a request that was still outstanding with a live context while the
//	    consumer had not yet seen the end of the stream: the client asked for
//	    it, got it, and was still running. How long the consumer then takes to
//	    pick up what is already queued is not the responder's business - a value
//	    the client received and approved must not get lost on the way to the
//	    caller because the caller was slow. (best-known-backlog is the same
//	    clause under its own id for the values that were delivered while the
//	    caller was between two receives.)
//	notfound-error
//	    "if no valid value was supplied the result is not-found"
//
// Left out of the generated space:
//
//   - an early stop (Quorum > 0) and cancellation: with a consumer that is not
//     receiving, what happens to records queued behind the result channel when
//     the quorum is reached or the context ends is a coin of the Go runtime
//     inside the client (select with two ready cases; HARNESS pitfall 3, see the
//     header of c03.go), and "processed before the search ended" is not
//     observable for them. Both are generated with eager consumers elsewhere.
//   - values that expire while the search runs (responders' "soon" expiries,
//     the local record of kind 4): with a paused consumer a value can sit in the
//     pipeline for minutes between the client's validation and the consumer's
//     receive, and the property does not say at which of the two instants "the
//     validator accepts" is read. The eager scenarios, where the two instants
//     coincide, keep generating them.
//   - more than three approved records handed to the client and not yet
//     received by the consumer (HARNESS pitfall 8): records travel worker ->
//     one-slot channel -> value loop -> result channel, the value loop swallows
//     records that are not better without blocking, so with two or more workers
//     blocked on the hand-over one receive would release several of them in the
//     same instant and the order of their reports to the lookup loop is the Go
//     scheduler's. c04Lazy.pipe is an upper bound of the records in that
//     pipeline: the local record if the validator accepts it when the search
//     starts, plus every delivered record that is filed under the requested key
//     and that the validator accepts at the delivery instant (by the property
//     itself nothing else may enter the search; a client that lets something
//     else in is caught by the yield rules whatever the pipeline does), minus
//     what the consumer received. A reply carrying such a record is enabled
//     only while the bound is below three, so at most ONE worker is ever
//     blocked on the hand-over - which is the state of interest: a received,
//     approved value waiting for a slow caller.
//   - the dual client: best-known is not judged there (see c04World.check) and
//     the other rules do not depend on the consumer's pace.
//
// Found with value-lazy-fullrt on the tree as it was (replay
// findings/C04-fullrt-approved-value-lost-slow-consumer.json, repaired since in
// the repository): the accelerated client handed approved records over under
// the per-operation context of its fan-out, which ends on a time-out and as
// soon as enough peers answered, so a value waiting for a slow caller was
// thrown away and the stream ended on a worse one.

import (
	"sync/atomic"
	"time"

	pb "github.com/libp2p/go-libp2p-kad-dht/pb"

	"verif/sim"
	"verif/simnet"
)

func init() {
	sim.Register(&sim.Scenario{Prop: "C04", Name: "value-lazy-standard", Weight: 4, Run: func(s *sim.Sim) { c04RunValue(s, "standard", true) },
		Real: []string{"IpfsDHT.SearchValue under back-pressure: per-peer lookup workers handing approved records to the value loop while the caller is not receiving (routing.go getValues/processValues/searchValueQuorum)"},
		Stub: []string{"the caller of SearchValue (a consumer that reads when the scheduler says so and pauses for virtual minutes between reads)"},
		Faults: []string{"fault_rec_invalid", "fault_rec_miskeyed", "fault_rec_empty", "fault_rpc_error", "fault_dial_fail", "time_advance",
			"probe_lazy_consume", "probe_lazy_pause", "probe_lazy_pause_pipeline_full", "probe_lazy_reply_held_back", "probe_lazy_value_received_after_pause",
			"probe_found", "probe_notfound", "probe_stream_multi", "probe_local_valid", "probe_local_expired", "probe_local_never_valid", "probe_bestknown_checked",
			"probe_opt_offline", "probe_stamp_valid_value_held_past_requesters_max_age"},
	})
	sim.Register(&sim.Scenario{Prop: "C04", Name: "value-lazy-fullrt", Weight: 2, Run: func(s *sim.Sim) { c04RunValue(s, "fullrt", true) },
		Real: []string{"fullrt.FullRT.SearchValue under back-pressure: execOnMany's per-peer workers handing approved records to the value loop while the caller is not receiving (fullrt/dht.go getValues/processValues/searchValueQuorum)"},
		Stub: []string{"the caller of SearchValue (a consumer that reads when the scheduler says so and pauses for virtual minutes between reads)"},
		Faults: []string{"fault_rec_invalid", "fault_rec_miskeyed", "fault_rec_empty", "fault_rpc_error", "time_advance",
			"probe_lazy_consume", "probe_lazy_pause", "probe_lazy_pause_pipeline_full", "probe_lazy_reply_held_back", "probe_lazy_value_received_after_pause",
			"probe_found", "probe_notfound", "probe_stream_multi", "probe_local_valid", "probe_local_expired", "probe_local_never_valid", "probe_bestknown_checked"},
	})
}

// c04Lazy is the state of a lazy consumer.
type c04Lazy struct {
	receiving atomic.Bool  // the consumer is blocked receiving on the result channel
	received  atomic.Int64 // values it received so far
	seen      int          // ... at the last quiescent look
	// pipe: upper bound of the records handed to the client (local record
	// included) and not yet received by the consumer
	pipe      int
	pauses    int
	pausedFor time.Duration // virtual time paused since the last receive
}

// delivered: a reply carrying a correctly keyed, validator-approved record is
// being delivered.
func (l *c04Lazy) delivered(w *c04World) { l.pipe++ }

// sync refreshes the bound at a quiescent point: a consumer that is blocked
// receiving has an empty pipeline behind it; every value it received since the
// last look left the pipeline.
func (l *c04Lazy) sync(w *c04World) {
	if n := int(l.received.Load()); n > l.seen {
		l.pipe -= n - l.seen
		l.seen = n
		if l.pausedFor > 0 {
			w.s.Count("probe_lazy_value_received_after_pause")
		}
		l.pausedFor = 0
	}
	if l.receiving.Load() || l.pipe < 0 || w.op.Done {
		l.pipe = 0
	}
}

// room: may this parked request be answered now? Replies that carry no record
// always may.
func (l *c04Lazy) room(w *c04World, rpc *simnet.RPC) bool {
	if rpc.Req.GetType() != pb.Message_GET_VALUE || l.pipe < 3 {
		return true
	}
	r := w.resp[rpc.To]
	if r == nil || w.u.ByID(rpc.To) == nil {
		return true
	}
	// would the reply hand the client an approved record now?
	val, ok := r.Val, false
	switch r.Kind {
	case c04Valid, c04Invalid, c04LocalCopy, c04Replay, c04MisKeyed:
		ok = r.RecKey == w.cfg.Key && len(val) > 0 && w.validate(w.cfg.Key, val) == nil
	}
	if !ok {
		return true
	}
	w.s.Count("probe_lazy_reply_held_back")
	return false
}

// pauseWhenFull: with the pipeline full (nothing carrying a record can be
// delivered before the consumer reads) and the consumer waiting for its turn,
// being busy for a while is the interesting choice; it gets a chance of its own
// in front of the menu.
func (l *c04Lazy) pauseWhenFull(w *c04World) bool {
	s := w.s
	if l.pipe < 3 || l.pauses >= 6 || len(s.ParkedKind("consume")) == 0 || !s.Chance("pause-full", 1, 2) {
		return false
	}
	s.Tracef("step pause (pipeline full)")
	l.pause(w)
	return true
}

func (l *c04Lazy) pause(w *c04World) {
	s := w.s
	d := time.Duration(1+s.Draw("pause-min", 30)) * time.Minute
	l.pauses++
	l.pausedFor += d
	s.Count("probe_lazy_pause")
	s.Count("time_advance")
	if l.pipe >= 3 {
		s.Count("probe_lazy_pause_pipeline_full")
	}
	s.Sleep(d)
}

// actions of the consumer while it waits for its turn (parked before a
// receive): receive once, or be busy for a while first.
func (l *c04Lazy) actions(w *c04World, p *sim.Parked) []sim.Action {
	s := w.s
	acts := []sim.Action{{ID: "consume", Do: func() {
		s.Count("probe_lazy_consume")
		s.Release(p, nil)
	}}}
	if l.pipe > 0 && l.pauses < 6 {
		acts = append(acts, sim.Action{ID: "pause", Do: func() { l.pause(w) }})
	}
	return acts
}
