//go:build all || c20

package scen

// C20 - keystore contents are exact, durable, and replaced atomically by reset.
//
// Harness H3: the real keystore (plain, resettable/shared, resettable/factory)
// over parking simds datastores. Every datastore operation is a scheduler
// step; client operations are started one at a time; one reset per epoch gets
// its keys one per step; an epoch ends with a clean restart, with a crash
// (fork of every datastore at a drawn journal cut) or with the end of the run.
//
// Oracle: (1) porcupine on each epoch's history against a set specification;
// (2) after every reopen the content read back must be explained by the
// epoch's operations (see c20ComputeExpect) and Size() must equal |content|.
//
// Durability: Put/Delete/Empty call Sync on the store's namespace before they
// return and only log a Sync error. "Durably acknowledged" is therefore:
// returned nil and its own Sync was not failed by injection. Nothing more is
// demanded: an unsynced or unacknowledged write may be lost at a crash.
//
// Overlapping resets (c20H.overlapReset): while a reset runs, further
// ResetCids calls are a generated operation at every phase of the running
// reset (slot preparation, bulk copy with keys staged by concurrent puts, the
// sync that ends the bulk copy, the recount, the catch-up drain, swap and
// teardown). "A reset replaces the contents by the supplied keys plus every
// key whose Put was acknowledged during the reset ... never a mixture or a
// partial set, and its reported size matches": two resets cannot both keep
// that promise over the same pair of slots, so the second call has to be
// refused, and a refused call is not a reset - it supplies nothing, replaces
// nothing. The model therefore treats it as a no-op; whatever it disturbs in
// the running reset shows up in the existing clauses (lin-*: results after the
// reset; reset-atomicity / reopen-size: content and Size() after a reopen).
// New rules: overlap-reset-accepted (the call was taken up as a second reset
// although the first one had been acknowledged as started and had not
// returned: clause "never a mixture") and overlap-reset-hang (liveness: the
// call neither returned nor reacted to the cancellation of its context). A
// call that finds the worker busy (it could only be queued behind the running
// reset's own worker-side step or behind a client operation) is withdrawn by
// cancelling its context inside the same scheduler step - so the worker never
// has an overlapping start request and another request ready at once, and
// the outcome (refused / withdrawn) is a function of the schedule alone.
//
// Failure of the active-slot marker's Sync at the end of a reset (injected I/O
// error in the fault variants; in both variants the reset's context cancelled
// between the marker's Put and its Sync - every datastore call is a scheduler
// step, so the cancellation lands there too). The clauses "after completion,
// cancellation, Close or a crash at any write, a reopened keystore holds either
// the complete previous set or the complete new set ... never a mixture or a
// partial set, and its reported size matches" and "every datastore error
// injection point" make no exception for that call: reset-atomicity and
// reopen-size judge the reopen after it like any other. One case only is set
// apart, because it is a recorded open finding of the unchanged tree (rule
// reset-marker-not-persisted, "marker sync failed at the end of a reset"): the
// restart was a CRASH and the fork dropped an unsynced write of the marker
// (c20H.markerLost: fewer marker entries in the restarted journal than the old
// process wrote - a journal fact, no implementation constant). A clean restart,
// or a crash at which every marker write survived, loses nothing that was
// unsynced about the marker; whatever the reopened keystore then holds is what
// the keystore itself left on disk, and a mismatch is reported under the
// ordinary rules (the failed Sync is only mentioned as a note in the message).
// This exposes any error path of the swap that leaves marker, in-memory slot
// choice and torn-down slot out of step (marker written but swap aborted, swap
// done but marker rolled back, wrong slot torn down after a failed step).
//
// Abandoned operations (c20H.abandon): a caller may give up on an ordinary
// operation - its context ends - while the worker is executing it. The
// property quantifies over "every history of put/get/count/delete/empty/size
// operations", and a history in which one caller stopped waiting is one of
// them: "Put returns exactly ..., Get/CountKeysUpTo/ContainsPrefix ... reflect
// exactly the stored keys ..., Size equals the number of stored keys, across
// every history of operations, clean restarts and crashes" keeps binding every
// LATER operation, the Close that a "clean restart" consists of, and the
// reopen. No new rule is needed: the abandoned call itself may fail (a failed
// read says nothing, c20Step), every later operation has to return and is
// judged by lin-*; a store that stops answering is keystore-wedged, a Close
// that does not come back is keystore-wedged (in the epoch) or close-hang (at a
// crash). The generator cancels the context of a drawn operation (get / count /
// contains, less often put / delete) at a scheduler step at which the worker is
// parked inside one of that operation's datastore calls - the caller's select
// then has the ended context as its only ready case, so the outcome is a
// function of the schedule; the parked call and every later datastore call of
// the operation observe the ended context (like every datastore call under a
// cancelled context in this scenario; a commit that observes it applies
// nothing), so whatever the abandoned write did to the store it did before
// its caller returned. An abandoned put/delete returned an error: the model
// and the reopen oracle treat it like any failed write ("may or may not have
// happened": c20Step unk, c20Mut not mandatory).
// Excluded: abandoning empty (it commits one batch after the other; once a
// batch is committed and the context ends, the worker's recount runs on that
// same ended context - reported separately as a suspected defect, not
// generated here) and size (never reaches the datastore, so there is no step
// "while the worker executes it").
//
// Schedules that would hit a select with two ready cases inside the keystore
// (worker: requests vs. reset operations vs. close; withAltDs: token vs.
// cancelled context) are not generated - see the gating comments below.

import (
	"context"
	"errors"
	"fmt"
	"math/bits"
	"os"
	"runtime"
	"sort"
	"strings"
	"sync"
	"time"

	"github.com/anishathalye/porcupine"
	"github.com/ipfs/go-cid"
	ds "github.com/ipfs/go-datastore"
	"github.com/ipfs/go-libdht/kad/key/bitstr"
	mh "github.com/multiformats/go-multihash"

	"github.com/libp2p/go-libp2p-kad-dht/provider/keystore"

	"verif/sim"
	"verif/simds"
)

func init() {
	real := []string{"provider/keystore.keystore (worker, Put/Get/CountKeysUpTo/ContainsPrefix/Delete/Empty/Size/Close, size persistence)"}
	realR := append([]string{"provider/keystore.ResettableKeystore (ResetCids phases, buffer, swap, marker, teardown; shared and factory mode)", "go-datastore namespace wrapper"}, real...)
	stub := []string{"datastore (simds: every operation parks; journal with sync marks; crash = fork at a drawn cut)", "datastore factory (harness map of forkable simds instances)"}
	common := []string{
		"fault_crash", "fault_unsynced_writes_lost", "fault_clean_restart", "time_advance",
		"probe_crash_cut_inside_batch", "probe_crash_mid_operation", "probe_crash_during_close",
		"probe_reopen_stale_size_key", "probe_put_returned_subset", "probe_long_prefix_query", "probe_concurrent_ops",
		"probe_op_after_close",
		// a caller gave up on an operation while the worker was executing it
		"fault_op_abandoned", "probe_abandoned_op_returned", "probe_op_ok_after_abandoned_op", "probe_close_ok_after_abandoned_op",
		"probe_abandon_while_closing", "probe_write_abandoned",
	}
	resetP := []string{
		"fault_reset_cancel", "fault_close_during_reset",
		"probe_crash_in_reset_prepare", "probe_crash_in_reset_bulk", "probe_crash_in_reset_catchup", "probe_crash_in_reset_swap", "probe_crash_in_reset_teardown",
		"probe_put_during_reset", "probe_reset_cancelled", "probe_reset_backpressure", "probe_marker_flip", "probe_reset_completed",
		"probe_reset_tick_drain", "probe_reopen_new_content", "probe_reopen_old_content_after_reset_attempt", "probe_factory_mode", "probe_shared_mode",
		"fault_overlap_reset", "probe_overlap_reset_refused", "probe_overlap_reset_withdrawn",
		"probe_overlap_reset_in_prepare", "probe_overlap_reset_in_bulk", "probe_overlap_reset_in_catchup", "probe_overlap_reset_in_swap", "probe_overlap_reset_in_teardown",
		"probe_overlap_reset_refused_after_acked_put", "probe_overlap_reset_then_reset_completed",
		// reopen after the Sync of the active-slot marker did not succeed in a reset
		// (injected error in the fault variants, cancelled context in both)
		"probe_crash_lost_marker_write", "probe_marker_sync_failed_then_marker_lost",
		"probe_clean_reopen_after_failed_marker_sync", "probe_crash_reopen_marker_kept_after_failed_marker_sync",
		// a client operation queued behind a reset cancelled before its start was
		// acknowledged returned while the liveness probe was being served
		"probe_op_returned_during_liveness_probe",
	}
	faultsF := []string{"fault_ds_error_has", "fault_ds_error_put", "fault_ds_error_query", "fault_ds_error_commit", "fault_ds_partial_commit", "fault_ds_error_sync", "probe_sync_failed_op_acknowledged", "probe_op_failed", "fault_boot_error", "probe_open_failed_on_injected_error"}
	cat := func(a ...[]string) []string {
		var out []string
		for _, x := range a {
			out = append(out, x...)
		}
		return out
	}
	sim.Register(&sim.Scenario{Prop: "C20", Name: "keystore", Weight: 2, Run: func(s *sim.Sim) { runC20(s, false, false) },
		Real: real, Stub: stub, Faults: common})
	sim.Register(&sim.Scenario{Prop: "C20", Name: "resettable", Weight: 5, Run: func(s *sim.Sim) { runC20(s, true, false) },
		Real: realR, Stub: stub, Faults: cat(common, resetP)})
	sim.Register(&sim.Scenario{Prop: "C20", Name: "keystore-ds-errors", Weight: 1, Run: func(s *sim.Sim) { runC20(s, false, true) },
		Real: real, Stub: append([]string{"datastore error injection (parked outcomes, partial commits)"}, stub...), Faults: cat(common, faultsF)})
	sim.Register(&sim.Scenario{Prop: "C20", Name: "resettable-ds-errors", Weight: 3, Run: func(s *sim.Sim) { runC20(s, true, true) },
		Real: realR, Stub: append([]string{"datastore error injection (parked outcomes, partial commits)"}, stub...), Faults: cat(common, resetP, faultsF)})
}

const (
	c20Plain = iota
	c20Shared
	c20Factory
)

const (
	c20EndFinal = iota
	c20EndClean
	c20EndCrash
)

type c20Inst struct {
	epoch int
	ks    keystore.Keystore
	rks   *keystore.ResettableKeystore
	meta  *simds.DS

	mu     sync.Mutex
	slots  map[string]*simds.DS // factory mode: what exists "on disk"
	all    []*simds.DS          // every datastore this instance touched, creation order
	isLive map[*simds.DS]bool
	dead   bool // abandoned after a crash: nothing of it parks any more
	nslot  int

	closeOp   *c20Op
	closeStep int
}

type c20Reset struct {
	plan        c20ResetPlan
	op          *c20Op
	keys        []int
	fed         int
	chClosed    bool
	ch          chan cid.Cid
	dead        chan struct{}
	cancel      context.CancelFunc
	cancelled   bool
	opStartDone bool
	startStep   int
	feeder      bool   // feeder goroutine alive
	putKeys     uint64 // keys of puts issued while the reset runs
	ackedPuts   int    // puts acknowledged while the reset runs
	nOverlap    int    // overlapping ResetCids calls issued while it runs
	nRefused    int    // ... of which the keystore refused (the others were withdrawn)
}

type c20Plan struct {
	nOps         int
	end          int
	endAfter     int
	resets       []c20ResetPlan // up to two, one after the other
	crashInClose int
	postClose    int
}

type c20ResetPlan struct {
	at           int // start once this many client operations were started
	keys         []int
	cancelAfter  int // cancel this many steps after the start (-1: never)
	allowWedge   bool
	crashInReset int    // crash this many steps after the reset started (-1: no)
	crashPhase   string // crash when the reset reaches this phase ("" none) ...
	crashDelay   int    // ... plus this many steps
	overlapDen   int    // every step of the running reset offers an overlapping ResetCids call with chance 1/overlapDen (0: never)
}

type c20H struct {
	s          *sim.Sim
	mode       int
	faults     bool
	prefixBits int
	batchSize  int
	bufCap     int
	atomic     bool
	nClients   int
	maxEpochs  int

	clock int64
	ops   []*c20Op
	inst  *c20Inst
	epoch int
	base  uint64 // verified content at the start of the epoch

	busy     []*c20Op
	inflight int
	opsLeft  int
	started  int
	nextOp   int
	reset    *c20Reset // the running or the last reset of the epoch
	resetIdx int       // resets started in this epoch
	plan     c20Plan

	stepsInEpoch int
	// dups: this run may list a multihash twice in one call and may put a key
	// twice while a reset runs (input class of a recorded finding: the
	// keystore's per-call de-duplication compares pointers); dupSeen says which
	// of the two happened first.
	dups       bool
	dupSeen    string
	bootFault  string // start-up datastore call failed by injection in this epoch ("" none)
	tainted    bool   // a finding was recorded that invalidates later judgements
	markerLost bool   // the last restart (a crash) dropped an unsynced write of the active-slot marker
	wedgeSched bool   // the reset was cancelled before its start was acknowledged
	faultTags  map[string]int
	stop       bool
	noCensus   bool
	nAbandoned int // operations abandoned by their caller in this epoch

	nCrash, nClean, nResetOK, nResetFail, nAcked int
}

func c20Park(op, key string) bool { return op != "batch" }

// c20Off: development/sensitivity aid. VERIF_C20_OFF=dups,wedge,marker keeps
// the input classes of the recorded findings out of the generated schedules
// (duplicate keys; reset cancelled before its start is acknowledged; failure
// of the marker write/sync at the end of a reset); "overlap" switches the
// overlapping ResetCids calls off, "boot" the start-up faults.
func c20Off(what string) bool {
	for _, w := range strings.Split(os.Getenv("VERIF_C20_OFF"), ",") {
		if w == what {
			return true
		}
	}
	return false
}

// c20On: development aid, the opposite of c20Off. VERIF_C20_ON=abandon-empty
// lets callers abandon Empty as well (see the header, "Abandoned operations").
func c20On(what string) bool {
	for _, w := range strings.Split(os.Getenv("VERIF_C20_ON"), ",") {
		if w == what {
			return true
		}
	}
	return false
}

func runC20(s *sim.Sim, resettable, faults bool) {
	s.MaxSteps = 2200
	h := &c20H{s: s, faults: faults, faultTags: map[string]int{}}
	if resettable {
		h.mode = c20Shared
		if s.Chance("factory", 1, 2) {
			h.mode = c20Factory
		}
	}
	h.prefixBits = []int{8, 0, 16}[s.Draw("prefix-bits", 3)]
	h.batchSize = s.Range("batch-size", 1, 4)
	h.bufCap = s.Range("reset-buf-cap", 1, 4)
	h.atomic = !s.Chance("non-atomic-batch", 1, 2)
	h.nClients = s.Range("clients", 1, 4)
	h.maxEpochs = s.Range("epochs", 1, 3)
	h.dups = s.Chance("duplicate-keys", 1, 5) && !c20Off("dups")
	h.busy = make([]*c20Op, h.nClients)
	s.Summary["cfg"] = fmt.Sprintf("mode=%d faults=%v prefixBits=%d batch=%d bufCap=%d atomicBatch=%v clients=%d epochs<=%d",
		h.mode, faults, h.prefixBits, h.batchSize, h.bufCap, h.atomic, h.nClients, h.maxEpochs)
	s.Tracef("cfg %v", s.Summary["cfg"])
	switch h.mode {
	case c20Shared:
		s.Count("probe_shared_mode")
	case c20Factory:
		s.Count("probe_factory_mode")
	}

	meta := simds.New(s, "meta.e1")
	if !h.open(meta, map[string]*simds.DS{}) {
		h.shutdown()
		return
	}
	for !h.stop && !s.Failed() {
		h.planEpoch()
		end := h.runEpoch()
		if h.stop || s.Failed() || h.tainted {
			break
		}
		switch end {
		case c20EndCrash:
			h.doCrash()
		case c20EndClean:
			h.doCleanReopen()
		case c20EndFinal:
			h.doCleanReopen() // final verification of what the clean Close left behind
			h.stop = true
		}
	}
	h.shutdown()
}

// ---- instances --------------------------------------------------------------

func (h *c20H) adopt(inst *c20Inst, d *simds.DS) {
	d.AtomicBatch = h.atomic
	if inst.dead {
		d.ParkOp = nil
	} else {
		d.ParkOp = c20Park
	}
	inst.all = append(inst.all, d)
	inst.isLive[d] = true
}

// open starts a keystore instance on the given datastores (fresh ones or the
// forks a restarted process finds) and lets its start-up run to completion.
func (h *c20H) open(meta *simds.DS, slots map[string]*simds.DS) bool {
	s := h.s
	h.epoch++
	inst := &c20Inst{epoch: h.epoch, meta: meta, slots: slots, isLive: map[*simds.DS]bool{}}
	h.adopt(inst, meta)
	var suffixes []string
	for k := range slots {
		suffixes = append(suffixes, k)
	}
	sort.Strings(suffixes)
	for _, k := range suffixes {
		h.adopt(inst, slots[k])
	}
	h.inst = inst
	h.reset = nil
	h.resetIdx = 0
	h.stepsInEpoch = 0
	h.nAbandoned = 0
	for i := range h.busy {
		h.busy[i] = nil
	}
	h.inflight = 0

	base := []keystore.Option{keystore.WithPrefixBits(h.prefixBits), keystore.WithBatchSize(h.batchSize)}
	create := func(suffix string) (ds.Batching, error) {
		inst.mu.Lock()
		defer inst.mu.Unlock()
		if d, ok := inst.slots[suffix]; ok {
			return d, nil
		}
		d := simds.New(s, fmt.Sprintf("slot%s.e%d.%d", suffix, inst.epoch, inst.nslot))
		inst.nslot++
		h.adopt(inst, d)
		inst.slots[suffix] = d
		return d, nil
	}
	destroy := func(suffix string) error {
		inst.mu.Lock()
		defer inst.mu.Unlock()
		delete(inst.slots, suffix)
		return nil
	}
	var cerr error
	done := false
	construct := func() {
		defer func() {
			if r := recover(); r != nil {
				cerr = fmt.Errorf("constructor panicked: %v", r)
			}
			done = true
		}()
		switch h.mode {
		case c20Plain:
			inst.ks, cerr = keystore.NewKeystore(meta, base...)
		case c20Shared:
			inst.rks, cerr = keystore.NewResettableKeystore(meta, keystore.KeystoreOption(base...), keystore.WithResetBufferCapacity(h.bufCap))
			inst.ks = inst.rks
		case c20Factory:
			inst.rks, cerr = keystore.NewResettableKeystore(meta, keystore.KeystoreOption(base...), keystore.WithResetBufferCapacity(h.bufCap),
				keystore.WithDatastoreFactory(create, destroy))
			inst.ks = inst.rks
		}
	}
	go construct()
	// Fault variant: at most one start-up read/delete fails (the marker read
	// of the constructor, the read or the delete of the persisted size key).
	h.bootFault = ""
	bootFaults := h.faults && !c20Off("boot") && s.Chance("boot-fault", 1, 4)
	booted := func() bool { return done && len(h.parkedOf(inst)) == 0 }
	for bootFaults && h.bootFault == "" {
		s.Quiesce()
		ps := h.parkedOf(inst)
		if booted() || len(ps) == 0 {
			break
		}
		op := ps[0].Data.(*simds.Op)
		if (op.Op == "get" || op.Op == "delete") && s.Chance("boot-fault-here", 1, 2) {
			h.bootFault = op.Op + " " + op.Key
			s.Tracef("start-up: injected I/O error on %s", h.bootFault)
			s.Count("fault_boot_error")
			s.Release(ps[0], simds.ErrInjected)
		} else {
			s.Release(ps[0], nil)
		}
	}
	if !h.settle(inst, booted) {
		s.Violate("open-hang", "keystore start-up did not finish (epoch %d)", h.epoch)
		return false
	}
	if cerr != nil && h.bootFault != "" {
		// the constructor may fail on a failing datastore; the next attempt, on
		// a healthy one, must succeed
		s.Count("probe_open_failed_on_injected_error")
		cerr, done = nil, false
		go construct()
		if !h.settle(inst, booted) {
			s.Violate("open-hang", "keystore start-up did not finish (epoch %d)", h.epoch)
			return false
		}
	}
	if cerr != nil {
		s.Violate("open-failed", "keystore could not be opened on the datastore a restart finds (epoch %d): %v", h.epoch, cerr)
		inst.ks = nil
		return false
	}
	return true
}

func (h *c20H) parkedOf(inst *c20Inst) []*sim.Parked {
	var out []*sim.Parked
	inst.mu.Lock()
	defer inst.mu.Unlock()
	for _, p := range h.s.ParkedKind("ds") {
		if op, ok := p.Data.(*simds.Op); ok && inst.isLive[op.DS] {
			out = append(out, p)
		}
	}
	return out
}

// settle releases the instance's parked datastore operations benignly, in
// canonical order and without consuming decisions, until cond holds.
func (h *c20H) settle(inst *c20Inst, cond func() bool) bool {
	idle := 0
	for i := 0; i < 20000; i++ {
		h.s.Quiesce()
		if cond() {
			return true
		}
		ps := h.parkedOf(inst)
		if len(ps) == 0 {
			idle++
			if idle > 40 {
				return false
			}
			h.s.Sleep(100 * time.Millisecond)
			continue
		}
		idle = 0
		if ps[0].Cancelled() {
			h.s.ReleaseCancelled(ps[0])
		} else {
			h.s.Release(ps[0], nil)
		}
	}
	return false
}

// kill abandons an instance: its datastores stop parking, its reset is
// cancelled, Close is called and everything it still has parked is released.
// Nothing of this is traced or drawn; results of its operations are ignored.
func (h *c20H) kill(inst *c20Inst) bool {
	s := h.s
	inst.mu.Lock()
	inst.dead = true
	for _, d := range inst.all {
		d.ParkOp = nil
	}
	inst.mu.Unlock()
	// The reset's context is NOT cancelled here: Close alone must end a running
	// reset (and cancelling before the reset's start is acknowledged is the
	// input class of a recorded finding).
	if r := h.reset; r != nil {
		h.stopFeeder(r)
		defer r.cancel()
	}
	closed := inst.ks == nil
	if inst.ks != nil {
		go func() {
			defer func() { _ = recover(); closed = true }()
			_ = inst.ks.Close()
		}()
	}
	ok := h.settle(inst, func() bool {
		if !closed || len(h.parkedOf(inst)) > 0 {
			return false
		}
		for _, o := range h.ops {
			if o.epoch == inst.epoch && o.started && !o.done {
				return false
			}
		}
		return true
	})
	if !ok && !h.tainted {
		if h.wedgeSched {
			h.violateWedge()
		} else {
			s.Violate("close-hang", "Close of the keystore did not return, or operations never returned after Close (epoch %d)", inst.epoch)
		}
		h.tainted = true
	}
	return ok
}

// violate records an oracle failure. Failures of the result and size clauses
// in a run that fed the keystore a duplicate key are filed under the rule of
// that input class (see c20H.dups), so that a recorded finding about it does
// not hide, and is not hidden by, anything else.
func (h *c20H) violate(rule, format string, a ...any) {
	msg := fmt.Sprintf(format, a...)
	if strings.HasPrefix(h.bootFault, "delete ") && strings.HasSuffix(h.bootFault, "/size") && (strings.HasPrefix(rule, "lin-") || strings.HasPrefix(rule, "reopen-")) {
		h.s.Violate("startup-size-key-delete-failed", "the delete of the persisted size key at start-up failed (its error is ignored): the key stays inside the store's own namespace, is served as if it were a stored multihash and outlives the session as a stale size: %s", msg)
		h.tainted = true
		return
	}
	if h.dupSeen != "" && (strings.HasPrefix(rule, "lin-") || rule == "reopen-size") {
		h.s.Violate("duplicate-key-counted-twice", "%s (the per-call de-duplication does not recognise equal keys: the key is reported/counted once per occurrence): %s", h.dupSeen, msg)
		h.tainted = true
		return
	}
	h.s.Violate(rule, "%s", msg)
}

func (h *c20H) violateWedge() {
	h.s.Violate("reset-cancel-wedges-worker", "the context of a reset was cancelled while the worker was still preparing the alternate slot (start of the reset not yet acknowledged): the reset returned, nobody receives the worker's reply, the worker stays blocked for ever - every later operation and Close hang")
	h.tainted = true
}

func (h *c20H) stopFeeder(r *c20Reset) {
	if !r.feeder {
		return
	}
	close(r.dead)
	for _, p := range h.s.ParkedKind("feed") {
		h.s.Release(p, "die")
	}
	r.feeder = false
	h.s.Quiesce()
}

// ---- epoch plan ---------------------------------------------------------------

func (h *c20H) planEpoch() {
	s := h.s
	p := c20Plan{crashInClose: -1}
	p.nOps = s.Range("ops", 2, 12)
	if h.epoch >= h.maxEpochs {
		p.end = c20EndFinal
	} else {
		p.end = []int{c20EndCrash, c20EndClean}[s.Draw("epoch-end", 2)]
	}
	p.endAfter = s.Range("end-after", 1, 160)
	nResets := 0
	if h.mode != c20Plain {
		nResets = []int{1, 0, 1, 2}[s.Draw("resets", 4)]
	}
	for i := 0; i < nResets; i++ {
		rp := c20ResetPlan{cancelAfter: -1, crashInReset: -1}
		rp.at = s.Range("reset-at", 0, p.nOps)
		n := s.Range("reset-keys", 0, 9)
		for k := 0; k < n; k++ {
			rp.keys = append(rp.keys, h.drawKey())
		}
		switch s.Draw("crash-in-reset", 6) {
		case 1:
			rp.crashInReset = s.Range("crash-in-reset-after", 0, 70)
		case 2, 3:
			rp.crashPhase = []string{"swap", "teardown", "catchup", "bulk"}[s.Draw("crash-phase", 4)]
			rp.crashDelay = s.Draw("crash-phase-delay", 3)
		}
		if s.Chance("reset-cancel", 1, 4) {
			rp.cancelAfter = s.Range("cancel-after", 0, 40)
			rp.allowWedge = h.mode == c20Shared && s.Chance("cancel-at-start", 1, 3) && !c20Off("wedge")
		}
		if !c20Off("overlap") {
			rp.overlapDen = []int{0, 3, 8, 0}[s.Draw("overlap-resets", 4)]
		}
		p.resets = append(p.resets, rp)
	}
	if len(p.resets) == 2 && p.resets[1].at < p.resets[0].at {
		p.resets[0].at, p.resets[1].at = p.resets[1].at, p.resets[0].at
	}
	if p.end != c20EndCrash {
		if s.Chance("crash-in-close", 1, 5) {
			p.crashInClose = s.Range("crash-in-close-after", 0, 3)
		}
		p.postClose = s.Draw("post-close-ops", 3)
	}
	h.plan = p
	h.opsLeft = p.nOps
	h.started = 0
	s.Tracef("epoch %d plan ops=%d end=%d after=%d resets=%+v", h.epoch, p.nOps, p.end, p.endAfter, p.resets)
}

func (h *c20H) drawKey() int {
	if h.s.Chance("cold-key", 1, 3) {
		return h.s.Draw("key", c20PoolSize)
	}
	return h.s.Draw("hot-key", 10)
}

func (h *c20H) drawPrefix() string {
	s := h.s
	switch s.Draw("prefix-kind", 5) {
	case 0:
		return ""
	case 1:
		// arbitrary short prefix
		n := s.Range("prefix-len", 1, 3)
		b := make([]byte, n)
		for i := range b {
			b[i] = byte('0' + s.Draw("bit", 2))
		}
		return string(b)
	}
	k := h.drawKey()
	n := s.Range("prefix-len", 1, 22)
	p := []byte(c20Pool[k].bits[:n])
	if s.Chance("flip-last", 1, 4) {
		p[n-1] = '0' + '1' - p[n-1]
	}
	return string(p)
}

func (h *c20H) tick() int64 { h.clock++; return h.clock }

// ---- client operations ----------------------------------------------------------

func (h *c20H) resetActive() bool {
	return h.reset != nil && h.reset.op.started && !h.reset.op.seen
}

func (h *c20H) newClientOp(c int) *c20Op {
	s := h.s
	o := &c20Op{n: h.nextOp, epoch: h.epoch, client: c, tag: fmt.Sprintf("e%do%03d", h.epoch, h.nextOp)}
	h.nextOp++
	menu := []string{"put", "put", "put", "put", "get", "get", "get", "count", "count", "contains", "contains", "size", "size", "delete", "delete", "empty"}
	o.kind = menu[s.Draw("op", len(menu))]
	if h.resetActive() && (o.kind == "delete" || o.kind == "empty") {
		o.kind = "put" // the property makes no claim about deletions during a reset
	}
	switch o.kind {
	case "put", "delete":
		n := s.Range("nkeys", 1, 3)
		for i := 0; i < n; i++ {
			k := h.drawKey()
			if !h.dups {
				// no key twice in one call, none twice during one reset
				avoid := c20MaskOf(o.keys)
				if o.kind == "put" && h.resetActive() {
					avoid |= h.reset.putKeys
				}
				for avoid&(1<<uint(k)) != 0 {
					k = (k + 1) % c20PoolSize
				}
			}
			o.keys = append(o.keys, k)
		}
		if h.dups && s.Chance("dup-key", 1, 3) {
			o.keys = append(o.keys, o.keys[0])
		}
		o.mask = c20MaskOf(o.keys)
		if h.dupSeen == "" && bits.OnesCount64(o.mask) != len(o.keys) {
			h.dupSeen = "a multihash listed twice in one " + o.kind + " call"
		}
		if o.kind == "put" && h.resetActive() {
			if h.dupSeen == "" && h.reset.putKeys&o.mask != 0 {
				h.dupSeen = "the same key put twice while a reset was running"
			}
			h.reset.putKeys |= o.mask
		}
	case "get", "contains":
		o.prefix = h.drawPrefix()
	case "count":
		o.prefix = h.drawPrefix()
		o.limit = []int{0, 1, 2, -1, 5}[s.Draw("limit", 5)]
	}
	if len(o.prefix) > h.prefixBits && o.prefix != "" {
		s.Count("probe_long_prefix_query")
	}
	switch o.kind {
	case "get", "count", "contains":
		o.abandon = s.Chance("abandon", 1, 4) && !c20Off("abandon")
	case "put", "delete":
		// less often: an abandoned write leaves its keys unknown to the model
		// until the next read
		o.abandon = s.Chance("abandon-write", 1, 8) && !c20Off("abandon")
	case "empty":
		// Abandoning Empty exposed a defect of the snapshot tree (the recount
		// after the failed Empty ran on the caller's cancelled context and the
		// size counter stayed stale: findings/C20-abandoned-empty-stale-size.json);
		// repaired in /repo, so it is part of the generated space
		// (VERIF_C20_OFF=abandon-empty switches it off).
		// Only in the fault-free scenarios: with injected datastore errors the
		// recount after the abandoned Empty can fail too, a combination the
		// model does not track.
		if !h.faults && !c20Off("abandon-empty") && !c20Off("abandon") {
			o.abandon = s.Chance("abandon-write", 1, 2)
		}
	}
	return o
}

func (h *c20H) decode(o *c20Op, list []mh.Multihash) {
	for _, m := range list {
		i, ok := c20ByMh[string(m)]
		if !ok {
			o.outBad = fmt.Sprintf("returned %d bytes that are not a stored multihash", len(m))
			return
		}
		if o.outMask&(1<<uint(i)) != 0 {
			o.outBad = fmt.Sprintf("returned key %d twice", i)
			return
		}
		o.outMask |= 1 << uint(i)
	}
}

// launch runs the operation on its own goroutine against the live instance.
func (h *c20H) launch(o *c20Op) {
	inst := h.inst
	o.started = true
	o.call = h.tick()
	h.ops = append(h.ops, o)
	ctx := sim.WithTag(context.Background(), o.tag)
	var rctx context.Context
	if o.kind == "reset" {
		r := h.reset
		rctx, r.cancel = context.WithCancel(ctx)
	}
	if o.kind == "overlap" {
		rctx, o.cancel = context.WithCancel(ctx)
	}
	if o.abandon {
		ctx, o.cancel = context.WithCancel(ctx)
	}
	go func() {
		defer func() {
			if r := recover(); r != nil {
				o.panicked = fmt.Sprint(r)
			}
			o.done = true
		}()
		ks := inst.ks
		switch o.kind {
		case "put":
			in := make([]mh.Multihash, len(o.keys))
			for i, k := range o.keys {
				in[i] = c20Pool[k].mh
			}
			out, err := ks.Put(ctx, in...)
			o.err = err
			if err == nil {
				h.decode(o, out)
			}
		case "delete":
			in := make([]mh.Multihash, len(o.keys))
			for i, k := range o.keys {
				in[i] = c20Pool[k].mh
			}
			o.err = ks.Delete(ctx, in...)
		case "empty":
			o.err = ks.Empty(ctx)
		case "get":
			out, err := ks.Get(ctx, bitstr.Key(o.prefix))
			o.err = err
			if err == nil {
				h.decode(o, out)
			}
		case "count":
			o.outN, o.err = ks.CountKeysUpTo(ctx, bitstr.Key(o.prefix), o.limit)
		case "contains":
			o.outBool, o.err = ks.ContainsPrefix(ctx, bitstr.Key(o.prefix))
		case "size":
			o.outN, o.err = ks.Size(ctx)
		case "reset":
			o.err = inst.rks.ResetCids(rctx, h.reset.ch)
		case "overlap":
			// a second reset that supplies no key at all: if it were taken up,
			// the store would end up with the concurrent puts only
			none := make(chan cid.Cid)
			close(none)
			o.err = inst.rks.ResetCids(rctx, none)
		case "close":
			o.err = ks.Close()
		}
	}()
}

func (h *c20H) startClientOp(c int) {
	o := h.newClientOp(c)
	if h.inflight > 0 {
		h.s.Count("probe_concurrent_ops")
	}
	if h.inst.closeOp != nil {
		h.s.Count("probe_op_after_close")
	}
	h.busy[c] = o
	h.inflight++
	h.opsLeft--
	h.started++
	h.s.Tracef("call %s", o)
	h.launch(o)
}

func (h *c20H) startReset() {
	s := h.s
	rp := h.plan.resets[h.resetIdx]
	h.resetIdx++
	r := &c20Reset{plan: rp, keys: rp.keys, ch: make(chan cid.Cid), dead: make(chan struct{}), startStep: h.stepsInEpoch, feeder: true}
	r.op = &c20Op{n: h.nextOp, epoch: h.epoch, client: h.nClients, kind: "reset", tag: fmt.Sprintf("e%dr%d", h.epoch, h.resetIdx), mask: c20MaskOf(rp.keys)}
	h.nextOp++
	h.reset = r
	s.Tracef("call %s", r.op)
	h.launch(r.op)
	go func() {
		for {
			out, _ := s.Park("feed", r.op.tag, nil, nil)
			switch v := out.(type) {
			case int:
				select {
				case r.ch <- c20Pool[v].cid:
				case <-r.dead:
					return
				}
			default:
				if v == "close" {
					close(r.ch)
				}
				return
			}
		}
	}()
}

// overlapReset issues one more ResetCids call while a reset is running and
// sees it through inside this scheduler step.
//
// Worker idle (waiting in its select; nothing else can be ready there, or it
// would not be idle at a quiescent point): it takes the start request at once
// and has to refuse it. Worker busy (preparing the slot, finishing the running
// reset, serving or buffering a client operation - in each case blocked on
// something only this scheduler releases): the call waits to hand its start
// request over; it is withdrawn by cancelling its context, which is then the
// only ready case of its select. Either way nothing of the call is left when
// the step ends, and which of the two happened follows from the state alone.
func (h *c20H) overlapReset() {
	s := h.s
	r := h.reset
	r.nOverlap++
	o := &c20Op{n: h.nextOp, epoch: h.epoch, client: h.nClients + 2, kind: "overlap", tag: fmt.Sprintf("e%dr%dx%d", h.epoch, h.resetIdx, r.nOverlap)}
	h.nextOp++
	phase := h.resetPhase()
	started := r.opStartDone
	s.Count("fault_overlap_reset")
	s.Count("probe_overlap_reset_in_" + phase)
	s.Tracef("call %s (running reset: phase %s, in flight %d)", o, phase, h.inflight)
	h.launch(o)
	s.Quiesce()
	withdrawn := false
	if !o.done {
		withdrawn = true
		o.cancel()
		s.Quiesce()
	}
	defer o.cancel()
	if !o.done {
		taken := false
		for _, p := range h.parkedOf(h.inst) {
			taken = taken || sim.TagOf(p.Ctx) == "@"+o.tag
		}
		if taken && started {
			s.Violate("overlap-reset-accepted", "a ResetCids call issued while another reset was running (phase %s) was taken up as a reset of its own (it is working on the datastore): two resets over the same two slots cannot both leave their complete new set", phase)
		} else {
			s.Violate("overlap-reset-hang", "a ResetCids call issued while another reset was running (phase %s) neither returned nor reacted to the cancellation of its context", phase)
		}
		h.tainted = true
		return
	}
	o.seen = true
	o.ret = h.tick()
	if o.panicked != "" {
		s.Violate("op-panic", "%s panicked on the caller's goroutine: %s", o, firstLine(o.panicked))
		return
	}
	switch {
	case withdrawn && o.err != nil:
		s.Count("probe_overlap_reset_withdrawn")
		s.Tracef("ret %s withdrawn", o.tag)
	case o.err == nil && started:
		s.Tracef("ret %s ok", o.tag)
		s.Violate("overlap-reset-accepted", "a ResetCids call issued while another reset was running (phase %s, start acknowledged, not yet returned) returned nil: it ran as a reset of its own; two resets over the same two slots cannot both leave their complete new set", phase)
		h.tainted = true
	case o.err == nil:
		// Not reachable with the scheduling above (the running reset's start is
		// handled first); nothing is claimed about it.
		s.Tracef("ret %s ok", o.tag)
		s.Count("overlap_reset_before_start_ack_ok")
		h.tainted = true
	default:
		r.nRefused++
		s.Count("probe_overlap_reset_refused")
		if !errors.Is(o.err, keystore.ErrResetInProgress) {
			s.Count("overlap_reset_refused_with_other_error")
		}
		if r.ackedPuts > 0 {
			s.Count("probe_overlap_reset_refused_after_acked_put")
		}
		s.Tracef("ret %s refused", o.tag)
	}
	s.State("overlap mode=%d phase=%s withdrawn=%v puts=%d", h.mode, phase, withdrawn, min(r.ackedPuts, 2))
}

func (h *c20H) resetParked() []*sim.Parked {
	var out []*sim.Parked
	if h.reset == nil {
		return nil
	}
	for _, p := range h.parkedOf(h.inst) {
		if sim.TagOf(p.Ctx) == "@"+h.reset.op.tag {
			out = append(out, p)
		}
	}
	return out
}

// observe collects completed operations at a quiescent point.
func (h *c20H) observe() {
	s := h.s
	finish := func(o *c20Op) {
		o.seen = true
		o.ret = h.tick()
		if o.kind == "reset" || o.kind == "close" {
			res := "ok"
			if o.err != nil {
				res = "fail" // which error a closed/cancelled reset reports is racy; never traced
			}
			s.Tracef("ret %s %s", o.tag, res)
		} else {
			s.Tracef("ret %s %s", o.tag, o.result())
		}
		if o.panicked != "" {
			s.Violate("op-panic", "%s panicked on the caller's goroutine: %s", o, firstLine(o.panicked))
		}
	}
	collect := func() {
		for c, o := range h.busy {
			if o == nil || !o.done {
				continue
			}
			finish(o)
			h.busy[c] = nil
			h.inflight--
			if o.abandoned {
				s.Count("probe_abandoned_op_returned")
			} else if h.nAbandoned > 0 && o.err == nil {
				s.Count("probe_op_ok_after_abandoned_op")
			}
			if o.err == nil {
				if o.kind == "put" || o.kind == "delete" || o.kind == "empty" {
					h.nAcked++
				}
				if o.kind == "put" {
					if o.outMask != o.mask {
						s.Count("probe_put_returned_subset")
					}
					if h.resetActive() && h.reset.opStartDone {
						s.Count("probe_put_during_reset")
						h.reset.ackedPuts++
					}
				}
			} else if !o.closedErr() {
				s.Count("probe_op_failed")
			}
		}
	}
	collect()
	if r := h.reset; r != nil && r.op.started && !r.op.seen {
		if r.op.done {
			finish(r.op)
			h.stopFeeder(r)
			if h.wedgeSched && !h.tainted {
				// cancelled before its start was acknowledged: the store must
				// still answer (liveness probe, fault-free, no decisions)
				if p := h.quietOp("size", ""); !p.seen {
					h.violateWedge()
				}
				h.wedgeSched = false
				// The probe is served by the worker only after every client
				// operation that was queued before it, and waiting for it
				// (settle) releases their datastore calls: such an operation
				// has RETURNED by now, and the probe's result reflects it
				// (Size counts the keys of a put that was in flight when the
				// reset returned). Record those returns now, at this quiescent
				// point. Left to the next observe() they were lost when the
				// epoch's planned crash was due at this very step: doCrash
				// then took the finished put for an operation cut off by the
				// crash and dropped it from the history, while the probe that
				// had counted its keys stayed in (false lin-size / lin-delete,
				// seed 7, about one run in 10^5).
				before := h.inflight
				collect()
				if h.inflight < before {
					s.Count("probe_op_returned_during_liveness_probe")
				}
			}
			if r.op.err == nil {
				h.nResetOK++
				s.Count("probe_reset_completed")
				if r.nRefused > 0 {
					s.Count("probe_overlap_reset_then_reset_completed")
				}
			} else {
				h.nResetFail++
				if r.cancelled {
					s.Count("probe_reset_cancelled")
				}
			}
		} else if !r.opStartDone && len(h.resetParked()) == 0 {
			r.opStartDone = true
		}
	}
	if c := h.inst.closeOp; c != nil && c.done && !c.seen {
		finish(c)
		if h.nAbandoned > 0 && c.err == nil {
			s.Count("probe_close_ok_after_abandoned_op")
		}
	}
}

// workerIdle: no client operation is in flight and the worker is not busy
// with the aftermath of one either (after a failed operation it recounts the
// store on the operation's context, after the caller already has the error).
func (h *c20H) workerIdle() bool {
	return h.inflight == 0 && len(h.parkedOf(h.inst)) == len(h.resetParked())
}

// backpressure: a put is in flight during the reset, yet nothing at all is
// parked - the worker waits in the reset buffer for a drain.
func (h *c20H) backpressure() bool {
	return h.resetActive() && h.reset.opStartDone && h.inflight == 1 && len(h.parkedOf(h.inst)) == 0
}

// ---- the scheduler loop of one epoch ------------------------------------------------

func (h *c20H) workDone() bool {
	if h.opsLeft > 0 || h.inflight > 0 {
		return false
	}
	if h.resetIdx < len(h.plan.resets) || h.resetActive() {
		return false
	}
	return true
}

func (h *c20H) runEpoch() int {
	s := h.s
	idle, onlyTick := 0, 0
	postClose := h.plan.postClose
	for s.Step() {
		h.observe()
		if s.Failed() || h.tainted {
			return h.plan.end
		}
		h.stepsInEpoch++
		inst := h.inst
		closing := inst.closeOp != nil
		due := h.stepsInEpoch > h.plan.endAfter || h.workDone()

		// forced events
		if h.plan.end == c20EndCrash && due {
			return c20EndCrash
		}
		if r := h.reset; h.resetActive() && r.plan.crashInReset >= 0 && h.stepsInEpoch-r.startStep >= r.plan.crashInReset {
			return c20EndCrash
		}
		if r := h.reset; h.resetActive() && r.plan.crashPhase != "" && h.resetPhase() == r.plan.crashPhase {
			if r.plan.crashDelay <= 0 {
				return c20EndCrash
			}
			r.plan.crashDelay--
		}
		if closing && !inst.closeOp.seen && h.plan.crashInClose >= 0 && h.stepsInEpoch-inst.closeStep >= h.plan.crashInClose {
			return c20EndCrash
		}
		if r := h.reset; h.resetActive() && !r.cancelled && !closing && r.plan.cancelAfter >= 0 &&
			h.stepsInEpoch-r.startStep >= r.plan.cancelAfter && (r.opStartDone || r.plan.allowWedge) &&
			// not while the reset waits to hand its (successful) cleanup to a busy
			// worker: the cleanup's withAltDs would find token and cancellation
			// both ready
			(len(h.resetParked()) > 0 || !r.chClosed) {
			// After the cancellation every datastore call of the reset observes
			// it (see releaseDS): a call that succeeded under a cancelled context
			// would run into withAltDs' select with two ready cases.
			if !r.opStartDone {
				h.wedgeSched = true
			}
			r.cancelled = true
			r.op.uncertain = true
			s.Count("fault_reset_cancel")
			s.Tracef("cancel reset (start acknowledged: %v)", r.opStartDone)
			r.cancel()
			s.Quiesce()
			continue
		}
		if !closing && h.plan.end != c20EndCrash && due {
			// Close while a reset runs only with no client operation in flight:
			// otherwise the worker would come back to a select in which both the
			// close signal and the reset's cleanup request are ready.
			if !h.resetActive() || h.workerIdle() {
				if h.resetActive() {
					h.reset.op.uncertain = true
					s.Count("fault_close_during_reset")
				}
				inst.closeOp = &c20Op{n: h.nextOp, epoch: h.epoch, client: h.nClients + 1, kind: "close", tag: fmt.Sprintf("e%dclose", h.epoch)}
				h.nextOp++
				inst.closeStep = h.stepsInEpoch
				s.Tracef("call %s", inst.closeOp)
				h.launch(inst.closeOp)
				s.Quiesce()
				continue
			}
		}
		if closing && inst.closeOp.seen && h.inflight == 0 && (h.reset == nil || !h.resetActive()) {
			if postClose > 0 {
				postClose--
				h.opsLeft++
				h.startClientOp(0)
				s.Quiesce()
				continue
			}
			return h.plan.end
		}

		acts := h.actions(closing)
		// An overlapping ResetCids call moves nothing forward: it does not count
		// as progress for the wedge rule below.
		core, hasTick := 0, false
		for _, a := range acts {
			if a.ID != "overlap-reset" {
				core++
			}
			hasTick = hasTick || a.ID == "tick"
		}
		if core == 1 && hasTick {
			onlyTick++
		} else {
			onlyTick = 0
		}
		if core == 0 || onlyTick > 60 {
			idle++
			if idle > 30 {
				if h.wedgeSched {
					h.violateWedge()
				} else {
					s.Violate("keystore-wedged", "operations do not finish although nothing is parked and 3 s of virtual time passed (epoch %d, in flight %d)", h.epoch, h.inflight)
					h.tainted = true
				}
				return h.plan.end
			}
			s.Count("time_advance")
			s.Sleep(100 * time.Millisecond)
			continue
		}
		if onlyTick == 0 {
			idle = 0
		}
		s.Choose("next", acts)
	}
	if s.Steps > s.MaxSteps {
		s.Count("step_budget_exhausted")
		h.stop = true
		h.tainted = true // nothing more is judged
		h.noCensus = true
	}
	return h.plan.end
}

func (h *c20H) actions(closing bool) []sim.Action {
	s := h.s
	var acts []sim.Action
	for _, p := range h.parkedOf(h.inst) {
		p := p
		acts = append(acts, sim.Action{ID: p.ID, Do: func() { h.releaseDS(p) }})
	}
	// The caller gives up while the worker is inside one of the operation's
	// datastore calls (see the header: "Abandoned operations").
	for c, o := range h.busy {
		if o == nil || !o.abandon || o.abandoned || o.done {
			continue
		}
		for _, p := range h.parkedOf(h.inst) {
			if sim.TagOf(p.Ctx) == "@"+o.tag && !p.Cancelled() {
				o := o
				acts = append(acts, sim.Action{ID: fmt.Sprintf("abandon:c%d", c), Do: func() { h.abandon(o, closing) }})
				break
			}
		}
	}
	active := h.resetActive()
	// Client starts. While a reset runs at most one client operation is in
	// flight, so that the worker's select never sees a blocked request sender
	// and a blocked reset-operation sender at once.
	if h.opsLeft > 0 && (!active || h.workerIdle()) {
		for c, o := range h.busy {
			if o == nil {
				c := c
				acts = append(acts, sim.Action{ID: fmt.Sprintf("start:c%d", c), Do: func() { h.startClientOp(c) }})
				break
			}
		}
	}
	if h.resetIdx < len(h.plan.resets) && !active && !closing && h.started >= min(h.plan.resets[h.resetIdx].at, h.plan.nOps) && h.inflight == 0 && len(h.parkedOf(h.inst)) == 0 {
		acts = append(acts, sim.Action{ID: "start:reset", Do: h.startReset})
	}
	if active && !closing {
		r := h.reset
		// Another ResetCids call while this one runs: in every phase, whatever
		// else is going on (see overlapReset for why that is race-free).
		if r.plan.overlapDen > 0 && s.Chance("overlap-reset", 1, r.plan.overlapDen) {
			acts = append(acts, sim.Action{ID: "overlap-reset", Do: h.overlapReset})
		}
		idleReset := r.opStartDone && !r.cancelled && len(h.resetParked()) == 0
		// feed only while the reset waits in its bulk-phase select: the key is
		// taken at once, the select never has the channel and the ticker ready
		// together
		if idleReset && !r.chClosed && len(s.ParkedKind("feed")) == 1 {
			acts = append(acts, sim.Action{ID: "feed", Do: func() {
				p := s.ParkedKind("feed")[0]
				if r.fed < len(r.keys) {
					s.Release(p, r.keys[r.fed])
					r.fed++
				} else {
					r.chClosed = true
					r.op.fedAll = true
					r.feeder = false
					s.Release(p, "close")
				}
			}})
		}
		if idleReset && !r.chClosed {
			bp := h.backpressure()
			if bp {
				s.Count("probe_reset_backpressure")
			}
			if bp || s.Chance("tick", 1, 8) {
				acts = append(acts, sim.Action{ID: "tick", Do: func() {
					s.Count("time_advance")
					before := len(h.parkedOf(h.inst))
					s.Sleep([]time.Duration{100 * time.Millisecond, 30 * time.Millisecond, 250 * time.Millisecond}[s.Draw("dt", 3)])
					if before == 0 && len(h.resetParked()) > 0 {
						s.Count("probe_reset_tick_drain")
					}
				}})
			}
		}
	}
	return acts
}

// abandon ends the context of a client operation one of whose datastore calls is parked:
// the worker is in the middle of the operation, the caller's wait has the
// ended context as its only ready case. Nothing is demanded of the abandoned
// call; what follows it is judged by the ordinary rules.
func (h *c20H) abandon(o *c20Op, closing bool) {
	s := h.s
	o.abandoned = true
	h.nAbandoned++
	s.Count("fault_op_abandoned")
	if o.kind == "put" || o.kind == "delete" || o.kind == "empty" {
		s.Count("probe_write_abandoned")
	}
	if closing {
		s.Count("probe_abandon_while_closing")
	}
	s.Tracef("caller of %s gives up (context cancelled while the worker executes the operation)", o.tag)
	o.cancel()
	s.Quiesce()
	s.State("abandon mode=%d kind=%s reset=%s closing=%v inflight=%d", h.mode, o.kind, h.resetPhase(), closing, min(h.inflight, 2))
}

func (h *c20H) releaseDS(p *sim.Parked) {
	s := h.s
	op := p.Data.(*simds.Op)
	markerOff := strings.HasSuffix(op.Key, "/active") && c20Off("marker")
	if p.Cancelled() && !markerOff {
		s.Tracef("  observes its cancelled context")
		s.ReleaseCancelled(p)
		return
	}
	tag := sim.TagOf(p.Ctx)
	if h.faults && !markerOff {
		limit := 1
		if h.reset != nil && tag == "@"+h.reset.op.tag {
			limit = 2
		}
		if h.faultTags[fmt.Sprintf("%d%s", h.epoch, tag)] < limit && s.Chance("ds-fault", 1, 12) {
			h.faultTags[fmt.Sprintf("%d%s", h.epoch, tag)]++
			if h.reset != nil && tag == "@"+h.reset.op.tag {
				h.reset.op.uncertain = true
			}
			if op.Op == "commit" && op.NOps > 0 && s.Chance("partial", 1, 2) {
				n := s.Draw("partial-n", op.NOps)
				s.Tracef("  injected: commit applies %d of %d writes, then fails", n, op.NOps)
				s.Release(p, simds.Partial{N: n, Err: simds.ErrInjected})
			} else {
				s.Tracef("  injected: I/O error")
				s.Release(p, simds.ErrInjected)
			}
			return
		}
	}
	if op.Op == "put" && strings.HasSuffix(op.Key, "/active") {
		s.Count("probe_marker_flip")
	}
	s.Release(p, nil)
}

// ---- end of an epoch: crash or clean restart ------------------------------------------

func (h *c20H) resetPhase() string {
	r := h.reset
	if !h.resetActive() {
		return ""
	}
	if !r.opStartDone {
		return "prepare"
	}
	tag := "@" + r.op.tag
	for _, p := range h.resetParked() {
		if op := p.Data.(*simds.Op); op.Op == "put" && strings.HasSuffix(op.Key, "/active") {
			return "swap"
		}
	}
	markerPut, markerSync, syncs := false, false, 0
	for _, d := range h.inst.all {
		for _, rec := range d.Log() {
			if rec.Tag != tag {
				continue
			}
			if strings.HasSuffix(rec.Key, "/active") {
				markerPut = markerPut || rec.Op == "put"
				markerSync = markerSync || rec.Op == "sync"
			} else if rec.Op == "sync" && rec.Err == nil {
				syncs++
			}
		}
	}
	switch {
	case markerSync:
		return "teardown"
	case markerPut:
		return "swap"
	}
	need := 1
	if h.mode == c20Shared {
		need = 2 // the first one belongs to emptying the alternate slot
	}
	if r.chClosed && syncs >= need {
		return "catchup"
	}
	return "bulk"
}

func (h *c20H) drawCut(d *simds.DS, role string) int {
	s := h.s
	j := d.Journal()
	first := len(j)
	for i, e := range j {
		if !e.Synced {
			first = i
			break
		}
	}
	if first == len(j) {
		return len(j)
	}
	v := s.Draw("cut:"+role, len(j)-first+1) // 0: nothing is lost
	cut := len(j) - v
	if v > 0 {
		s.Count("fault_unsynced_writes_lost")
	}
	if cut > 0 && cut < len(j) && j[cut-1].Batch != 0 && j[cut-1].Batch == j[cut].Batch {
		s.Count("probe_crash_cut_inside_batch")
	}
	s.Tracef("cut %s %d/%d", role, cut, len(j))
	return cut
}

// forkAll builds the datastores a restarted process finds.
func (h *c20H) forkAll(crash bool) (*simds.DS, map[string]*simds.DS) {
	inst := h.inst
	name := func(role string) string { return fmt.Sprintf("%s.e%d", role, h.epoch+1) }
	cut := -1
	if crash {
		cut = h.drawCut(inst.meta, "meta")
	}
	meta := inst.meta.Fork(cut, name("meta"))
	// Did this restart lose a write of the active-slot marker? (Journal facts
	// only: the marker entries the old process wrote vs. those the fork kept.)
	nMarker := func(d *simds.DS) int {
		n := 0
		for _, e := range d.Journal() {
			if strings.HasSuffix(e.Key, "/active") {
				n++
			}
		}
		return n
	}
	h.markerLost = nMarker(meta) < nMarker(inst.meta)
	if h.markerLost {
		h.s.Count("probe_crash_lost_marker_write")
	}
	slots := map[string]*simds.DS{}
	inst.mu.Lock()
	var suffixes []string
	for k := range inst.slots {
		suffixes = append(suffixes, k)
	}
	inst.mu.Unlock()
	sort.Strings(suffixes)
	for _, k := range suffixes {
		d := inst.slots[k]
		cut := -1
		if crash {
			cut = h.drawCut(d, "slot"+k)
		}
		slots[k] = d.Fork(cut, name("slot"+k))
	}
	if crash {
		stale := false
		for _, d := range append([]*simds.DS{meta}, slots["0"], slots["1"]) {
			if d == nil {
				continue
			}
			for k := range d.Snapshot() {
				if strings.HasSuffix(k, "/size") {
					stale = true
				}
			}
		}
		if stale {
			h.s.Count("probe_reopen_stale_size_key")
		}
	}
	return meta, slots
}

// expectation derives what the reopened store may hold from the epoch's
// operations and the datastore logs (execution order and Sync outcomes).
func (h *c20H) expectation(clean bool) c20Expect {
	inst := h.inst
	type info struct {
		pos      int64
		has      bool
		syncSeen bool
		syncFail bool
	}
	byTag := map[string]*info{}
	markerPutFail, markerSyncFail := false, false
	for di, d := range inst.all {
		for _, r := range d.Log() {
			if r.Err != nil && strings.HasSuffix(r.Key, "/active") && r.Tag != "" {
				markerPutFail = markerPutFail || r.Op == "put"
				markerSyncFail = markerSyncFail || r.Op == "sync"
			}
			if r.Tag == "" {
				continue
			}
			in := byTag[r.Tag]
			if in == nil {
				in = &info{}
				byTag[r.Tag] = in
			}
			pos := int64(r.Step)<<28 | int64(di)<<22 | int64(r.N)
			if !in.has || pos < in.pos {
				in.pos, in.has = pos, true
			}
			if r.Op == "sync" {
				in.syncSeen = true
				if r.Err != nil {
					in.syncFail = true
				}
			}
		}
	}
	var muts []c20Mut
	for _, o := range h.ops {
		if o.epoch != h.epoch || !o.started {
			continue
		}
		if o.kind != "put" && o.kind != "delete" && o.kind != "empty" {
			continue
		}
		in := byTag["@"+o.tag]
		if in == nil {
			in = &info{}
		}
		acked := o.seen && !o.crashed && o.err == nil
		// durably acknowledged: returned nil and none of its Sync calls was
		// failed by injection (the store syncs before it acknowledges)
		durable := acked && !in.syncFail
		if acked && !durable {
			h.s.Count("probe_sync_failed_op_acknowledged")
		}
		m := c20Mut{op: o, executed: in.has, pos: in.pos, mandatory: durable}
		if clean {
			m.mandatory = acked
		}
		if !in.has {
			m.pos = int64(1)<<62 + o.call
		}
		muts = append(muts, m)
	}
	var resets []*c20Op
	for _, o := range h.ops {
		if o.epoch == h.epoch && o.kind == "reset" && o.started {
			resets = append(resets, o)
		}
	}
	ex := c20ComputeExpect(h.base, muts, resets)
	ex.markerPutFail, ex.markerSyncFail = markerPutFail, markerSyncFail
	return ex
}

// checkHistory runs the linearizability check on the finished epoch.
func (h *c20H) checkHistory() {
	s := h.s
	if h.tainted {
		return
	}
	var hist []*c20Op
	for _, o := range h.ops {
		if o.epoch != h.epoch || !o.seen || o.crashed || o.kind == "close" || o.kind == "overlap" {
			continue // a refused or withdrawn ResetCids call is no operation of the model: it changes nothing
		}
		if o.kind == "reset" {
			b := *o
			b.begin = true
			hist = append(hist, &b)
		}
		hist = append(hist, o)
	}
	if len(hist) == 0 {
		return
	}
	res, culprit := c20Lin(h.base, hist)
	s.Count("lin_histories")
	s.CountN("lin_operations", len(hist))
	switch res {
	case porcupine.Ok:
		s.Count("lin_ok")
	case porcupine.Unknown:
		s.Count("lin_unknown") // inconclusive: counted, never reported
	case porcupine.Illegal:
		s.Count("lin_illegal")
		rule, what := "lin-illegal", "no single operation explains it"
		if culprit != nil {
			rule = "lin-" + culprit.kind
			what = fmt.Sprintf("without this operation the rest is consistent: %s -> %s", culprit, culprit.result())
			if culprit.outBad != "" {
				what += " (" + culprit.outBad + ")"
			}
		}
		var lines []string
		for _, o := range hist {
			if o.begin {
				continue
			}
			lines = append(lines, fmt.Sprintf("[%d,%d] %s -> %s", o.call, o.ret, o, o.result()))
		}
		h.violate(rule, "epoch %d: the results of the keystore operations are not those of any sequential set (initial content %s); %s; history: %s",
			h.epoch, c20Fmt(h.base), what, strings.Join(lines, "; "))
	}
	s.Tracef("lin epoch %d ops=%d %v", h.epoch, len(hist), res)
}

func (h *c20H) doCrash() {
	s := h.s
	inst := h.inst
	s.Count("fault_crash")
	h.nCrash++
	phase := h.resetPhase()
	if phase != "" {
		s.Count("probe_crash_in_reset_" + phase)
	}
	if inst.closeOp != nil && !inst.closeOp.seen {
		s.Count("probe_crash_during_close")
	}
	if h.inflight > 0 {
		s.Count("probe_crash_mid_operation")
	}
	s.Tracef("crash epoch %d phase=%q inflight=%d", h.epoch, phase, h.inflight)
	s.State("crash mode=%d phase=%s inflight=%d closing=%v", h.mode, phase, min(h.inflight, 2), inst.closeOp != nil)
	meta, slots := h.forkAll(true)
	for _, o := range h.busy {
		if o != nil {
			o.crashed = true
		}
	}
	if h.resetActive() {
		h.reset.op.crashed = true
	}
	if inst.closeOp != nil && !inst.closeOp.seen {
		inst.closeOp.crashed = true
	}
	ex := h.expectation(false)
	h.checkHistory()
	if !h.kill(inst) || s.Failed() {
		return
	}
	if !h.open(meta, slots) {
		h.tainted = true
		return
	}
	h.verify(ex, "crash")
}

func (h *c20H) doCleanReopen() {
	s := h.s
	inst := h.inst
	s.Count("fault_clean_restart")
	h.nClean++
	s.Tracef("clean restart epoch %d", h.epoch)
	s.State("clean mode=%d reset=%v", h.mode, h.reset != nil)
	meta, slots := h.forkAll(false)
	ex := h.expectation(true)
	h.checkHistory()
	if !h.kill(inst) || s.Failed() {
		return
	}
	if !h.open(meta, slots) {
		h.tainted = true
		return
	}
	h.verify(ex, "clean restart")
}

// quietOp runs a harness read on the live instance, fault-free.
func (h *c20H) quietOp(kind, prefix string) *c20Op {
	o := &c20Op{n: h.nextOp, epoch: h.epoch, client: 0, kind: kind, prefix: prefix, tag: fmt.Sprintf("e%dv%03d", h.epoch, h.nextOp)}
	h.nextOp++
	h.launch(o)
	if !h.settle(h.inst, func() bool { return o.done }) {
		return o
	}
	o.seen = true
	o.ret = h.tick()
	return o
}

func (h *c20H) verify(ex c20Expect, how string) {
	s := h.s
	if h.tainted {
		return
	}
	get := h.quietOp("get", "")
	size := h.quietOp("size", "")
	if !get.seen || !size.seen {
		s.Violate("reopen-read-hang", "reading the reopened keystore did not return (%s, epoch %d)", how, h.epoch)
		h.tainted = true
		return
	}
	if get.panicked != "" || size.panicked != "" {
		s.Violate("op-panic", "reading the reopened keystore panicked: %s%s", firstLine(get.panicked), firstLine(size.panicked))
		h.tainted = true
		return
	}
	if get.err != nil || size.err != nil {
		s.Violate("reopen-read-failed", "reading the reopened keystore failed without a fault (%s): get: %v size: %v", how, get.err, size.err)
		h.tainted = true
		return
	}
	// Attribution when the active-slot marker could not be written or synced
	// during a reset of the epoch. The recorded open finding is exactly: marker
	// Put succeeded, its Sync failed, and then a CRASH LOST the unsynced marker
	// write (the restart follows the old marker to the torn-down slot). Only
	// that case is filed under its rule and message. Every other mismatch - a
	// clean restart, or a crash at which no marker write was lost, so that
	// nothing unsynced explains the content - is judged by the ordinary clauses
	// (reset-atomicity / reopen-size / reopen-content): "after completion,
	// cancellation, Close or a crash at any write, a reopened keystore holds
	// either the complete previous set or the complete new set ..., and its
	// reported size matches", for "every datastore error injection point". The
	// failed marker operation is then only mentioned as a note.
	marker, note := "", ""
	switch {
	case ex.markerSyncFail && how == "crash" && h.markerLost:
		marker = "marker sync failed at the end of a reset (the error is only logged; the in-memory swap stands and the old slot is torn down) and the crash lost the unsynced marker write, so the restart follows the old marker on disk: "
		s.Count("probe_marker_sync_failed_then_marker_lost")
	case ex.markerPutFail && !ex.markerSyncFail:
		marker = "marker write failed at the end of a reset (a restart follows the marker on disk): "
	case ex.markerSyncFail:
		note = fmt.Sprintf(" [a Sync of the active-slot marker did not succeed during a reset of this epoch (injected error or cancelled context); no write of the marker was lost at this %s, so what the restart finds is what the keystore left on disk]", how)
	}
	if ex.markerSyncFail {
		if how != "crash" {
			s.Count("probe_clean_reopen_after_failed_marker_sync")
		} else if !h.markerLost {
			s.Count("probe_crash_reopen_marker_kept_after_failed_marker_sync")
		}
	}
	if get.outBad != "" {
		h.violate("reopen-foreign", "after a %s Get(\"\") %s", how, get.outBad)
		h.tainted = true
		return
	}
	content := get.outMask
	s.Tracef("reopened %s content=%s size=%d", how, c20Fmt(content), size.outN)
	fit := -1
	var diag []string
	for i := range ex.worlds {
		w := &ex.worlds[i]
		if !w.ok {
			continue
		}
		missing, extra := c20Fits(content, &w.allowed)
		if missing|extra == 0 {
			if fit < 0 {
				fit = i
			}
			continue
		}
		diag = append(diag, fmt.Sprintf("if %s: keys %s are missing, keys %s must not be there", w.name, c20Fmt(missing), c20Fmt(extra)))
	}
	switch {
	case fit >= 0:
		if ex.hasReset && fit > 0 {
			s.Count("probe_reopen_new_content")
		}
		if ex.hasReset && fit == 0 {
			s.Count("probe_reopen_old_content_after_reset_attempt")
		}
	case marker != "":
		s.Violate("reset-marker-not-persisted", "%safter a %s the keystore holds %s; %s", marker, how, c20Fmt(content), strings.Join(diag, "; "))
		h.tainted = true
		return
	case !ex.hasReset:
		h.violate("reopen-content", "after a %s the keystore holds %s (the epoch started with %s), which the operations of the epoch do not explain (an unacknowledged or unsynced put/delete may be lost, nothing else): %s",
			how, c20Fmt(content), c20Fmt(h.base), strings.Join(diag, "; "))
		h.tainted = true
		return
	default:
		s.Violate("reset-atomicity", "after a %s the keystore holds %s (the epoch started with %s), which is neither the complete old set nor a complete new set (each with the concurrent puts): %s%s",
			how, c20Fmt(content), c20Fmt(h.base), strings.Join(diag, "; "), note)
		h.tainted = true
		return
	}
	if size.outN != bits.OnesCount64(content) {
		if marker != "" {
			s.Violate("reset-marker-not-persisted", "%safter a %s Size() reports %d but the keystore holds %d keys", marker, how, size.outN, bits.OnesCount64(content))
		} else {
			h.violate("reopen-size", "after a %s Size() reports %d but the keystore holds %d keys %s%s", how, size.outN, bits.OnesCount64(content), c20Fmt(content), note)
		}
		h.tainted = true
		return
	}
	h.base = content
}

func (h *c20H) shutdown() {
	s := h.s
	if h.inst != nil && !h.inst.dead {
		if !h.tainted {
			h.checkHistory()
		}
		h.kill(h.inst)
	}
	for _, p := range s.ParkedKind("feed") {
		s.Release(p, "die")
	}
	s.Quiesce()
	s.Tracef("done epochs=%d crashes=%d clean=%d resets ok=%d fail=%d acked=%d", h.epoch, h.nCrash, h.nClean, h.nResetOK, h.nResetFail, h.nAcked)
	s.State("end mode=%d crashes=%d clean=%d rok=%d rfail=%d", h.mode, h.nCrash, h.nClean, h.nResetOK, min(h.nResetFail, 1))
	s.NonTrivial = h.nAcked > 0 && (h.nCrash+h.nClean > 0 || h.nResetOK+h.nResetFail > 0)
	if !s.Failed() && len(s.KnownHits()) == 0 && !h.noCensus {
		c20Census(s)
	}
	s.Finish()
}

// c20Census reports goroutines of the keystore that survive Close. Unlike the
// shared census it only looks at goroutines of THIS run's bubble: a run that
// recorded the known "worker blocked for ever" finding leaves that goroutine
// behind in its (dead) bubble, and the worker process goes on to other runs.
func c20Census(s *sim.Sim) {
	bubbleOf := func(stack string) string {
		hdr, _, _ := strings.Cut(stack, "\n")
		i := strings.Index(hdr, "synctest bubble ")
		if i < 0 {
			return ""
		}
		id := hdr[i+len("synctest bubble "):]
		if j := strings.IndexAny(id, "],"); j >= 0 {
			id = id[:j]
		}
		return id
	}
	var left []string
	for try := 0; try < 5; try++ {
		s.Quiesce()
		buf := make([]byte, 1<<20)
		for {
			n := runtime.Stack(buf, true)
			if n < len(buf) {
				buf = buf[:n]
				break
			}
			buf = make([]byte, 2*len(buf))
		}
		gs := strings.Split(string(buf), "\n\n")
		mine := bubbleOf(gs[0])
		left = left[:0]
		for _, g := range gs[1:] {
			if mine == "" || bubbleOf(g) != mine {
				continue
			}
			creator := sim.CreatorOf(g)
			harness := false
			for _, pre := range harnessPrefixes {
				harness = harness || strings.HasPrefix(creator, pre)
			}
			if !harness {
				left = append(left, creator)
			}
		}
		if len(left) == 0 {
			return
		}
		s.Sleep(time.Minute)
	}
	sort.Strings(left)
	s.Violate("leak", "%d goroutine(s) of the keystore survive Close: %s", len(left), strings.Join(left, ", "))
}
