//go:build all || c04

package scen

// C04 on the dual client (dual.DHT = WAN + LAN IpfsDHT behind the routing
// helpers' Parallel router). Two disjoint responder populations: WAN peers with
// public addresses, LAN peers with private ones; the two message senders are
// told apart by the protocol list they are built with (the LAN one carries the
// "/lan" extension). Validity, provenance, stream improvement and not-found
// are judged here, and - of best-known - only the half that is observable
// without knowing what the two nested searches had "processed" when the merge
// ended (see the comments in c04World.check):
//
//	best-known-dual-local  "the final value is ranked at least as good as every
//	    valid value supplied by local storage", on an uncancelled
//	    dual.SearchValue (mechanism "dual merges WAN and LAN under the same
//	    validator"). "Local storage" of the dual client is whatever the node
//	    stored through the dual client's own PutValue; the scenario gives each
//	    side a datastore of its own (the constructor's default), so the record
//	    lives in the datastore of the side dual.PutValue routed it to - here the
//	    LAN side's, because the node publishes before it has met anybody - while
//	    the drawn responder split leaves either side's routing table empty or
//	    populated (wan-n = 0 ... N, no-starting-points). The rule reads none of
//	    that: it compares the final value with the stored record under the
//	    validator's Select. It exposes every regression in which a record held
//	    by one half of the dual client does not reach the merged result: a side
//	    skipped or short-cut for lack of peers, a merge that drops or mis-ranks
//	    one side's stream, a side whose local read is lost behind the other
//	    side's answers. Not demanded of dual.GetValue: property C15 fixes its
//	    result to the WAN side's whenever that side succeeds.

import (
	"fmt"
	"strings"

	dht "github.com/libp2p/go-libp2p-kad-dht"
	"github.com/libp2p/go-libp2p-kad-dht/dual"
	pb "github.com/libp2p/go-libp2p-kad-dht/pb"
	recpb "github.com/libp2p/go-libp2p-record/pb"
	"github.com/libp2p/go-libp2p/core/host"
	"github.com/libp2p/go-libp2p/core/peerstore"
	"github.com/libp2p/go-libp2p/core/protocol"
	ma "github.com/multiformats/go-multiaddr"

	"verif/sim"
	"verif/simds"
	"verif/simhost"
	"verif/simnet"
)

func init() {
	sim.Register(&sim.Scenario{Prop: "C04", Name: "value-dual", Weight: 2, Run: func(s *sim.Sim) { c04RunValue(s, "dual", false) },
		Real: []string{"dual.DHT.GetValue/SearchValue (dual/dual.go)", "routing-helpers Parallel.SearchValue merge", "two IpfsDHT instances (WAN/LAN) with dual's query, table and address filters", "ProtocolMessenger.GetValue"},
		Stub: []string{"host.Host/network (simhost, shared by both instances)", "two pb.MessageSenders (level A; told apart by protocol list)", "remote peers (scripted responders, WAN: public addresses, LAN: private addresses)", "record validator (harness rank validator, time-aware)"},
		Faults: []string{"fault_rec_invalid", "fault_rec_miskeyed", "fault_rec_empty", "fault_rpc_error", "fault_dial_fail", "fault_cancel", "time_advance",
			"probe_found", "probe_notfound", "probe_stream_multi", "probe_dual_both_sides_answered", "probe_local_valid", "probe_local_expired", "probe_local_expired_midsearch", "probe_peer_serves_local_bytes_valid", "probe_peer_serves_local_bytes_expired_at_start", "probe_peer_serves_local_bytes_expired_midsearch",
			"probe_opt_offline", "probe_opt_expired", "probe_opt_offline_local_not_valid", "probe_local_never_valid", "probe_local_outlived_max_age", "probe_stamp_valid_value_held_past_requesters_max_age", "probe_stamp_valid_value_from_the_future", "probe_stamp_valid_value_unparsable",
			"probe_key_outside_namespaces", "probe_key_outside_record_acceptable_to_unregistered_validator", "probe_key_outside_local_record", "probe_no_starting_points", "probe_no_starting_points_local_valid",
			"probe_ns_configured_in_place_of_shipped_pk", "probe_ns_configured_in_place_of_shipped_ipns", "probe_ns_configured_in_place_of_shipped_local_record", "probe_ns_record_acceptable_to_shipped_validator_only", "probe_ns_local_record_acceptable_to_shipped_validator_only",
			"probe_dual_local_bestknown_checked", "probe_dual_local_valid_lan_table_empty", "probe_dual_local_valid_lan_table_empty_wan_peers_present"},
	})
}

func c04IsLan(protos []protocol.ID) bool {
	for _, p := range protos {
		if strings.Contains(string(p), string(dual.LanExtension)+"/") {
			return true
		}
	}
	return false
}

func c04BuildDual(w *c04World) error {
	s := w.s
	w.host = simhost.New(s, w.u.Self.ID, w.u.Self.Addrs, w.u.Name)
	dsWan, dsLan := simds.New(s, "ds-wan"), simds.New(s, "ds-lan")
	common := append(c04Opts(w.clientValidator(), w.cfg),
		dht.Mode(dht.ModeClient),
		dht.BucketSize(w.cfg.K),
		dht.Concurrency(w.cfg.Alpha),
		dht.Resiliency(w.cfg.Beta),
		dht.DisableAutoRefresh(),
		dht.WithCustomMessageSender(func(_ host.Host, protos []protocol.ID) pb.MessageSenderWithDisconnect {
			label := "wan:"
			if c04IsLan(protos) {
				label = "lan:"
			}
			return &simnet.Sender{S: s, U: w.u, Label: label}
		}),
	)
	d, err := dual.New(w.host,
		dual.DHTOption(common...),
		// (a prefix given through DHTOption would be applied after, and so undo,
		// the constructor's own "/lan" extension of the LAN instance)
		dual.WanDHTOption(dht.ProtocolPrefix("/sim"), dht.Datastore(dsWan)),
		dual.LanDHTOption(dht.ProtocolPrefix("/sim"), dht.ProtocolExtension(dual.LanExtension), dht.Datastore(dsLan)),
	)
	if err != nil {
		_ = w.host.Close()
		return err
	}
	s.Quiesce()
	w.sut = &c04Sut{
		client: d,
		pk:     d,
		stored: func(val []byte) bool { return c04StoredIn(dsWan, val) || c04StoredIn(dsLan, val) },
		plant: func(key string, old []byte, m func(*recpb.Record)) bool {
			a, b := c04PlantIn(dsWan, key, old, m), c04PlantIn(dsLan, key, old, m)
			return a || b
		},
		dss:     c04DSS(dsWan, dsLan),
		lanSize: func() int { return d.LAN.RoutingTable().Size() },
		close: func() {
			_ = d.Close()
			_ = w.host.Close()
		},
	}
	w.sut.seed = func(peers []*simnet.Peer) {
		for _, p := range peers {
			w.host.Peerstore().AddAddrs(p.ID, p.Addrs, peerstore.PermanentAddrTTL)
			if w.side[p.ID] == "lan" {
				_, _ = d.LAN.RoutingTable().TryAddPeer(p.ID, true, false)
				continue
			}
			// the WAN table's diversity filter reads the address of an open connection
			w.host.Net().SetConnected(p.ID, true)
			w.host.Net().SetRemoteAddr(p.ID, p.Addrs[0])
			_, _ = d.WAN.RoutingTable().TryAddPeer(p.ID, true, false)
		}
		s.Quiesce()
	}
	return nil
}

// c04DualResponders splits the responders into a WAN and a LAN population
// (either may be empty), scripts both and seeds both tables.
func c04DualResponders(w *c04World, real []*simnet.Peer) {
	s := w.s
	nw := s.Range("wan-n", 0, len(real))
	wan, lan := real[:nw], real[nw:]
	for i, p := range lan {
		p.Addrs = []ma.Multiaddr{ma.StringCast(fmt.Sprintf("/ip4/192.168.%d.%d/tcp/4001", i/200, 1+i%200))}
		w.side[p.ID] = "lan"
	}
	for _, p := range wan {
		w.side[p.ID] = "wan"
	}
	rng := newSubRng(s, "seeds")
	frac := 1 + s.Draw("seed-frac", 4)
	for _, grp := range [][]*simnet.Peer{wan, lan} {
		if len(grp) == 0 {
			continue
		}
		w.genResponders(grp, grp)
		var seeds []*simnet.Peer
		for _, p := range grp {
			if rng.Intn(4) < frac {
				seeds = append(seeds, p)
			}
		}
		if len(seeds) == 0 {
			seeds = []*simnet.Peer{grp[rng.Intn(len(grp))]}
		}
		if w.cfg.NoPeers == 0 { // else: both routing tables stay empty
			w.sut.seed(seeds)
		}
	}
}
