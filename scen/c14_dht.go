//go:build all || c14

package scen

// C14 scenarios for the three DHT clients: IpfsDHT ("ipfsdht"), dual.DHT
// ("dual") and fullrt.FullRT ("fullrt"). The workload is a handful of
// routing.Routing operations (plus lookups, refreshes, crawls, bus events and —
// in server mode — inbound requests over simulated streams); the RPCs they
// send park in the message-level sender, datastore operations park in simds.

import (
	"context"
	"fmt"
	"time"

	dht "github.com/libp2p/go-libp2p-kad-dht"
	"github.com/libp2p/go-libp2p-kad-dht/crawler"
	"github.com/libp2p/go-libp2p-kad-dht/dual"
	"github.com/libp2p/go-libp2p-kad-dht/fullrt"
	pb "github.com/libp2p/go-libp2p-kad-dht/pb"
	"github.com/libp2p/go-libp2p-kad-dht/records"
	record "github.com/libp2p/go-libp2p-record"
	recpb "github.com/libp2p/go-libp2p-record/pb"
	"github.com/libp2p/go-libp2p/core/event"
	"github.com/libp2p/go-libp2p/core/host"
	"github.com/libp2p/go-libp2p/core/network"
	"github.com/libp2p/go-libp2p/core/peer"
	"github.com/libp2p/go-libp2p/core/peerstore"
	"github.com/libp2p/go-libp2p/core/protocol"
	"github.com/libp2p/go-libp2p/core/routing"
	ma "github.com/multiformats/go-multiaddr"

	"verif/sim"
	"verif/simds"
	"verif/simhost"
	"verif/simnet"
)

func init() {
	stub := []string{"host.Host/network/streams (simhost)", "pb.MessageSender (level A: every RPC parks)", "remote peers (honest scripted answers, drawn failures)", "datastore (simds: operations park)", "crypto/rand (constant per run)"}
	sim.Register(&sim.Scenario{Prop: "C14", Name: "ipfsdht", Weight: 4, Run: runC14DHT,
		Real:   []string{"dht.New / IpfsDHT.Close", "rtPeerLoop, fixLowPeers loop, persistRTPeersInPeerStore, network subscriber", "rtrefresh.RtRefreshManager (Start/loop/Refresh/Close)", "records.ProviderManager, records.ValueStore (GC loops, Close) through the DHT", "lookups, PutValue/GetValue/SearchValue/Provide/FindProviders/FindPeer in flight", "handleNewStream handlers in flight (server mode)"},
		Stub:   stub,
		Faults: append([]string{"fault_rpc_error", "probe_close_during_refresh", "probe_close_handler_inflight", "probe_close_lookupcheck_inflight", "probe_mode_switch", "probe_cfg_providers_disabled", "probe_cfg_values_disabled", "probe_cfg_separate_ds", "probe_cfg_autorefresh", "probe_cfg_optprov", "probe_cfg_server"}, append(c14OverlapFaults, c14CommonFaults...)...),
	})
	sim.Register(&sim.Scenario{Prop: "C14", Name: "dual", Weight: 2, Run: runC14Dual,
		Real:   []string{"dual.New / dual.DHT.Close", "two IpfsDHT instances (WAN/LAN) with dual's filters", "dual.DHT routing operations in flight (parallel WAN/LAN)"},
		Stub:   stub,
		Faults: append([]string{"fault_rpc_error", "probe_close_during_refresh", "probe_cfg_autorefresh", "probe_cfg_server"}, append(c14OverlapFaults, c14CommonFaults...)...),
	})
	sim.Register(&sim.Scenario{Prop: "C14", Name: "fullrt", Weight: 2, Run: runC14FullRT,
		Real:   []string{"fullrt.NewFullRT / FullRT.Close", "runCrawler, runSubscriber", "crawler.DefaultCrawler.Run (drawn: real crawler over the parking sender, or a stub)", "FullRT routing operations in flight", "records.ProviderManager / ValueStore through FullRT"},
		Stub:   stub,
		Faults: append([]string{"fault_rpc_error", "probe_close_during_crawl", "probe_cfg_real_crawler", "probe_cfg_providers_disabled", "probe_cfg_values_disabled", "probe_table_filled"}, append(c14OverlapFaults, c14CommonFaults...)...),
	})
}

const c14Proto = protocol.ID("/sim/kad/1.0.0")

// c14RoutingOps registers n drawn routing operations on r.
func c14RoutingOps(f *c14Flow, r routing.Routing, u *simnet.Universe, n int, more map[string]func(ctx context.Context) (any, error)) {
	s := f.s
	menu := []string{"putvalue", "getvalue", "searchvalue", "provide", "findprovs", "findpeer", "bootstrap"}
	var extra []string
	for k := range more {
		extra = append(extra, k)
	}
	sortStrings(extra)
	menu = append(menu, extra...)
	for i := 0; i < n; i++ {
		i := i
		kind := menu[s.Draw("op", len(menu))]
		key := fmt.Sprintf("/v/k%d", s.Draw("op-key", 3))
		if f.name == "dual" && (kind == "getvalue" || kind == "searchvalue") {
			// On the dual client a side that finds the value in its local store
			// ends the whole (parallel) operation while it is itself about to start
			// its lookup: whether that lookup still sends its first request is the
			// Go scheduler's. Reads therefore use keys no local put wrote.
			key = fmt.Sprintf("/v/g%d", s.Draw("op-gkey", 3))
		}
		ci := s.Draw("op-cid", 3)
		var target peer.ID
		if len(u.Peers) > 0 && s.Chance("target-known", 1, 2) {
			target = u.Peers[s.Draw("target", len(u.Peers))].ID
		} else {
			target = simnet.MakeID(0xfeed, i)
		}
		var run func(ctx context.Context) (any, error)
		switch kind {
		case "putvalue":
			run = func(ctx context.Context) (any, error) {
				return nil, r.PutValue(ctx, key, rankValue(2, time.Time{}, key))
			}
		case "getvalue":
			run = func(ctx context.Context) (any, error) { return r.GetValue(ctx, key) }
		case "searchvalue":
			run = func(ctx context.Context) (any, error) {
				ch, err := r.SearchValue(ctx, key)
				if err != nil {
					return nil, err
				}
				n := 0
				for range ch {
					n++
				}
				return n, nil
			}
		case "provide":
			run = func(ctx context.Context) (any, error) { return nil, r.Provide(ctx, c14Cid(ci), true) }
		case "findprovs":
			run = func(ctx context.Context) (any, error) {
				n := 0
				for range r.FindProvidersAsync(ctx, c14Cid(ci), 2) {
					n++
				}
				return n, nil
			}
		case "findpeer":
			run = func(ctx context.Context) (any, error) { return r.FindPeer(ctx, target) }
		case "bootstrap":
			run = func(ctx context.Context) (any, error) { return nil, r.Bootstrap(ctx) }
		default:
			run = more[kind]
		}
		f.client(kind, run)
	}
}

func sortStrings(v []string) {
	for i := 1; i < len(v); i++ {
		for j := i; j > 0 && v[j] < v[j-1]; j-- {
			v[j], v[j-1] = v[j-1], v[j]
		}
	}
}

// c14DHTCfg is a drawn option combination for one IpfsDHT.
type c14DHTCfg struct {
	mode                    dht.ModeOpt
	disableProv, disableVal bool
	sepVal, sepProv         bool
	autoRefresh, optProv    bool
	k, alpha, beta          int
	bootstrap               bool
}

func c14DrawDHTCfg(s *sim.Sim) c14DHTCfg {
	var c c14DHTCfg
	c.mode = []dht.ModeOpt{dht.ModeClient, dht.ModeServer, dht.ModeAuto, dht.ModeAutoServer}[s.Draw("mode", 4)]
	switch s.Draw("subsystems", 4) {
	case 1:
		c.disableProv = true
	case 2:
		c.disableVal = true
	case 3:
		c.disableProv, c.disableVal = true, true
	}
	c.sepVal = s.Chance("sep-value-ds", 1, 3)
	c.sepProv = s.Chance("sep-provider-ds", 1, 3)
	c.autoRefresh = s.Chance("auto-refresh", 1, 2)
	c.optProv = s.Chance("opt-provide", 1, 3)
	c.k = s.Range("k", 1, 4)
	c.alpha = s.Range("alpha", 1, 3)
	c.beta = s.Range("beta", 1, c.k)
	c.bootstrap = s.Chance("bootstrap-peer", 1, 3)
	return c
}

func (c c14DHTCfg) String() string {
	return fmt.Sprintf("mode=%d noProv=%v noVal=%v sepVal=%v sepProv=%v autoRefresh=%v optProv=%v K=%d a=%d b=%d boot=%v",
		c.mode, c.disableProv, c.disableVal, c.sepVal, c.sepProv, c.autoRefresh, c.optProv, c.k, c.alpha, c.beta, c.bootstrap)
}

func (c c14DHTCfg) count(s *sim.Sim) {
	if c.disableProv {
		s.Count("probe_cfg_providers_disabled")
	}
	if c.disableVal {
		s.Count("probe_cfg_values_disabled")
	}
	if c.sepVal || c.sepProv {
		s.Count("probe_cfg_separate_ds")
	}
	if c.autoRefresh {
		s.Count("probe_cfg_autorefresh")
	}
	if c.optProv {
		s.Count("probe_cfg_optprov")
	}
	if c.mode == dht.ModeServer || c.mode == dht.ModeAutoServer {
		s.Count("probe_cfg_server")
	}
}

// options builds the dht options; dss collects the datastores created.
func (c c14DHTCfg) options(s *sim.Sim, u *simnet.Universe, name string, dss *[]*simds.DS, sender func(protos []protocol.ID) pb.MessageSenderWithDisconnect) []dht.Option {
	mk := func(n string) *simds.DS {
		d := simds.New(s, name+n)
		*dss = append(*dss, d)
		return d
	}
	opts := []dht.Option{
		dht.ProtocolPrefix("/sim"),
		dht.Mode(c.mode),
		dht.BucketSize(c.k),
		dht.Concurrency(c.alpha),
		dht.Resiliency(c.beta),
		dht.Datastore(mk("ds")),
		dht.Validator(record.NamespacedValidator{"v": rankValidator{}}),
		dht.MaxRecordAge(10 * time.Minute),
		dht.ValueGCInterval(time.Minute),
		dht.ProviderManagerOpts(records.CleanupInterval(time.Minute), records.ProvideValidity(10*time.Minute)),
		dht.RoutingTableRefreshPeriod(5 * time.Minute),
		dht.WithCustomMessageSender(func(_ host.Host, protos []protocol.ID) pb.MessageSenderWithDisconnect { return sender(protos) }),
	}
	if name == "lan-" {
		// dual.New's own ProtocolExtension was overridden by the prefix above
		opts = append(opts, dht.ProtocolExtension(dual.LanExtension))
	}
	if !c.autoRefresh {
		opts = append(opts, dht.DisableAutoRefresh())
	}
	if c.disableProv {
		opts = append(opts, dht.DisableProviders())
	}
	if c.disableVal {
		opts = append(opts, dht.DisableValues())
	}
	if c.sepVal {
		opts = append(opts, dht.ValueDatastore(mk("vds")))
	}
	if c.sepProv {
		opts = append(opts, dht.ProviderDatastore(mk("pds")))
	}
	if c.optProv {
		opts = append(opts, dht.EnableOptimisticProvide())
	}
	if c.bootstrap && len(u.Peers) > 0 {
		opts = append(opts, dht.BootstrapPeers(u.Peers[0].AddrInfo()))
	} else {
		opts = append(opts, dht.BootstrapPeers())
	}
	return opts
}

// c14Inbound drives scripted remote peers that send requests to a server-mode
// node over simulated streams; the handler goroutines are started by the
// harness on behalf of the host (harness-owned in the census).
type c14Inbound struct {
	s       *sim.Sim
	f       *c14Flow
	h       *simhost.Host
	fab     *simhost.Fabric
	u       *simnet.Universe
	proto   protocol.ID
	streams []*simhost.Stream // scripted (remote) ends
	handler []*Op
	max     int
}

func (in *c14Inbound) actions() []sim.Action {
	s := in.s
	if in.h.Handler(in.proto) == nil || len(in.u.Peers) == 0 {
		return nil
	}
	var acts []sim.Action
	if len(in.streams) < in.max {
		acts = append(acts, sim.Action{ID: "inbound:open", Do: func() {
			i := len(in.streams)
			p := in.u.Peers[i%len(in.u.Peers)]
			conn := in.h.Net().SetConnected(p.ID, true)
			in.h.Net().SetRemoteAddr(p.ID, p.Addrs[0])
			a, b := in.fab.NewPair("in:"+p.Name, in.proto, p.ID, in.u.Self.ID, nil, conn)
			a.Scripted = true
			in.streams = append(in.streams, a)
			hd := in.h.Handler(in.proto)
			in.handler = append(in.handler, in.f.ops.Go(s, "handler", func() (any, error) { hd(b); return nil, nil }))
		}})
	}
	for i, a := range in.streams {
		a := a
		if a.IsReset() {
			continue
		}
		acts = append(acts, sim.Action{ID: fmt.Sprintf("inbound:send:%d", i), Do: func() {
			key := fmt.Sprintf("/v/k%d", s.Draw("in-key", 3))
			var m *pb.Message
			switch s.Draw("in-type", 5) {
			case 0:
				m = pb.NewMessage(pb.Message_FIND_NODE, []byte(in.u.Self.ID), 0)
			case 1:
				m = pb.NewMessage(pb.Message_PUT_VALUE, []byte(key), 0)
				m.Record = &recpb.Record{Key: []byte(key), Value: rankValue(3, time.Time{}, key)}
			case 2:
				m = pb.NewMessage(pb.Message_GET_VALUE, []byte(key), 0)
			case 3:
				m = pb.NewMessage(pb.Message_ADD_PROVIDER, c14MH(s.Draw("in-cid", 3)), 0)
				m.ProviderPeers = simnet.ToPB([]*simnet.Peer{in.u.ByID(a.Local)})
			default:
				m = pb.NewMessage(pb.Message_GET_PROVIDERS, c14MH(s.Draw("in-cid", 3)), 0)
			}
			_, _ = a.Write(encodeFrame(m))
		}})
	}
	return acts
}

// pump discards what the node wrote back.
func (in *c14Inbound) pump() {
	for _, a := range in.streams {
		_, _, _ = a.TakeDelivered()
	}
}

func (in *c14Inbound) busy() bool {
	for _, h := range in.handler {
		if !h.Done {
			return true
		}
	}
	return false
}

// reset ends every inbound stream (the host going away).
func (in *c14Inbound) reset() {
	for _, a := range in.streams {
		a.SimReset()
	}
}

func (in *c14Inbound) check() {
	for _, h := range in.handler {
		if h.Panic != "" {
			in.s.Violate("op-panic", "%s: a stream handler in flight during Close panicked: %s", in.f.name, firstLine(h.Panic))
		} else if !h.Done {
			in.s.Violate("op-hang", "%s: a stream handler did not return although its stream was reset, every parked call was answered and the wind-down time passed", in.f.name)
		}
	}
}

// c14Seed puts peers into a routing table from a client goroutine (datastore
// free, but table callbacks take locks).
func c14Seed(s *sim.Sim, h *simhost.Host, d *dht.IpfsDHT, peers []*simnet.Peer) {
	for _, p := range peers {
		h.Peerstore().AddAddrs(p.ID, p.Addrs, peerstore.PermanentAddrTTL)
		_ = h.Peerstore().AddProtocols(p.ID, c14Proto)
		h.Net().SetConnected(p.ID, true)
		h.Net().SetRemoteAddr(p.ID, p.Addrs[0])
		_, _ = d.RoutingTable().TryAddPeer(p.ID, true, false)
	}
	s.Quiesce()
}

func runC14DHT(s *sim.Sim) {
	s.MaxSteps = 700
	defer c14ConstRand(s)()
	cfg := c14DrawDHTCfg(s)
	n := s.Range("peers", 1, 7)
	u := simnet.NewUniverse(uint64(s.Draw("universe", 1<<16)), n)
	h := simhost.New(s, u.Self.ID, u.Self.Addrs, u.Name)
	fab := simhost.NewFabric(s)
	w := &c14World{s: s, u: u, hosts: []*simhost.Host{h}, k: cfg.k, rpcFault: []int{0, 8}[s.Draw("rpc-faults", 2)]}
	parkDS := s.Chance("park-ds", 1, 2)

	f := newC14Flow(s, "ipfsdht")
	f.answer = w.answer
	f.baseline()

	var dss []*simds.DS
	d, err := dht.New(h, cfg.options(s, u, "", &dss, func([]protocol.ID) pb.MessageSenderWithDisconnect { return &simnet.Sender{S: s, U: u} })...)
	if err != nil {
		panic(err)
	}
	s.Quiesce()
	cfg.count(s)
	// in half of the runs the constructor's own start-up work (bootstrap dial,
	// first refresh) is answered before the workload begins; the bootstrap dial
	// may fail, so that the low-peers loop dials again later
	failBoot := s.Chance("bootstrap-dial-fails", 1, 2)
	f.answer = func(p *sim.Parked, drain bool) {
		if f.settling && p.Kind == "dial" && failBoot {
			s.Release(p, simhost.ErrDialFailed)
			return
		}
		w.answer(p, drain)
	}
	f.constructed(s.Chance("settle", 1, 2))
	if parkDS {
		for _, x := range dss {
			x.ParkOp = func(op, key string) bool { return true }
		}
	}
	c14RoutingOps(f, d, u, s.Range("ops", 1, 4), map[string]func(ctx context.Context) (any, error){
		"gcp":     func(ctx context.Context) (any, error) { return d.GetClosestPeers(ctx, "/v/k0") },
		"refresh": func(ctx context.Context) (any, error) { return nil, <-d.RefreshRoutingTable() },
		"force-refresh": func(ctx context.Context) (any, error) {
			return nil, <-d.ForceRefresh()
		},
	})
	// Runs in which routing-table refreshes can happen. The refresh machinery
	// has two places where goroutines woken by the same release race with each
	// other (every outcome legal, none replayable): (1) consecutive refresh
	// lookups take their seeds from the table at the very instant the previous
	// lookup's last response is being added to it; (2) the non-blocking
	// RefreshNoWait issued when a refresh that started from an empty table
	// finishes reaches the refresh loop only if that loop is already back in
	// its select. Such runs therefore keep the table non-empty and unchanged at
	// lookup boundaries: at least one seeded peer, responders only name peers
	// that are in the table, no request fails (a failure evicts) and virtual
	// time stays below the 10 s ping/query time-outs (an expired ping evicts).
	refreshCapable := cfg.autoRefresh
	for _, c := range f.clients {
		if c.name == "refresh" || c.name == "force-refresh" || c.name == "bootstrap" {
			refreshCapable = true
		}
	}
	nSeed := s.Range("seed", 0, n)
	if refreshCapable {
		nSeed = max(nSeed, 1)
		w.rpcFault = 0
		w.closer = func(*sim.Parked) []*simnet.Peer { return w.peersOf(d.RoutingTable().ListPeers()) }
		f.dts = []time.Duration{10 * time.Millisecond, 100 * time.Millisecond}
	}
	c14Seed(s, h, d, u.Peers[:nSeed])
	s.Summary["cfg"] = fmt.Sprintf("%v peers=%d seeded=%d parkDS=%v rpcFault=%d refreshCapable=%v", cfg, n, nSeed, parkDS, w.rpcFault, refreshCapable)

	in := &c14Inbound{s: s, f: f, h: h, fab: fab, u: u, proto: c14Proto, max: 2}
	emReach, _ := h.RealBus().Emitter(new(event.EvtLocalReachabilityChanged))
	emIdent, _ := h.RealBus().Emitter(new(event.EvtPeerIdentificationCompleted))
	emAddrs, _ := h.RealBus().Emitter(new(event.EvtLocalAddressesUpdated))
	emConn, _ := h.RealBus().Emitter(new(event.EvtPeerConnectednessChanged))
	nEvents := 0
	f.extra = func() []sim.Action {
		acts := in.actions()
		if nEvents < 4 {
			acts = append(acts, sim.Action{ID: "event", Do: func() {
				nEvents++
				switch s.Draw("event", 4) {
				case 0:
					r := []network.Reachability{network.ReachabilityPublic, network.ReachabilityPrivate, network.ReachabilityUnknown}[s.Draw("reach", 3)]
					if cfg.mode == dht.ModeAuto || cfg.mode == dht.ModeAutoServer {
						s.Count("probe_mode_switch")
					}
					_ = emReach.Emit(event.EvtLocalReachabilityChanged{Reachability: r})
				case 1:
					p := u.Peers[s.Draw("ev-peer", len(u.Peers))]
					h.Peerstore().AddAddrs(p.ID, p.Addrs, peerstore.PermanentAddrTTL)
					_ = h.Peerstore().AddProtocols(p.ID, c14Proto)
					h.Net().SetConnected(p.ID, true)
					h.Net().SetRemoteAddr(p.ID, p.Addrs[0])
					_ = emIdent.Emit(event.EvtPeerIdentificationCompleted{Peer: p.ID})
				case 2:
					_ = emAddrs.Emit(event.EvtLocalAddressesUpdated{})
				default:
					p := u.Peers[s.Draw("ev-peer", len(u.Peers))]
					_ = emConn.Emit(event.EvtPeerConnectednessChanged{Peer: p.ID, Connectedness: network.NotConnected})
				}
			}})
		}
		return acts
	}
	f.always = fab.DeliverActions
	f.pump = in.pump
	f.debugState = func() string { return "rt=" + sortedNames(u, d.RoutingTable().ListPeers()) }
	f.atClose = func() {
		if in.busy() {
			s.Count("probe_close_handler_inflight")
		}
		for _, c := range f.clients {
			if c.started && !c.op.Done && (c.name == "refresh" || c.name == "force-refresh") {
				s.Count("probe_close_during_refresh")
			}
		}
		for _, p := range s.ParkedKind("rpc") {
			r := p.Data.(*simnet.RPC)
			if string(r.Req.GetKey()) == string(r.To) && r.Req.GetType() == pb.Message_FIND_NODE {
				s.Count("probe_close_lookupcheck_inflight")
				break
			}
		}
	}
	f.afterClose = in.reset
	f.closeFn = d.Close
	f.overlapOK = true
	f.closeAt = s.Range("close-at", 0, 45)
	f.interleave = s.Draw("interleave", 12)
	f.run()
	if !s.Failed() {
		in.check()
	}
	c14Teardown(s, f, func() {
		in.reset()
		for _, e := range []event.Emitter{emReach, emIdent, emAddrs, emConn} {
			_ = e.Close()
		}
		_ = h.Close()
	})
	s.Finish()
}

// ---------------------------------------------------------------------------

func c14IsLan(protos []protocol.ID) bool {
	for _, p := range protos {
		if len(p) > 0 && containsStr(string(p), string(dual.LanExtension)+"/") {
			return true
		}
	}
	return false
}

func containsStr(s, sub string) bool {
	for i := 0; i+len(sub) <= len(s); i++ {
		if s[i:i+len(sub)] == sub {
			return true
		}
	}
	return false
}

// c14DualWorld builds a universe with WAN (public) and LAN (private) peers.
func c14DualUniverse(s *sim.Sim, n int) (*simnet.Universe, []*simnet.Peer, []*simnet.Peer) {
	u := simnet.NewUniverse(uint64(s.Draw("universe", 1<<16)), n)
	nw := s.Range("wan-n", 0, n)
	wan, lan := u.Peers[:nw], u.Peers[nw:]
	for i, p := range lan {
		p.Addrs = []ma.Multiaddr{ma.StringCast(fmt.Sprintf("/ip4/192.168.1.%d/tcp/4001", 1+i))}
	}
	return u, wan, lan
}

func c14SeedDual(s *sim.Sim, h *simhost.Host, d *dual.DHT, wan, lan []*simnet.Peer) {
	for _, p := range lan {
		h.Peerstore().AddAddrs(p.ID, p.Addrs, peerstore.PermanentAddrTTL)
		_, _ = d.LAN.RoutingTable().TryAddPeer(p.ID, true, false)
	}
	for _, p := range wan {
		h.Peerstore().AddAddrs(p.ID, p.Addrs, peerstore.PermanentAddrTTL)
		h.Net().SetConnected(p.ID, true)
		h.Net().SetRemoteAddr(p.ID, p.Addrs[0])
		_, _ = d.WAN.RoutingTable().TryAddPeer(p.ID, true, false)
	}
	s.Quiesce()
}

func runC14Dual(s *sim.Sim) {
	s.MaxSteps = 800
	defer c14ConstRand(s)()
	cfg := c14DrawDHTCfg(s)
	// dual.New gives both sides their own filters; sub-systems stay enabled on
	// both (the dual client calls both unconditionally)
	cfg.disableProv, cfg.disableVal = false, false
	n := s.Range("peers", 1, 6)
	u, wan, lan := c14DualUniverse(s, n)
	h := simhost.New(s, u.Self.ID, u.Self.Addrs, u.Name)
	w := &c14World{s: s, u: u, hosts: []*simhost.Host{h}, k: cfg.k, rpcFault: []int{0, 8}[s.Draw("rpc-faults", 2)]}
	parkDS := s.Chance("park-ds", 1, 2)

	f := newC14Flow(s, "dual")
	f.answer = w.answer
	f.baseline()

	var dssW, dssL []*simds.DS
	sender := func(protos []protocol.ID) pb.MessageSenderWithDisconnect {
		label := "wan:"
		if c14IsLan(protos) {
			label = "lan:"
		}
		return &simnet.Sender{S: s, U: u, Label: label}
	}
	wopts := cfg.options(s, u, "wan-", &dssW, sender)
	// both sides share the host: only one of them dials the bootstrap peer
	// (two identical dials in one step would be told apart by arrival order)
	lcfg := cfg
	lcfg.bootstrap = false
	lopts := lcfg.options(s, u, "lan-", &dssL, sender)
	d, err := dual.New(h, dual.WanDHTOption(wopts...), dual.LanDHTOption(lopts...))
	if err != nil {
		panic(err)
	}
	s.Quiesce()
	cfg.count(s)
	f.constructed(s.Chance("settle", 1, 2))
	if parkDS {
		for _, x := range append(dssW, dssL...) {
			// (reads of the local value store are not parked on the dual client:
			// one side completing while the other is still between its local read
			// and its lookup is resolved by the Go scheduler, not by the tape)
			x.ParkOp = func(op, key string) bool { return op != "get" }
		}
	}
	c14RoutingOps(f, d, u, s.Range("ops", 1, 4), map[string]func(ctx context.Context) (any, error){
		"refresh-wan": func(ctx context.Context) (any, error) { return nil, <-d.WAN.RefreshRoutingTable() },
		"refresh-lan": func(ctx context.Context) (any, error) { return nil, <-d.LAN.ForceRefresh() },
	})
	// see runC14DHT for why runs with refreshes keep both tables stable
	refreshCapable := cfg.autoRefresh
	for _, c := range f.clients {
		if c.name == "refresh-wan" || c.name == "refresh-lan" || c.name == "bootstrap" {
			refreshCapable = true
		}
	}
	nw, nl := s.Range("seed-wan", 0, len(wan)), s.Range("seed-lan", 0, len(lan))
	if refreshCapable {
		nw, nl = max(nw, min(1, len(wan))), max(nl, min(1, len(lan)))
		w.rpcFault = 0
		w.closer = func(p *sim.Parked) []*simnet.Peer {
			if containsStr(p.ID, "lan:") {
				return w.peersOf(d.LAN.RoutingTable().ListPeers())
			}
			return w.peersOf(d.WAN.RoutingTable().ListPeers())
		}
		f.dts = []time.Duration{10 * time.Millisecond, 100 * time.Millisecond}
	}
	c14SeedDual(s, h, d, wan[:nw], lan[:nl])
	s.Summary["cfg"] = fmt.Sprintf("%v wan=%d/%d lan=%d/%d parkDS=%v refreshCapable=%v", cfg, nw, len(wan), nl, len(lan), parkDS, refreshCapable)
	f.atClose = func() {
		for _, c := range f.clients {
			if c.started && !c.op.Done && (c.name == "refresh-wan" || c.name == "refresh-lan") {
				s.Count("probe_close_during_refresh")
			}
		}
	}
	f.closeFn = d.Close
	f.overlapOK = true
	f.closeAt = s.Range("close-at", 0, 45)
	f.interleave = s.Draw("interleave", 12)
	f.run()
	c14Teardown(s, f, func() { _ = h.Close() })
	s.Finish()
}

// ---------------------------------------------------------------------------

// c14Crawler is a crawler stub: a crawl parks (kind "crawl") and reports the
// peers it is released with.
type c14Crawler struct {
	s *sim.Sim
	h *simhost.Host
}

var _ crawler.Crawler = (*c14Crawler)(nil)

func (c *c14Crawler) Run(ctx context.Context, _ []*peer.AddrInfo, ok crawler.HandleQueryResult, _ crawler.HandleQueryFail) {
	out, cerr := c.s.Park("crawl", "run", ctx, nil)
	if cerr != nil {
		return
	}
	peers, _ := out.([]*simnet.Peer)
	for _, p := range peers {
		c.h.Peerstore().AddAddrs(p.ID, p.Addrs, peerstore.PermanentAddrTTL)
		c.h.Net().SetConnected(p.ID, true)
		c.h.Net().SetRemoteAddr(p.ID, p.Addrs[0])
		ok(p.ID, nil)
	}
}

func runC14FullRT(s *sim.Sim) { runC14FullRTWith(s, false) }

// runC14FullRTWith: waiters selects the workload of the scenario
// "fullrt-waiters" (c14_fullrt_waiters.go): always the stub crawler, and the
// operations are mostly calls that wait for the instance's own crawl loop.
func runC14FullRTWith(s *sim.Sim, waiters bool) {
	s.MaxSteps = 900
	defer c14ConstRand(s)()
	n := s.Range("peers", 1, 4)
	u := simnet.NewUniverse(uint64(s.Draw("universe", 1<<16)), n)
	h := simhost.New(s, u.Self.ID, u.Self.Addrs, u.Name)
	k := s.Range("k", 1, 4)
	w := &c14World{s: s, u: u, hosts: []*simhost.Host{h}, k: k, rpcFault: []int{0, 8}[s.Draw("rpc-faults", 2)]}
	realCrawler := !waiters && s.Chance("real-crawler", 1, 2)
	disableProv, disableVal := false, false
	switch s.Draw("subsystems", 4) {
	case 1:
		disableProv = true
	case 2:
		disableVal = true
	case 3:
		disableProv, disableVal = true, true
	}
	sepVal, sepProv := s.Chance("sep-value-ds", 1, 3), s.Chance("sep-provider-ds", 1, 3)
	parkDS := s.Chance("park-ds", 1, 2)
	nBoot := s.Range("bootstrap", 0, n)

	f := newC14Flow(s, "fullrt")
	if waiters {
		f.name = "fullrt-waiters"
	}
	f.baseline()

	var dss []*simds.DS
	mk := func(name string) *simds.DS {
		d := simds.New(s, name)
		dss = append(dss, d)
		return d
	}
	var boot []peer.AddrInfo
	for _, p := range u.Peers[:nBoot] {
		boot = append(boot, p.AddrInfo())
	}
	dopts := []dht.Option{
		dht.BucketSize(k),
		dht.Datastore(mk("ds")),
		dht.Validator(record.NamespacedValidator{"v": rankValidator{}}),
		dht.MaxRecordAge(10 * time.Minute),
		dht.ProviderManagerOpts(records.CleanupInterval(time.Minute), records.ProvideValidity(10*time.Minute)),
		dht.BootstrapPeers(boot...),
		dht.WithCustomMessageSender(func(_ host.Host, _ []protocol.ID) pb.MessageSenderWithDisconnect {
			return &simnet.Sender{S: s, U: u}
		}),
	}
	if disableProv {
		dopts = append(dopts, dht.DisableProviders())
		s.Count("probe_cfg_providers_disabled")
	}
	if disableVal {
		dopts = append(dopts, dht.DisableValues())
		s.Count("probe_cfg_values_disabled")
	}
	if sepVal {
		dopts = append(dopts, dht.ValueDatastore(mk("vds")))
	}
	if sepProv {
		dopts = append(dopts, dht.ProviderDatastore(mk("pds")))
	}
	var cr crawler.Crawler
	if realCrawler {
		s.Count("probe_cfg_real_crawler")
		dc, err := crawler.NewDefaultCrawler(h, crawler.WithParallelism(s.Range("crawl-par", 1, 2)),
			crawler.WithCustomMessageSender(func(_ host.Host, _ []protocol.ID) pb.MessageSenderWithDisconnect {
				return &simnet.Sender{S: s, U: u, Label: "crawl:"}
			}))
		if err != nil {
			panic(err)
		}
		cr = dc
	} else {
		cr = &c14Crawler{s: s, h: h}
	}
	frt, err := fullrt.NewFullRT(h, "/sim",
		fullrt.WithCrawler(cr),
		// Re-crawls only happen on request: the crawl loop selects over its
		// ticker and its trigger channel (both ready = random pick), and a
		// re-crawl of the real crawler starts from a map iteration over the
		// peers found before.
		fullrt.WithCrawlInterval(1000000*time.Hour),
		fullrt.WithSuccessWaitFraction([]float64{0.3, 1.0}[s.Draw("wait-frac", 2)]),
		fullrt.WithTimeoutPerOperation(5*time.Second),
		fullrt.WithBulkSendParallelism(s.Range("bulk-par", 1, 3)),
		fullrt.DHTOption(dopts...),
	)
	if err != nil {
		panic(err)
	}
	s.Quiesce()
	if parkDS {
		for _, x := range dss {
			x.ParkOp = func(op, key string) bool { return true }
		}
	}
	s.Summary["cfg"] = fmt.Sprintf("peers=%d K=%d realCrawler=%v noProv=%v noVal=%v sepVal=%v sepProv=%v parkDS=%v boot=%d", n, k, realCrawler, disableProv, disableVal, sepVal, sepProv, parkDS, nBoot)

	crawled := false
	f.answer = func(p *sim.Parked, drain bool) {
		if p.Kind == "crawl" {
			crawled = true
			s.Release(p, u.Peers)
			return
		}
		if p.Kind == "rpc" && containsStr(p.ID, "crawl:") && !p.Cancelled() {
			// the real crawler iterates over the map of peers a crawled peer named:
			// every peer names exactly one other (a ring), so that order is fixed
			r := p.Data.(*simnet.RPC)
			if !drain && w.rpcFault > 0 && s.Chance("rpc-fail", 1, w.rpcFault) {
				s.Count("fault_rpc_error")
				s.Release(p, simnet.Reply{Err: errReqFailed})
				return
			}
			if x := u.ByID(r.To); x != nil {
				next := u.Peers[(x.Idx+1)%len(u.Peers)]
				s.Release(p, simnet.Reply{Msg: &pb.Message{Type: r.Req.GetType(), Key: r.Req.GetKey(), CloserPeers: simnet.ToPB([]*simnet.Peer{next})}})
				return
			}
		}
		w.answer(p, drain)
	}
	f.constructed(s.Chance("settle", 1, 3))
	more := map[string]func(ctx context.Context) (any, error){
		"gcp": func(ctx context.Context) (any, error) { return frt.GetClosestPeers(ctx, "/v/k0") },
	}
	if !realCrawler {
		more["trigger-crawl"] = func(ctx context.Context) (any, error) { return nil, frt.TriggerRefresh(ctx) }
	}
	var waitingNow func() int
	if waiters {
		waitingNow = c14FullRTWaiters(f, frt, u, more)
	} else {
		c14RoutingOps(f, frt, u, s.Range("ops", 1, 4), more)
	}
	f.atClose = func() {
		if waitingNow != nil {
			if n := waitingNow(); n > 0 {
				s.Count("probe_close_with_waiters")
				if n > 1 {
					s.Count("probe_close_with_several_waiters")
				}
			}
		}
		crawling := len(s.ParkedKind("crawl")) > 0
		for _, p := range s.ParkedKind("rpc") {
			if containsStr(p.ID, "crawl:") {
				crawling = true
			}
		}
		if crawling {
			s.Count("probe_close_during_crawl")
		}
		if crawled {
			s.Count("probe_table_filled")
		}
	}
	f.closeFn = frt.Close
	f.overlapOK = true
	f.closeAt = s.Range("close-at", 0, 70)
	f.interleave = s.Draw("interleave", 12)
	f.run()
	c14Teardown(s, f, func() { _ = h.Close() })
	s.Finish()
}
