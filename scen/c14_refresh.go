//go:build all || c14

package scen

// C14 scenario "ipfsdht-stale-refresh": Close of a standard DHT while a
// routing-table refresh that callers are waiting for is under way, on a node
// whose table members have not been heard from for a long time.
//
// A refresh round of the refresh manager has two phases: first it checks the
// members it has not queried successfully for a while (connect + a lookup
// request for the member's own id, all members at once), then it runs the
// refresh lookups. The general "ipfsdht" scenario keeps virtual time within a
// few seconds whenever a refresh can happen (see runC14DHT: its refresh runs
// must not cross the time-outs of checks and queries), so its members are
// always fresh and its rounds never have a first phase. Here the node is left
// alone, with nothing in flight, for a drawn multiple of the refresh period it
// was configured with (0, 3 or 64 periods) before the workload starts; after
// the long gap every member is due for a check, and Close - at a drawn step,
// or aimed at the check phase with a drawn number of checks already answered -
// meets a round that is waiting for the answers of its checks.
//
// Clause exercised: "Close ... is safe while operations are in flight: those
// operations finish or fail without panic or deadlock". The operations are the
// callers of RefreshRoutingTable / ForceRefresh, which block on the channel
// they were given until the round they were admitted to is over: a request
// the manager has accepted is answered (result or error) whatever Close does
// to the round (rule op-hang of c14.go; also close-hang, close-early, leak for
// the round's own goroutines: the check goroutines are started by the
// instance and Close has to wait for them).
//
// Nothing of the implementation is mirrored: how long a member stays fresh is
// the node's business (it derives it from the refresh period, the bucket size
// and the concurrency); the harness only chooses a gap that is long by any
// measure relative to the period it configured, and observes whether checks
// appear (probe_refresh_checks_seen, probe_close_refresh_check_phase).
//
// Replayability: as in runC14DHT's refresh-capable runs the table stays
// non-empty and unchanged while the node is open - at least one seeded member,
// responders only name members, no request fails, virtual time moves in steps
// far below the time-outs of checks and queries once the workload has begun
// (an expired check evicts). Auto-refresh is off: its ticker would start rounds
// of its own during the gap, whose checks would expire within the same jump.
// No bootstrap peers, no bus events, no inbound streams (the business of
// "ipfsdht"). Members whose checks are cancelled by Close are evicted; that
// happens one observed cancellation at a time (cancel>all).

import (
	"context"
	"fmt"
	"time"

	dht "github.com/libp2p/go-libp2p-kad-dht"
	pb "github.com/libp2p/go-libp2p-kad-dht/pb"
	"github.com/libp2p/go-libp2p/core/protocol"

	"verif/sim"
	"verif/simds"
	"verif/simhost"
	"verif/simnet"
)

func init() {
	sim.Register(&sim.Scenario{Prop: "C14", Name: "ipfsdht-stale-refresh", Weight: 3, Run: runC14StaleRefresh,
		Real: []string{"dht.New / IpfsDHT.Close", "rtrefresh.RtRefreshManager: Refresh requests with waiting callers, loop, pingAndEvictPeers (liveness checks of stale members), doRefresh, Close", "IpfsDHT.lookupCheck, refresh lookups, routing operations in flight"},
		Stub: []string{"host.Host/network (simhost)", "pb.MessageSender (level A: every RPC parks)", "remote peers (honest scripted answers)", "datastore (simds: operations park)", "crypto/rand (constant per run)"},
		Faults: append([]string{"probe_stale_gap", "probe_refresh_checks_seen", "probe_close_refresh_check_phase", "probe_close_refresh_check_phase_partly_answered", "probe_close_during_refresh", "probe_cfg_server"},
			append(c14OverlapFaults, c14CommonFaults...)...),
	})
}

func runC14StaleRefresh(s *sim.Sim) {
	s.MaxSteps = 700
	defer c14ConstRand(s)()
	cfg := c14DrawDHTCfg(s)
	cfg.autoRefresh, cfg.bootstrap, cfg.optProv = false, false, false
	n := s.Range("peers", 1, 6)
	u := simnet.NewUniverse(uint64(s.Draw("universe", 1<<16)), n)
	h := simhost.New(s, u.Self.ID, u.Self.Addrs, u.Name)
	w := &c14World{s: s, u: u, hosts: []*simhost.Host{h}, k: cfg.k}
	parkDS := s.Chance("park-ds", 1, 2)
	// odd millisecond values (HARNESS pitfall 4)
	period := []time.Duration{97003, 31013}[s.Draw("refresh-period", 2)] * time.Millisecond
	gap := time.Duration([]int{64, 0, 3}[s.Draw("gap-periods", 3)]) * period

	f := newC14Flow(s, "ipfsdht-stale-refresh")
	f.answer = w.answer
	f.baseline()

	var dss []*simds.DS
	opts := cfg.options(s, u, "", &dss, func([]protocol.ID) pb.MessageSenderWithDisconnect { return &simnet.Sender{S: s, U: u} })
	opts = append(opts, dht.RoutingTableRefreshPeriod(period))
	d, err := dht.New(h, opts...)
	if err != nil {
		panic(err)
	}
	s.Quiesce()
	cfg.count(s)
	f.constructed(true)
	nSeed := s.Range("seed", 1, n)
	c14Seed(s, h, d, u.Peers[:nSeed])
	w.closer = func(*sim.Parked) []*simnet.Peer { return w.peersOf(d.RoutingTable().ListPeers()) }

	// the gap: the node is idle, nothing is in flight, nothing parks
	if gap > 0 {
		s.Sleep(gap)
		f.drain(func() bool { return len(f.nonClientParked()) == 0 })
		if gap > 10*period {
			s.Count("probe_stale_gap")
		}
	}
	if parkDS {
		for _, x := range dss {
			x.ParkOp = func(op, key string) bool { return true }
		}
	}
	f.dts = []time.Duration{10 * time.Millisecond, 100 * time.Millisecond}

	// at least one refresh request with a waiting caller, then drawn operations
	more := map[string]func(ctx context.Context) (any, error){
		"refresh":       func(ctx context.Context) (any, error) { return nil, <-d.RefreshRoutingTable() },
		"force-refresh": func(ctx context.Context) (any, error) { return nil, <-d.ForceRefresh() },
	}
	first := []string{"refresh", "force-refresh"}[s.Draw("first-refresh", 2)]
	f.client(first, more[first])
	c14RoutingOps(f, d, u, s.Range("ops", 0, 3), more)
	s.Summary["cfg"] = fmt.Sprintf("%v peers=%d seeded=%d parkDS=%v period=%v gap=%v", cfg, n, nSeed, parkDS, period, gap)
	if c14Debug {
		s.Tracef("DEBUG cfg %s", s.Summary["cfg"])
	}

	// what the harness can see of a round's check phase: a caller waits for a
	// refresh and requests for the addressee's own id (or dials) are parked
	waiters := func() int {
		k := 0
		for _, c := range f.clients {
			if c.started && !c.op.Done && (c.name == "refresh" || c.name == "force-refresh") {
				k++
			}
		}
		return k
	}
	checks := func() int {
		k := len(s.ParkedKind("dial"))
		for _, p := range s.ParkedKind("rpc") {
			r := p.Data.(*simnet.RPC)
			if r.Req.GetType() == pb.Message_FIND_NODE && string(r.Req.GetKey()) == string(r.To) && !p.Cancelled() {
				k++
			}
		}
		return k
	}
	// Close at a drawn step (0), or as soon as the check phase of a round with a
	// waiting caller is visible (1), or once a drawn number of its checks has
	// been answered and some are still out (2)
	aim := s.Draw("aim", 3)
	answeredBefore := s.Range("aim-answered", 1, 3)
	seenMax := 0
	f.closeNow = func() bool {
		c := checks()
		if waiters() == 0 || c == 0 {
			if c == 0 {
				seenMax = 0
			}
			return false
		}
		if seenMax == 0 {
			s.Count("probe_refresh_checks_seen")
		}
		seenMax = max(seenMax, c)
		switch aim {
		case 1:
			return true
		case 2:
			return seenMax-c >= answeredBefore
		}
		return false
	}
	// A request is only made while no round is under way (the rounds' own
	// requests and dials carry no caller's tag). A request that arrives during a
	// round waits for the loop, and the round it starts then begins in the very
	// step in which the previous round's last response was received: the node
	// notes the successful query of that responder on another goroutine (its
	// table loop), and whether the new round still finds the responder due for a
	// check is the Go scheduler's (HARNESS pitfall 3; in "ipfsdht" members are
	// never due, so requests queue up behind running rounds there).
	roundRunning := func() bool {
		for _, p := range s.Parked() {
			if (p.Kind == "rpc" || p.Kind == "dial") && sim.TagOf(p.Ctx) == "" {
				return true
			}
		}
		return false
	}
	f.mayStart = func(c *c14Client) bool {
		switch c.name {
		case "refresh", "force-refresh", "bootstrap":
			return !roundRunning()
		}
		return true
	}
	f.debugState = func() string { return "rt=" + sortedNames(u, d.RoutingTable().ListPeers()) }
	f.atClose = func() {
		if k := waiters(); k > 0 {
			s.Count("probe_close_during_refresh")
			if c := checks(); c > 0 {
				s.Count("probe_close_refresh_check_phase")
				if seenMax > c {
					s.Count("probe_close_refresh_check_phase_partly_answered")
				}
			}
		}
	}
	f.closeFn = d.Close
	f.overlapOK = true
	f.closeAt = s.Range("close-at", 0, 45)
	f.interleave = s.Draw("interleave", 12)
	f.run()
	c14Teardown(s, f, func() { _ = h.Close() })
	s.Finish()
}
