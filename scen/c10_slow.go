//go:build all || c10

package scen

// C10, harness H2, scenario "messenger-slow": remotes that PACE their bytes.
//
// Same system under test as messenger-bytes (the real internal/net message
// sender under pb.ProtocolMessenger over scheduler-owned byte streams). The
// property quantifies over "any byte string, or silence"; a byte string reaches
// the client over time, and the other C10 scenarios only ever hand it over in
// one or two pieces followed by nothing. Here the scripted remote's answer is a
// pair (byte string, delivery schedule):
//
//	byte string   an honest reply | a reply drawn from the response space (c10.go) |
//	              a length prefix announcing a body of 100 B .. 3 MiB followed by filler (a legal
//	              prefix of a message all the way, or junk) | unframed junk | a varint that never ends |
//	              nothing
//	schedule      all at once | some head at once, then `chunk` bytes (1..16) every `gap` of virtual
//	              time, gap drawn from 300 ms .. 90 s (a spread over orders of magnitude chosen by the
//	              harness; it is not derived from any constant of the implementation, and the menu has
//	              gaps on both sides of whatever time-out the client uses), for as long as the
//	              client keeps the stream; when the bytes run out: silence | EOF | reset
//
// Every request gets a freshly drawn answer, so the stream a sender opens for a
// retry can be trickled on as well.
//
// Time model. Virtual time passes only when no harness action is enabled (no
// client waiting to be started, no stream waiting to be opened, nothing in
// flight, no request unanswered), in slices of at most 1 s up to the next paced
// chunk. Hence a call's age is time the remotes and the client's own timers made
// it spend (its own exchange plus queueing behind at most three other calls to
// the same peer); the harness adds at most 1 s per action.
//
// Oracle rules (rule id -> clause of the property):
//
//	call-outlasts-bound      "no byte string or silence can permanently block the requesting node: the RPC
//	                         returns an error or a sanitized result": a call had not returned one hour of
//	                         virtual time after it was started, whatever the remote was still sending.
//	                         The bound is a harness choice for "permanently" (the property names none): it
//	                         covers all attempts of the call together and is two orders of magnitude above
//	                         what any call takes on the unchanged tree in this time model.
//	call-wedged              same clause, as in messenger-bytes: a call did not return although no byte has
//	                         been pending or due for 10 min of virtual time
//	caller-panic, wrong-key-record-accepted, peer-record-oversize, peer-record-bad-addr
//	                         as in messenger-bytes, on the calls whose (possibly slow) reply completed
//
// Class of regressions this exposes: any change that lets the remote's
// *progress* extend how long the client waits (idle time-outs, per-read
// deadlines, timers re-armed on data, attempts that are not counted when data
// arrived) - none of them is visible to a responder that is either complete or
// silent.

import (
	"context"
	"encoding/binary"
	"errors"
	"fmt"
	"strings"
	"time"

	dht "github.com/libp2p/go-libp2p-kad-dht"
	pb "github.com/libp2p/go-libp2p-kad-dht/pb"
	"github.com/libp2p/go-libp2p/core/peer"
	mh "github.com/multiformats/go-multihash"

	"verif/sim"
	"verif/simhost"
	"verif/simnet"
)

func init() {
	sim.Register(&sim.Scenario{Prop: "C10", Name: "messenger-slow", Weight: 3, Run: runC10Slow,
		Real: []string{"pb.ProtocolMessenger (every method)", "internal/net messageSenderImpl + peerMessageSender: read time-out against a remote that keeps sending, retry on a fresh stream, per-peer lock queueing", "msgio framing (length prefix, body read in pieces), protobuf decoding"},
		Stub: []string{"host.Host / NewStream (simhost)", "streams (simhost.Fabric byte pipes; paced delivery on the virtual clock)", "remote peers (scripted: byte string + delivery schedule)"},
		Faults: []string{"fault_paced_reply", "fault_paced_announced", "fault_paced_junk", "fault_paced_endless_prefix", "fault_silence",
			"fault_then_silent", "fault_then_eof", "fault_then_reset", "fault_gap_subsecond", "fault_gap_seconds", "fault_gap_long",
			"probe_read_timeout_fired", "probe_retry_second_stream", "probe_stream_reused", "probe_sanitised_result",
			"probe_paced_reply_completed", "probe_cut_while_trickling", "probe_trickle_on_retry_stream", "probe_queued_behind_trickle", "probe_announced_body_completed"}})
}

// c10SlowBound is the liveness bound of rule call-outlasts-bound (harness choice, see above).
const c10SlowBound = time.Hour

var c10SlowGaps = []time.Duration{300 * time.Millisecond, time.Second, 3 * time.Second, 7 * time.Second, 20 * time.Second, 90 * time.Second}

// c10Trickle is the part of an answer that is still to be sent on a schedule.
type c10Trickle struct {
	kind     string
	pre      []byte // literal bytes still to send
	fillLeft int    // generated filler bytes still to send after pre
	fillPos  int
	fillRng  *subRng // junk filler; nil: see fillCont
	fillCont bool    // filler is 0x80 ... (a varint that never ends); else the pattern 0x12 0x00 ...
	//                   (empty key fields over and over: a legal message prefix at every length)
	chunk  int
	gap    time.Duration
	nextAt time.Duration
	then   int  // when the bytes run out: 0 silent, 1 EOF, 2 reset
	whole  bool // the byte string is exactly one well-formed frame
	sent   int
	rounds int
	call   *c10Call
	retry  bool
}

func (t *c10Trickle) left() int { return len(t.pre) + t.fillLeft }

func (t *c10Trickle) take(n int) []byte {
	var out []byte
	if k := min(n, len(t.pre)); k > 0 {
		out = append(out, t.pre[:k]...)
		t.pre = t.pre[k:]
		n -= k
	}
	for ; n > 0 && t.fillLeft > 0; n-- {
		var b byte
		switch {
		case t.fillRng != nil:
			b = byte(t.fillRng.next())
		case t.fillCont:
			b = 0x80
		case t.fillPos%2 == 0:
			b = 0x12
		}
		out = append(out, b)
		t.fillPos++
		t.fillLeft--
	}
	return out
}

type c10SlowPair struct {
	a, b     *simhost.Stream
	peer     *simnet.Peer
	atRemote frameParser
	reqs     []*pb.Message
	answered int
	tr       *c10Trickle
}

func runC10Slow(s *sim.Sim) {
	s.MaxSteps = 600
	nPeers := s.Range("peers", 1, 2)
	nClients := s.Range("clients", 1, 2)
	nCalls := s.Range("calls", 1, 4)
	u := simnet.NewUniverse(uint64(s.Draw("universe", 1<<16)), nPeers+4)
	remotes := u.Peers[:nPeers]
	others := u.Peers[nPeers:]
	h := simhost.New(s, u.Self.ID, u.Self.Addrs, u.Name)
	fab := simhost.NewFabric(s)
	var pairs []*c10SlowPair
	fab.OnOpen = func(a, b *simhost.Stream) { pairs = append(pairs, &c10SlowPair{a: a, b: b, peer: u.ByID(a.Remote)}) }
	h.OpenStream = fab.StreamOpener(func(peer.ID) *simhost.Host { return nil }, nil)

	d, err := dht.New(h, dht.ProtocolPrefix("/sim"), dht.Mode(dht.ModeClient), dht.DisableAutoRefresh())
	if err != nil {
		panic(err)
	}
	pm, err := pb.NewProtocolMessenger(d.MessageSender())
	if err != nil {
		panic(err)
	}
	s.Quiesce()
	w := &c10World{S: s, U: u, Self: u.Self.ID}
	s.Summary["cfg"] = fmt.Sprintf("peers=%d clients=%d calls=%d", nPeers, nClients, nCalls)

	// ---- the calls (contexts without deadline: only the client's own time-outs can end a wait)
	calls := make([]*c10Call, nCalls)
	byKey := map[string]*c10Call{}
	for i := range calls {
		c := &c10Call{id: i, client: i % nClients, peer: remotes[s.Draw("to", nPeers)]}
		c.method = s.Draw("method", c10Methods)
		switch c.method {
		case c10PutValue:
			c.key = []byte(fmt.Sprintf("/c10/put-%02d", i))
			c.value = []byte(fmt.Sprintf("value-%02d", i))
		case c10GetValue:
			c.key = []byte(fmt.Sprintf("/c10/get-%02d", i))
		case c10FindNode:
			c.key = []byte(simnet.MakeID(0xc10, i))
		case c10AddProvider, c10GetProviders:
			m, err := mh.Sum([]byte(fmt.Sprintf("c10-content-%02d", i)), mh.SHA2_256, -1)
			if err != nil {
				panic(err)
			}
			c.key = m
		}
		if len(c.key) > 0 {
			byKey[string(c.key)] = c
		}
		c.ctx, c.cancel = context.WithCancel(sim.WithTag(context.Background(), fmt.Sprintf("c%02d", i)))
		calls[i] = c
	}
	stop := false
	selfInfo := peer.AddrInfo{ID: u.Self.ID, Addrs: u.Self.Addrs}
	var ops opSet
	for cl := 0; cl < nClients; cl++ {
		cl := cl
		ops.Go(s, fmt.Sprintf("client%d", cl), func() (any, error) {
			for _, c := range calls {
				if c.client != cl {
					continue
				}
				s.Park("client", fmt.Sprintf("cl%d:c%02d", cl, c.id), nil, c)
				if stop {
					return nil, nil
				}
				c.started, c.startAt = true, s.Now()
				c.run(s, pm, selfInfo)
			}
			return nil, nil
		})
	}
	s.Quiesce()

	// ---- the scripted remote
	feedRemote := func() {
		for _, p := range pairs {
			data, _, _ := p.b.TakeDelivered()
			if len(data) == 0 {
				continue
			}
			for _, f := range p.atRemote.Feed(data) {
				m, err := decodeMsg(f)
				if err != nil {
					s.Violate("wire-garbage", "remote received an undecodable frame on %s", p.a.Name())
					continue
				}
				if m.GetType() != pb.Message_ADD_PROVIDER {
					p.reqs = append(p.reqs, m)
				}
			}
		}
	}
	honestFor := func(req *pb.Message) []*simnet.Peer {
		return simnet.Nearest(others, simnet.KadOfKey(string(req.GetKey())), 3)
	}
	seenKey := map[string]int{} // requests received per (peer, type, key): a second one is the sender's retry
	nPaced := 0
	deliverAll := func(st *simhost.Stream) {
		for {
			n, _ := st.Pending()
			if n == 0 {
				return
			}
			st.Deliver(0)
		}
	}
	// answer produces the remote's reaction to request number p.answered.
	answer := func(p *c10SlowPair, benign bool) {
		req := p.reqs[p.answered]
		p.answered++
		call := byKey[string(req.GetKey())]
		if req.GetType() == pb.Message_PING {
			call = nil
		}
		rk := fmt.Sprintf("%s/%d/%s", p.peer.Name, req.GetType(), req.GetKey())
		seenKey[rk]++
		isRetry := seenKey[rk] > 1
		ans := &c10Answer{}
		if call != nil {
			call.answers = append(call.answers, ans)
		}
		var raw []byte // literal bytes of the answer
		var fill int   // generated filler after raw
		var fillRng *subRng
		whole, fillCont := false, false
		reply := func(mutate bool) {
			rng := newSubRng(s, "reply-seed")
			m, info := w.genMessage(rng, req, p.peer.ID, honestFor(req), mutate)
			ans.msg, ans.info, ans.kind = m, info, info.Kind()
			raw = encodeFrame(m)
			whole = true
		}
		shape, paced := 0, false
		if !benign {
			shape = s.Draw("shape", 8)
		}
		switch shape {
		case 0:
			reply(false)
		case 1:
			reply(true)
		case 2:
			reply(false)
			paced = true
		case 3:
			reply(true)
			paced = true
		case 4, 5:
			// "here come L bytes", then filler
			paced = true
			l := []int{100 + s.Draw("small", 300), 60_000, 1 << 20, 3 << 20}[s.Draw("announce", 4)]
			var pre [binary.MaxVarintLen64]byte
			raw = append(raw, pre[:binary.PutUvarint(pre[:], uint64(l))]...)
			fill = l
			if s.Chance("filler-junk", 1, 2) || (c10VetoEchoNil && req.GetType() == pb.Message_PUT_VALUE) {
				fillRng = newSubRng(s, "junk-seed")
				ans.garbage = true
			}
			ans.kind = fmt.Sprintf("announced(%d)", l)
		case 6:
			paced = true
			ans.garbage = true
			if s.Chance("endless-prefix", 1, 2) {
				ans.kind = "endless_prefix"
				fill, fillCont = 1<<20, true
			} else {
				ans.kind = "junk"
				raw = c10RandBytes(newSubRng(s, "junk-seed"), 1+s.Draw("junk-len", 300))
			}
		case 7:
			ans.kind, ans.silent = "silence", true
			s.Count("fault_silence")
		}
		if ans.info != nil {
			for _, t := range ans.info.Tags {
				s.Count(t)
			}
		}
		if !paced {
			s.Tracef("remote %s answers %s request %d: %s (%d bytes at once)", p.peer.Name, req.GetType(), p.answered-1, ans.kind, len(raw))
			if len(raw) > 0 {
				_, _ = p.b.Write(raw)
			}
			return
		}
		t := &c10Trickle{kind: ans.kind, pre: raw, fillLeft: fill, fillRng: fillRng, fillCont: fillCont, whole: whole, call: call, retry: isRetry}
		t.chunk = 1 + s.Draw("chunk", 16)
		gi := s.Draw("gap", len(c10SlowGaps))
		t.gap = c10SlowGaps[gi]
		switch {
		case t.gap < time.Second:
			s.Count("fault_gap_subsecond")
		case t.gap < 15*time.Second:
			s.Count("fault_gap_seconds")
		default:
			s.Count("fault_gap_long")
		}
		if !whole {
			t.then = s.Draw("then", 3)
		}
		head := 0
		switch s.Draw("head", 4) {
		case 1:
			head = 1
		case 2:
			head = len(raw) // the literal part (for an announced body: exactly the length prefix)
			if whole {
				_, head = binary.Uvarint(raw)
			}
		case 3:
			head = min(t.left()/2, 4096)
		}
		switch {
		case whole:
			s.Count("fault_paced_reply")
		case strings.HasPrefix(ans.kind, "announced"):
			s.Count("fault_paced_announced")
		case ans.kind == "endless_prefix":
			s.Count("fault_paced_endless_prefix")
		default:
			s.Count("fault_paced_junk")
		}
		nPaced++
		ans.kind = fmt.Sprintf("paced(%s: %d bytes, head %d, then %d every %v, then=%d)", ans.kind, t.left(), head, t.chunk, t.gap, t.then)
		s.Tracef("remote %s answers %s request %d: %s", p.peer.Name, req.GetType(), p.answered-1, ans.kind)
		if isRetry {
			s.Count("probe_trickle_on_retry_stream")
		}
		if head > 0 {
			data := t.take(head)
			t.sent += len(data)
			_, _ = p.b.Write(data)
			deliverAll(p.a)
		}
		t.nextAt = s.Now() + t.gap
		p.tr = t
	}
	// endTrickle: the schedule of p is over (bytes ran out, or the client gave up on the stream).
	endTrickle := func(p *c10SlowPair, why string) {
		t := p.tr
		p.tr = nil
		s.Tracef("remote %s: paced answer on %s over after %d bytes in %d pieces: %s", p.peer.Name, p.b.Name(), t.sent, t.rounds, why)
	}
	// emit sends the next piece of p's paced answer.
	emit := func(p *c10SlowPair) {
		t := p.tr
		if p.b.IsReset() {
			if t.rounds >= 2 {
				// the remote was still talking when the client gave up
				s.Count("probe_cut_while_trickling")
			}
			endTrickle(p, "the client reset the stream")
			return
		}
		data := t.take(t.chunk)
		if len(data) > 0 {
			t.sent += len(data)
			t.rounds++
			_, _ = p.b.Write(data)
			deliverAll(p.a)
		}
		if t.left() > 0 {
			t.nextAt += t.gap
			return
		}
		switch {
		case t.whole:
			endTrickle(p, "reply complete")
		case t.then == 1:
			s.Count("fault_then_eof")
			_ = p.b.CloseWrite()
			endTrickle(p, "bytes ran out, EOF")
		case t.then == 2:
			s.Count("fault_then_reset")
			p.b.SimReset()
			endTrickle(p, "bytes ran out, reset")
		default:
			s.Count("fault_then_silent")
			endTrickle(p, "bytes ran out, silent from here on")
		}
		if strings.HasPrefix(t.kind, "announced") {
			s.Count("probe_announced_body_completed")
		}
	}

	allDone := func() bool {
		for _, c := range calls {
			if !c.done {
				return false
			}
		}
		return true
	}
	nDone := func() int {
		n := 0
		for _, c := range calls {
			if c.done {
				n++
			}
		}
		return n
	}
	checked := map[int]bool{}
	checkReturned := func() {
		for _, c := range calls {
			if !c.done || checked[c.id] {
				continue
			}
			checked[c.id] = true
			c10JudgeCall(s, c, false)
			if c.err == nil && c.panicMsg == "" {
				for _, a := range c.answers {
					if strings.HasPrefix(a.kind, "paced(") && a.msg != nil && a == c.answers[len(c.answers)-1] {
						s.Count("probe_paced_reply_completed")
					}
				}
			}
		}
	}
	// rule call-outlasts-bound
	checkBound := func() {
		now := s.Now()
		for _, c := range calls {
			if !c.started || c.done || now-c.startAt <= c10SlowBound {
				continue
			}
			var what []string
			for _, p := range pairs {
				if p.tr != nil && p.peer == c.peer {
					what = append(what, fmt.Sprintf("%s is on %s and has sent %d bytes in %d pieces of its %s, one every %v", p.peer.Name, p.b.Name(), p.tr.sent, p.tr.rounds, p.tr.kind, p.tr.gap))
				}
			}
			if len(what) == 0 {
				what = append(what, "no paced answer active for its peer")
			}
			s.Violate("call-outlasts-bound", "c%02d %s to %s (context without deadline), started at %v, has not returned at %v, more than %v later; answers so far: %d; %s",
				c.id, c10MethodNames[c.method], c.peer.Name, c.startAt, now, c10SlowBound, len(c.answers), strings.Join(what, "; "))
			return
		}
	}
	// enabled: the zero-time harness actions
	draining := false
	enabled := func() []sim.Action {
		var acts []sim.Action
		for _, p := range s.Parked() {
			p := p
			switch p.Kind {
			case "client", "open":
				acts = append(acts, sim.Action{ID: p.ID, Do: func() { s.Release(p, nil) }})
			}
		}
		for _, st := range fab.Streams() {
			st := st
			n, eof := st.Pending()
			if n == 0 && !eof {
				continue
			}
			acts = append(acts, sim.Action{ID: "deliver:" + st.Name(), Do: func() { st.Deliver(0) }})
		}
		for _, p := range pairs {
			p := p
			if p.answered < len(p.reqs) && !p.b.IsReset() && p.tr == nil {
				acts = append(acts, sim.Action{ID: fmt.Sprintf("answer:%s:%d", p.b.Name(), p.answered), Do: func() { answer(p, draining) }})
			}
		}
		return acts
	}
	// passTime lets virtual time run (slices of at most 1 s) up to and including
	// the next paced piece, over and over, until a harness action becomes enabled,
	// a call returns or a rule fires. Returns false when no paced answer is active.
	passTime := func() bool {
		active := false
		for _, p := range pairs {
			if p.tr != nil {
				active = true
			}
		}
		if !active {
			return false
		}
		from, done0 := s.Now(), nDone()
		pieces := 0
		for !s.Failed() {
			var nxt *c10SlowPair
			for _, p := range pairs {
				if p.tr != nil && (nxt == nil || p.tr.nextAt < nxt.tr.nextAt) {
					nxt = p
				}
			}
			if nxt == nil {
				break
			}
			if dt := nxt.tr.nextAt - s.Now(); dt > 0 {
				s.Sleep(min(dt, time.Second))
			} else {
				emit(nxt)
				s.Quiesce()
				pieces++
			}
			feedRemote()
			checkBound()
			if nDone() != done0 || len(enabled()) > 0 {
				break
			}
		}
		// a call that waits for the per-peer lock while another one is being trickled at
		for _, c := range calls {
			if c.started && !c.done && len(c.answers) == 0 && s.Now()-c.startAt >= 2*time.Second && c.method != c10AddProvider && c.method != c10Ping {
				s.Count("probe_queued_behind_trickle")
				break
			}
		}
		s.Tracef("time passes %v -> %v, %d paced pieces sent", from, s.Now(), pieces)
		s.Count("time_advance")
		return true
	}

	// ---- main loop
	const quiet = 10 * time.Minute
	var idleFor time.Duration
	for s.Step() {
		feedRemote()
		checkReturned()
		checkBound()
		if s.Failed() || allDone() {
			break
		}
		if s.Steps > s.MaxSteps*2/3 {
			draining = true
		}
		acts := enabled()
		if len(acts) == 0 {
			if passTime() {
				idleFor = 0
				continue
			}
			// nothing but the client's own timers can make progress
			if idleFor >= quiet {
				break
			}
			s.Sleep(5 * time.Second)
			idleFor += 5 * time.Second
			continue
		}
		idleFor = 0
		s.Choose("next", acts)
	}
	feedRemote()
	checkReturned()

	// ---- bounded completion
	if !s.Failed() && !allDone() {
		if s.Steps > s.MaxSteps {
			s.Count("step_budget_exhausted")
		} else {
			var stuck []string
			for _, c := range calls {
				if c.started && !c.done {
					last := "no answer yet"
					if n := len(c.answers); n > 0 {
						last = "last answer: " + c.answers[n-1].kind
					}
					stuck = append(stuck, fmt.Sprintf("c%02d %s to %s (started at %v, %s)", c.id, c10MethodNames[c.method], c.peer.Name, c.startAt, last))
				}
			}
			if len(stuck) > 0 {
				s.Violate("call-wedged", "%d call(s) did not return although no byte has been pending or due for %v of virtual time: %s", len(stuck), quiet, strings.Join(stuck, "; "))
			}
		}
	}

	// ---- witness, measures
	nOK, nErr, nTimeout := 0, 0, 0
	for _, c := range calls {
		res := "-"
		if c.done {
			switch {
			case c.panicMsg != "":
				res = "panic"
			case c.err == nil:
				res = fmt.Sprintf("ok closer=%d provs=%d rec=%v", len(c.closer), len(c.provs), c.rec != nil)
				nOK++
			case errors.Is(c.err, dht.ErrReadTimeout):
				res = "timeout"
				nErr++
				nTimeout++
			default:
				res = "error"
				nErr++
			}
		}
		s.Tracef("c%02d %s to %s started=%v done=%v at=%v: %s", c.id, c10MethodNames[c.method], c.peer.Name, c.started, c.done, c.doneAt, res)
	}
	s.Tracef("done ok=%d err=%d streams=%d resets=%d", nOK, nErr, fab.Opened, fab.Resets)
	s.State("ok=%d err=%d timeout=%d streams=%d paced=%d", nOK, nErr, nTimeout, fab.Opened, nPaced)
	s.NonTrivial = nPaced > 0 && nOK+nErr > 0
	if fab.Opened > nPeers {
		s.Count("probe_retry_second_stream")
	}
	for _, p := range pairs {
		if len(p.reqs) > 1 {
			s.Count("probe_stream_reused")
		}
	}

	// ---- shut down
	stop = true
	for _, c := range calls {
		c.cancel()
	}
	for _, p := range s.ParkedKind("client") {
		s.Release(p, nil)
		s.Quiesce()
	}
	closeAndCensus(s, func() {
		_ = d.Close()
		_ = h.Close()
	})
	s.Finish()
}
