//go:build all || c13

package scen

// C13: what a remote peer PROPOSES when it opens an inbound stream.
//
// A remote that opens a stream does not hand the node a protocol ID; it
// proposes one or several IDs, in its order of preference, and the node's host
// answers each proposal from its current handler table (simhost.Host.Negotiate
// models the multistream muxer of a real host: handlers are asked in
// registration order, a handler registered with a match function accepts
// whatever the function accepts, the stream carries the PROPOSED ID that was
// accepted). Peers running this library only ever propose the node's exact DHT
// protocol ID; other implementations, newer revisions and misconfigured peers
// propose other IDs: another revision of the trailing version, a longer or a
// shorter ID, the same protocol of another network, another spelling.
//
// The property speaks about "inbound DHT streams", not about protocol IDs. For
// the oracle an inbound DHT stream is every inbound stream that the node's host
// handed to the DHT's stream handler, whatever ID it was negotiated under:
//   - "on switching to client mode it resets inbound DHT streams that are
//     already open"  => rule open-at-demotion-not-reset covers every such stream
//     whose protocol ID had been set when the switch happened;
//   - "a node in client mode handles no inbound DHT stream" => the client-*
//     rules cover every such stream, and a client refuses every proposal
//     (it has no handler: rule stray-handler);
//   - "in server mode it handles them" => the server-* rules likewise.
// The rules themselves never look at the ID. Which proposals a server accepts
// besides its exact ID is NOT constrained (the property does not say); on the
// unchanged tree it accepts none, so every alien proposal is refused and every
// stream is negotiated under the exact ID.
//
// The alien IDs are derived from the node's configured ID by string surgery
// only (no knowledge of what the library might accept).

import (
	"strconv"
	"strings"

	"github.com/libp2p/go-libp2p/core/protocol"

	"verif/sim"
)

// c13AlienIDs returns protocol IDs that resemble exact without being it.
func c13AlienIDs(exact protocol.ID) []protocol.ID {
	e := string(exact)
	var out []protocol.ID
	seen := map[string]bool{e: true, "": true}
	add := func(x string) {
		if !seen[x] {
			seen[x] = true
			out = append(out, protocol.ID(x))
		}
	}
	if i := strings.LastIndexByte(e, '/'); i > 0 {
		name, ver := e[:i], e[i+1:]
		comps := strings.Split(ver, ".")
		numeric := ver != ""
		for _, c := range comps {
			if _, err := strconv.Atoi(c); err != nil {
				numeric = false
			}
		}
		if numeric {
			// another revision: each component of the trailing version bumped
			// (last one first: x.y.Z+1, then x.Y+1.z, X+1.y.z)
			for ci := len(comps) - 1; ci >= 0; ci-- {
				c := append([]string(nil), comps...)
				n, _ := strconv.Atoi(c[ci])
				c[ci] = strconv.Itoa(n + 1)
				add(name + "/" + strings.Join(c, "."))
			}
			// other values of the last component, one of them with two digits,
			// one with a leading zero
			for _, v := range []string{"7", "12", "0" + comps[len(comps)-1]} {
				c := append([]string(nil), comps...)
				c[len(c)-1] = v
				add(name + "/" + strings.Join(c, "."))
			}
			if len(comps) > 1 {
				add(name + "/" + strings.Join(comps[:len(comps)-1], ".")) // shorter version
			}
			add(e + ".1")   // longer version
			add(e + "-rc1") // pre-release tag
		}
		add(name) // a prefix of the ID
	}
	add(e + "/x") // the ID as a prefix of a longer one
	add(e + "/1.0.0")
	add(strings.ToUpper(e))
	add(strings.TrimPrefix(e, "/"))
	// the same protocol of another network, with and without an extension
	if parts := strings.SplitN(strings.TrimPrefix(e, "/"), "/", 2); len(parts) == 2 {
		add("/ipfs/" + parts[1])
		add("/" + parts[0] + "/ext/" + parts[1])
	}
	return out
}

// c13DrawProposals draws the list of IDs a remote proposes for a new stream.
// Value 0 of the first draw is the benign choice: the exact ID alone.
// alienFirst reports that an ID other than the exact one is proposed before
// the exact one (or without it).
func c13DrawProposals(s *sim.Sim, exact protocol.ID, aliens []protocol.ID) (props []protocol.ID, alienFirst bool) {
	if !s.Chance("alien-proposals", 2, 5) {
		return []protocol.ID{exact}, false
	}
	s.Count("fault_alien_proposal")
	menu := append([]protocol.ID{exact}, aliens...)
	n := s.Range("n-proposals", 1, 3)
	sawExact := false
	for i := 0; i < n; i++ {
		p := menu[s.Draw("proposal", len(menu))]
		props = append(props, p)
		if p == exact {
			sawExact = true
		} else if !sawExact {
			alienFirst = true
		}
	}
	return props, alienFirst
}

// c13CountNegotiation registers what a negotiation with alien proposals came
// to. served: the model's mode is server at this point; id: negotiated ID
// ("" = refused).
func c13CountNegotiation(s *sim.Sim, exact, id protocol.ID, props []protocol.ID, alienFirst, hasHandler bool) {
	if len(props) == 1 && props[0] == exact {
		return
	}
	switch {
	case id == "" && hasHandler:
		s.Count("probe_alien_refused_by_server") // the node serves, but not under any of these IDs
	case id == "":
		s.Count("probe_alien_refused_by_client")
	case id == exact && alienFirst:
		s.Count("probe_alien_then_exact_negotiated") // the remote fell back to the exact ID
	case id != exact:
		// never on the unchanged tree; not a violation by itself (see above)
		s.Count("alien_id_negotiated")
	}
}

func c13ProposalString(props []protocol.ID) string {
	ss := make([]string, len(props))
	for i, p := range props {
		ss[i] = strconv.Quote(string(p))
	}
	return "[" + strings.Join(ss, " ") + "]"
}
