//go:build all || c03

package scen

// C03, scenario estimator-overlap: operations that complete their lookups at
// about the same time.
//
// "Every routing operation ... returns within bounded time once every contacted
// peer has answered ... whatever ... the order of their responses", quantified
// "for every interleaving of response/failure/cancellation events". The other
// C03 scenarios release one reply per step and let the operation that received
// it run until it blocks again, so the tails of two operations (what a lookup
// does after its last peer answered: hand its result to the network-size
// estimator, read the estimate, stamp the routing table, store) never
// interleave. Here they do: the lock calls of the repository's netsize package
// are yield points (sim.YieldSites; the instrumenter turns repository lock calls
// into scheduler parks), so the scheduler decides in which order the
// operations that are inside the estimator at the same time proceed.
//
// World: the standard client on H1, a healthy network of more than K peers that
// all know each other (every completed lookup returns exactly K peers, which
// is what the estimator accepts), the estimator fed by real warm-up lookups
// until the public NetworkSize() reports an estimate (no constant mirrored).
// Then 2-4 operations that complete a lookup (GetClosestPeers, PutValue,
// classic Provide) run concurrently; every reply, every dial and every yield is
// one scheduler decision. No faults, no cancellation. When all have returned,
// one more lookup is run to its end (an operation that starts after the
// overlap).
//
// Rules (those of c03.go, nothing new):
//
//	no-return   every parked call was answered, every yield released, 5 min of
//	            virtual time passed with nothing left to answer - and an
//	            operation (one of the concurrent ones, or the one started after
//	            them) has not returned: "returns within bounded time once every
//	            contacted peer has answered"
//	panic, background-lingers, close-hang, leak: as in c03.go
//
// Contended instrumented locks outside the yield sites are handed over as in
// the default mode (first waiter in id order, no decision): settle.
//
// Probes: probe_estimator_fed, probe_estimator_calls_overlapped (two operations
// parked at estimator yield points at the same quiescent point),
// probe_epilogue_lookup_returned. (The statistic estimator_lock_waited - an
// operation found the estimator's lock taken and waited for it - is not a
// registered probe: no goroutine parks while it holds that lock, so on a
// correct tree nobody ever waits.)

import (
	"context"
	"fmt"
	"sort"
	"strings"
	"time"

	dht "github.com/libp2p/go-libp2p-kad-dht"
	"github.com/libp2p/go-libp2p-kad-dht/records"
	record "github.com/libp2p/go-libp2p-record"
	"github.com/libp2p/go-libp2p/core/peer"

	"verif/sim"
	"verif/simnet"
)

func init() {
	sim.Register(&sim.Scenario{Prop: "C03", Name: "estimator-overlap", Weight: 1,
		Real: []string{"IpfsDHT.GetClosestPeers/PutValue/Provide (classic)", "query.go state machine incl. follow-up phase", "netsize estimator (Track / NetworkSize, fed by real warm-up lookups; its lock calls are yield points)", "kbucket routing table", "ProtocolMessenger"},
		Stub: []string{"host.Host/network (simhost)", "pb.MessageSender (level A, simnet.Sender)", "remote peers (scripted, all honest)"},
		Faults: []string{"probe_estimator_fed", "probe_estimator_calls_overlapped", "probe_epilogue_lookup_returned", "lock_yield",
			"probe_op_GetClosestPeers", "probe_op_PutValue", "probe_op_Provide", "probe_background_ended_by_itself"},
		Run: runC03Estimator})
}

const c03EstimatorPkg = "netsize/"

// c03EstimatorSites: every possible lock site of the estimator's source file
// (sites are "<file>:<line>"; naming all lines keeps line numbers out of the
// scenario).
var c03EstimatorSites = func() []string {
	var out []string
	for i := 1; i < 1000; i++ {
		out = append(out, fmt.Sprintf("%snetsize.go:%d", c03EstimatorPkg, i))
	}
	return out
}()

func runC03Estimator(s *sim.Sim) {
	s.MaxSteps = 700
	dht.LookupEventBufferSize = 256
	c := c03cfg{Kinds: []int{c03GetClosest, c03GetClosest, c03PutValue, c03Provide}}
	c.K = s.Range("k", 1, 4)
	c.N = c.K + s.Range("extra", 1, 8)
	c.Alpha = s.Range("alpha", 1, 3)
	c.Beta = s.Range("beta", 1, c.K)
	c.NOps = s.Range("ops", 2, 4)

	u := simnet.NewUniverse(uint64(s.Draw("universe", 1<<16)), c.N)
	rng := newSubRng(s, "world")
	h, err := newH1(s, u, c.K, c.Alpha, c.Beta, dht.Validator(record.NamespacedValidator{"v": rankValidator{}}))
	if err != nil {
		panic(err)
	}
	shuf := newSubRng(s, "shuffle")
	det := func(n int, swap func(i, j int)) {
		for i := n - 1; i > 0; i-- {
			swap(i, shuf.Intn(i+1))
		}
	}
	dht.VerifSetShuffle(h.DHT, det)
	if pm, ok := h.DHT.ProviderStore().(*records.ProviderManager); ok {
		records.VerifSetShuffle(pm, det)
	}
	w := &c03world{s: s, h: h, cfg: c, peers: map[peer.ID]*c03peer{}, byKey: map[string]*c03op{}, byTag: map[string]*c03op{}, seen: map[string]time.Duration{}}
	d := h.DHT
	w.api = c03api{GetClosestPeers: d.GetClosestPeers, PutValue: d.PutValue, Provide: d.Provide}
	w.snds = []*simnet.Sender{h.Snd}
	w.closeSUT = func() {
		_ = h.DHT.Close()
		_ = h.Host.Close()
	}
	w.drainBackground = true
	real := u.Peers[:c.N]
	for _, p := range real {
		b := &Behaviour{}
		for _, q := range real {
			if q != p {
				b.Knows = append(b.Knows, q)
			}
		}
		h.Beh[p.ID] = b
		w.peers[p.ID] = &c03peer{p: p, values: map[string][]byte{}, provs: map[string][]*simnet.Peer{}}
	}
	usedTags := map[string]bool{}
	for i := 0; i < c.NOps; i++ {
		w.ops = append(w.ops, w.genOp(i, rng, usedTags))
	}
	h.Seed(real)
	w.fed = w.warmup()
	var kinds []string
	for _, op := range w.ops {
		kinds = append(kinds, op.name())
	}
	s.Summary["cfg"] = fmt.Sprintf("N=%d K=%d alpha=%d beta=%d fed=%v ops=%s", c.N, c.K, c.Alpha, c.Beta, w.fed, strings.Join(kinds, ","))
	s.Tracef("world estimator N=%d K=%d a=%d b=%d fed=%v ops=%s", c.N, c.K, c.Alpha, c.Beta, w.fed, strings.Join(kinds, ","))
	if s.Failed() || !w.fed {
		// (not expected on a healthy network of more than K peers)
		h.closeAndCensus()
		s.Finish()
		return
	}
	s.Count("probe_estimator_fed")

	for _, op := range w.ops {
		w.spawn(op)
	}
	s.Quiesce()
	w.baseline = c03Census()

	// from here on the estimator's lock calls are scheduler decisions
	s.LockSched = true
	for _, site := range c03EstimatorSites {
		s.YieldSites[site] = true
	}

	for s.Step() {
		w.settle()
		w.observe()
		if s.Failed() || w.allFinished() {
			break
		}
		acts, _ := w.actions()
		acts = append(acts, w.yieldActions()...)
		if len(acts) == 0 {
			break // nothing enabled: the drain below advances time and judges
		}
		s.Choose("next", acts)
	}
	if !s.Failed() {
		s.Tracef("drain")
		w.drainSettled(w.allFinished)
		w.observe()
	}
	if !s.Failed() {
		w.judge()
	}
	if !s.Failed() {
		// an operation that starts after the overlap
		ep := h.Ops.Go(s, "epilogue", func() (any, error) {
			return h.DHT.GetClosestPeers(sim.WithTag(context.Background(), "ep"), "c03-estimator-epilogue")
		})
		w.drainSettled(func() bool { return ep.Done })
		switch {
		case ep.Panic != "":
			s.Violate("panic", "GetClosestPeers started after the concurrent operations panicked: %s | %s", firstLine(ep.Panic), c03Site(ep.Panic))
		case !ep.Done:
			s.Violate("no-return", "GetClosestPeers started after %d concurrent operations (%s) had all returned: every parked call was answered and %v of virtual time passed with nothing left to answer, yet it has not returned%s",
				len(w.ops), strings.Join(kinds, ","), c03Bound, w.lockWaiters())
		default:
			s.Count("probe_epilogue_lookup_returned")
		}
	}
	// back to plain mutex behaviour for the census and the teardown
	s.LockSched = false
	s.YieldSites = map[string]bool{}
	s.Quiesce()
	if !s.Failed() {
		w.backgroundCensus()
	}
	w.teardown()
	s.Finish()
}

// settle waits for quiescence and hands contended instrumented locks over the
// way sim.Quiesce does when the scenario does not schedule locks (first enabled
// waiter in id order, no decision drawn). Yields stay parked: they are the
// scheduler's.
func (w *c03world) settle() {
	s := w.s
	for n := 0; n < 10000; n++ {
		s.Quiesce()
		var pick *sim.Action
		acts := s.LockActions()
		sort.SliceStable(acts, func(i, j int) bool { return acts[i].ID < acts[j].ID })
		for i := range acts {
			if strings.HasPrefix(acts[i].ID, "lock:") {
				pick = &acts[i]
				break
			}
		}
		if pick == nil {
			break
		}
		if strings.HasPrefix(pick.ID, "lock:"+c03EstimatorPkg) {
			s.Count("estimator_lock_waited")
		}
		pick.Do()
	}
	if len(s.ParkedKind("yield")) > 1 {
		s.Count("probe_estimator_calls_overlapped")
	}
}

func (w *c03world) yieldActions() []sim.Action {
	var out []sim.Action
	for _, a := range w.s.LockActions() {
		if strings.HasPrefix(a.ID, "yield:") {
			out = append(out, a)
		}
	}
	return out
}

// lockWaiters describes the goroutines waiting for an instrumented lock (for
// violation messages).
func (w *c03world) lockWaiters() string {
	var ids []string
	for _, p := range w.s.ParkedKind("lock") {
		ids = append(ids, p.ID)
	}
	if len(ids) == 0 {
		return ""
	}
	return "; waiting for a lock nobody releases: " + strings.Join(ids, ", ")
}

// drainSettled: the drain of c03.go for a run with scheduled yields - every
// parked call and every yield is released in canonical order without drawing
// until done() holds; virtual time moves only when nothing can be released, by
// at most c03Bound in total.
func (w *c03world) drainSettled(done func() bool) {
	s := w.s
	var waited time.Duration
	jump := time.Second
	for n := 0; n < 6000; n++ {
		w.settle()
		w.pump()
		if s.Failed() || done() {
			return
		}
		if ys := w.yieldActions(); len(ys) > 0 {
			sort.SliceStable(ys, func(i, j int) bool { return ys[i].ID < ys[j].ID })
			s.Tracef("drain %s", ys[0].ID)
			ys[0].Do()
			continue
		}
		var next *sim.Parked
		for _, p := range s.Parked() {
			if p.Kind == "client" || p.Kind == "consume" || p.Kind == "dial" || p.Kind == "rpc" {
				next = p
				break
			}
		}
		if next != nil {
			w.answerNext([]*sim.Parked{next}, "drain")
			continue
		}
		if waited >= c03Bound {
			return
		}
		s.Sleep(jump)
		waited += jump
		if jump < 30*time.Second {
			jump *= 2
		}
	}
}
