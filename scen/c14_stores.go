//go:build all || c14

package scen

// C14 scenarios for the record stores and the keystores, each directly over
// the simulated datastore (every operation parks): "provider-manager",
// "value-store", "keystore", "resettable-keystore".
//
// value-store: besides the three records the workload reads and writes, the
// store holds a drawn backlog of further records ("backlog": 0, 2, 5 or 12)
// that age with the rest. A sweep over such a store is in the middle of a long
// result set when Close arrives, so that whatever serves that result set on
// the sweep's behalf - the datastore's query machinery runs on goroutines the
// sweep started (simds answers a query through go-datastore's own result
// helpers, as the in-memory datastores do) - still has entries to hand over.
// No new rule: clause "Close ... returns only after all goroutines the
// instance started have exited" as encoded by close-early, overlap-close-early
// and leak of c14.go, whose census counts every goroutine of the bubble that
// harness code did not create, whichever package started it. Class exposed:
// sweeps / scans that leave a result set open on one of their exit paths
// (cancellation, error, early return).
//
// resettable-keystore, factory mode: the per-slot datastores are created by
// the keystore through the factory, so it owns and closes them; they are
// wrapped in c14OwnedDS (rules owned-ds-closed-in-use / owned-ds-use-after-
// close, see c14_ownedds.go). Close is aimed, with a drawn chance, at the n-th
// datastore call made under a reset's context (every phase of a reset is a
// likely target, not only the long bulk phase), and the drain serves cancelled
// and live calls in a drawn order (cancel-last: a scan inside the datastore
// may notice its cancellation only after Close's own writes were served).

//
// keystore, resettable-keystore: the caller's context of an operation may end
// while the operation is in flight (drawn, "abandon"; scheduler choice
// "abandon>oNN", c14Flow.mayAbandon): either while the worker executes it -
// the worker's datastore call made on the caller's behalf is parked - or while
// it waits behind the busy worker. A caller that stops waiting is the ordinary
// way in which an operation "fails" on a slow disk, and the instant at which
// it does so relative to the worker's progress is part of "every instant at
// which Close can interleave with running operations". No new rule: "those
// operations finish or fail without ... deadlock" and "Close ... returns only
// after all goroutines the instance started have exited" as encoded by op-hang
// (the abandoned operation itself and every later one must return), close-hang
// / second-close-hang (Close after - or while - the worker finishes work
// nobody waits for any more), close-early and leak of c14.go. Class exposed:
// hand-over protocols between a caller and the worker (or any goroutine the
// instance runs) that only work while the caller keeps listening - a reply, an
// acknowledgement or a buffer slot the worker waits for after the caller left.
// Not generated: ending the context of a ResetCids (its select races are kept
// out of the menu, see below) and ending a context once Close was issued (the
// caller's select then has two ready cases, HARNESS pitfall 3).

import (
	"context"
	"fmt"
	"time"

	"github.com/ipfs/go-cid"
	ds "github.com/ipfs/go-datastore"
	"github.com/ipfs/go-libdht/kad/key/bitstr"
	record "github.com/libp2p/go-libp2p-record"
	recpb "github.com/libp2p/go-libp2p-record/pb"
	"github.com/libp2p/go-libp2p/p2p/host/peerstore/pstoremem"
	mh "github.com/multiformats/go-multihash"

	"github.com/libp2p/go-libp2p-kad-dht/provider/keystore"
	"github.com/libp2p/go-libp2p-kad-dht/records"

	"verif/sim"
	"verif/simds"
	"verif/simnet"
)

func init() {
	stub := []string{"datastore (simds: every operation parks; drawn I/O errors)"}
	sim.Register(&sim.Scenario{Prop: "C14", Name: "provider-manager", Weight: 2, Run: runC14ProvMgr,
		Real:   []string{"records.NewProviderManager / gcLoop / collectExpired / Close", "AddProvider / GetProviders in flight"},
		Stub:   append([]string{"peerstore (real pstoremem)"}, stub...),
		Faults: append(append([]string{"probe_close_during_gc", "probe_gc_disabled", "fault_ds_error_put", "fault_ds_error_query", "fault_ds_error_delete"}, c14OverlapFaults...), c14CommonFaults...),
	})
	sim.Register(&sim.Scenario{Prop: "C14", Name: "value-store", Weight: 2, Run: runC14ValueStore,
		Real:   []string{"records.NewValueStore / StartGC / gcLoop / sweep / Close", "Put / Get in flight"},
		Stub:   append([]string{"validator (harness rank validator)"}, stub...),
		Faults: append(append([]string{"probe_close_during_gc", "probe_close_during_gc_with_backlog", "probe_gc_disabled", "probe_gc_ctx_cancelled_first", "fault_ds_error_put", "fault_ds_error_get", "fault_ds_error_query", "fault_ds_error_delete"}, c14OverlapFaults...), c14CommonFaults...),
	})
	sim.Register(&sim.Scenario{Prop: "C14", Name: "keystore", Weight: 2, Run: func(s *sim.Sim) { runC14Keystore(s, false) },
		Real:   []string{"keystore.NewKeystore / worker / Close (size persisted after the worker exited)", "Put/Get/Delete/Empty/Size/ContainsPrefix/CountKeysUpTo in flight or queued behind the worker"},
		Stub:   stub,
		Faults: append(append(append([]string{"probe_close_op_queued", "fault_ds_error_commit", "fault_ds_error_query", "fault_ds_error_has"}, c14AbandonFaults...), c14OverlapFaults...), c14CommonFaults...),
	})
	sim.Register(&sim.Scenario{Prop: "C14", Name: "resettable-keystore", Weight: 3, Run: func(s *sim.Sim) { runC14Keystore(s, true) },
		Real:   []string{"keystore.NewResettableKeystore / worker / ResetCids (phases A-C, cleanup) / Close (waits for in-flight alt-datastore write)", "shared-datastore and factory mode", "keystore operations in flight, Puts buffered during a reset (back-pressure)"},
		Stub:   append([]string{"datastore factory (simds instances)"}, stub...),
		Faults: append(append(append([]string{"probe_close_during_reset", "probe_close_op_queued", "probe_cfg_factory_mode", "probe_reset_completed", "probe_close_during_reset_scan", "probe_close_aimed_at_reset_op", "probe_owned_ds_closed", "probe_abandoned_during_reset", "fault_ds_error_commit", "fault_ds_error_query", "fault_ds_error_has"}, c14AbandonFaults...), c14OverlapFaults...), c14CommonFaults...),
	})
}

// c14AbandonFaults: counters of the keystore scenarios' "the caller's context
// ends while its operation is in flight" choice.
var c14AbandonFaults = []string{"fault_caller_ctx_ended", "probe_abandoned_op_at_datastore", "probe_abandoned_op_queued", "probe_close_after_abandon", "probe_close_worker_busy_for_abandoned_op", "probe_op_inflight_after_abandon"}

// untaggedDSParked: a datastore operation is parked that carries no client
// tag, i.e. it was issued by a background loop.
func c14BackgroundDSParked(s *sim.Sim) bool {
	for _, p := range s.ParkedKind("ds") {
		if !containsStr(p.ID, "@") {
			return true
		}
	}
	return false
}

func runC14ProvMgr(s *sim.Sim) {
	s.MaxSteps = 500
	u := simnet.NewUniverse(uint64(s.Draw("universe", 1<<16)), 3)
	ps, err := pstoremem.NewPeerstore()
	if err != nil {
		panic(err)
	}
	d := simds.New(s, "ds")
	cleanup := []time.Duration{0, time.Minute, 5 * time.Minute}[s.Draw("cleanup", 3)]
	validity := []time.Duration{10 * time.Minute, time.Hour}[s.Draw("validity", 2)]
	w := &c14World{s: s, u: u, dsFault: []int{0, 10}[s.Draw("ds-faults", 2)]}

	f := newC14Flow(s, "provider-manager")
	f.answer = w.answer
	f.dts = []time.Duration{time.Second, time.Minute, 5 * time.Minute, 11 * time.Minute}
	f.baseline()

	pm, err := records.NewProviderManager(u.Self.ID, ps, d, records.CleanupInterval(cleanup), records.ProvideValidity(validity), records.ProviderAddrTTL(time.Hour))
	if err != nil {
		panic(err)
	}
	if cleanup == 0 {
		s.Count("probe_gc_disabled")
	}
	f.strict = true
	f.constructed(false)
	// prefill through the store itself, then let some of it age
	for i, ni := 0, s.Range("prefill", 0, 4); i < ni; i++ {
		_ = pm.AddProvider(context.Background(), c14MH(i%3), u.Peers[i%len(u.Peers)].AddrInfo())
	}
	if s.Chance("aged", 1, 2) {
		s.Sleep(validity + time.Second)
	}
	d.ParkOp = func(op, key string) bool { return true }
	s.Summary["cfg"] = fmt.Sprintf("cleanup=%v validity=%v dsFault=%d", cleanup, validity, w.dsFault)

	for i, ni := 0, s.Range("ops", 1, 5); i < ni; i++ {
		k := c14MH(s.Draw("key", 3))
		p := u.Peers[s.Draw("prov", len(u.Peers))]
		if s.Chance("is-get", 1, 2) {
			f.client("getproviders", func(ctx context.Context) (any, error) { return pm.GetProviders(ctx, k) })
		} else {
			f.client("addprovider", func(ctx context.Context) (any, error) { return nil, pm.AddProvider(ctx, k, p.AddrInfo()) })
		}
	}
	f.atClose = func() {
		if c14BackgroundDSParked(s) {
			s.Count("probe_close_during_gc")
		}
	}
	f.closeFn = pm.Close
	f.overlapOK = true
	f.closeAt = s.Range("close-at", 0, 25)
	f.interleave = s.Draw("interleave", 8)
	f.run()
	c14Teardown(s, f, func() { _ = ps.Close() })
	s.Finish()
}

func runC14ValueStore(s *sim.Sim) {
	s.MaxSteps = 500
	d := simds.New(s, "ds")
	maxAge := []time.Duration{0, 10 * time.Minute}[s.Draw("max-age", 2)]
	gcEvery := []time.Duration{0, time.Minute, 7 * time.Minute}[s.Draw("gc-interval", 3)]
	startGC := s.Chance("start-gc", 3, 4)
	var validator record.Validator = rankValidator{}
	if s.Chance("namespaced", 2, 3) {
		validator = record.NamespacedValidator{"v": rankValidator{}}
	}
	w := &c14World{s: s, dsFault: []int{0, 10}[s.Draw("ds-faults", 2)]}

	f := newC14Flow(s, "value-store")
	f.answer = w.answer
	f.dts = []time.Duration{time.Second, time.Minute, 7 * time.Minute, 11 * time.Minute}
	f.baseline()

	vs := records.NewValueStore(d, validator, maxAge)
	gcCtx, gcCancel := context.WithCancel(context.Background())
	defer gcCancel()
	if startGC {
		vs.StartGC(gcCtx, gcEvery)
		vs.StartGC(gcCtx, gcEvery) // at most one sweeper
	}
	if !startGC || maxAge <= 0 || gcEvery <= 0 {
		s.Count("probe_gc_disabled")
	}
	f.strict = true
	f.constructed(false)
	keys := []string{"/v/a1", "/v/b1", "/v/c2"}
	for i, ni := 0, s.Range("prefill", 0, 3); i < ni; i++ {
		_ = vs.Put(context.Background(), keys[i], &recpb.Record{Key: []byte(keys[i]), Value: rankValue(1, time.Time{}, keys[i])})
	}
	// The size of the store is an input like any other: a backlog of further
	// records (nobody reads or writes them during the run) that a sweep has to
	// walk through. A sweep over a long result set is still in the middle of it
	// when Close arrives - whatever serves that result set on the store's behalf
	// (the datastore's query machinery runs on goroutines the sweep started) is
	// then part of "all goroutines the instance started" (rules close-early,
	// overlap-close-early, leak of c14.go).
	backlog := []int{0, 2, 5, 12}[s.Draw("backlog", 4)]
	for i := 0; i < backlog; i++ {
		k := fmt.Sprintf("/v/backlog-%02d", i)
		_ = vs.Put(context.Background(), k, &recpb.Record{Key: []byte(k), Value: rankValue(1, time.Time{}, k)})
	}
	d.Poke("/providers/xyz", []byte("foreign"))
	if s.Chance("aged", 1, 2) {
		s.Sleep(10*time.Minute + time.Second)
	}
	d.ParkOp = func(op, key string) bool { return true }
	s.Summary["cfg"] = fmt.Sprintf("maxAge=%v gc=%v startGC=%v dsFault=%d backlog=%d", maxAge, gcEvery, startGC, w.dsFault, backlog)

	for i, ni := 0, s.Range("ops", 1, 5); i < ni; i++ {
		k := keys[s.Draw("key", len(keys))]
		rank := s.Draw("rank", 4)
		if s.Chance("is-get", 1, 2) {
			f.client("get", func(ctx context.Context) (any, error) { return vs.Get(ctx, k) })
		} else {
			f.client("put", func(ctx context.Context) (any, error) {
				return nil, vs.Put(ctx, k, &recpb.Record{Key: []byte(k), Value: rankValue(rank, time.Time{}, k)})
			})
		}
	}
	// the sweeper's context may be cancelled by its owner before Close
	cancelFirst := s.Chance("cancel-gc-ctx-first", 1, 4)
	f.atClose = func() {
		if c14BackgroundDSParked(s) {
			s.Count("probe_close_during_gc")
			if backlog >= 5 {
				s.Count("probe_close_during_gc_with_backlog")
			}
		}
		if cancelFirst {
			s.Count("probe_gc_ctx_cancelled_first")
			gcCancel()
			s.Quiesce()
		}
	}
	f.closeFn = vs.Close
	f.overlapOK = true
	f.closeAt = s.Range("close-at", 0, 25)
	f.interleave = s.Draw("interleave", 8)
	f.run()
	c14Teardown(s, f)
	s.Finish()
}

func runC14Keystore(s *sim.Sim, resettable bool) {
	s.MaxSteps = 700
	name := "keystore"
	if resettable {
		name = "resettable-keystore"
	}
	d := simds.New(s, "ds")
	w := &c14World{s: s, dsFault: []int{0, 12}[s.Draw("ds-faults", 2)]}
	batch := []int{1, 2, 64}[s.Draw("batch", 3)]
	prefixBits := []int{0, 8, 16}[s.Draw("prefix-bits", 3)]
	park := func(op, key string) bool { return true }

	f := newC14Flow(s, name)
	f.answer = w.answer
	f.dts = nil // virtual time only moves when nothing else can happen (see ResetCids' ticker)
	// Callers may give up (see the header comment): an operation other than a
	// reset whose own datastore call is parked with a live context (the worker
	// is executing it), or which is in flight while some other datastore call
	// is parked (it waits behind the busy worker, or - a Put during a reset -
	// for room in the reset's buffer while the reset is at its datastore).
	// In each of these states the caller and the worker have exactly one ready
	// case to leave their selects through.
	if s.Chance("abandon", 2, 3) {
		ownDS := func(c *c14Client) (own, other bool) {
			for _, p := range s.ParkedKind("ds") {
				if containsStr(p.ID, "@"+c.tag) {
					own = own || !p.Cancelled()
				} else {
					other = true
				}
			}
			return
		}
		f.mayAbandon = func(c *c14Client) bool {
			if c.name == "reset" {
				return false
			}
			own, other := ownDS(c)
			return own || other
		}
		f.onAbandon = func(c *c14Client) {
			if own, _ := ownDS(c); own {
				s.Count("probe_abandoned_op_at_datastore")
			} else {
				s.Count("probe_abandoned_op_queued")
			}
			for _, x := range f.clients {
				if x.name == "reset" && x.started && !x.op.Done {
					s.Count("probe_abandoned_during_reset")
					break
				}
			}
		}
		after := false
		f.extra = func() []sim.Action {
			for _, c := range f.clients {
				if !after && f.abandons > 0 && c.started && !c.abandoned && !c.op.Done && c.name != "reset" {
					after = true
					s.Count("probe_op_inflight_after_abandon")
				}
			}
			return nil
		}
	}
	f.baseline()

	var ks keystore.Keystore
	var rks *keystore.ResettableKeystore
	var factoryDS []*c14OwnedDS
	factory := false
	if resettable {
		factory = s.Chance("factory", 1, 2)
		opts := []keystore.ResettableKeystoreOption{
			keystore.KeystoreOption(keystore.WithBatchSize(batch), keystore.WithPrefixBits(prefixBits)),
			keystore.WithResetBufferCapacity([]int{1, 2, 1 << 10}[s.Draw("buf-cap", 3)]),
		}
		if factory {
			s.Count("probe_cfg_factory_mode")
			opts = append(opts, keystore.WithDatastoreFactory(func(suffix string) (ds.Batching, error) {
				x := simds.New(s, fmt.Sprintf("ks%s.%d", suffix, len(factoryDS)))
				x.ParkOp = park
				o := newC14OwnedDS(x)
				factoryDS = append(factoryDS, o)
				return o, nil
			}, func(string) error { return nil }))
		}
		var err error
		rks, err = keystore.NewResettableKeystore(d, opts...)
		if err != nil {
			panic(err)
		}
		ks = rks
	} else {
		var err error
		ks, err = keystore.NewKeystore(d, keystore.WithBatchSize(batch), keystore.WithPrefixBits(prefixBits))
		if err != nil {
			panic(err)
		}
	}
	// the worker reads the persisted size before it serves anything
	for i := 0; i < 20; i++ {
		s.Quiesce()
		ps := s.ParkedKind("ds")
		if len(ps) == 0 {
			break
		}
		s.Release(ps[0], nil)
	}
	d.ParkOp = park
	f.strict = true
	f.constructed(false)
	s.Summary["cfg"] = fmt.Sprintf("resettable=%v factory=%v batch=%d prefixBits=%d dsFault=%d", resettable, factory, batch, prefixBits, w.dsFault)

	pick := func(n int) []mh.Multihash {
		var out []mh.Multihash
		for i := 0; i < n; i++ {
			out = append(out, c14MH(s.Draw("mh", 8)))
		}
		return out
	}
	prefixes := []bitstr.Key{"", "0", "1", "01"}
	nOps := s.Range("ops", 1, 5)
	for i := 0; i < nOps; i++ {
		switch s.Draw("op", 7) {
		case 0, 1:
			keys := pick(s.Range("nkeys", 1, 4))
			f.client("put", func(ctx context.Context) (any, error) { return ks.Put(ctx, keys...) })
		case 2:
			p := prefixes[s.Draw("prefix", len(prefixes))]
			f.client("get", func(ctx context.Context) (any, error) { return ks.Get(ctx, p) })
		case 3:
			keys := pick(s.Range("nkeys", 1, 3))
			f.client("delete", func(ctx context.Context) (any, error) { return nil, ks.Delete(ctx, keys...) })
		case 4:
			p := prefixes[s.Draw("prefix", len(prefixes))]
			if s.Chance("count", 1, 2) {
				f.client("count", func(ctx context.Context) (any, error) { return ks.CountKeysUpTo(ctx, p, 2) })
			} else {
				f.client("contains", func(ctx context.Context) (any, error) { return ks.ContainsPrefix(ctx, p) })
			}
		case 5:
			f.client("size", func(ctx context.Context) (any, error) { return ks.Size(ctx) })
		default:
			f.client("empty", func(ctx context.Context) (any, error) { return nil, ks.Empty(ctx) })
		}
	}

	// resets: the keys arrive one at a time from a feeder the scheduler owns
	var resets []*c14Client
	// The worker selects over its request channel, its reset-operation channel
	// and its close channel, and ResetCids selects over its key channel, the
	// keystore's done channel and its context. With two of those ready at once
	// the Go runtime picks at random (every outcome is legal, none replayable).
	// The schedule menu keeps out of such states:
	//   - a reset starts only while the worker is idle (its start message is
	//     taken at once), other operations run one at a time during a reset;
	//   - a key (or the end of the key stream) is offered only while no
	//     datastore operation is parked (ResetCids then sits in its key select
	//     and takes the offer within the step), and never once the flow closes;
	//   - nothing is started and Close is not issued while a reset may be
	//     waiting for the busy worker with its clean-up message;
	//   - once Close was issued the worker's current operation is released
	//     before the reset's own datastore work.
	eofDone := make([]bool, 2)
	outstanding := func() (normal, reset int) {
		for _, c := range f.clients {
			if c.started && !c.op.Done {
				if c.name == "reset" {
					reset++
				} else {
					normal++
				}
			}
		}
		return
	}
	if resettable {
		hasDS := func(tag string) (own, other bool) {
			for _, p := range s.ParkedKind("ds") {
				if containsStr(p.ID, "@"+tag) {
					own = true
				} else {
					other = true
				}
			}
			return
		}
		mayWait := func() bool {
			for i, c := range resets {
				if !c.started || c.op.Done {
					continue
				}
				own, other := hasDS(c.tag)
				if own || !other {
					continue // busy itself, or the worker is idle
				}
				if w.dsFault == 0 && !eofDone[i] {
					continue // without I/O errors a reset reaches its clean-up only after the key stream ended
				}
				return true
			}
			return false
		}
		f.mayStart = func(c *c14Client) bool {
			n, r := outstanding()
			if c.name == "reset" {
				return n == 0 && len(s.ParkedKind("ds")) == 0
			}
			if r == 0 {
				return true
			}
			// during a reset: only while the worker does nothing for another
			// non-reset operation (it keeps working after it answered a failed
			// write) and no reset may be waiting for it
			for _, p := range s.ParkedKind("ds") {
				if f.prio(p) == 0 {
					return false
				}
			}
			return n == 0 && !mayWait()
		}
		f.mayClose = func() bool { return !mayWait() }
		f.prio = func(p *sim.Parked) int {
			if p.Kind == "feed" {
				return 1
			}
			for _, c := range resets {
				if containsStr(p.ID, "@"+c.tag) {
					return 1
				}
			}
			return 0
		}
		f.enabled = func(p *sim.Parked) bool {
			return p.Kind != "feed" || len(s.ParkedKind("ds")) == 0
		}
		f.answer = func(p *sim.Parked, drain bool) {
			if p.Kind == "feed" && f.closing {
				s.Release(p, "stop")
				return
			}
			w.answer(p, drain)
		}
	}
	if resettable {
		for r, nr := 0, s.Range("resets", 1, 2); r < nr; r++ {
			r := r
			cids := make([]cid.Cid, s.Range("reset-keys", 0, 5))
			for i := range cids {
				cids[i] = cid.NewCidV1(cid.Raw, c14MH(s.Draw("mh", 8)))
			}
			ch := make(chan cid.Cid)
			over := make(chan struct{})
			c := f.client("reset", func(ctx context.Context) (any, error) {
				defer close(over)
				// feeder: harness goroutine; every key is one scheduler decision
				f.ops.Go(s, "feeder", func() (any, error) {
					defer close(ch)
					for i, c := range cids {
						if out, _ := s.Park("feed", fmt.Sprintf("r%d:%d", r, i), nil, nil); out != nil {
							<-over // no more keys once the flow is closing
							return nil, nil
						}
						select {
						case ch <- c:
						case <-over:
							return nil, nil
						}
					}
					if out, _ := s.Park("feed", fmt.Sprintf("r%d:eof", r), nil, nil); out != nil {
						<-over
						return nil, nil
					}
					eofDone[r] = true
					return nil, nil
				})
				return nil, rks.ResetCids(ctx, ch)
			})
			resets = append(resets, c)
		}
	}
	f.atClose = func() {
		if f.abandons > 0 {
			s.Count("probe_close_after_abandon")
			busy := false
			for _, c := range f.clients {
				for _, p := range s.ParkedKind("ds") {
					busy = busy || (c.abandoned && containsStr(p.ID, "@"+c.tag))
				}
			}
			if busy {
				// the worker is still at the datastore for a caller that left
				s.Count("probe_close_worker_busy_for_abandoned_op")
			}
		}
		for _, c := range resets {
			if c.started && !c.op.Done {
				s.Count("probe_close_during_reset")
			} else if c.started && c.op.Done && c.op.Err == nil {
				s.Count("probe_reset_completed")
			}
		}
		// an operation waiting behind the busy worker
		busy := 0
		for _, c := range f.clients {
			if c.started && !c.op.Done && c.name != "reset" {
				busy++
			}
		}
		if busy > 1 {
			s.Count("probe_close_op_queued")
		}
		// Close meets a reset inside the key scan of the slot it is filling
		// (factory mode: a store that Close itself is going to close)
		for _, c := range resets {
			for _, o := range factoryDS {
				if c.started && !c.op.Done && o.busyWith("query@"+c.tag) {
					s.Count("probe_close_during_reset_scan")
				}
			}
		}
	}
	if factory {
		seenClosed := false
		f.check = func() {
			for _, o := range factoryDS {
				if !seenClosed && o.closedCount() > 0 {
					seenClosed = true
					s.Count("probe_owned_ds_closed")
				}
			}
			c14OwnedCheck(s, name, factoryDS)
		}
	}
	f.closeFn = ks.Close
	f.overlapOK = true
	f.closeAt = s.Range("close-at", 0, 40)
	if resettable && s.Chance("close-on-reset-op", 1, 2) {
		// Aim Close at a position in the life of a reset rather than at a step
		// count: at the instant the n-th datastore call made under a reset's
		// context (by ResetCids itself or by the worker on its behalf: preparing
		// the slot, bulk writes, flush, key scan, catch-up, marker, tear-down)
		// is parked. A reset is a handful of such calls long, the step count is
		// spread over the whole workload; every position is reachable either way.
		nth := s.Range("reset-op-nth", 1, 10)
		seen := map[*sim.Parked]bool{}
		f.closeAt = 60
		f.closeNow = func() bool {
			for _, p := range s.ParkedKind("ds") {
				if seen[p] || f.prio(p) != 1 {
					continue
				}
				seen[p] = true
				if len(seen) == nth {
					s.Count("probe_close_aimed_at_reset_op")
					return true
				}
			}
			return false
		}
	}
	f.interleave = s.Draw("interleave", 10)
	// the order in which the drain serves live and cancelled calls (a scan that
	// is inside the datastore may notice its cancellation only after Close's
	// own writes were served)
	f.cancelLast = s.Chance("cancel-last", 1, 2)
	f.run()
	c14Teardown(s, f)
	s.Finish()
}
