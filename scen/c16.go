//go:build all || c16

package scen

// C16 — "Accelerated client returns the true nearest crawled peers, safely".
//
// This file holds what the C16 scenarios share: the message-level sender used
// by the crawler (labels must not contain the crawler's random target keys),
// the scripted crawl world (referral graph + failure table), the observation
// of one crawl (what arrived at the seams, what the simulator delivered, which
// callbacks were made) with its oracle, the IP-group helper, the
// GetClosestPeers oracle and the stub crawler.
//
// Oracle rule ids (clause of the property they state):
//
//	crawler:  bucket-query-twice, dialed-twice   "queries every peer ... exactly once"
//	          crawl-missed, crawl-invented        "every peer reachable from its seeds" (a seed without any address -
//	                                              AddrInfo and peerstore - counts as reachable once a delivered reply
//	                                              of a fully queried peer, or a later seed entry, carries an address for it).
//	                                              The crawl topology is the world's, not the crawler's: q is reachable from
//	                                              p when p's routing table holds q, i.e. when p names q in its reply for ANY
//	                                              of the buckets it is asked about (c16World.tableOf) - not only in the
//	                                              replies the crawler chose to fetch. A crawler that reports p as queried
//	                                              successfully after asking it about a part of its table only (stops early,
//	                                              skips buckets) leaves peers of the topology unqueried: crawl-missed.
//	          callback-count, callback-uncrawled  "exactly one outcome per queried peer"
//	          callback-wrong, success-content     the outcome matches what the peer did
//	          run-hang, work-after-return         Run returns after all work ended
//	          dup-seed-crawled-twice              (separate input class: a peer listed twice in the seed list)
//	fullrt:   gcp-dup, gcp-len, gcp-foreign       "lists peers found by one single completed crawl"
//	          gcp-order                           "in ascending XOR distance"
//	          ip-group-limit(-not-applied)        "at most the configured number of returned peers per IP group"
//	          gcp-nearest                         "equals exactly the K nearest crawled peers whenever no IP group holds more ... than that limit"
//	          mixed-crawl-result                  "one single completed crawl" under a concurrent swap
//	          stat-vs-crawl                       the table is the set of peers the crawl reported
//	          op-panic, op-hang, ctor-*, bulk-empty-table-panic   "return an error rather than panic or hang"
//
// "One single completed crawl" covers the address assignment as well as the
// peer set (quantifier: "for every crawled peer set and address assignment"):
// the IP groups of ip-group-limit, gcp-nearest and mixed-crawl-result are those
// of the addresses the judged crawl found its peers at (c16Crawl.Addrs, a
// snapshot per crawl). With the stub crawler a crawled peer may be found at
// other addresses - in another IP group - by the next crawl (drawn choice
// "addr-moves"); a result judged against crawl i must then respect the limit,
// and be exactly the K nearest where the precondition holds, under crawl i's
// assignment, whatever earlier crawls and earlier look-ups saw. No rule id is
// new: the same clauses are evaluated, the generated space is wider.
//
// "For every ... address assignment" also covers addresses that carry no IP at
// all: DNS names (/dns, /dns4, /dns6, /dnsaddr). An IP group is a set of IPs
// (c16Groups), so such an address lies in none. Drawn choice "addr-kinds": none
// / 2 in 8 / 4 in 8 of the peers advertise a DNS name next to their IP addresses
// and count in the groups of the latter only (ip-group-limit, gcp-nearest). A
// crawled peer whose recorded addresses ALL lack an IP - or that has none - is
// in no IP group, cannot make any group "hold more crawled peers than that
// limit", and is a crawled peer like any other: gcp-nearest wants it listed
// when it is among the K nearest, with the limit set as well as with it
// disabled. Such peers enter a crawl result only through an address change
// while the crawl reports them (drawn choice "addr-change-while-reported",
// c16_addrchange.go, which also says how the oracle treats the ambiguity).
// Again no rule id is new.

import (
	"context"
	"crypto/sha256"
	"fmt"
	"sort"
	"strings"
	"sync"

	"github.com/libp2p/go-libp2p-kbucket/peerdiversity"
	"github.com/libp2p/go-libp2p/core/peer"
	"github.com/libp2p/go-libp2p/core/peerstore"
	ma "github.com/multiformats/go-multiaddr"
	manet "github.com/multiformats/go-multiaddr/net"
	"google.golang.org/protobuf/proto"

	"github.com/libp2p/go-libp2p-kad-dht/crawler"
	pb "github.com/libp2p/go-libp2p-kad-dht/pb"

	"verif/sim"
	"verif/simhost"
	"verif/simnet"
)

// ---------------------------------------------------------------------------
// message-level sender for the crawler

// c16Sender is a level-A pb.MessageSenderWithDisconnect like simnet.Sender.
// The only difference is the park label of FIND_NODE requests: the crawler's
// targets are random peer ids (kbucket reads crypto/rand), so the label names
// the *bucket* of the target relative to the addressed peer (common prefix
// length in the harness metric), which is what the crawler chooses.
type c16Sender struct {
	S     *sim.Sim
	U     *simnet.Universe
	Label string

	mu  sync.Mutex
	Log []*simnet.RPC
}

var _ pb.MessageSenderWithDisconnect = (*c16Sender)(nil)

func c16Bucket(to peer.ID, req *pb.Message) int {
	return simnet.KadOfKey(string(req.GetKey())).CPL(simnet.KadOfPeer(to))
}

func (m *c16Sender) park(ctx context.Context, p peer.ID, req *pb.Message, want bool) (*pb.Message, error) {
	r := &simnet.RPC{To: p, Req: proto.Clone(req).(*pb.Message), WantResp: want, CtxLive: ctx.Err() == nil, SentAt: m.S.Now(), SentStep: m.S.Steps}
	m.mu.Lock()
	r.N = len(m.Log)
	m.Log = append(m.Log, r)
	m.mu.Unlock()
	var what string
	if req.GetType() == pb.Message_FIND_NODE {
		what = fmt.Sprintf("b%03d", c16Bucket(p, req))
	} else {
		h := sha256.Sum256(req.GetKey())
		what = fmt.Sprintf("%x", h[:2])
	}
	label := fmt.Sprintf("%s%s:%s:%s%s", m.Label, req.GetType(), m.U.Name(p), what, sim.TagOf(ctx))
	out, cerr := m.S.Park("rpc", label, ctx, r)
	m.mu.Lock()
	defer m.mu.Unlock()
	r.Done, r.DoneStep, r.DoneAt = true, m.S.Steps, m.S.Now()
	if cerr != nil {
		r.Cancelled, r.Err = true, cerr
		return nil, cerr
	}
	rep, _ := out.(simnet.Reply)
	r.Resp, r.Err = rep.Msg, rep.Err
	if rep.Err != nil {
		return nil, rep.Err
	}
	if rep.Msg == nil {
		return nil, nil
	}
	return proto.Clone(rep.Msg).(*pb.Message), nil
}

func (m *c16Sender) SendRequest(ctx context.Context, p peer.ID, pmes *pb.Message) (*pb.Message, error) {
	return m.park(ctx, p, pmes, true)
}

func (m *c16Sender) SendMessage(ctx context.Context, p peer.ID, pmes *pb.Message) error {
	_, err := m.park(ctx, p, pmes, false)
	return err
}

func (m *c16Sender) OnDisconnect(context.Context, peer.ID) {}

func (m *c16Sender) Snapshot() []*simnet.RPC {
	m.mu.Lock()
	defer m.mu.Unlock()
	return append([]*simnet.RPC(nil), m.Log...)
}

// ---------------------------------------------------------------------------
// IP groups and address assignment

// c16Groups returns the IP groups of a peer's addresses. The group key is
// peerdiversity.IPGroupKey of the kbucket *dependency* (IPv4 /16, legacy
// class-A /8, IPv6 by ASN with a shared fallback group), not repository code:
// the property speaks of "IP group" and that function is its definition.
func c16Groups(addrs []ma.Multiaddr) []string {
	seen := map[string]bool{}
	var out []string
	for _, a := range addrs {
		ip, err := manet.ToIP(a)
		if err != nil {
			continue
		}
		g := string(peerdiversity.IPGroupKey(ip))
		if g == "" || seen[g] {
			continue
		}
		seen[g] = true
		out = append(out, g)
	}
	sort.Strings(out)
	return out
}

// c16AssignAddrs replaces the addresses of all peers of u by public IPv4/IPv6
// addresses. With maxPerGroup > 0 no IP group is given to more than
// maxPerGroup peers (so a diversity limit >= maxPerGroup can never bite);
// with maxPerGroup <= 0 groups are crowded on purpose.
//
// nonIP (0..8, of 8; the scenarios draw 0, 2, 4) is the share of peers that
// advertise, next to their IP addresses, an address WITHOUT an IP: a DNS name
// (/dns, /dns4, /dns6, /dnsaddr - what AutoTLS and hosted nodes announce). Such
// an address lies in no IP group (c16Groups skips it, as peerdiversity has
// nothing to key on); the peer is in the groups of its IP addresses only. 0:
// every address has an IP (the space generated before). Peers that advertise
// DNS names only, or nothing, are not generated HERE: the repository's
// public-address table filter (not part of C16) wants an IP address at the
// moment the crawl reports the peer, so the crawl does not keep them. They get
// into a crawl result through c16AddrChange (a peer re-announcing itself while
// the crawl reports it).
func c16AssignAddrs(u *simnet.Universe, rng *subRng, maxPerGroup, nonIP int) {
	c16AssignSome(u, rng, maxPerGroup, nonIP, nil)
}

// c16DNSAddr returns an address without an IP for peer i (j-th address).
func c16DNSAddr(rng *subRng, i, j int) ma.Multiaddr {
	switch rng.Intn(4) {
	case 0:
		return ma.StringCast(fmt.Sprintf("/dns4/n%d-%d.example.org/tcp/4001", i, j))
	case 1:
		return ma.StringCast(fmt.Sprintf("/dns6/n%d-%d.example.net/tcp/443/ws", i, j))
	case 2:
		return ma.StringCast(fmt.Sprintf("/dnsaddr/n%d-%d.example.com", i, j))
	default:
		return ma.StringCast(fmt.Sprintf("/dns/n%d-%d.example.io/udp/4001/quic-v1", i, j))
	}
}

// c16MixedAddrs: some of the peer's addresses lie in an IP group, some in none.
func c16MixedAddrs(addrs []ma.Multiaddr) bool {
	with, without := 0, 0
	for _, a := range addrs {
		if len(c16Groups([]ma.Multiaddr{a})) > 0 {
			with++
		} else {
			without++
		}
	}
	return with > 0 && without > 0
}

// c16MoveAddrs gives every peer for which move(i) holds new addresses, drawn
// like the initial ones (the peer changed its network: other address count,
// other IP groups); the other peers keep theirs. The maxPerGroup guarantee of
// c16AssignAddrs holds for the resulting assignment as a whole. It returns the
// number of peers whose set of IP groups changed.
func c16MoveAddrs(u *simnet.Universe, rng *subRng, maxPerGroup, nonIP int, move func(i int) bool) int {
	before := make([]string, len(u.Peers))
	for i, p := range u.Peers {
		before[i] = strings.Join(c16Groups(p.Addrs), "|")
	}
	c16AssignSome(u, rng, maxPerGroup, nonIP, move)
	changed := 0
	for i, p := range u.Peers {
		if strings.Join(c16Groups(p.Addrs), "|") != before[i] {
			changed++
		}
	}
	return changed
}

// c16AssignSome assigns new addresses to the peers selected by move (nil: all).
func c16AssignSome(u *simnet.Universe, rng *subRng, maxPerGroup, nonIP int, move func(i int) bool) {
	v4first := []int{8, 45, 101, 12 /* legacy class A: grouped by /8 */}
	v6pfx := []string{"2001:4860", "2606:4700", "2a02:6b8", "2a0e:b107", "2003:e1"}
	spread := len(u.Peers) + 2
	if maxPerGroup <= 0 {
		spread = 2
	}
	count := map[string]int{}
	moves := make([]bool, len(u.Peers))
	for i, p := range u.Peers {
		moves[i] = move == nil || move(i)
		if !moves[i] {
			// stays where it is: its groups are taken
			for _, g := range c16Groups(p.Addrs) {
				count[g]++
			}
		}
	}
	for i, p := range u.Peers {
		if !moves[i] {
			continue
		}
		n := 1
		if rng.Intn(3) == 0 {
			n++
		}
		if rng.Intn(6) == 0 {
			n++
		}
		// which of the n addresses is a DNS name (none: dnsAt < 0)
		dnsAt := -1
		if nonIP > 0 && rng.Intn(8) < nonIP {
			if n < 2 {
				n = 2
			}
			dnsAt = rng.Intn(n)
		}
		var addrs []ma.Multiaddr
		mine := map[string]bool{}
		for j := 0; j < n; j++ {
			var a ma.Multiaddr
			if j == dnsAt {
				addrs = append(addrs, c16DNSAddr(rng, i, j))
				continue
			}
			if rng.Intn(10) < 6 {
				a = ma.StringCast(fmt.Sprintf("/ip4/%d.%d.%d.%d/tcp/4001", v4first[rng.Intn(len(v4first))], rng.Intn(spread), rng.Intn(4), 1+i%250))
			} else {
				a = ma.StringCast(fmt.Sprintf("/ip6/%s:%x::%x/tcp/4001", v6pfx[rng.Intn(len(v6pfx))], rng.Intn(spread), i+1))
			}
			gs := c16Groups([]ma.Multiaddr{a})
			ok := true
			if maxPerGroup > 0 {
				for _, g := range gs {
					if !mine[g] && count[g] >= maxPerGroup {
						ok = false
					}
				}
			}
			if !ok {
				continue
			}
			for _, g := range gs {
				if !mine[g] {
					mine[g] = true
					count[g]++
				}
			}
			addrs = append(addrs, a)
		}
		if len(c16Groups(addrs)) == 0 {
			// a /16 of its own
			a := ma.StringCast(fmt.Sprintf("/ip4/150.%d.0.1/tcp/4001", i%250))
			for _, g := range c16Groups([]ma.Multiaddr{a}) {
				count[g]++
			}
			addrs = append(addrs, a)
		}
		p.Addrs = addrs
	}
}

// ---------------------------------------------------------------------------
// GetClosestPeers oracle

// c16Crawl is the outcome of one completed crawl: the peers it found and the
// addresses it found them at.
type c16Crawl struct {
	Idx   int
	Peers []*simnet.Peer
	// Addrs is the address assignment of this crawl: what the host's peerstore
	// held for each found peer when the crawl reported it. nil: the peers'
	// addresses never change during the run, simnet.Peer.Addrs is the assignment.
	Addrs map[peer.ID][]ma.Multiaddr
	// Alt: peers whose peerstore entry was replaced while this crawl reported
	// them, with the addresses that replaced those in Addrs (c16_addrchange.go).
	// The crawl found such a peer at the one or the other.
	Alt map[peer.ID][]ma.Multiaddr
}

// newC16Crawl snapshots the current addresses of the found peers.
func newC16Crawl(idx int, found []*simnet.Peer) *c16Crawl {
	c := &c16Crawl{Idx: idx, Peers: found, Addrs: map[peer.ID][]ma.Multiaddr{}}
	for _, p := range found {
		c.Addrs[p.ID] = append([]ma.Multiaddr(nil), p.Addrs...)
	}
	return c
}

// addrsOf returns the addresses this crawl found p at.
func (c *c16Crawl) addrsOf(p *simnet.Peer) []ma.Multiaddr {
	if c.Addrs != nil {
		return c.Addrs[p.ID]
	}
	return p.Addrs
}

func (c *c16Crawl) maxGroup() (string, int) {
	cnt := map[string]int{}
	for _, p := range c.Peers {
		for _, g := range c16Groups(c.addrsOf(p)) {
			cnt[g]++
		}
	}
	best, n := "", 0
	for g, k := range cnt {
		if k > n || (k == n && g < best) {
			best, n = g, k
		}
	}
	return best, n
}

func (c *c16Crawl) nearest(key simnet.Kad, k int) []peer.ID {
	return simnet.IDs(simnet.Nearest(c.Peers, key, k))
}

func samePeerList(a, b []peer.ID) bool {
	if len(a) != len(b) {
		return false
	}
	for i := range a {
		if a[i] != b[i] {
			return false
		}
	}
	return true
}

// c16JudgeGCP evaluates one GetClosestPeers result against one crawl. K is
// the configured bucket size, L the configured per-IP-group limit (<=0:
// disabled). It returns the id of the first clause that fails ("" if none).
func c16JudgeGCP(u *simnet.Universe, res []peer.ID, key simnet.Kad, K, L int, c *c16Crawl) (rule, msg string) {
	in := map[peer.ID]*simnet.Peer{}
	for _, p := range c.Peers {
		in[p.ID] = p
	}
	seen := map[peer.ID]bool{}
	for _, p := range res {
		if seen[p] {
			return "gcp-dup", fmt.Sprintf("result [%s] lists %s twice", names(u, res), u.Name(p))
		}
		seen[p] = true
	}
	if len(res) > K {
		return "gcp-len", fmt.Sprintf("result has %d peers, bucket size is %d", len(res), K)
	}
	for _, p := range res {
		if in[p] == nil {
			return "gcp-foreign", fmt.Sprintf("result [%s] lists %s which crawl %d did not find (found {%s})", names(u, res), u.Name(p), c.Idx, sortedNames(u, simnet.IDs(c.Peers)))
		}
	}
	for i := 1; i < len(res); i++ {
		a, b := simnet.KadOfPeer(res[i-1]).Xor(key), simnet.KadOfPeer(res[i]).Xor(key)
		if !a.Less(b) {
			return "gcp-order", fmt.Sprintf("result [%s] is not in ascending distance order at position %d", names(u, res), i)
		}
	}
	want := c.nearest(key, K)
	if L > 0 {
		cnt := map[string]int{}
		for _, p := range res {
			for _, g := range c16Groups(c.addrsOf(in[p])) {
				cnt[g]++
			}
		}
		var gs []string
		for g := range cnt {
			gs = append(gs, g)
		}
		sort.Strings(gs)
		for _, g := range gs {
			if cnt[g] > L {
				if samePeerList(res, want) {
					return "ip-group-limit-not-applied", fmt.Sprintf("WithIPDiversityFilterLimit(%d) has no effect: GetClosestPeers returned the unfiltered %d nearest peers [%s], %d of them in IP group %q (fullrt/dht.go NewFullRT parses the option into its config but never copies it into the FullRT struct)", L, K, names(u, res), cnt[g], g)
				}
				return "ip-group-limit", fmt.Sprintf("result [%s] holds %d peers of IP group %q, configured limit %d", names(u, res), cnt[g], g, L)
			}
		}
	}
	if g, n := c.maxGroup(); L <= 0 || n <= L {
		if !samePeerList(res, want) && L > 0 {
			// input class of its own: the nearest peer that is missing has two
			// addresses in one IP group (e.g. two transports on one IP)
			// (every one of them: otherwise something else is wrong)
			inRes := idSet(res)
			all, first, firstG := true, (*simnet.Peer)(nil), ""
			for _, m := range want {
				if inRes[m] {
					continue
				}
				dupG := ""
				seenG := map[string]bool{}
				for _, a := range c.addrsOf(in[m]) {
					for _, ag := range c16Groups([]ma.Multiaddr{a}) {
						if seenG[ag] && dupG == "" {
							dupG = ag
						}
						seenG[ag] = true
					}
				}
				if dupG == "" {
					all = false
				} else if first == nil {
					first, firstG = in[m], dupG
				}
			}
			if all && first != nil {
				return "ip-group-own-address-counted", fmt.Sprintf("result [%s] omits %s, one of the brute-force %d nearest [%s] of crawl %d, although no IP group exceeds the limit %d: %s has two addresses in IP group %q and the group filter counts the peer's first address against its second (fullrt/dht.go GetClosestPeers compares len(ipGroupCounts[group]) with the limit after adding the peer itself)", names(u, res), first.Name, K, names(u, want), c.Idx, L, first.Name, firstG)
			}
		}
		if !samePeerList(res, want) {
			return "gcp-nearest", fmt.Sprintf("result [%s] differs from the brute-force %d nearest [%s] of crawl %d although no IP group exceeds the limit (limit %d, largest group %q holds %d crawled peers)", names(u, res), K, names(u, want), c.Idx, L, g, n)
		}
	}
	return "", ""
}

// ---------------------------------------------------------------------------
// scripted crawl world

// c16Beh scripts one remote peer for crawls.
type c16Beh struct {
	DialFail bool
	// FailAt: the query for this bucket index is answered with an error (-1: none).
	FailAt int
	// Refs: the peers named in the reply to the query for a bucket index.
	Refs map[int][]*simnet.Peer
}

type c16World struct {
	S   *sim.Sim
	U   *simnet.Universe
	Beh map[peer.ID]*c16Beh
	// Kind: 0 free-form replies (any peer in the reply for any bucket; most
	// replies are empty), 1 and 2 Kademlia servers (see genC16World).
	Kind int
	// OnDialOK (optional) runs right before a dial is released as successful.
	OnDialOK func(p peer.ID)
}

// c16QueryBuckets is the range of bucket indexes over which the scripted
// peers spread their referrals and failures. It is a scenario input (DESIGN §5
// C16: "any of the 16 per-peer queries"); the oracle never assumes that the
// crawler asks exactly these.
const c16QueryBuckets = 16

func genC16World(s *sim.Sim, u *simnet.Universe, rng *subRng, faultLevel int) *c16World {
	w := &c16World{S: s, U: u, Beh: map[peer.ID]*c16Beh{}}
	n := len(u.Peers)
	maxDeg := []int{1, 2, 4, n}[s.Draw("degree", 4)]
	// How the scripted peers answer. 0: free-form (each neighbour is named in the
	// reply for one or two arbitrary buckets, every other reply is empty). 1, 2:
	// like a Kademlia server - the peer has a routing table and answers the query
	// for bucket c with the R entries nearest to a key of that bucket (R, the
	// reply size, is a world input): consecutive replies overlap or repeat each
	// other, and an entry in a sparsely populated region of the table appears in
	// the reply for its own bucket only. 2 draws tables without entries in the
	// first buckets (a peer that knows only its own neighbourhood), where the
	// replies for the shallow buckets are all the same list.
	w.Kind = s.Draw("world-kind", 3)
	replySize := 1 + rng.Intn(3)
	pct := []int{0, 12, 40}[faultLevel]
	for _, p := range u.Peers {
		b := &c16Beh{FailAt: -1, Refs: map[int][]*simnet.Peer{}}
		deg := rng.Intn(maxDeg + 1)
		if rng.Intn(8) == 0 {
			deg = 0 // answers every query with an empty list
		}
		if w.Kind == 0 {
			for k := 0; k < deg && n > 1; k++ {
				q := u.Peers[rng.Intn(n)]
				if q == p && rng.Intn(4) != 0 {
					continue // a peer naming itself is legal but rare
				}
				w.addRef(b, q, rng)
			}
		} else {
			w.kadReplies(b, p, deg, replySize, rng)
		}
		if rng.Intn(100) < pct {
			b.DialFail = true
		} else if rng.Intn(100) < pct {
			b.FailAt = rng.Intn(c16QueryBuckets)
		}
		w.Beh[p.ID] = b
	}
	return w
}

// kadReplies scripts p as a Kademlia server: a routing table of up to deg other
// peers (world kind 2: preferably peers that share a prefix with p, so that the
// first buckets are empty), and for each of the c16QueryBuckets buckets the
// reply a server gives to a key of that bucket - the replySize table entries
// nearest to it. The harness cannot see the crawler's random key before it
// arrives, and the trace must not depend on it, so the reply is computed for
// the bucket's canonical key (p's id with the bucket's bit flipped): the
// entries of the asked bucket come first, then the deeper buckets, then the
// shallower ones, exactly as for every other key of that bucket; only the
// order inside one bucket is the canonical key's.
func (w *c16World) kadReplies(b *c16Beh, p *simnet.Peer, deg, replySize int, rng *subRng) {
	var cand []*simnet.Peer
	for _, q := range w.U.Peers {
		if q != p {
			cand = append(cand, q)
		}
	}
	if w.Kind == 2 {
		// the deeper half of the candidates (ascending distance from p)
		cand = simnet.Nearest(cand, p.Kad, (len(cand)+1)/2)
	}
	var tab []*simnet.Peer
	for len(tab) < deg && len(cand) > 0 {
		i := rng.Intn(len(cand))
		tab = append(tab, cand[i])
		cand = append(cand[:i:i], cand[i+1:]...)
	}
	if len(tab) == 0 {
		return
	}
	distinct := map[string]bool{}
	for c := 0; c < c16QueryBuckets; c++ {
		key := p.Kad
		key[c/8] ^= 0x80 >> (c % 8)
		b.Refs[c] = simnet.Nearest(tab, key, replySize)
		distinct[names(w.U, simnet.IDs(b.Refs[c]))] = true
	}
	if len(distinct) > 1 {
		w.S.Count("probe_kad_replies_differ_by_bucket")
	}
}

// tableOf returns p's routing table as the world defines it: every peer p
// names in its reply for any of the buckets it populates. This - not the
// subset of replies a crawler fetched - is the crawl topology of the property
// ("every peer reachable from its seeds ... for every crawl topology").
func (w *c16World) tableOf(p peer.ID) map[peer.ID]bool {
	b := w.Beh[p]
	if b == nil {
		return nil
	}
	t := map[peer.ID]bool{}
	for _, qs := range b.Refs {
		for _, q := range qs {
			t[q.ID] = true
		}
	}
	return t
}

func (w *c16World) addRef(b *c16Beh, q *simnet.Peer, rng *subRng) {
	i := rng.Intn(c16QueryBuckets)
	b.Refs[i] = append(b.Refs[i], q)
	if rng.Intn(4) == 0 { // named in a second reply as well
		j := rng.Intn(c16QueryBuckets)
		if j != i {
			b.Refs[j] = append(b.Refs[j], q)
		}
	}
}

// crawlObs is everything observed about one crawler.Run call.
type crawlObs struct {
	N int // number of the run (1-based)

	mu            sync.Mutex
	seeds         []peer.ID
	seedHasAddr   map[peer.ID]bool
	success       map[peer.ID][][]peer.ID // per success callback: the reported peers
	fail          map[peer.ID]int
	started       bool
	returned      bool
	cbAfterReturn int

	// what the simulator delivered (simulator goroutine only)
	dialOut map[peer.ID][]string         // ok fail cancel
	qOut    map[peer.ID]map[int][]string // per bucket: ok err cancel
	refs    map[peer.ID]map[peer.ID]bool // union of the delivered replies
	table   map[peer.ID]map[peer.ID]bool // the answering peer's whole table (c16World.tableOf) during this crawl
	stale   map[peer.ID]bool             // a delivered reply of the peer repeated only peers it had named before
	pre     map[peer.ID]bool             // connected before the crawl started
	// offsets into the sender log / dial log when the crawl started
	logFrom, dialFrom int
	cancelled         bool
}

func newCrawlObs(n int) *crawlObs {
	return &crawlObs{N: n, seedHasAddr: map[peer.ID]bool{}, success: map[peer.ID][][]peer.ID{}, fail: map[peer.ID]int{},
		dialOut: map[peer.ID][]string{}, qOut: map[peer.ID]map[int][]string{}, refs: map[peer.ID]map[peer.ID]bool{}, pre: map[peer.ID]bool{},
		table: map[peer.ID]map[peer.ID]bool{}, stale: map[peer.ID]bool{}}
}

func (o *crawlObs) isReturned() bool {
	o.mu.Lock()
	defer o.mu.Unlock()
	return o.returned
}

// successSet returns the peers for which the success callback was made.
func (o *crawlObs) successSet(u *simnet.Universe) []*simnet.Peer {
	o.mu.Lock()
	defer o.mu.Unlock()
	var out []*simnet.Peer
	for _, p := range u.Peers {
		if len(o.success[p.ID]) > 0 {
			out = append(out, p)
		}
	}
	return out
}

// obsCrawler wraps a crawler.Crawler (public interface) and records the calls
// made through it: seeds, callbacks, start and return.
type obsCrawler struct {
	Inner crawler.Crawler
	H     *simhost.Host

	mu   sync.Mutex
	runs []*crawlObs
}

var _ crawler.Crawler = (*obsCrawler)(nil)

func (c *obsCrawler) Run(ctx context.Context, seeds []*peer.AddrInfo, ok crawler.HandleQueryResult, fail crawler.HandleQueryFail) {
	c.mu.Lock()
	o := newCrawlObs(len(c.runs) + 1)
	c.runs = append(c.runs, o)
	c.mu.Unlock()
	for _, ai := range seeds {
		o.seeds = append(o.seeds, ai.ID)
		if len(ai.Addrs) > 0 || len(c.H.Peerstore().Addrs(ai.ID)) > 0 {
			o.seedHasAddr[ai.ID] = true
		}
	}
	for _, p := range c.H.Net().Peers() {
		o.pre[p] = true
	}
	o.mu.Lock()
	o.started = true
	o.mu.Unlock()
	c.Inner.Run(ctx, seeds,
		func(p peer.ID, rt []*peer.AddrInfo) {
			ids := make([]peer.ID, 0, len(rt))
			for _, ai := range rt {
				ids = append(ids, ai.ID)
			}
			o.mu.Lock()
			o.success[p] = append(o.success[p], ids)
			if o.returned {
				o.cbAfterReturn++
			}
			o.mu.Unlock()
			if ok != nil {
				ok(p, rt)
			}
		},
		func(p peer.ID, err error) {
			o.mu.Lock()
			o.fail[p]++
			if o.returned {
				o.cbAfterReturn++
			}
			o.mu.Unlock()
			if fail != nil {
				fail(p, err)
			}
		})
	o.mu.Lock()
	o.returned = true
	o.mu.Unlock()
}

// current returns the latest run (nil if none).
func (c *obsCrawler) current() *crawlObs {
	c.mu.Lock()
	defer c.mu.Unlock()
	if len(c.runs) == 0 {
		return nil
	}
	return c.runs[len(c.runs)-1]
}

func (c *obsCrawler) numRuns() int {
	c.mu.Lock()
	defer c.mu.Unlock()
	return len(c.runs)
}

// crawlActions turns every parked dial / FIND_NODE into a release action whose
// outcome follows the scripted behaviour, and records what was delivered in o.
func (w *c16World) crawlActions(o *crawlObs) []sim.Action {
	s := w.S
	var acts []sim.Action
	for _, p := range s.Parked() {
		p := p
		switch p.Kind {
		case "dial":
			who := p.Data.(peer.ID)
			if p.Cancelled() {
				acts = append(acts, sim.Action{ID: "cancel>" + p.ID, Do: func() {
					o.dialOut[who] = append(o.dialOut[who], "cancel")
					s.Count("fault_dial_timeout")
					s.ReleaseCancelled(p)
				}})
				continue
			}
			acts = append(acts, sim.Action{ID: p.ID, Do: func() {
				if b := w.Beh[who]; b == nil || b.DialFail {
					o.dialOut[who] = append(o.dialOut[who], "fail")
					s.Count("fault_dial_fail")
					s.Count("probe_dial_failure_during_crawl")
					s.Release(p, simhost.ErrDialFailed)
				} else {
					o.dialOut[who] = append(o.dialOut[who], "ok")
					if w.OnDialOK != nil {
						w.OnDialOK(who)
					}
					s.Release(p, nil)
				}
			}})
		case "rpc":
			r := p.Data.(*simnet.RPC)
			bucket := c16Bucket(r.To, r.Req)
			rec := func(out string) {
				if o.qOut[r.To] == nil {
					o.qOut[r.To] = map[int][]string{}
				}
				o.qOut[r.To][bucket] = append(o.qOut[r.To][bucket], out)
			}
			if p.Cancelled() {
				acts = append(acts, sim.Action{ID: "cancel>" + p.ID, Do: func() {
					rec("cancel")
					s.Count("fault_rpc_timeout")
					s.ReleaseCancelled(p)
				}})
				continue
			}
			acts = append(acts, sim.Action{ID: p.ID, Do: func() {
				b := w.Beh[r.To]
				if b == nil || r.Req.GetType() != pb.Message_FIND_NODE || b.FailAt == bucket {
					rec("err")
					s.Count("fault_rpc_error")
					if n := len(o.qOut[r.To]); n > 1 {
						s.Count("probe_partial_query_failure")
					}
					s.Release(p, simnet.Reply{Err: errReqFailed})
					return
				}
				rec("ok")
				if o.refs[r.To] == nil {
					o.refs[r.To] = map[peer.ID]bool{}
					// the world does not change while a crawl runs
					o.table[r.To] = w.tableOf(r.To)
				}
				news := 0
				for _, q := range b.Refs[bucket] {
					if !o.refs[r.To][q.ID] {
						news++
					}
					o.refs[r.To][q.ID] = true
				}
				switch {
				case news == 0 && len(o.refs[r.To]) > 0:
					o.stale[r.To] = true
				case news > 0 && o.stale[r.To]:
					// the peer named somebody new after a reply that held no news
					// (empty, or only peers it had named before)
					s.Count("probe_new_peer_after_reply_without_news")
				}
				s.Release(p, simnet.Reply{Msg: &pb.Message{Type: r.Req.GetType(), Key: r.Req.GetKey(), CloserPeers: simnet.ToPB(b.Refs[bucket])}})
			}})
		}
	}
	return acts
}

// arrivals counts what reached the seams for this crawl: dials per peer and
// queries per (peer, bucket).
func (o *crawlObs) arrivals(h *simhost.Host, snd *c16Sender) (dials map[peer.ID]int, queries map[peer.ID]map[int]int) {
	dials, queries = map[peer.ID]int{}, map[peer.ID]map[int]int{}
	dl := h.DialLog
	for i := o.dialFrom; i < len(dl); i++ {
		dials[dl[i]]++
	}
	log := snd.Snapshot()
	for i := o.logFrom; i < len(log); i++ {
		r := log[i]
		if r.Req.GetType() != pb.Message_FIND_NODE {
			continue
		}
		if queries[r.To] == nil {
			queries[r.To] = map[int]int{}
		}
		queries[r.To][c16Bucket(r.To, r.Req)]++
	}
	return
}

// checkOnce is the online part of the crawler oracle (cheap, every step): no
// peer receives the same bucket query twice, no peer is dialed twice. Peers
// listed several times in the seed list are the separate input class
// "dup-seed" and are judged in checkCrawl.
func (o *crawlObs) checkOnce(s *sim.Sim, u *simnet.Universe, h *simhost.Host, snd *c16Sender) {
	mult := map[peer.ID]int{}
	for _, p := range o.seeds {
		mult[p]++
	}
	dials, queries := o.arrivals(h, snd)
	for _, p := range u.Peers {
		if mult[p.ID] > 1 {
			continue
		}
		if dials[p.ID] > 1 {
			s.Violate("dialed-twice", "crawl %d dialed %s %d times", o.N, p.Name, dials[p.ID])
			return
		}
		var bs []int
		for b := range queries[p.ID] {
			bs = append(bs, b)
		}
		sort.Ints(bs)
		for _, b := range bs {
			if queries[p.ID][b] > 1 {
				s.Violate("bucket-query-twice", "crawl %d sent %s the query for bucket %d %d times", o.N, p.Name, b, queries[p.ID][b])
				return
			}
		}
	}
}

// checkCrawl is the crawler oracle, evaluated after Run returned.
func checkCrawl(s *sim.Sim, u *simnet.Universe, h *simhost.Host, snd *c16Sender, o *crawlObs) {
	o.mu.Lock()
	defer o.mu.Unlock()
	dials, queries := o.arrivals(h, snd)
	mult := map[peer.ID]int{}
	for _, p := range o.seeds {
		mult[p]++
	}
	if o.cbAfterReturn > 0 {
		s.Violate("work-after-return", "crawl %d made %d callback(s) after Run had returned", o.N, o.cbAfterReturn)
	}

	// what each peer did, as delivered by the simulator
	type verdict struct {
		crawled   bool
		instances int
		dialOK    bool
		failed    bool             // a dial failure, query failure or time-out was delivered
		okFull    bool             // connected, >=1 query answered, none failed, none unanswered
		refs      map[peer.ID]bool // named in the replies that were delivered
		table     map[peer.ID]bool // named in the reply for any bucket: the peer's routing table
	}
	vs := map[peer.ID]*verdict{}
	for _, p := range u.Peers {
		v := &verdict{refs: o.refs[p.ID], table: o.table[p.ID]}
		nq, maxq, answered := 0, 0, 0
		for _, n := range queries[p.ID] {
			nq += n
			if n > maxq {
				maxq = n
			}
		}
		for _, outs := range o.qOut[p.ID] {
			for _, out := range outs {
				answered++
				if out != "ok" {
					v.failed = true
				}
			}
		}
		v.crawled = dials[p.ID] > 0 || nq > 0
		v.instances = dials[p.ID]
		if maxq > v.instances {
			v.instances = maxq
		}
		v.dialOK = o.pre[p.ID]
		for _, out := range o.dialOut[p.ID] {
			if out == "ok" {
				v.dialOK = true
			} else {
				v.failed = true
			}
		}
		v.okFull = v.dialOK && !v.failed && answered > 0 && answered == nq
		vs[p.ID] = v
	}

	// reachability: MUST = closure through fully and successfully queried
	// peers; MAY = closure through every delivered reply (a peer whose queries
	// partly failed is reported as failed by the crawler - whether the replies it
	// did give are followed is left open by the contract).
	//
	// The MUST edges of a fully and successfully queried peer are its whole
	// routing table - what it answers for any of the buckets it populates -, not
	// just the replies the crawler fetched: the topology ("reachable from its
	// seeds") belongs to the network. Nothing failed and nothing is outstanding
	// for such a peer, so a table entry the crawler did not learn is one it did
	// not ask for. How many buckets a peer populates (c16QueryBuckets) is a
	// scenario input; tables reaching deeper than that are not generated.
	closure := func(edges func(v *verdict) map[peer.ID]bool, seedOK func(p peer.ID) bool) map[peer.ID]bool {
		set := map[peer.ID]bool{}
		var todo []peer.ID
		for _, p := range o.seeds {
			if seedOK(p) && !set[p] {
				set[p] = true
				todo = append(todo, p)
			}
		}
		for len(todo) > 0 {
			p := todo[0]
			todo = todo[1:]
			v := vs[p]
			if v == nil {
				continue
			}
			for q := range edges(v) {
				if !set[q] {
					set[q] = true
					todo = append(todo, q)
				}
			}
		}
		return set
	}
	// A seed for which neither its AddrInfo (any of its entries in the seed
	// list) nor the host's peerstore had an address when Run was called cannot
	// be dialed as a seed (Run skips it without an outcome); it is reachable
	// once a delivered reply of a fully and successfully queried peer names it -
	// every reply carries the named peers' addresses - like any other peer.
	must := closure(func(v *verdict) map[peer.ID]bool {
		if !v.okFull {
			return nil
		}
		return v.table
	}, func(p peer.ID) bool { return o.seedHasAddr[p] })
	may := closure(func(v *verdict) map[peer.ID]bool { return v.refs }, func(peer.ID) bool { return true })
	for _, p := range o.seeds {
		if !o.seedHasAddr[p] && must[p] {
			s.Count("probe_addrless_seed_reachable_by_referral")
			break
		}
	}

	for _, p := range u.Peers {
		v := vs[p.ID]
		nOK, nFail := len(o.success[p.ID]), o.fail[p.ID]
		if !v.crawled {
			if must[p.ID] && !o.cancelled {
				why := ""
				for _, x := range u.Peers {
					if vx := vs[x.ID]; must[x.ID] && vx.okFull && vx.table[p.ID] && !vx.refs[p.ID] {
						nq := 0
						for _, k := range queries[x.ID] {
							nq += k
						}
						why = fmt.Sprintf(" (%s holds it in its table and names it in the reply for one of its %d buckets; the crawl sent %s %d queries, all answered, never asked for that bucket and reported %s as queried)", x.Name, c16QueryBuckets, x.Name, nq, x.Name)
						break
					}
				}
				s.Violate("crawl-missed", "crawl %d never contacted %s although it is reachable from the seeds through the routing tables of successfully queried peers%s", o.N, p.Name, why)
			}
			if nOK+nFail > 0 {
				s.Violate("callback-uncrawled", "crawl %d reported an outcome for %s (%d success, %d fail) without dialing or querying it", o.N, p.Name, nOK, nFail)
			}
			continue
		}
		if !may[p.ID] {
			s.Violate("crawl-invented", "crawl %d contacted %s which is neither a seed nor named in any reply", o.N, p.Name)
		}
		if mult[p.ID] > 1 {
			// separate input class: the seed list names this peer several times
			if v.instances > 1 {
				s.Violate("dup-seed-crawled-twice", "crawl %d: %s is listed %d times in the seed list and was crawled %d times (crawler/crawler.go Run appends every starting peer to its work list without consulting peersSeen)", o.N, p.Name, mult[p.ID], v.instances)
			}
			if v.instances > mult[p.ID] {
				s.Violate("bucket-query-twice", "crawl %d crawled %s %d times, it is listed %d times in the seed list", o.N, p.Name, v.instances, mult[p.ID])
			}
			if nOK+nFail != v.instances {
				s.Violate("callback-count", "crawl %d crawled %s %d times but reported %d success + %d fail outcomes", o.N, p.Name, v.instances, nOK, nFail)
			}
			continue
		}
		if v.instances > 1 {
			s.Violate("bucket-query-twice", "crawl %d crawled %s %d times", o.N, p.Name, v.instances)
			continue
		}
		if nOK+nFail != 1 {
			s.Violate("callback-count", "crawl %d contacted %s once but reported %d success + %d fail outcomes (exactly one expected)", o.N, p.Name, nOK, nFail)
			continue
		}
		switch {
		case v.failed && nOK > 0:
			s.Violate("callback-wrong", "crawl %d reported success for %s although a dial or query failure was delivered for it", o.N, p.Name)
		case v.okFull && len(v.refs) > 0 && nFail > 0:
			s.Violate("callback-wrong", "crawl %d reported failure for %s although it connected and answered every query, naming %d peers", o.N, p.Name, len(v.refs))
		}
		if nOK == 1 && v.okFull {
			got := idSet(o.success[p.ID][0])
			same := len(got) == len(v.refs)
			for q := range v.refs {
				same = same && got[q]
			}
			if !same {
				var want []peer.ID
				for q := range v.refs {
					want = append(want, q)
				}
				s.Violate("success-content", "crawl %d reported {%s} as the peers of %s, its replies named {%s}", o.N, sortedNames(u, o.success[p.ID][0]), p.Name, sortedNames(u, want))
			}
		}
	}
}

// summary is an order-independent digest of a crawl for the trace.
func (o *crawlObs) summary(u *simnet.Universe) string {
	o.mu.Lock()
	defer o.mu.Unlock()
	var ok, fl []string
	for _, p := range u.Peers {
		if n := len(o.success[p.ID]); n > 0 {
			ok = append(ok, fmt.Sprintf("%s*%d", p.Name, n))
		}
		if n := o.fail[p.ID]; n > 0 {
			fl = append(fl, fmt.Sprintf("%s*%d", p.Name, n))
		}
	}
	return fmt.Sprintf("crawl %d ok={%s} fail={%s}", o.N, strings.Join(ok, ","), strings.Join(fl, ","))
}

// ---------------------------------------------------------------------------
// stub crawler

// crawlSpec is what the stub crawler reports for one Run call.
type crawlSpec struct {
	OK   []*simnet.Peer
	Fail []*simnet.Peer
	// Addrs (optional): the addresses this crawl finds the OK peers at; they
	// REPLACE what the host's peerstore holds for the peer (the peer is found at
	// its current addresses only). nil: simnet.Peer.Addrs are added, as before.
	Addrs map[peer.ID][]ma.Multiaddr
	// Change (optional, needs stubCrawler.PS): address changes that are pending
	// while the peer concerned is reported (c16_addrchange.go).
	Change map[peer.ID]*c16AddrChange
}

type stubCall struct {
	N        int
	Seeds    []peer.ID
	Reported bool
}

// stubCrawler is a crawler.Crawler (public interface, passed through
// fullrt.WithCrawler) that parks in the simulator, then reports a peer set
// chosen by the scenario, then parks again before returning - so that both
// "the crawl reports" and "Run returns, the swap begins" are scheduler
// decisions. A reported peer gets its harness-assigned addresses in the host's
// peerstore (with crawlSpec.Addrs: instead of whatever the peerstore held for
// it, so the crawl finds the peer at exactly these addresses) and a
// connection, which is what a real crawl leaves behind.
type stubCrawler struct {
	S  *sim.Sim
	H  *simhost.Host
	PS *c16Peerstore // optional: the peerstore the client under test reads (crawlSpec.Change)

	mu    sync.Mutex
	calls []*stubCall
}

var _ crawler.Crawler = (*stubCrawler)(nil)

func (c *stubCrawler) Run(ctx context.Context, seeds []*peer.AddrInfo, ok crawler.HandleQueryResult, fail crawler.HandleQueryFail) {
	c.mu.Lock()
	call := &stubCall{N: len(c.calls) + 1}
	c.calls = append(c.calls, call)
	c.mu.Unlock()
	for _, ai := range seeds {
		call.Seeds = append(call.Seeds, ai.ID)
	}
	out, cerr := c.S.Park("crawl", fmt.Sprintf("run%02d", call.N), ctx, call)
	if cerr != nil {
		return
	}
	spec, _ := out.(*crawlSpec)
	if spec == nil {
		return
	}
	for _, p := range spec.OK {
		if spec.Addrs != nil {
			c.H.Peerstore().ClearAddrs(p.ID)
			c.H.Peerstore().AddAddrs(p.ID, spec.Addrs[p.ID], peerstore.PermanentAddrTTL)
		} else {
			c.H.Peerstore().AddAddrs(p.ID, p.Addrs, peerstore.PermanentAddrTTL)
		}
		c.H.Net().SetConnected(p.ID, true)
		if ch := spec.Change[p.ID]; ch != nil && c.PS != nil {
			c.PS.Arm(ch)
			ok(p.ID, nil)
			c.PS.Disarm()
			continue
		}
		ok(p.ID, nil)
	}
	for _, p := range spec.Fail {
		fail(p.ID, errReqFailed)
	}
	call.Reported = true
	_, _ = c.S.Park("crawl", fmt.Sprintf("end%02d", call.N), ctx, call)
}

// parkedCrawl returns the stub's parked call whose label starts with prefix
// ("run" or "end"), or nil.
func parkedCrawl(s *sim.Sim, prefix string) *sim.Parked {
	for _, p := range s.ParkedKind("crawl") {
		if strings.HasPrefix(p.ID, "crawl:"+prefix) {
			return p
		}
	}
	return nil
}
