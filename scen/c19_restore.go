//go:build all || c19

package scen

// C19, second part: restoring large queues, and restoring from a datastore
// that fails or is damaged in the middle of the read.
//
// Generator extensions
//
//   - bulk block (all three provide-queue scenarios): one client enqueues a
//     block of disjoint regions whose number is a drawn size class (9–16, 17–40,
//     41–130; VERIF_TIER=thorough adds 131–400 and 401–900), in a scrambled
//     order, prefixes one bit shorter / longer mixed in, followed in half of
//     the runs by a Persist and a restart probe; the block sits at a drawn
//     place of the ordinary random workload, so that the short prefixes of the
//     random part absorb, dequeue, remove and persist parts of it, and the
//     final phase (persist, clean restart, empty the queue) sees what is left.
//     The property quantifies over every history and every persist/restart
//     point: nothing in it bounds the number of regions a persisted queue has.
//   - read faults (scenario provide-queue-ds-errors only, decided by the
//     scheduler when the Query of a Persist / DrainDatastore is answered):
//     (a) the result stream of the query breaks with an I/O error after n of
//     the m entries were delivered (0 <= n < m); (b) one persisted entry is
//     torn: its value is truncated to a drawn length (what a crash in the middle
//     of a non-atomic write leaves behind). Truncation can only drop keys or
//     make the value undecodable: it never forges a key. Persist is not given
//     torn entries: it reads keys only.
//
// Oracle extensions (each follows from the property text; none looks at how
// the queue is implemented)
//
//   - the model (c19model.go) treats a DrainDatastore that read a torn entry
//     like one that failed: what it loaded and what it left behind is not
//     constrained. A restart probe that hit a read fault is held to safety only
//     (checkRestart: well-formed queue, no duplicate, no foreign key, keys a
//     subset of those persisted), like one that hit a crash cut.
//   - dequeue-without-keys ("dequeue returns the oldest prefix together with
//     all ... the queued keys under it"; the queue maps prefixes to KEYS):
//     Dequeue never returns a region without a key. Checked on every Dequeue,
//     also while the model does not know the content of the queue.
//   - key-handed-out-twice ("an enqueued key stays exactly ONCE in the queue
//     until it is dequeued"): a key returned by two dequeue operations, the
//     first of which returned before the second was called, must have been
//     added again in between (an Enqueue of that key or a DrainDatastore that
//     can have overlapped the gap). Needs no model state.
//   - final-queue-incoherent ("ordered map from NON-OVERLAPPING prefixes to
//     keys", "all and only the queued keys under it"): the final phase runs
//     alone: NumRegions, Size, then Dequeue until the queue is empty. The
//     number of regions handed out equals NumRegions, the number of keys equals
//     Size, the prefixes do not overlap, no key comes twice, the queue runs
//     empty. Holds whatever the content was.
//   - final-restart-differs ("persisting the queue and draining it into a
//     fresh one restores the same prefixes, order and keys"): the final phase's
//     Persist returned nil, nothing touched the queue afterwards, so the fresh
//     queue of the final clean restart and the queue under test must hand out
//     the same regions in the same order with the same keys, and the restart
//     leaves its datastore empty. Needs no model state either: this is what
//     holds the round trip to account after a failed additive drain (where the
//     model lost track of the content).
//   - restart-corrupt additionally compares NumRegions / IsEmpty of the fresh
//     queue with what it hands out, and demands that it runs empty.
//
// Excluded from the generated space: values damaged in other ways than
// truncation (a flipped bit can forge a well-formed foreign key, which the
// queue cannot be blamed for); entries with damaged datastore KEYS; torn
// entries under a Persist.

import (
	"context"
	"fmt"
	"os"
	"sort"
	"strings"

	ds "github.com/ipfs/go-datastore"
	"github.com/ipfs/go-datastore/query"

	"verif/sim"
	"verif/simds"
)

// ---------------------------------------------------------------------------
// read faults

// c19BreakingDS is the datastore handed to the queue in the error-injecting
// scenario: the result stream of a query can break in the middle. Whether and
// where is decided by the scheduler while the underlying query is parked
// (readFault sets o.midFail before it releases the query).
type c19BreakingDS struct {
	ds.Batching
	o *c19Op
}

func (b *c19BreakingDS) Query(ctx context.Context, q query.Query) (query.Results, error) {
	res, err := b.Batching.Query(ctx, q)
	if err != nil || b.o.midFail == 0 {
		return res, err
	}
	n := b.o.midFail - 1
	i, broken := 0, false
	return query.ResultsFromIterator(q, query.Iterator{
		Next: func() (query.Result, bool) {
			if broken {
				return query.Result{}, false
			}
			if i >= n {
				broken = true
				b.o.midFired = true
				return query.Result{Error: simds.ErrInjected}, true
			}
			i++
			return res.NextSync()
		},
		Close: res.Close,
	}), nil
}

// readFault is called on the simulator goroutine when the parked Query of an
// operation is about to be answered; it may inject one of the two read faults
// (and then answers the query itself).
func (h *c19H) readFault(p *sim.Parked, op *simds.Op) bool {
	s := h.s
	o := h.owner(p)
	if o == nil {
		return false
	}
	snap := op.DS.Snapshot()
	o.nRead = len(snap)
	if len(snap) == 0 {
		return false
	}
	keys := make([]string, 0, len(snap))
	for k := range snap {
		keys = append(keys, k)
	}
	sort.Strings(keys)
	switch s.Draw("read-fault", 6) {
	case 4: // the result stream breaks
		n := s.Draw("break-after", len(keys))
		o.midFail, o.faulted = n+1, true
		s.Count("fault_ds_query_breaks_midstream")
		s.Tracef("fault %s: result stream of its query breaks after %d of %d entries", o.tag, n, len(keys))
	case 5: // a torn entry
		if o.kind == "persist" {
			return false
		}
		i := s.Draw("torn-entry", len(keys))
		v := snap[keys[i]]
		if len(v) == 0 {
			return false
		}
		cut := s.Draw("torn-len", len(v))
		op.DS.Poke(keys[i], v[:cut])
		o.tornAt, o.corrupt, o.faulted = i+1, true, true
		if op.DS == h.d {
			h.liveCorrupt, h.everLiveCorrupt = true, true
		}
		s.Count("fault_ds_torn_entry")
		s.Tracef("fault %s: entry %d of %d torn, %d of %d bytes left", o.tag, i, len(keys), cut, len(v))
	default:
		return false
	}
	s.Release(p, nil)
	return true
}

// readFaultProbes: did the faults reach the interesting corner (the drain gave
// up after it had already loaded something)?
func (h *c19H) readFaultProbes(o *c19Op) {
	s := h.s
	if o.kind != "drain" && o.kind != "restart" {
		return
	}
	midway := false
	if o.midFired && o.errStr != "" && o.midFail > 1 {
		s.Count("probe_drain_stream_broke_after_some")
		midway = true
	}
	if o.tornAt > 1 && o.errStr != "" {
		s.Count("probe_drain_torn_entry_not_first")
		midway = true
	}
	if o.corrupt && o.errStr == "" {
		s.Count("probe_drain_torn_entry_accepted")
	}
	if o.kind == "restart" && midway {
		s.Count("probe_restart_drain_failed_midway")
	}
	if o.kind == "drain" && midway {
		s.Count("probe_live_drain_failed_midway")
	}
}

// ---------------------------------------------------------------------------
// bulk block

func c19Thorough() bool { return os.Getenv("VERIF_TIER") == "thorough" }

// c19BulkClasses: size classes of the number of regions of the bulk block.
func c19BulkClasses() [][2]int {
	classes := [][2]int{{9, 16}, {17, 40}, {41, 130}}
	if c19Thorough() {
		classes = append(classes, [2]int{131, 400}, [2]int{401, 900})
	}
	return classes
}

// c19SizeProbes counts how large the queues that went through Persist /
// through a strictly checked restart were.
func c19SizeProbes(s *sim.Sim, name string, n int) {
	for _, t := range []int{10, 16, 40, 100, 255} {
		if n > t {
			s.Count(fmt.Sprintf("%s_over_%d", name, t))
		}
	}
}

// c19DrawBulk draws the bulk block: enqueue operations of one client that
// build many disjoint regions. The pool is walked in a scrambled order
// (start + i*stride with an odd stride is a permutation); a key opens a
// region under the first `depth` bits of its identifier (sometimes one bit
// less: covers / absorbs a sibling; sometimes one more), keys falling into a
// region that exists already join its enqueue (up to 3 keys).
func c19DrawBulk(s *sim.Sim, pool *c19Pool, nClients int, withDS bool) []*c19Op {
	if !s.Chance("bulk", 1, 6) {
		return nil
	}
	classes := c19BulkClasses()
	c := classes[s.Draw("bulk-class", len(classes))]
	n := s.Range("bulk-regions", c[0], c[1])
	depth := 2
	for 1<<depth < 2*n && depth < 10 {
		depth++
	}
	start := s.Draw("bulk-start", c19PoolSize)
	stride := 2*s.Draw("bulk-stride", c19PoolSize/2) + 1
	client := s.Draw("bulk-client", nClients)
	cell := map[string]*c19Op{}
	var ops []*c19Op
	for i := 0; i < c19PoolSize && len(ops) < n; i++ {
		id := c19ID((start + i*stride) % c19PoolSize)
		b := pool.bitsOf(id)
		if o := cell[b[:depth]]; o != nil {
			if len(o.keys) < 3 && strings.HasPrefix(b, o.prefix) {
				o.keys = append(o.keys, id)
			}
			continue
		}
		l := depth
		switch s.Draw("bulk-len", 12) {
		case 10:
			l = depth - 1
		case 11:
			l = depth + 1
		}
		o := &c19Op{kind: "enq", client: client, bulk: true, prefix: b[:l], keys: []c19ID{id}}
		cell[b[:depth]] = o
		ops = append(ops, o)
	}
	if withDS && s.Chance("bulk-persist", 1, 2) {
		ops = append(ops,
			&c19Op{kind: "persist", client: client, batch: []int{100, 1, 2, 3, 7, 16}[s.Draw("batch", 6)]},
			&c19Op{kind: "restart", client: client, cutMode: s.Draw("cut-mode", 3), cutFrac: s.Draw("cut", 9973), parkFork: s.Chance("park-fork", 1, 2)})
	}
	return ops
}

// ---------------------------------------------------------------------------
// rules that need no model state

// checkHandedOutOnce: rule key-handed-out-twice.
func (h *c19H) checkHandedOutOnce() {
	s := h.s
	taken := map[c19ID][]*c19Op{}
	added := map[c19ID][]*c19Op{}
	var drains []*c19Op
	for _, o := range h.ops {
		switch o.kind {
		case "deq", "deqm":
			if o.done {
				for _, k := range o.outKeys {
					taken[k] = append(taken[k], o)
				}
			}
		case "enq":
			if o.started {
				for _, k := range o.keys {
					added[k] = append(added[k], o)
				}
			}
		case "drain":
			if o.started {
				drains = append(drains, o)
			}
		}
	}
	keys := make([]int, 0, len(taken))
	for k, ops := range taken {
		if len(ops) > 1 {
			keys = append(keys, int(k))
		}
	}
	sort.Ints(keys)
	// can x have taken effect after a did and before b did?
	between := func(x, a, b *c19Op) bool { return x.call < b.ret && (!x.done || x.ret > a.call) }
	for _, ki := range keys {
		k := c19ID(ki)
		ops := taken[k]
		for i, a := range ops {
			for _, b := range ops[i+1:] {
				a, b := a, b
				if b.ret < a.call {
					a, b = b, a
				}
				if !(a.ret < b.call) {
					continue // overlapping in time: no order between them
				}
				s.Count("probe_key_dequeued_again")
				again := false
				for _, e := range added[k] {
					again = again || between(e, a, b)
				}
				for _, d := range drains {
					again = again || between(d, a, b)
				}
				if !again {
					s.Violate("key-handed-out-twice", "key %d was handed out by %s (#%d) and again by %s (#%d) although nothing can have added it to the queue in between (no Enqueue of it, no DrainDatastore)", k, a.String(), a.n, b.String(), b.n)
					return
				}
			}
		}
	}
}

// checkFinalPhase: rules final-queue-incoherent and final-restart-differs.
func (h *c19H) checkFinalPhase() {
	s := h.s
	var pers, rst, regs, size *c19Op
	var deqs []*c19Op
	for _, o := range h.ops {
		if !o.final {
			continue
		}
		if !o.done || o.panicMsg != "" {
			return
		}
		switch o.kind {
		case "persist":
			pers = o
		case "restart":
			rst = o
		case "regions":
			regs = o
		case "size":
			size = o
		case "deq":
			deqs = append(deqs, o)
		}
	}
	if regs == nil || size == nil || len(deqs) == 0 {
		return
	}
	s.Count("probe_final_phase_checked")
	var got []c19Ent
	for _, o := range deqs {
		if o.outOK {
			got = append(got, c19Ent{P: o.outPrefix, K: o.outKeys})
		}
	}
	if deqs[len(deqs)-1].outOK {
		s.Violate("final-queue-incoherent", "the queue does not run empty: NumRegions returned %d, then %d Dequeue calls in a row returned a region (no more than %d prefixes were ever enqueued)", regs.outN, len(got), h.maxRegions)
		return
	}
	total := 0
	seen := map[c19ID]string{}
	for _, e := range got {
		total += len(e.K)
		for _, k := range e.K {
			if p, dup := seen[k]; dup {
				s.Violate("final-queue-incoherent", "emptying the queue handed out key %d twice, under %q and under %q", k, p, e.P)
				return
			}
			seen[k] = e.P
		}
	}
	if len(got) != regs.outN || total != size.outN {
		s.Violate("final-queue-incoherent", "NumRegions returned %d and Size %d, then emptying the queue with Dequeue (nothing else running) handed out %d regions with %d keys: %s", regs.outN, size.outN, len(got), total, c19Ents(got))
		return
	}
	ps := make([]string, 0, len(got))
	for _, e := range got {
		ps = append(ps, e.P)
	}
	sort.Strings(ps)
	for i := 1; i < len(ps); i++ {
		// in lexicographic order a prefix is followed directly by a string it covers, if there is one
		if c19IsPrefix(ps[i-1], ps[i]) {
			s.Violate("final-queue-incoherent", "emptying the queue handed out the overlapping (or repeated) prefixes %q and %q: %s", ps[i-1], ps[i], c19Ents(got))
			return
		}
	}
	if pers == nil || rst == nil || pers.errStr != "" || pers.faulted || rst.dirty || rst.faulted || rst.errStr != "" {
		return
	}
	s.Count("probe_final_restart_compared")
	c19SizeProbes(s, "probe_final_restart_regions", len(got))
	if !c19EqEnts(rst.dump, got) || rst.dsLeft != 0 {
		at := 0
		for at < len(got) && at < len(rst.dump) && rst.dump[at].P == got[at].P && c19EqKeys(rst.dump[at].K, got[at].K) {
			at++
		}
		s.Violate("final-restart-differs", "Persist returned nil and nothing touched the queue afterwards, yet the fresh queue drained from the datastore differs from the queue that was persisted: %d regions restored, %d persisted, %d entries left in the datastore; first difference at position %d (restored %s, persisted %s)",
			len(rst.dump), len(got), rst.dsLeft, at, c19EntAt(rst.dump, at), c19EntAt(got, at))
	}
}

func c19EntAt(es []c19Ent, i int) string {
	if i >= len(es) {
		return "nothing"
	}
	return c19Ents(es[i : i+1])
}
