//go:build all || c02

package scen

// C02, generator extension "patchy address knowledge" (used by all four C02
// scenarios) and the ground-truth reading of "non-failed" in rule
// `terminate-early`.
//
// Property clauses encoded (no new demand, the existing rule ids judge it):
//
//   * "If every peer answers ... and replies with the K nearest peers it
//     knows, an uncancelled closest-peers lookup returns the globally nearest
//     peer first, and returns exactly the K globally nearest peers when every
//     peer knows the whole network" -> `converge-nearest`, `converge-full`.
//     The premise speaks of which PEERS a reply names and of whether peers
//     ANSWER; it says nothing about how much address information travels with
//     a name, nor about what the node's own address book holds. A reply that
//     names the K nearest peers the responder knows, some of them without an
//     address list (the responder's address record for them ran out, or it
//     only ever saw them inbound), still satisfies it; so does a seed routing
//     table whose members have no stored address. Whether such a peer
//     "answers" is decided by the network behind the host interface, and the
//     simulated host reaches a peer by identity alone, the way a routed host,
//     a host with its own discovery, or an in-memory network does. Dial
//     outcomes therefore follow the peer's scripted behaviour only (always
//     success in the convergence universes), whatever the peerstore holds.
//
//   * "A lookup that ends without being cancelled or stopped has received
//     answers from the beta nearest non-failed peers it learned (or has
//     nothing left to ask)" -> `terminate-early`. "Failed" is a fact of the
//     environment: a dial or a request to the peer failed. The rule used to
//     take the lookup's own word for it (every peer its events call
//     unreachable); it now counts a peer as failed only if the lookup calls it
//     unreachable AND the simulator really delivered a dial failure, a request
//     error or a cancellation for that peer no later than that event. A peer
//     written off without any failed contact stays among the "non-failed peers
//     it learned", and if it is one of the beta nearest of those and never
//     answered, the lookup ended early. On the unchanged tree the two readings
//     coincide (every unreachable report follows a delivered failure), so the
//     rule does not demand more than before.
//
// What is generated (all derived from four tape draws; 0 = everybody is always
// named with all addresses, the previous behaviour):
//
//   * a share (0, 1/8, 1/4, 1/2 or all) of the peers for which NOBODY has an
//     address: every reply names them bare, and if they are in the seed
//     routing table the node's peerstore has nothing for them either;
//   * a share (0..1/2) of "patchy" peers: each (responder, peer) pair — and
//     the node's own address book for seeds — lacks the address with a drawn
//     probability (1/4, 1/2, 3/4), fixed per pair for the whole run, so a peer
//     may be heard of bare first and with an address later, or the other way
//     round;
//   * everything else (universe, knowledge, behaviour, faults in the
//     "terminate-and-contact" scenario, schedule) as before.
//
// Regressions this exposes: any place where the lookup makes contacting,
// tracking, ranking or returning a learned peer depend on what the LOCAL
// address book says about it rather than on what the host reports — dial
// pre-checks, dropping bare records from a reply, address-based pruning of the
// query peer set, "no address" treated as a failed contact.
//
// Soundness: nothing in the unchanged lookup reads the address lists (the
// scenarios that use this install no address-sensitive query filter), and the
// convergence theorem of DESIGN §5 C02(b) is about identities only.
//
// Probes: fault_bare_record (a closer-peer record went out without
// addresses), fault_bare_seed (a seed without a stored address),
// probe_dialed_never_addressed (a dial to a peer the node had never been given
// an address for was answered by the host), probe_bare_peer_returned (such a
// peer is part of the lookup's result).

import (
	"encoding/binary"
	"fmt"

	pb "github.com/libp2p/go-libp2p-kad-dht/pb"
	"github.com/libp2p/go-libp2p/core/peer"
	ma "github.com/multiformats/go-multiaddr"

	"verif/sim"
	"verif/simnet"
)

var c02BareFaults = []string{"fault_bare_record", "fault_bare_seed", "probe_dialed_never_addressed", "probe_bare_peer_returned"}

// bareWorld: who lacks whose address. A pure function of (seed, identities),
// so it does not depend on the order in which peers are asked.
type bareWorld struct {
	s      *sim.Sim
	seed   uint64
	never  int // eighths of the peers nobody has an address for
	patchy int // eighths of the peers whose address some lack
	miss   int // quarters: chance that one address book lacks a patchy peer
	keys   map[peer.ID]uint64
}

// drawBareWorld returns nil (everybody always named with addresses) in half
// of the runs.
func drawBareWorld(s *sim.Sim) *bareWorld {
	if !s.Chance("bare", 1, 2) {
		return nil
	}
	b := &bareWorld{s: s, seed: uint64(s.Draw("bare-seed", 1<<20)), keys: map[peer.ID]uint64{}}
	b.never = []int{0, 1, 2, 4, 8}[s.Draw("bare-never", 5)]
	b.patchy = s.Draw("bare-patchy", 5)
	b.miss = 1 + s.Draw("bare-miss", 3)
	if b.never == 0 && b.patchy == 0 {
		b.patchy = 2
	}
	return b
}

func (b *bareWorld) String() string {
	if b == nil {
		return "off"
	}
	return fmt.Sprintf("never=%d/8,patchy=%d/8,miss=%d/4", b.never, b.patchy, b.miss)
}

func bareMix(z uint64) uint64 {
	z += 0x9e3779b97f4a7c15
	z = (z ^ (z >> 30)) * 0xbf58476d1ce4e5b9
	z = (z ^ (z >> 27)) * 0x94d049bb133111eb
	return z ^ (z >> 31)
}

// key: 64 bits of the peer's harness-side identifier (cached: it is a
// SHA-256; called from the simulator goroutine only).
func (b *bareWorld) key(id peer.ID) uint64 {
	if k, ok := b.keys[id]; ok {
		return k
	}
	kad := simnet.KadOfPeer(id)
	k := binary.BigEndian.Uint64(kad[8:16])
	b.keys[id] = k
	return k
}

const (
	bareClassKnown = iota
	bareClassNever
	bareClassPatchy
)

func (b *bareWorld) class(id peer.ID) int {
	r := int(bareMix(b.seed^b.key(id)) % 8)
	switch {
	case r < b.never:
		return bareClassNever
	case r < b.never+b.patchy:
		return bareClassPatchy
	}
	return bareClassKnown
}

// bareOwnBook stands for the node under test as the holder of an address book.
const bareOwnBook = 0x5e1f5e1f

// lacks: the address book of the holder has no address for `named`.
func (b *bareWorld) lacks(holder uint64, named peer.ID) bool {
	switch b.class(named) {
	case bareClassNever:
		return true
	case bareClassPatchy:
		return int(bareMix(bareMix(b.seed^holder)^b.key(named))%4) < b.miss
	}
	return false
}

// present is the lookupCfg.Present hook.
func (b *bareWorld) present(responder *simnet.Peer, rec *pb.Message_Peer) {
	if len(rec.Addrs) > 0 && b.lacks(b.key(responder.ID), peer.ID(rec.Id)) {
		rec.Addrs = nil
		b.s.Count("fault_bare_record")
	}
}

// seedAddrs is the lookupCfg.SeedAddrs hook (the node's own address book).
func (b *bareWorld) seedAddrs(p *simnet.Peer) []ma.Multiaddr {
	if b.lacks(bareOwnBook, p.ID) {
		b.s.Count("fault_bare_seed")
		return nil
	}
	return p.Addrs
}

// install wires the world into a lookup configuration.
func (b *bareWorld) install(c *lookupCfg) {
	if b == nil {
		return
	}
	c.Present = b.present
	c.SeedAddrs = b.seedAddrs
}

// bareProbes classifies what a run with patchy address knowledge reached.
func bareProbes(s *sim.Sim, o *lookupObs, res []peer.ID) {
	if o.cfg.Present == nil {
		return
	}
	// step at which the node was first given an address for a peer
	addressed := map[peer.ID]int{}
	for p := range o.seeded {
		addressed[p] = -1
	}
	for _, d := range o.deliveries {
		if d.Kind != "reply" {
			continue
		}
		for p := range d.Good {
			if _, ok := addressed[p]; !ok {
				addressed[p] = d.Step
			}
		}
	}
	dialed := map[peer.ID]bool{}
	for _, d := range o.deliveries {
		if d.Kind != "dial-ok" {
			continue
		}
		if st, ok := addressed[d.Peer]; !ok || st >= d.Step {
			dialed[d.Peer] = true
		}
	}
	if len(dialed) > 0 {
		s.Count("probe_dialed_never_addressed")
	}
	for _, p := range res {
		if dialed[p] {
			s.Count("probe_bare_peer_returned")
			break
		}
	}
}
