//go:build all || c06

package scen

// C06 — puts and provides reach every closest peer found, with correct content.
//
// Harness H1 (level A): one real IpfsDHT on the simulated host, the
// message-level sender, scripted peers, the recording datastore. Every
// operation is started with a lookup-event registration of its own, so the set
// R "returned by the lookup" is recomputed from the published lookup events
// with the C01 oracle (lookupObs.view / expectedResult) instead of being guessed.
//
// The oracles state no more than the property:
//   * recipient clauses apply only to operations that returned without error
//     (the lookup succeeded, the operation was not cancelled);
//   * content clauses (what a PUT_VALUE / ADD_PROVIDER message carries) apply to
//     every message that reached the sender during the operation;
//   * nothing is said about what an operation returns;
//   * "failure of individual recipients never prevents delivery to the others"
//     is also checked on the requests in flight: a PUT_VALUE / ADD_PROVIDER that
//     reached the sender with a live context and is still parked there for a
//     recipient the scenario would answer must not find its context cancelled
//     (a) in the very step that delivered another recipient's failure, nor (b)
//     while the operation is still running, the caller's context is live and no
//     virtual time has passed since the request was handed over (so that no
//     time-out of whatever length can have run out). See choose / checkInflight;
//   * the host's addresses change between provides (with and without the
//     address-update event); every ADD_PROVIDER is compared with the filter
//     applied to the addresses the host had while that provide ran;
//   * the caller's context is an input too. In a drawn share of the value
//     searches and optimistic provides the caller does what `defer cancel()`
//     does: it cancels its context on its own goroutine as soon as the call has
//     returned (SearchValue: as soon as the result channel has been drained;
//     the search is also run through GetValue). What an operation still owes
//     when it returns - the corrective PUT_VALUEs are only started then, an
//     optimistic provide returns with ADD_PROVIDERs in flight - is owed whatever
//     the caller does with its context afterwards; a completed search stays
//     completed. At the quiescent point right after the return, a request of
//     the operation that was handed to the sender at this very virtual instant
//     (no time-out of whatever length can have run out since) must not have a
//     cancelled context - whether it was cancelled in flight or was already
//     dead when it was handed over (see checkAtReturn):
//       - cp-put-cancelled (frt-cp-put-cancelled on fullrt) encodes "AFTER a
//         completed value search the peers among the closest that did not
//         return the best value are sent it"; it is judged after every value
//         search, whether the caller released its context or kept it: a
//         corrective put that is cancelled the instant it is started is not
//         sent;
//       - ap-aborted-by-caller-release encodes "sends every peer returned by
//         the lookup one ADD_PROVIDER ... with and without optimistic provide"
//         and is judged only when the caller released its context (an
//         operation may itself give up what it no longer waits for);
//   * ap-local-provider (frt-local-provider on fullrt) encodes "Provide with
//     announce records the local node as provider ... for every network, ...
//     address set and address filter". The clause names the local node's own
//     store; the lookup decides who ELSE is told, and the address set decides
//     whether anything can be sent at all. It is therefore judged after EVERY
//     Provide(announce) that returned - whatever it returned, whether its
//     lookup found peers, failed or never started, whether a caller deadline
//     ran out during it, and in particular when no advertised address passes
//     the filter (nothing may be sent then, ap-sent-without-addrs, yet the
//     node still provides the content and must answer for it): the provider
//     store, asked through its public interface, lists the local peer for the
//     key. The caller's context is always live when the call starts and the
//     datastore never fails here, so nothing excuses a missing record.
//   * pv-store-own encodes "when its closest-peers lookup succeeds, PutValue HAS
//     STORED THE RECORD locally first". The subject of the clause is the call:
//     each PutValue whose lookup succeeded stores the record it is about to send,
//     itself, before the first PUT_VALUE leaves. A copy of the same bytes that an
//     EARLIER operation left in the datastore is not this call's store (a local
//     record is kept from the time it was stored; a publisher that puts the same
//     value again - what every periodic republisher does - and relies on the
//     old copy is the one node among "closest peers + self" that does not get
//     the record of this call). Observed on the recording datastore: a
//     successful write of a record with that key and value that happened after
//     the operation started and no later than the step in which its first
//     PUT_VALUE reached the sender (when the lookup returned no peer at all:
//     before the operation returned). The generator therefore puts the same
//     key again - the same value (a republish), a better or a worse one - after
//     a drawn stretch of virtual time (none, below a second, minutes). Nothing
//     is demanded of a put that was refused or whose lookup did not succeed.

import (
	"bytes"
	"context"
	"fmt"
	"sort"
	"strings"
	"sync"
	"time"

	dht "github.com/libp2p/go-libp2p-kad-dht"
	pb "github.com/libp2p/go-libp2p-kad-dht/pb"
	recpb "github.com/libp2p/go-libp2p-record/pb"
	"github.com/libp2p/go-libp2p/core/event"
	"github.com/libp2p/go-libp2p/core/host"
	"github.com/libp2p/go-libp2p/core/peer"
	"github.com/libp2p/go-libp2p/core/protocol"
	"github.com/libp2p/go-libp2p/core/routing"
	ma "github.com/multiformats/go-multiaddr"
	manet "github.com/multiformats/go-multiaddr/net"
	mh "github.com/multiformats/go-multihash"
	"google.golang.org/protobuf/proto"

	"verif/sim"
	"verif/simds"
	"verif/simhost"
	"verif/simnet"
)

func init() {
	real := []string{"IpfsDHT.PutValue", "IpfsDHT.Provide/classicProvide", "optimisticProvide + netsize.Estimator", "SearchValue corrective puts (updatePeerValues)", "runLookupWithFollowup/query engine", "ProtocolMessenger.PutValue/PutProviderAddrs", "FilteredAddrs/addrFilter", "records.ValueStore", "records.ProviderManager", "lookup events"}
	stub := []string{"host.Host/network (simhost)", "pb.MessageSender (level A, simnet.Sender behind a recording wrapper)", "remote peers (scripted)", "datastore (simds, recording)", "validator (harness rank validator)"}
	recipFaults := []string{"fault_recipient_fail", "fault_recipient_hang", "fault_recipient_slow", "fault_dial_fail", "fault_rpc_error", "time_advance", "cancel_observed", "probe_term_completed", "probe_term_starvation",
		"probe_recipient_failed_while_others_inflight"}
	reg := func(name string, weight int, run func(*sim.Sim), faults ...string) {
		sim.Register(&sim.Scenario{Prop: "C06", Name: name, Weight: weight, Run: run, Real: real, Stub: stub,
			Faults: append(append([]string{}, recipFaults...), faults...)})
	}
	reg("put-value", 3, runC06PutValue,
		"fault_recipient_bad_echo", "probe_put_ok", "probe_put_refused_older", "probe_put_over_existing", "probe_put_lookup_failed",
		"probe_recipient_failed_others_served", "probe_recipient_hung_others_served", "probe_followup_peer_in_R", "probe_R_smaller_than_K",
		"probe_put_own_store_judged", "probe_put_own_store_judged_no_recipient", "probe_put_republish_same_value", "probe_put_republish_judged", "probe_put_after_time_gap")
	reg("provide-classic", 3, func(s *sim.Sim) { runC06Provide(s, false, false) },
		"probe_addrs_changed_with_event", "probe_addrs_changed_silently", "probe_provide_after_addr_change",
		"probe_provide_ok", "probe_all_addrs_filtered", "probe_filter_dropped_some", "probe_provide_deadline_ctx", "probe_provide_deadline_exceeded", "probe_provide_lookup_failed",
		"probe_recipient_failed_others_served", "probe_recipient_hung_others_served", "probe_R_smaller_than_K",
		"probe_local_provider_judged", "probe_local_provider_judged_no_addrs", "probe_local_provider_judged_op_failed", "probe_local_provider_judged_no_lookup_result",
		"probe_key_identity_hash", "probe_key_hash_not_sha256", "probe_key_cid_v0", "probe_key_codec_not_raw")
	reg("provide-optimistic", 3, func(s *sim.Sim) { runC06Provide(s, true, false) },
		"probe_addrs_changed_with_event", "probe_addrs_changed_silently", "probe_provide_after_addr_change",
		"probe_local_provider_judged", "probe_local_provider_judged_no_addrs",
		"probe_provide_ok", "probe_all_addrs_filtered", "probe_filter_dropped_some", "probe_estimator_ready", "probe_optimistic_fallback_classic",
		"probe_optimistic_early_put", "probe_optimistic_extra_recipient", "probe_optimistic_lookup_stopped", "probe_term_stopped", "probe_optimistic_inflight_at_return",
		"probe_recipient_failed_others_served", "probe_recipient_hung_others_served",
		"probe_caller_released_ctx", "probe_at_return_requests_judged",
		"probe_key_identity_hash", "probe_key_hash_not_sha256", "probe_key_cid_v0", "probe_key_codec_not_raw")
	// the same with lookups that take minutes of virtual time: optimistic provide
	// budgets all its ADD_PROVIDERs from before the lookup
	reg("provide-optimistic-slow-lookup", 1, func(s *sim.Sim) { runC06Provide(s, true, true) },
		"probe_provide_ok", "probe_estimator_ready", "probe_optimistic_lookup_stopped", "probe_op_over_60s",
		"probe_key_identity_hash", "probe_key_hash_not_sha256")
	reg("corrective-put", 3, runC06Corrective,
		"fault_recipient_bad_echo", "fault_invalid_record", "fault_wrong_key_record", "probe_search_completed", "probe_search_no_value", "probe_quorum_not_reached",
		"probe_corrective_put_sent", "probe_corrective_none_needed", "probe_holder_of_best_in_R", "probe_local_value_in_search", "probe_best_changed",
		"probe_recipient_failed_others_served", "probe_recipient_hung_others_served",
		"probe_caller_released_ctx", "probe_at_return_requests_judged", "probe_search_via_getvalue")
}

// ---------------------------------------------------------------------------
// world

const (
	c06RecipOK = iota
	c06RecipFail
	c06RecipHang    // released only when its context is done (>= 30 s of virtual time)
	c06RecipSlow    // answers after a drawn delay
	c06RecipBadEcho // PUT_VALUE only: echoes a different value
)

type c06Recip struct {
	Mode  int
	Delay time.Duration
}

// c06Arrival is what the recording wrapper notes when a request reaches the
// message-sender seam (on the caller's goroutine, before it parks).
type c06Arrival struct {
	To       peer.ID
	Type     pb.Message_MessageType
	Key      string
	Step     int
	LocalHas bool   // PUT_VALUE: the local datastore held a record for the key
	LocalVal []byte // ... and its value
}

type c06Sender struct {
	*simnet.Sender
	w *c06World
}

func (m *c06Sender) SendRequest(ctx context.Context, p peer.ID, msg *pb.Message) (*pb.Message, error) {
	m.w.arrive(p, msg)
	return m.Sender.SendRequest(ctx, p, msg)
}

func (m *c06Sender) SendMessage(ctx context.Context, p peer.ID, msg *pb.Message) error {
	m.w.arrive(p, msg)
	return m.Sender.SendMessage(ctx, p, msg)
}

type c06World struct {
	s  *sim.Sim
	h  *H1
	ds *simds.DS
	K  int

	recip map[peer.ID]c06Recip
	// holds: the value record a scripted peer returns for GET_VALUE (corrective-put)
	holds map[peer.ID][]byte
	// wrongKey: the peer answers GET_VALUE with a record filed under another key
	wrongKey map[peer.ID]bool

	mu       sync.Mutex
	arrivals []c06Arrival

	// getReplies: GET_VALUE replies the simulator delivered (peer -> values)
	getReplies []c06GetReply

	ticks   bool
	opStart time.Duration // start of the operation being judged

	// prefix of the rule ids of the in-flight clauses (pv, ap, cp, frt)
	prefix string
	// cur: the operation whose fan-out is being watched (until the next one starts)
	cur *c06OpObs
	// patience: a time-out per operation that the scenario configured through a
	// documented option (fullrt.WithTimeoutPerOperation). No request of an
	// operation may be given up earlier than this long after the operation
	// started. 0: no such option exists (then only "no time at all has passed"
	// is used, see checkInflight).
	patience time.Duration
	// lastFail: the PUT_VALUE / ADD_PROVIDER the step being executed failed
	lastFail *simnet.RPC
	// release: the caller of the next operation cancels its context on its own
	// goroutine as soon as the call has returned (`defer cancel()`); otherwise
	// the context stays live until endOp
	release bool
	// searchPfx: the next operation is a value search; rule-id prefix of its
	// clauses ("cp", "frt-cp")
	searchPfx string

	// lookupDelay: a lookup request to this peer is answered no earlier than
	// this long after it was sent (slow-lookup variant)
	lookupDelay map[peer.ID]time.Duration
}

type c06GetReply struct {
	From  peer.ID
	Key   string
	Value []byte // nil: no record
	Step  int
	N     int // index of the request in the sender log
}

func (w *c06World) arrive(p peer.ID, msg *pb.Message) {
	a := c06Arrival{To: p, Type: msg.GetType(), Key: string(msg.GetKey()), Step: w.s.Steps}
	if msg.GetType() == pb.Message_PUT_VALUE {
		a.LocalVal, a.LocalHas = w.localRecord(string(msg.GetKey()))
	}
	w.mu.Lock()
	w.arrivals = append(w.arrivals, a)
	w.mu.Unlock()
}

// localRecord returns the value of the record stored for key in the local
// datastore right now (found by content: an entry that decodes as a record
// carrying that key), without mirroring the datastore key layout.
func (w *c06World) localRecord(key string) ([]byte, bool) {
	snap := w.ds.Snapshot()
	keys := make([]string, 0, len(snap))
	for k := range snap {
		keys = append(keys, k)
	}
	sort.Strings(keys)
	for _, k := range keys {
		rec := new(recpb.Record)
		if proto.Unmarshal(snap[k], rec) == nil && string(rec.GetKey()) == key && rec.Value != nil {
			return rec.GetValue(), true
		}
	}
	return nil, false
}

type c06Cfg struct {
	N, K, Alpha, Beta int
	Density           int // each peer knows each other peer with p = Density/8
	LookupFaults      int // 0 none, 1 light, 2 heavy (dial failures / request errors during lookups)
	RecipFaults       int // 0 none, 1 light, 2 heavy
	HealthyTable      bool
}

func c06GenCfg(s *sim.Sim, minN, maxK int) c06Cfg {
	var c c06Cfg
	c.K = s.Range("k", 1, maxK)
	switch s.Draw("size-class", 3) {
	case 0:
		c.N = s.Range("n", minN, minN+5)
	case 1:
		c.N = s.Range("n", minN+2, 16)
	default:
		c.N = s.Range("n", 10, 32)
	}
	if c.N < minN {
		c.N = minN
	}
	c.Alpha = s.Range("alpha", 1, 4)
	c.Beta = s.Range("beta", 1, c.K+1)
	c.Density = []int{3, 8, 1}[s.Draw("density", 3)]
	c.LookupFaults = s.Draw("lookup-faults", 3)
	c.RecipFaults = []int{1, 2, 0}[s.Draw("recip-faults", 3)]
	return c
}

// c06Build creates universe, behaviours, datastore and the DHT.
func c06Build(s *sim.Sim, c c06Cfg, opts ...dht.Option) *c06World {
	u := simnet.NewUniverse(uint64(s.Draw("universe", 1<<16)), c.N)
	rng := newSubRng(s, "world")
	w := &c06World{s: s, K: c.K, recip: map[peer.ID]c06Recip{}, holds: map[peer.ID][]byte{}, wrongKey: map[peer.ID]bool{}, ticks: true}
	w.ds = simds.New(s, "ds")
	inner := &simnet.Sender{S: s, U: u}
	base := []dht.Option{
		dht.Datastore(w.ds),
		dht.Validator(rankValidator{}),
		dht.WithCustomMessageSender(func(_ host.Host, _ []protocol.ID) pb.MessageSenderWithDisconnect {
			return &c06Sender{Sender: inner, w: w}
		}),
	}
	h, err := newH1(s, u, c.K, c.Alpha, c.Beta, append(base, opts...)...)
	if err != nil {
		panic(err)
	}
	h.Snd = inner
	w.h = h

	for _, p := range u.Peers {
		b := &Behaviour{}
		for _, q := range u.Peers {
			if q != p && rng.Intn(8) < c.Density {
				b.Knows = append(b.Knows, q)
			}
		}
		if c.LookupFaults > 0 {
			pct := []int{0, 10, 30}[c.LookupFaults]
			if rng.Intn(100) < pct {
				b.DialFail = true
			} else if rng.Intn(100) < pct {
				b.ReqMode = reqError
			}
		}
		h.Beh[p.ID] = b
		var r c06Recip
		if c.RecipFaults > 0 {
			pct := []int{0, 12, 35}[c.RecipFaults]
			switch x := rng.Intn(100); {
			case x < pct:
				r.Mode = c06RecipFail
			case x < 2*pct:
				r.Mode = c06RecipHang
			case x < 2*pct+pct/2:
				r.Mode = c06RecipSlow
				r.Delay = time.Duration(1+rng.Intn(28000)) * time.Millisecond
			case x < 2*pct+pct:
				r.Mode = c06RecipBadEcho
			}
		}
		w.recip[p.ID] = r
	}

	// routing table: a drawn non-empty subset
	var seeds []*simnet.Peer
	frac := 1 + s.Draw("seed-frac", 4)
	for _, p := range u.Peers {
		if rng.Intn(4) < frac {
			seeds = append(seeds, p)
		}
	}
	if len(seeds) == 0 {
		seeds = []*simnet.Peer{u.Peers[rng.Intn(len(u.Peers))]}
	}
	if c.HealthyTable {
		// Routing-table members always answer lookups (peers that join the
		// table later have answered a query, so they do too): no lookup result is
		// ever empty. Needed for optimistic provide, which never returns when its
		// lookup yields no peer at all (waitForRPCs ranges over a channel nobody
		// writes; a termination defect that belongs to C03) - such a run could
		// not be drained.
		for _, p := range seeds {
			b := h.Beh[p.ID]
			b.DialFail, b.ReqMode = false, reqHonest
		}
	}
	table := h.Seed(seeds)
	s.Summary["cfg"] = fmt.Sprintf("N=%d K=%d alpha=%d beta=%d density=%d/8 table=%d lookupFaults=%d recipFaults=%d",
		c.N, c.K, c.Alpha, c.Beta, c.Density, len(table), c.LookupFaults, c.RecipFaults)
	return w
}

// ---------------------------------------------------------------------------
// scheduler actions

func (w *c06World) recordFor(x peer.ID, key string) *recpb.Record {
	v, ok := w.holds[x]
	if !ok {
		return nil
	}
	k := key
	if w.wrongKey[x] {
		k = key + "-other"
	}
	return &recpb.Record{Key: []byte(k), Value: v}
}

// actions turns every parked dial / rpc into a release action following the
// addressed peer's scripted behaviour. Hung recipients get no action until
// their context is done; slow ones none before their delay has passed.
func (w *c06World) actions() []sim.Action {
	s, h := w.s, w.h
	var acts []sim.Action
	for _, p := range s.Parked() {
		p := p
		if p.Cancelled() {
			acts = append(acts, sim.Action{ID: "cancel>" + p.ID, Do: func() {
				if r, ok := p.Data.(*simnet.RPC); ok {
					t := r.Req.GetType()
					if (t == pb.Message_PUT_VALUE || t == pb.Message_ADD_PROVIDER) && w.recip[r.To].Mode == c06RecipHang && s.Now()-r.SentAt >= 30*time.Second {
						s.Count("fault_recipient_hang")
					}
				}
				s.ReleaseCancelled(p)
			}})
			continue
		}
		switch p.Kind {
		case "dial":
			who := p.Data.(peer.ID)
			acts = append(acts, sim.Action{ID: p.ID, Do: func() {
				if b := h.Beh[who]; b == nil || b.DialFail {
					s.Count("fault_dial_fail")
					s.Release(p, simhost.ErrDialFailed)
				} else {
					s.Release(p, nil)
				}
			}})
		case "rpc":
			r := p.Data.(*simnet.RPC)
			switch r.Req.GetType() {
			case pb.Message_PUT_VALUE, pb.Message_ADD_PROVIDER:
				rc := w.recip[r.To]
				if rc.Mode == c06RecipHang {
					continue
				}
				if rc.Mode == c06RecipSlow && s.Now()-r.SentAt < rc.Delay {
					continue
				}
				acts = append(acts, sim.Action{ID: p.ID, Do: func() {
					switch {
					case rc.Mode == c06RecipFail:
						s.Count("fault_recipient_fail")
						w.lastFail = r
						s.Release(p, simnet.Reply{Err: errReqFailed})
					case !r.WantResp:
						if rc.Mode == c06RecipSlow {
							s.Count("fault_recipient_slow")
						}
						s.Release(p, simnet.Reply{})
					default:
						echo := proto.Clone(r.Req).(*pb.Message)
						if echo.Record == nil {
							// never hand the client a reply without a record (that
							// input class belongs to C10)
							echo.Record = &recpb.Record{Key: r.Req.GetKey()}
						}
						if rc.Mode == c06RecipBadEcho {
							// for the client this recipient failed ("value not put correctly")
							s.Count("fault_recipient_bad_echo")
							w.lastFail = r
							echo.Record.Value = append([]byte("x"), echo.Record.Value...)
						}
						if rc.Mode == c06RecipSlow {
							s.Count("fault_recipient_slow")
						}
						s.Release(p, simnet.Reply{Msg: echo})
					}
				}})
			default:
				if d := w.lookupDelay[r.To]; d > 0 && s.Now()-r.SentAt < d {
					continue
				}
				acts = append(acts, sim.Action{ID: p.ID, Do: func() {
					b := h.Beh[r.To]
					x := h.U.ByID(r.To)
					if b == nil || x == nil || b.ReqMode == reqError {
						s.Count("fault_rpc_error")
						s.Release(p, simnet.Reply{Err: errReqFailed})
						return
					}
					key := string(r.Req.GetKey())
					resp := &pb.Message{Type: r.Req.GetType(), Key: r.Req.GetKey(), CloserPeers: h.closerFor(x, simnet.KadOfKey(key))}
					if r.Req.GetType() == pb.Message_GET_VALUE {
						resp.Record = w.recordFor(x.ID, key)
						gr := c06GetReply{From: x.ID, Key: key, Step: s.Steps, N: r.N}
						if resp.Record != nil {
							if w.wrongKey[x.ID] {
								s.Count("fault_wrong_key_record")
							} else {
								gr.Value = resp.Record.Value
							}
						}
						w.getReplies = append(w.getReplies, gr)
					}
					s.Release(p, simnet.Reply{Msg: resp})
				}})
			}
		}
	}
	return acts
}

// settle answers everything parked in canonical order with the scripted
// behaviour and without drawing, until done() holds. Used for preparation work
// that is not under test (feeding the network-size estimator, pre-storing a
// local record). Hung recipients are waited out.
func (w *c06World) settle(done func() bool) bool {
	s := w.s
	for i := 0; i < 4000; i++ {
		s.Quiesce()
		if done() {
			return true
		}
		acts := w.actions()
		if len(acts) == 0 {
			if len(s.Parked()) == 0 {
				return done()
			}
			s.Sleep(5 * time.Second)
			continue
		}
		sort.SliceStable(acts, func(i, j int) bool { return acts[i].ID < acts[j].ID })
		acts[0].Do()
	}
	return done()
}

// ---------------------------------------------------------------------------
// one operation under the scheduler

type c06OpObs struct {
	name      string
	lookupKey string
	op        *Op
	events    []stampedEvent
	base      int // length of the sender log when the operation started
	arrBase   int
	getBase   int
	dsBase    int // length of the datastore log when the operation started
	startAt   time.Duration
	deadline  time.Duration // 0: none
	finished  func() bool
	ctx       context.Context // the caller's context
	end       func()          // cancels the caller's contexts (endOp)
	released  bool            // the caller cancelled ctx itself right after the call returned
	searchPfx string          // non-empty: a value search (rule-id prefix of its clauses)
}

// endOp cancels the contexts of the operation started last. This happens when
// the next operation starts or the scenario ends, not when the operation
// returns: requests that are still in flight then (optimistic provide,
// corrective puts) keep a caller whose context is live, so that a cancellation
// they observe cannot be the harness's own doing. (Operations started with
// w.release set are the exception: their caller cancels its own context the
// moment the call returns, see runOp / checkAtReturn.)
func (w *c06World) endOp() {
	if w.cur != nil && w.cur.end != nil {
		w.cur.end()
		w.cur.end = nil
	}
	w.cur = nil
}

// fanout returns the parked PUT_VALUE / ADD_PROVIDER requests of the current
// operation that reached the sender with a live context, in canonical order.
func (w *c06World) fanout() []*sim.Parked {
	if w.cur == nil {
		return nil
	}
	var out []*sim.Parked
	for _, p := range w.s.ParkedKind("rpc") {
		r, ok := p.Data.(*simnet.RPC)
		if !ok || r.N < w.cur.base || !r.CtxLive {
			continue
		}
		if t := r.Req.GetType(); t != pb.Message_PUT_VALUE && t != pb.Message_ADD_PROVIDER {
			continue
		}
		out = append(out, p)
	}
	return out
}

// answers: the scenario would deliver the request to this recipient and answer
// it (at once, late, or with a wrong echo) if it stayed in flight.
func (w *c06World) answers(p peer.ID) bool {
	m := w.recip[p].Mode
	return m != c06RecipFail && m != c06RecipHang
}

// callerLive: the caller's context of the current operation is live and, if
// it has a deadline, that deadline is still ahead.
func (w *c06World) callerLive() bool {
	ob := w.cur
	if ob == nil || ob.ctx == nil || ob.ctx.Err() != nil {
		return false
	}
	return ob.deadline == 0 || w.s.Now()-ob.startAt < ob.deadline
}

// choose lets the scheduler pick one action and then checks what the step did
// to the requests that were in flight.
//
// <prefix>-cancelled-by-failure: the step delivered a failure (an error, or a
// wrong echo) to one recipient of the current operation. A step runs no timer
// and answers nothing else, so whatever changed is a consequence of that
// failure. A request that was in flight with a live context for ANOTHER
// recipient - one the scenario would answer - must not have had its context
// cancelled by it. Judged while the caller's context is live and only when the
// operation did not return within this very step (an operation that returns
// may give up what it no longer waits for; fullrt does). It applies equally
// before the operation returned and afterwards (optimistic provide and
// corrective puts leave requests in flight). A caller that released its context
// when the operation returned (ob.released) does not switch the rule off for
// the steps after the return: the release happened before the step, whatever it
// cancelled was cancelled before the step and is not in `before`.
func (w *c06World) choose(acts []sim.Action) {
	s, u := w.s, w.h.U
	before := map[string]bool{}
	for _, p := range w.fanout() {
		if !p.Cancelled() {
			before[p.ID] = true
		}
	}
	doneBefore := w.cur != nil && w.cur.op != nil && w.cur.op.Done
	w.lastFail = nil
	s.Choose("next", acts)
	if f := w.lastFail; f != nil && !s.Failed() && w.cur != nil && f.N >= w.cur.base && w.cur.op.Done == doneBefore && (w.callerLive() || (doneBefore && w.cur.released)) {
		others := 0
		for _, p := range w.fanout() {
			r := p.Data.(*simnet.RPC)
			if !before[p.ID] || r.To == f.To || !w.answers(r.To) {
				continue
			}
			others++
			if p.Cancelled() {
				s.Violate(w.prefix+"-cancelled-by-failure", "%s: the %s for %s was in flight with a live context; delivering the failure of recipient %s cancelled it (operation returned: %v, caller's context live, %v after the request was handed over)",
					w.cur.name, r.Req.GetType(), u.Name(r.To), u.Name(f.To), doneBefore, s.Now()-r.SentAt)
				return
			}
		}
		if others > 0 {
			s.Count("probe_recipient_failed_while_others_inflight")
		}
	}
	w.checkInflight()
}

// checkInflight, at a quiescent point:
//
// <prefix>-inflight-cancelled: while the operation has not returned and the
// caller's context is live, a request in flight for a recipient the scenario
// would answer has a cancelled context although no time-out can have run out:
// either no virtual time at all has passed since it was handed to the sender,
// or (fullrt) less time has passed since the operation started than the
// time-out per operation the scenario configured. The message cannot have
// been delivered; "sends it to every peer" does not hold for that recipient
// whatever the cause was.
func (w *c06World) checkInflight() {
	s, ob := w.s, w.cur
	if s.Failed() || ob == nil || ob.op == nil || ob.op.Done || !w.callerLive() {
		return
	}
	now := s.Now()
	for _, p := range w.fanout() {
		r := p.Data.(*simnet.RPC)
		if !p.Cancelled() || !w.answers(r.To) {
			continue
		}
		if now == r.SentAt || (w.patience > 0 && now-ob.startAt < w.patience) {
			s.Violate(w.prefix+"-inflight-cancelled", "%s has not returned and the caller's context is live, yet the %s for %s, handed to the sender with a live context %v ago (operation started %v ago), has its context cancelled",
				ob.name, r.Req.GetType(), w.h.U.Name(r.To), now-r.SentAt, now-ob.startAt)
			return
		}
	}
}

// checkAtReturn, at the quiescent point right after an operation returned.
// It looks at the PUT_VALUE / ADD_PROVIDER requests of the operation that are
// at the sender and were handed over at this very virtual instant, so that no
// time-out of whatever length can have run out since: none of them may have a
// cancelled context. It makes no difference whether a request was cancelled
// while in flight or reached the sender with a context that was already done
// (for work started right before the return that is the Go scheduler's
// choice): neither can be delivered.
//
// <searchPfx>-put-cancelled (value searches, judged whether or not the caller
// released its context): "after a completed value search the peers among the
// closest that did not return the best value are sent it". The corrective puts
// are started when the search completes; one that is cancelled the instant it
// is started is not sent. The search was not cancelled while it ran, and a
// caller that releases its context once it has the result does not un-complete
// the search.
//
// <prefix>-aborted-by-caller-release (other operations, judged only when the
// caller cancelled its context the moment the call returned): "sends every peer
// returned by the lookup one ADD_PROVIDER ... with and without optimistic
// provide". The operation has returned and was not cancelled while it ran; the
// requests it left in flight are not the caller's to take back by releasing a
// context it no longer needs.
func (w *c06World) checkAtReturn(ob *c06OpObs) {
	s, u := w.s, w.h.U
	if s.Failed() || ob == nil || ob.op == nil || !ob.op.Done || (!ob.released && ob.searchPfx == "") {
		return
	}
	if ob.released {
		s.Count("probe_caller_released_ctx")
	}
	now := s.Now()
	var judged, bad []*simnet.RPC
	for _, p := range s.ParkedKind("rpc") {
		r, ok := p.Data.(*simnet.RPC)
		if !ok || r.N < ob.base || r.SentAt != now {
			continue
		}
		if t := r.Req.GetType(); t != pb.Message_PUT_VALUE && t != pb.Message_ADD_PROVIDER {
			continue
		}
		judged = append(judged, r)
		if p.Cancelled() {
			bad = append(bad, r)
		}
	}
	if len(judged) > 0 {
		s.Count("probe_at_return_requests_judged")
	}
	if len(bad) == 0 {
		return
	}
	sort.SliceStable(bad, func(i, j int) bool { return u.Name(bad[i].To) < u.Name(bad[j].To) })
	if ob.searchPfx != "" {
		s.Violate(ob.searchPfx+"-put-cancelled", "%s returned (err=%v; caller released its context on return: %v); at that very instant the corrective %s for %s (and %d more of the %d requests handed to the sender at this instant) has a cancelled context: it cannot be delivered although no time has passed since it was started and the search itself was never cancelled",
			ob.name, ob.op.Err, ob.released, bad[0].Req.GetType(), u.Name(bad[0].To), len(bad)-1, len(judged))
		return
	}
	s.Violate(w.prefix+"-aborted-by-caller-release", "%s returned (err=%v) and its caller released its context; at that very instant the %s for %s (and %d more of the %d requests handed to the sender at this instant) has a cancelled context: it cannot be delivered although no time has passed and the operation itself was never cancelled",
		ob.name, ob.op.Err, bad[0].Req.GetType(), u.Name(bad[0].To), len(bad)-1, len(judged))
}

// runOp starts f (with a context carrying a fresh lookup-event registration)
// on a client goroutine and schedules until finished() holds (default: f
// returned). It returns nil when the step budget ran out.
//
// The registration context is separate from the operation's context and is
// never cancelled while events can still be published: an event channel whose
// context is done drops events through a select the Go runtime resolves at
// random (HARNESS pitfall 3). Both stay live until endOp - unless w.release is
// set: then the client goroutine cancels the operation's context (never the
// registration context) right after f returned, like a caller's
// `defer cancel()`.
func (w *c06World) runOp(name, lookupKey string, deadline time.Duration, f func(ctx context.Context) (any, error), finished func(*c06OpObs) bool) *c06OpObs {
	s, h := w.s, w.h
	w.endOp()
	ob := &c06OpObs{name: name, lookupKey: lookupKey, base: len(h.Snd.Snapshot()), getBase: len(w.getReplies), startAt: s.Now(), deadline: deadline, released: w.release, searchPfx: w.searchPfx}
	w.release, w.searchPfx = false, ""
	w.opStart = ob.startAt
	ob.dsBase = w.ds.LogLen()
	w.mu.Lock()
	ob.arrBase = len(w.arrivals)
	w.mu.Unlock()

	evCtx, evCancel := context.WithCancel(context.Background())
	regCtx, evCh := dht.RegisterForLookupEvents(evCtx)
	opCtx, opCancel := regCtx, context.CancelFunc(func() {})
	if deadline > 0 {
		opCtx, opCancel = context.WithTimeout(regCtx, deadline)
	} else if ob.released {
		opCtx, opCancel = context.WithCancel(regCtx)
	}
	drain := func() {
		for {
			n := 0
		inner:
			for {
				select {
				case ev := <-evCh:
					if ev != nil {
						ob.events = append(ob.events, stampedEvent{s.Steps, ev})
						n++
					}
				default:
					break inner
				}
			}
			if n == 0 {
				return
			}
			// a publisher may have been blocked on the full buffer
			s.Quiesce()
		}
	}
	ob.ctx = opCtx
	ob.end = func() {
		drain()
		opCancel()
		evCancel()
		s.Quiesce()
	}

	s.Tracef("op %s release=%v", name, ob.released)
	ob.op = h.Ops.Go(s, name, func() (any, error) {
		v, err := f(opCtx)
		if ob.released {
			opCancel() // the caller is done with the operation
		}
		return v, err
	})
	w.cur = ob
	s.Quiesce()
	fin := func() bool {
		if finished != nil {
			return finished(ob)
		}
		return ob.op.Done
	}
	idle := 0
	for {
		drain()
		w.checkInflight()
		if fin() || !s.Step() {
			break
		}
		if w.ticks && s.Chance("tick", 1, 8) {
			s.Sleep(time.Duration(1+s.Draw("tick-ms", 400)) * time.Millisecond)
			s.Count("time_advance")
			drain()
			w.checkInflight()
			if fin() {
				break
			}
		}
		acts := w.actions()
		if len(acts) == 0 {
			idle++
			if idle > 120 {
				break
			}
			// only hung or slow recipients are left: let virtual time pass
			if w.lookupDelay != nil {
				// slow-lookup variant: small jumps, so that no single reply takes
				// longer than a real dial plus read time-out would allow
				s.Sleep(2 * time.Second)
			} else {
				s.Sleep([]time.Duration{5 * time.Second, time.Second, 29 * time.Second, 31 * time.Second}[s.Draw("idle-sleep", 4)])
			}
			s.Count("time_advance")
			continue
		}
		idle = 0
		w.choose(acts)
	}
	drain()
	if s.Failed() {
		return ob
	}
	if !fin() {
		if s.Steps > s.MaxSteps {
			s.Summary["budget"] = "step budget exhausted"
			s.Count("step_budget_exhausted")
			return nil
		}
		s.Violate("no-return", "%s did not finish although nothing is left to answer and minutes of virtual time passed; parked: %s; DEBUG %s; blocked in: %s", name, c06ParkedIDs(s), w.debugState(ob), c06BlockedIn())
		return ob
	}
	if ob.op.Panic != "" {
		s.Violate("panic", "%s panicked: %s", name, firstLine(ob.op.Panic))
	}
	s.Tracef("done %s err=%v", name, ob.op.Err)
	w.checkAtReturn(ob)
	return ob
}

func (w *c06World) debugState(ob *c06OpObs) string {
	if w.h.DHT == nil {
		return ""
	}
	ns, err := w.h.DHT.NetworkSize()
	R, v, ok := w.lookupResult(ob)
	reason := ""
	if v != nil {
		reason = v.reason
	}
	return fmt.Sprintf("netsize=%d/%v R=%s ok=%v reason=%s addprov=%d addrs=%d K=%d", ns, err, names(w.h.U, R), ok, reason, len(w.sent(ob, pb.Message_ADD_PROVIDER)), len(w.h.DHT.FilteredAddrs()), w.K)
}

func c06ParkedIDs(s *sim.Sim) string {
	var ids []string
	for _, p := range s.Parked() {
		ids = append(ids, p.ID)
	}
	return "[" + strings.Join(ids, " ") + "]"
}

// c06BlockedIn names the repository functions in which bubble goroutines are
// blocked (diagnosis text for no-return; not part of any trace decision).
func c06BlockedIn() string {
	sut, har := sim.BubbleGoroutines(harnessPrefixes...)
	var out []string
	for _, g := range append(sut, har...) {
		lines := strings.Split(g, "\n")
		for i, ln := range lines {
			if strings.HasPrefix(ln, "github.com/libp2p/go-libp2p-kad-dht") {
				if j := strings.LastIndex(ln, "("); j > 0 {
					ln = ln[:j]
				}
				ln = strings.TrimPrefix(ln, "github.com/libp2p/go-libp2p-kad-dht")
				if i+1 < len(lines) {
					loc := strings.Fields(strings.TrimSpace(lines[i+1]))
					if len(loc) > 0 {
						if k := strings.LastIndex(loc[0], "/"); k >= 0 {
							ln += "@" + loc[0][k+1:]
						}
					}
				}
				out = append(out, ln)
				break
			}
		}
	}
	sort.Strings(out)
	return strings.Join(out, "; ")
}

// lookupResult recomputes, from the lookup events of the operation, the set
// the closest-peers lookup returned (C01 oracle). ok=false when the events do
// not describe exactly one terminated lookup for the key.
func (w *c06World) lookupResult(ob *c06OpObs) (R []peer.ID, v *lookupView, ok bool) {
	o := &lookupObs{cfg: lookupCfg{Key: ob.lookupKey, K: w.K}, h: w.h, keyKad: simnet.KadOfKey(ob.lookupKey), events: ob.events}
	v, bad := o.view()
	if bad != "" || v.termIdx < 0 {
		w.s.Count("c06_lookup_events_unusable")
		return nil, v, false
	}
	return o.expectedResult(v), v, true
}

// sent returns the requests of one type that reached the sender since the
// operation started, in canonical order (by recipient name, then arrival).
func (w *c06World) sent(ob *c06OpObs, t pb.Message_MessageType) []*simnet.RPC {
	var out []*simnet.RPC
	log := w.h.Snd.Snapshot()
	for _, r := range log[ob.base:] {
		if r.Req.GetType() == t {
			out = append(out, r)
		}
	}
	sort.SliceStable(out, func(i, j int) bool { return w.h.U.Name(out[i].To) < w.h.U.Name(out[j].To) })
	return out
}

// finishInflight answers whatever is still parked after an operation returned
// (optimistic provide leaves ADD_PROVIDERs in flight; corrective puts are
// asynchronous) under the scheduler.
func (w *c06World) finishInflight() {
	s := w.s
	idle := 0
	for len(s.Parked()) > 0 && s.Step() {
		acts := w.actions()
		if len(acts) == 0 {
			idle++
			if idle > 40 {
				return
			}
			s.Sleep(5 * time.Second)
			continue
		}
		idle = 0
		w.choose(acts)
	}
}

// recipientProbes counts the reach probes about failing / hanging recipients.
func (w *c06World) recipientProbes(msgs []*simnet.RPC) {
	fail, hang, ok := 0, 0, 0
	for _, r := range msgs {
		switch w.recip[r.To].Mode {
		case c06RecipFail, c06RecipBadEcho:
			fail++
		case c06RecipHang:
			hang++
		default:
			ok++
		}
	}
	if fail > 0 && ok > 0 {
		w.s.Count("probe_recipient_failed_others_served")
	}
	if hang > 0 && ok > 0 {
		w.s.Count("probe_recipient_hung_others_served")
	}
}

// checkRecipients compares the recipients of msgs with want (for puts and
// provides: the set R the lookup returned). superset: extra recipients are
// allowed (optimistic provide). once: no peer may be addressed twice.
//
// A request handed to the message sender with a context that is already done
// was not sent (a real sender refuses it at once): a wanted peer that only got
// such requests is reported under <prefix>-recipient-dead-ctx.
func (w *c06World) checkRecipients(prefix, what string, msgs []*simnet.RPC, want []peer.ID, superset, once bool) {
	w.checkRecipientsCtx(prefix, what, msgs, want, superset, once, true)
}

// checkRecipientsCtx: judgeCtx=false skips <prefix>-recipient-dead-ctx (the
// caller judges the requests' contexts by other means).
func (w *c06World) checkRecipientsCtx(prefix, what string, msgs []*simnet.RPC, want []peer.ID, superset, once, judgeCtx bool) {
	s, u := w.s, w.h.U
	n, live := map[peer.ID]int{}, map[peer.ID]int{}
	var got []peer.ID
	for _, r := range msgs {
		if n[r.To] == 0 {
			got = append(got, r.To)
		}
		n[r.To]++
		if r.CtxLive {
			live[r.To]++
		}
	}
	inWant := idSet(want)
	for _, p := range want {
		if n[p] == 0 {
			s.Violate(prefix+"-recipient-missing", "%s: expected recipients {%s} but %s was sent nothing (recipients {%s})", what, sortedNames(u, want), u.Name(p), sortedNames(u, got))
			return
		}
		if judgeCtx && live[p] == 0 {
			s.Violate(prefix+"-recipient-dead-ctx", "%s: the request for %s (one of the expected recipients {%s}) was handed to the message sender with a context that was already done, %v after the operation started", what, u.Name(p), sortedNames(u, want), w.sinceOpStart(msgs, p))
			return
		}
	}
	for _, p := range got {
		if !superset && !inWant[p] {
			s.Violate(prefix+"-recipient-extra", "%s: %s was addressed, expected recipients are {%s}", what, u.Name(p), sortedNames(u, want))
			return
		}
		if once && n[p] > 1 {
			s.Violate(prefix+"-recipient-twice", "%s: %s was addressed %d times", what, u.Name(p), n[p])
			return
		}
	}
}

func (w *c06World) sinceOpStart(msgs []*simnet.RPC, p peer.ID) time.Duration {
	for _, r := range msgs {
		if r.To == p {
			return (r.SentAt - w.opStart).Truncate(time.Second)
		}
	}
	return 0
}

// ---------------------------------------------------------------------------
// PutValue

func runC06PutValue(s *sim.Sim) {
	s.MaxSteps = 600
	c := c06GenCfg(s, 1, 6)
	w := c06Build(s, c)
	w.prefix = "pv"
	defer s.Finish()
	defer w.h.closeAndCensus()
	defer w.endOp()

	nOps := 1 + s.Draw("ops", 3)
	keys := []string{fmt.Sprintf("key-%d", s.Draw("key", 1<<16)), fmt.Sprintf("other-%d", s.Draw("key2", 1<<16))}
	var lastKey string
	var lastVal []byte
	for i := 0; i < nOps && !s.Failed(); i++ {
		key := keys[0]
		var val []byte
		if i > 0 {
			// virtual time between two puts: a publisher puts again at once, a
			// moment later, or after minutes (nothing is in flight: PutValue
			// waits for all its recipients)
			if gap := []time.Duration{0, 700 * time.Millisecond, 45 * time.Second, 20 * time.Minute}[s.Draw("put-gap", 4)]; gap > 0 {
				s.Sleep(gap)
				s.Count("time_advance")
				s.Count("probe_put_after_time_gap")
				s.Tracef("gap %v", gap)
			}
			switch s.Draw("next-put", 3) {
			case 1:
				// a republish: the very key and value of the previous put
				key, val = lastKey, lastVal
			case 2:
				key = keys[1]
			}
		}
		if val == nil {
			val = rankValue(1+s.Draw("rank", 3), time.Time{}, key)
		}
		lastKey, lastVal = key, val
		prev, had := w.localRecord(key)
		if had && bytes.Equal(prev, val) {
			s.Count("probe_put_republish_same_value")
		}
		ob := w.runOp(fmt.Sprintf("PutValue#%d", i), key, 0, func(ctx context.Context) (any, error) {
			return nil, w.h.DHT.PutValue(ctx, key, val)
		}, nil)
		if ob == nil || s.Failed() {
			return
		}
		w.checkPutValue(ob, key, val, had, prev)
	}
}

func (w *c06World) checkPutValue(ob *c06OpObs, key string, val []byte, hadPrev bool, prev []byte) {
	s := w.s
	msgs, good := w.checkPutContent(ob, key, val)
	if !good {
		return
	}

	// The recipient clause applies when the closest-peers lookup succeeded. That
	// is read from the lookup events (a lookup that started and terminated; this
	// scenario never cancels), not from what PutValue returned: an error
	// returned after a successful lookup does not excuse missing recipients.
	R, v, ok := w.lookupResult(ob)
	if !ok {
		if ob.op.Err == nil {
			s.Violate("pv-no-lookup", "PutValue(%q) returned nil without a completed closest-peers lookup", key)
			return
		}
		if hadPrev {
			if pr, _, _, err := parseRankValue(prev); err == nil {
				if r, _, _, _ := parseRankValue(val); r < pr {
					s.Count("probe_put_refused_older")
					return
				}
			}
		}
		s.Count("probe_put_lookup_failed")
		return
	}
	s.Count("probe_put_ok")
	if hadPrev {
		s.Count("probe_put_over_existing")
	}
	w.checkRecipients("pv", "PutValue", msgs, R, false, false)
	if s.Failed() {
		return
	}
	// pv-store-own for a lookup that succeeded without returning any peer: the
	// record was stored by this call all the same (with recipients the rule is
	// judged in checkPutContent, against the first PUT_VALUE)
	if len(msgs) == 0 {
		s.Count("probe_put_own_store_judged_no_recipient")
		if _, own := w.ownStore(ob, key, val); !own {
			s.Violate("pv-store-own", "%s(%q): the closest-peers lookup succeeded (no peer returned, err=%v), yet the datastore log shows no write of that record since the operation started (the local datastore held %q before, present=%v): this call did not store the record locally", ob.name, key, ob.op.Err, prev, hadPrev)
			return
		}
	}
	if hadPrev && bytes.Equal(prev, val) {
		s.Count("probe_put_republish_judged")
	}
	if cur, has := w.localRecord(key); ob.op.Err == nil && (!has || !bytes.Equal(cur, val)) {
		s.Violate("pv-stored", "after PutValue(%q) returned nil the local datastore holds %q (present=%v)", key, cur, has)
	}
	w.recipientProbes(msgs)
	w.lookupProbes(R, v)
	s.NonTrivial = s.NonTrivial || (len(R) > 0 && (s.Stats["fault_recipient_fail"]+s.Stats["fault_recipient_hang"]+s.Stats["fault_recipient_bad_echo"]+s.Stats["fault_dial_fail"]+s.Stats["fault_rpc_error"] > 0))
	s.State("put R=%d sent=%d reason=%s unreach=%d", len(R), len(msgs), v.reason, len(v.unreach))
}

// checkPutContent checks what holds for every PUT_VALUE of a put operation,
// whoever it went to: it carries the key and the value being put, and the
// record was in the local datastore before it left.
func (w *c06World) checkPutContent(ob *c06OpObs, key string, val []byte) ([]*simnet.RPC, bool) {
	s, u := w.s, w.h.U
	msgs := w.sent(ob, pb.Message_PUT_VALUE)

	// content: every PUT_VALUE of the operation carries the key and the value
	for _, r := range msgs {
		rec := r.Req.GetRecord()
		if string(r.Req.GetKey()) != key || rec == nil || string(rec.GetKey()) != key || !bytes.Equal(rec.GetValue(), val) {
			s.Violate("pv-content", "PUT_VALUE to %s carries key %q / record %q=%q, the operation put %q=%q", u.Name(r.To), r.Req.GetKey(), rec.GetKey(), rec.GetValue(), key, val)
			return msgs, false
		}
	}
	// stored locally first: when a PUT_VALUE reached the sender, the local
	// datastore already held this record ...
	w.mu.Lock()
	arr := append([]c06Arrival(nil), w.arrivals[ob.arrBase:]...)
	w.mu.Unlock()
	for _, a := range arr {
		if a.Type != pb.Message_PUT_VALUE || a.Key != key {
			continue
		}
		if !a.LocalHas || !bytes.Equal(a.LocalVal, val) {
			s.Violate("pv-store-first", "a PUT_VALUE for %q left for %s while the local datastore held %q (present=%v), not the record being put", key, u.Name(a.To), a.LocalVal, a.LocalHas)
			return msgs, false
		}
	}
	// ... and the datastore log shows that write no later than the first send
	if len(msgs) > 0 {
		first := msgs[0].SentStep
		for _, r := range msgs {
			if r.SentStep < first {
				first = r.SentStep
			}
		}
		stored := false
		for _, rec := range w.ds.Log() {
			if rec.Op != "put" || rec.Err != nil || rec.Step > first {
				continue
			}
			pr := new(recpb.Record)
			if proto.Unmarshal(rec.Val, pr) == nil && string(pr.GetKey()) == key && bytes.Equal(pr.GetValue(), val) {
				stored = true
			}
		}
		if !stored {
			s.Violate("pv-store-log", "the first PUT_VALUE for %q left at step %d but the datastore log shows no earlier write of that record", key, first)
			return msgs, false
		}
		// ... made by this very operation (pv-store-own, see the header): a copy
		// an earlier operation left behind is not the store of this call
		s.Count("probe_put_own_store_judged")
		if step, own := w.ownStore(ob, key, val); !own || step > first {
			s.Violate("pv-store-own", "%s: the first PUT_VALUE for %q left at step %d; the datastore log shows no write of that record between the start of the operation and that step (own write found: %v, at step %d) - the record in the local datastore is the copy an earlier operation stored, this call did not store the record it sent", ob.name, key, first, own, step)
			return msgs, false
		}
	}
	return msgs, true
}

// ownStore looks for the store an operation made itself: the first successful
// datastore write since the operation started whose content decodes as a
// record for key carrying val (found by content, without mirroring the
// datastore key layout). It returns the step of that write.
func (w *c06World) ownStore(ob *c06OpObs, key string, val []byte) (step int, found bool) {
	log := w.ds.Log()
	if ob.dsBase > len(log) {
		return 0, false
	}
	for _, rec := range log[ob.dsBase:] {
		if rec.Op != "put" || rec.Err != nil {
			continue
		}
		pr := new(recpb.Record)
		if proto.Unmarshal(rec.Val, pr) == nil && string(pr.GetKey()) == key && pr.Value != nil && bytes.Equal(pr.GetValue(), val) {
			return rec.Step, true
		}
	}
	return 0, false
}

func (w *c06World) lookupProbes(R []peer.ID, v *lookupView) {
	if len(R) < w.K {
		w.s.Count("probe_R_smaller_than_K")
	}
	for _, p := range R {
		if _, q := v.queried[p]; !q {
			w.s.Count("probe_followup_peer_in_R")
			break
		}
	}
	w.s.Count("probe_term_" + v.reason)
}

// ---------------------------------------------------------------------------
// Provide (classic and optimistic)

func c06Palette(u *simnet.Universe) []ma.Multiaddr {
	relay := u.Peers[0].ID.String()
	return []ma.Multiaddr{
		ma.StringCast("/ip4/8.8.4.4/tcp/4001"),
		ma.StringCast("/ip4/192.168.1.5/tcp/4001"),
		ma.StringCast("/ip4/127.0.0.1/tcp/4001"),
		ma.StringCast("/ip4/8.8.8.8/tcp/4001/p2p/" + relay + "/p2p-circuit"),
		ma.StringCast("/ip6/2001:4860:4860::8888/udp/4001/quic-v1"),
		ma.StringCast("/ip6/::1/tcp/4001"),
		ma.StringCast("/ip4/10.1.2.3/udp/4001/quic-v1"),
		ma.StringCast("/ip4/192.168.7.7/tcp/4001/p2p/" + relay + "/p2p-circuit"),
	}
}

// c06Filters are the address filters a run can configure (index 0 = none).
var c06FilterNames = []string{"none", "public-only", "no-loopback"}

func c06Filter(i int) func([]ma.Multiaddr) []ma.Multiaddr {
	keep := func(pred func(ma.Multiaddr) bool) func([]ma.Multiaddr) []ma.Multiaddr {
		return func(in []ma.Multiaddr) []ma.Multiaddr {
			var out []ma.Multiaddr
			for _, a := range in {
				if pred(a) {
					out = append(out, a)
				}
			}
			return out
		}
	}
	switch i {
	case 1:
		return keep(manet.IsPublicAddr)
	case 2:
		return keep(func(a ma.Multiaddr) bool { return !manet.IsIPLoopback(a) })
	}
	return nil
}

func c06AddrSet(addrs [][]byte) []string {
	out := make([]string, 0, len(addrs))
	for _, a := range addrs {
		out = append(out, string(a))
	}
	sort.Strings(out)
	return out
}

// c06DrawAddrs draws a host address set: a subset of the palette of one of
// four classes (mixed, only loopback, only private + loopback, none).
func c06DrawAddrs(s *sim.Sim, pal []ma.Multiaddr, sfx string, neverEmpty bool) []ma.Multiaddr {
	var addrs []ma.Multiaddr
	addrClass := s.Draw("addr-class"+sfx, 4)
	if neverEmpty {
		addrClass = 0
	}
	switch addrClass {
	case 0: // mixed
		rng := newSubRng(s, "addrs"+sfx)
		for _, a := range pal {
			if rng.Intn(2) == 0 && len(addrs) < 6 {
				addrs = append(addrs, a)
			}
		}
		if neverEmpty && len(addrs) == 0 {
			addrs = pal[:1]
		}
	case 1: // only loopback
		addrs = []ma.Multiaddr{pal[2], pal[5]}
	case 2: // only private + loopback
		addrs = []ma.Multiaddr{pal[1], pal[2], pal[6]}
	default: // none at all
	}
	return addrs
}

// c06EmitAddrsUpdated emits the host's "local addresses updated" event on its
// event bus and lets the subscribers process it.
func c06EmitAddrsUpdated(s *sim.Sim, h *simhost.Host) {
	em, err := h.RealBus().Emitter(new(event.EvtLocalAddressesUpdated))
	if err != nil {
		panic(err)
	}
	_ = em.Emit(event.EvtLocalAddressesUpdated{})
	_ = em.Close()
	s.Quiesce()
}

func runC06Provide(s *sim.Sim, optimistic, slowLookup bool) {
	s.MaxSteps = 700
	var c c06Cfg
	var opts []dht.Option
	if optimistic {
		c = c06GenCfg(s, 3, 6)
		// the estimator only accepts lookups that found K peers; larger networks
		// with a sparse table make the walk last beyond the first early put
		if s.Chance("big", 2, 3) {
			c.N = s.Range("n-big", 12, 32)
		}
		if c.N < c.K+2 {
			c.N = c.K + 2
		}
		if c.Density < 3 {
			c.Density = 3
		}
		if c.LookupFaults > 1 {
			c.LookupFaults = 1
		}
		c.HealthyTable = true
		pool := []int{60, 0, 1, 3}[s.Draw("jobs-pool", 4)]
		opts = append(opts, dht.EnableOptimisticProvide(), dht.OptimisticProvideJobsPoolSize(pool))
	} else {
		c = c06GenCfg(s, 1, 6)
	}
	filt := s.Draw("addr-filter", 3)
	if slowLookup {
		filt = 0
		c.Alpha = 1 + s.Draw("alpha-slow", 2)
		c.RecipFaults = 0
	}
	if f := c06Filter(filt); f != nil {
		opts = append(opts, dht.AddressFilter(f))
	}
	w := c06Build(s, c, opts...)
	w.prefix = "ap"
	defer s.Finish()
	defer w.h.closeAndCensus()
	defer w.endOp()

	// host addresses: a drawn subset of the palette (possibly empty)
	pal := c06Palette(w.h.U)
	addrs := c06DrawAddrs(s, pal, "", slowLookup)
	w.h.Host.SetAddrs(addrs)
	// want: the address filter applied to the addresses the host has now
	filtered := func(addrs []ma.Multiaddr) []ma.Multiaddr {
		want := addrs
		if f := c06Filter(filt); f != nil {
			want = f(addrs)
		}
		if len(want) == 0 {
			s.Count("probe_all_addrs_filtered")
		} else if len(want) < len(addrs) {
			s.Count("probe_filter_dropped_some")
		}
		return want
	}
	want := filtered(addrs)
	s.Summary["addrs"] = fmt.Sprintf("host=%d filter=%s advertised=%d optimistic=%v", len(addrs), c06FilterNames[filt], len(want), optimistic)

	if optimistic {
		w.feedEstimator()
		if s.Failed() {
			return
		}
	}

	if slowLookup {
		// from now on most peers take a long time to answer lookup requests
		w.lookupDelay = map[peer.ID]time.Duration{}
		rng := newSubRng(s, "slow-peers")
		for _, p := range w.h.U.Peers {
			if rng.Intn(4) > 0 {
				// within what a real dial (15 s) plus a read time-out (10 s) allow
				w.lookupDelay[p.ID] = time.Duration(8+rng.Intn(17)) * time.Second
			}
		}
	}

	nOps := 1 + s.Draw("ops", 2)
	if optimistic && !slowLookup {
		nOps = 1 + s.Draw("ops", 4) // optimistic walks are short
	}
	addrChanges := 0
	for i := 0; i < nOps && !s.Failed(); i++ {
		if i > 0 && s.Chance("addr-change", 1, 2) {
			// The host's addresses change between two provides (nothing of the
			// previous provide is still computing its payload: every request it
			// makes has reached the sender by the time it is quiescent). In
			// some runs the host also announces the change on its event bus, in
			// others the DHT is told nothing: what a provide advertises is
			// defined by the host's addresses when it runs, not by events.
			addrs = c06DrawAddrs(s, pal, fmt.Sprintf("-%d", i), slowLookup)
			w.h.Host.SetAddrs(addrs)
			want = filtered(addrs)
			addrChanges++
			announced := s.Chance("addr-event", 1, 2)
			if announced {
				c06EmitAddrsUpdated(s, w.h.Host)
				s.Count("probe_addrs_changed_with_event")
			} else {
				s.Count("probe_addrs_changed_silently")
			}
			s.Tracef("host addresses changed: host=%d advertised=%d event=%v", len(addrs), len(want), announced)
			s.Summary["addr-changes"] = addrChanges
		}
		content := s.Draw("content", 1<<16)
		// the form of the key is an input ("for every ... key"): hash function,
		// digest length, CID version and codec are drawn (c06_keys.go)
		form := c06DrawKeyForm(s)
		s.Summary["key-form"] = form.String()
		mkKey := func(j int) mh.Multihash {
			return form.sum(fmt.Sprintf("content-%d-%d-%d", i, content, j))
		}
		sum := mkKey(0)
		if optimistic && (slowLookup || s.Chance("far-key", 1, 2)) {
			// prefer a key in the half of the key space the local table knows
			// least about (input selection only; harness metric)
			for j := 1; j < 6 && w.h.U.Self.Kad.CPL(simnet.KadOfKey(string(sum))) > 0; j++ {
				sum = mkKey(j)
			}
		}
		key := form.cid(sum)
		s.Tracef("provide key form %s", form)
		var deadline time.Duration
		if !optimistic && s.Chance("deadline", 1, 4) {
			// a caller deadline exercises the budgeting of classicProvide; 3 s can
			// run out during the lookup, the others never do
			deadline = []time.Duration{10 * time.Minute, 5 * time.Minute, 3 * time.Second}[s.Draw("deadline-len", 3)]
			s.Count("probe_provide_deadline_ctx")
		}
		estReady := false
		if optimistic {
			_, e := w.h.DHT.NetworkSize()
			estReady = e == nil
			if !slowLookup {
				// an optimistic provide returns with requests in flight: in some
				// runs its caller releases its context as soon as it returned
				w.release = s.Chance("caller-release", 1, 3)
			}
		}
		ob := w.runOp(fmt.Sprintf("Provide#%d", i), string(sum), deadline, func(ctx context.Context) (any, error) {
			return nil, w.h.DHT.Provide(ctx, key, true)
		}, nil)
		if ob == nil || s.Failed() {
			return
		}
		inflight := len(s.ParkedKind("rpc"))
		if addrChanges > 0 {
			s.Count("probe_provide_after_addr_change")
		}
		w.checkProvide(ob, sum, want, optimistic, estReady, inflight)
		if s.Failed() {
			return
		}
		w.finishInflight()
	}
}

// feedEstimator runs closest-peers lookups through the public API until the
// network-size estimator has an estimate (it wants several completed lookups
// that each found K peers), answering everything honestly and without drawing.
func (w *c06World) feedEstimator() {
	s := w.s
	for i := 0; i < 12; i++ {
		if _, err := w.h.DHT.NetworkSize(); err == nil {
			s.Count("probe_estimator_ready")
			return
		}
		key := fmt.Sprintf("feed-%d", i)
		op := w.h.Ops.Go(s, "feed", func() (any, error) { return w.h.DHT.GetClosestPeers(context.Background(), key) })
		if !w.settle(func() bool { return op.Done }) {
			s.Violate("no-return", "a preparatory GetClosestPeers did not return")
			return
		}
	}
	if _, err := w.h.DHT.NetworkSize(); err == nil {
		s.Count("probe_estimator_ready")
	}
}

func (w *c06World) checkProvide(ob *c06OpObs, key mh.Multihash, want []ma.Multiaddr, optimistic, estReady bool, inflight int) {
	s := w.s
	msgs, good := w.checkProvideContent(ob, key, want)
	if !good {
		return
	}

	// "Provide with announce records the local node as provider": judged after
	// every Provide that returned, before anything is known about its lookup
	// (see the header, ap-local-provider).
	if !w.checkLocalProvider("ap", ob, key, len(want), w.h.DHT.ProviderStore().GetProviders) {
		return
	}

	// The recipient clauses apply when the lookup succeeded and the operation
	// was not cancelled. Without a caller deadline nothing is ever cancelled and
	// lookup success is read from the lookup events, not from the returned
	// error; with a deadline only operations that returned nil are judged.
	if ob.deadline > 0 && (ob.op.Err != nil || s.Now()-ob.startAt >= ob.deadline) {
		s.Count("probe_provide_deadline_exceeded")
		return
	}
	R, v, ok := w.lookupResult(ob)
	if !ok {
		s.Count("probe_local_provider_judged_no_lookup_result")
		if ob.op.Err == nil {
			s.Violate("ap-no-lookup", "Provide returned nil without a completed closest-peers lookup")
			return
		}
		s.Count("probe_provide_lookup_failed")
		return
	}
	s.Count("probe_provide_ok")
	if ob.op.DoneAt-ob.startAt > time.Minute {
		s.Count("probe_op_over_60s")
	}

	if len(want) > 0 {
		if optimistic {
			w.checkRecipients("ap", "optimistic Provide", msgs, R, true, true)
		} else {
			w.checkRecipients("ap", "Provide", msgs, R, false, true)
		}
	}
	w.recipientProbes(msgs)
	w.lookupProbes(R, v)
	if optimistic {
		if !estReady {
			s.Count("probe_optimistic_fallback_classic")
		}
		early := false
		for _, r := range msgs {
			early = early || r.SentStep < v.termStep
		}
		if early {
			s.Count("probe_optimistic_early_put")
		}
		if len(idSet(c06To(msgs))) > len(R) {
			s.Count("probe_optimistic_extra_recipient")
		}
		if v.reason == "stopped" || v.reason == dht.LookupStopped.String() {
			s.Count("probe_optimistic_lookup_stopped")
		}
		if inflight > 0 {
			s.Count("probe_optimistic_inflight_at_return")
		}
	}
	s.NonTrivial = s.NonTrivial || (len(R) > 0 && len(want) > 0 && (s.Stats["fault_recipient_fail"]+s.Stats["fault_recipient_hang"]+s.Stats["fault_dial_fail"]+s.Stats["fault_rpc_error"] > 0 || len(want) < len(w.h.Host.Addrs())))
	s.State("provide opt=%v R=%d sent=%d reason=%s addrs=%d", optimistic, len(R), len(msgs), v.reason, len(want))
}

// checkProvideContent checks what holds for every ADD_PROVIDER of a provide
// operation, whoever it went to: the key, exactly one provider, the local peer
// ID, a non-empty address list equal (as a set) to want - the address filter
// applied to the host's addresses; and none at all when want is empty.
func (w *c06World) checkProvideContent(ob *c06OpObs, key mh.Multihash, want []ma.Multiaddr) ([]*simnet.RPC, bool) {
	s, u, self := w.s, w.h.U, w.h.U.Self.ID
	msgs := w.sent(ob, pb.Message_ADD_PROVIDER)
	var wantB [][]byte
	for _, a := range want {
		wantB = append(wantB, a.Bytes())
	}
	wantSet := c06AddrSet(wantB)

	// content of every ADD_PROVIDER of the operation
	for _, r := range msgs {
		if len(want) == 0 {
			s.Violate("ap-sent-without-addrs", "every host address is filtered out, yet an ADD_PROVIDER was sent to %s", u.Name(r.To))
			return msgs, false
		}
		if !bytes.Equal(r.Req.GetKey(), key) {
			s.Violate("ap-key", "ADD_PROVIDER to %s carries key %x, provided key is %x", u.Name(r.To), r.Req.GetKey(), []byte(key))
			return msgs, false
		}
		pp := r.Req.GetProviderPeers()
		if len(pp) != 1 {
			s.Violate("ap-provider-count", "ADD_PROVIDER to %s names %d providers", u.Name(r.To), len(pp))
			return msgs, false
		}
		if peer.ID(pp[0].GetId()) != self {
			s.Violate("ap-provider-id", "ADD_PROVIDER to %s names provider %s, not the local peer", u.Name(r.To), u.Name(peer.ID(pp[0].GetId())))
			return msgs, false
		}
		if len(pp[0].GetAddrs()) == 0 {
			s.Violate("ap-addrs-empty", "ADD_PROVIDER to %s carries no address", u.Name(r.To))
			return msgs, false
		}
		got := c06AddrSet(pp[0].GetAddrs())
		if fmt.Sprint(got) != fmt.Sprint(wantSet) {
			var gs []string
			for _, b := range pp[0].GetAddrs() {
				if a, err := ma.NewMultiaddrBytes(b); err == nil {
					gs = append(gs, a.String())
				}
			}
			s.Violate("ap-addrs-filter", "ADD_PROVIDER to %s advertises %v, the filtered host addresses are %v", u.Name(r.To), gs, want)
			return msgs, false
		}
	}
	return msgs, true
}

// checkLocalProvider, <prefix>-local-provider: after a Provide(announce) that
// returned - whatever it returned - the provider store, asked through its
// public interface, lists the local peer for key. advertised is the number of
// host addresses that pass the address filter (0: nothing could be announced;
// the local record is owed all the same). The question is put with a context of
// its own: a caller that released or outlived its context still provides.
func (w *c06World) checkLocalProvider(prefix string, ob *c06OpObs, key mh.Multihash, advertised int, get func(context.Context, []byte) ([]peer.AddrInfo, error)) bool {
	s, self := w.s, w.h.U.Self.ID
	if s.Failed() || ob == nil || ob.op == nil || !ob.op.Done {
		return false
	}
	var provs []peer.AddrInfo
	var gerr error
	var ops opSet
	g := ops.Go(s, "GetProviders", func() (any, error) {
		provs, gerr = get(context.Background(), key)
		return nil, gerr
	})
	s.Quiesce()
	if !g.Done {
		s.Violate(prefix+"-local-provider", "GetProviders on the provider store blocked after %s returned", ob.name)
		return false
	}
	s.Count("probe_local_provider_judged")
	if advertised == 0 {
		s.Count("probe_local_provider_judged_no_addrs")
	}
	if ob.op.Err != nil {
		s.Count("probe_local_provider_judged_op_failed")
	}
	for _, p := range provs {
		if p.ID == self {
			return true
		}
	}
	s.Violate(prefix+"-local-provider", "%s with announce returned (err=%v; %d advertised addresses pass the filter; %d ADD_PROVIDER reached the sender) and the provider store does not list the local peer for the key (GetProviders: %d providers, err=%v): the local node was not recorded as provider",
		ob.name, ob.op.Err, advertised, len(w.sent(ob, pb.Message_ADD_PROVIDER)), len(provs), gerr)
	return false
}

func c06To(msgs []*simnet.RPC) []peer.ID {
	out := make([]peer.ID, len(msgs))
	for i, r := range msgs {
		out[i] = r.To
	}
	return out
}

// ---------------------------------------------------------------------------
// corrective puts after a completed SearchValue

func runC06Corrective(s *sim.Sim) {
	s.MaxSteps = 700
	c := c06GenCfg(s, 1, 6)
	w := c06Build(s, c)
	w.prefix = "cp"
	defer s.Finish()
	defer w.h.closeAndCensus()
	defer w.endOp()

	key := fmt.Sprintf("key-%d", s.Draw("key", 1<<16))
	w.drawHoldings(newSubRng(s, "holdings"), []int{50, 90, 15}[s.Draw("hold-pct", 3)], key)
	// optionally a local record (stored through the public API, not under test here)
	if s.Chance("local-record", 1, 3) {
		lv := rankValue(1+s.Draw("local-rank", 3), time.Time{}, key)
		w.ticks = false
		op := w.h.Ops.Go(s, "prep-put", func() (any, error) { return nil, w.h.DHT.PutValue(context.Background(), key, lv) })
		if !w.settle(func() bool { return op.Done }) {
			s.Violate("no-return", "the preparatory PutValue did not return")
			return
		}
		w.ticks = true
	}
	// A quorum that is reached aborts the search (outside the clause) through a
	// close(stopCh) that races with the lookup loop's stop check: whether one
	// more query is spawned is the Go scheduler's choice (HARNESS pitfall 3). So
	// only quorums that cannot be reached are generated: every holder can be
	// asked at most twice (lookup + follow-up), plus the local record.
	quorum := 0
	if s.Chance("quorum", 1, 4) {
		quorum = 2*len(w.holds) + 1 + s.Draw("quorum-slack", 3)
		s.Count("probe_quorum_not_reached")
	}

	sr := w.runSearch(w.h.DHT, "cp", "", key, quorum)
	if sr == nil {
		return
	}
	carriers, completed := w.searchValues(sr)
	if !completed {
		return
	}
	R, v, ok := w.lookupResult(sr.ob)
	if !ok {
		return
	}
	expect, holderInR, judged := w.judgeCorrective("cp", "probe_", sr, carriers, R, true)
	if !judged {
		return
	}
	w.lookupProbes(R, v)
	s.NonTrivial = s.NonTrivial || (len(expect) > 0 && holderInR)
	s.State("corrective R=%d expect=%d best=%q reason=%s emitted=%d", len(R), len(expect), sr.emitted[len(sr.emitted)-1], v.reason, len(sr.emitted))
}

// drawHoldings draws what the scripted peers hold for key: nothing, a value of
// rank 1..3, a second value of the top rank with different bytes, an invalid
// value, or a record filed under another key.
func (w *c06World) drawHoldings(rng *subRng, holdPct int, key string) {
	for _, p := range w.h.U.Peers {
		if rng.Intn(100) >= holdPct {
			continue
		}
		switch x := rng.Intn(20); {
		case x == 0:
			w.holds[p.ID] = []byte("garbage")
		case x == 1:
			w.holds[p.ID] = rankValue(3, time.Time{}, key)
			w.wrongKey[p.ID] = true
		case x == 2:
			w.holds[p.ID] = rankValue(3, time.Unix(77, 0), key) // top rank, other bytes
		default:
			w.holds[p.ID] = rankValue(1+rng.Intn(3), time.Time{}, key)
		}
	}
}

// c06Search is one value search that ran under the scheduler.
type c06Search struct {
	ob       *c06OpObs
	key      string
	quorum   int
	emitted  [][]byte // the values the caller received, in order (GetValue: the one it returned)
	closed   bool     // the caller saw the end of the search
	local    []byte   // the local record when the search started
	hasLocal bool
}

// runSearch runs one value search on vs (the standard client or fullrt) under
// the scheduler and answers what is in flight afterwards. The caller is drawn:
// it consumes the search through SearchValue's channel or through GetValue, and
// it either keeps its context alive or releases it as soon as it has the result
// (`defer cancel()`). pfx is the rule-id prefix of the search clauses. Returns
// nil when the run is over (violation, step budget).
func (w *c06World) runSearch(vs routing.ValueStore, pfx, namePfx, key string, quorum int) *c06Search {
	s := w.s
	viaGet := s.Chance("via-getvalue", 1, 3)
	w.release = s.Chance("caller-release", 1, 2)
	w.searchPfx = pfx
	opName := namePfx + "SearchValue"
	if viaGet {
		opName = namePfx + "GetValue"
		s.Count("probe_search_via_getvalue")
	}
	sr := &c06Search{key: key, quorum: quorum}
	sr.local, sr.hasLocal = w.localRecord(key)
	sr.ob = w.runOp(opName, key, 0, func(ctx context.Context) (any, error) {
		var ropts []routing.Option
		if quorum > 0 {
			ropts = append(ropts, dht.Quorum(quorum))
		}
		if viaGet {
			// GetValue reports the last (best) value of the same search; "no
			// value" is ErrNotFound
			v, err := vs.GetValue(ctx, key, ropts...)
			if err == routing.ErrNotFound {
				sr.closed = true
				return nil, nil
			}
			if err != nil {
				return nil, err
			}
			sr.emitted = append(sr.emitted, v)
			sr.closed = true
			return nil, nil
		}
		ch, err := vs.SearchValue(ctx, key, ropts...)
		if err != nil {
			return nil, err
		}
		for v := range ch {
			sr.emitted = append(sr.emitted, v)
		}
		sr.closed = true
		return nil, nil
	}, nil)
	if sr.ob == nil || s.Failed() {
		return nil
	}
	// the corrective puts are asynchronous: answer them (and anything else in
	// flight) before judging, so that "return on first error" shapes show
	w.finishInflight()
	if s.Failed() || s.Steps > s.MaxSteps {
		if s.Steps > s.MaxSteps {
			s.Count("step_budget_exhausted")
		}
		return nil
	}
	return sr
}

// searchValues lists the values that entered the search: the local record (if
// valid) and every valid record in a delivered GET_VALUE reply for the key
// (value -> peers whose reply carried it). completed=false: the search failed
// or was (or may have been) ended by its quorum - the clause does not apply.
func (w *c06World) searchValues(sr *c06Search) (carriers map[string][]peer.ID, completed bool) {
	s := w.s
	if sr.ob.op.Err != nil || !sr.closed {
		s.Count("probe_search_failed")
		return nil, false
	}
	val := rankValidator{}
	nvalid := 0
	if sr.hasLocal && val.Validate(sr.key, sr.local) == nil {
		nvalid++
		s.Count("probe_local_value_in_search")
	}
	carriers = map[string][]peer.ID{}
	for _, gr := range w.getReplies[sr.ob.getBase:] {
		if gr.Key != sr.key || gr.Value == nil {
			continue
		}
		if val.Validate(sr.key, gr.Value) != nil {
			s.Count("fault_invalid_record")
			continue
		}
		nvalid++
		carriers[string(gr.Value)] = append(carriers[string(gr.Value)], gr.From)
	}
	if sr.quorum > 0 && nvalid > sr.quorum {
		// the search was (or may have been) ended by the quorum: not "completed"
		// (not generated, see runC06Corrective)
		s.Count("c06_quorum_abort")
		return nil, false
	}
	return carriers, true
}

// judgeCorrective checks the corrective puts of a completed value search
// against R, the closest peers the search found:
//
//	<pfx>-without-value     no value found, yet a PUT_VALUE was sent
//	<pfx>-content           every corrective PUT_VALUE carries the key and the best value
//	<pfx>-sent-to-holder    a peer whose processed reply carried the best value is not sent it
//	<pfx>-recipient-missing / -extra (/ -dead-ctx when judgeCtx): the recipients
//	                        are exactly the peers of R that did not return the best value
//
// judgeCtx=false leaves "was the context live when the request reached the
// sender" to <pfx>-put-cancelled (checkAtReturn), which does not depend on the
// order in which the Go scheduler runs the caller and the put goroutines.
func (w *c06World) judgeCorrective(pfx, probePfx string, sr *c06Search, carriers map[string][]peer.ID, R []peer.ID, judgeCtx bool) (expect []peer.ID, holderInR, judged bool) {
	s, u, key := w.s, w.h.U, sr.key
	msgs := w.sent(sr.ob, pb.Message_PUT_VALUE)
	s.Count(probePfx + "search_completed")
	if len(sr.emitted) > 1 {
		s.Count(probePfx + "best_changed")
	}
	if len(sr.emitted) == 0 {
		s.Count(probePfx + "search_no_value")
		if len(msgs) > 0 {
			s.Violate(pfx+"-without-value", "the search found no value, yet PUT_VALUE was sent to %s", u.Name(msgs[0].To))
		}
		return nil, false, false
	}
	best := sr.emitted[len(sr.emitted)-1]
	for _, r := range msgs {
		rec := r.Req.GetRecord()
		if string(r.Req.GetKey()) != key || rec == nil || string(rec.GetKey()) != key || !bytes.Equal(rec.GetValue(), best) {
			s.Violate(pfx+"-content", "corrective PUT_VALUE to %s carries %q=%q, the best value of the search is %q", u.Name(r.To), rec.GetKey(), rec.GetValue(), best)
			return nil, false, false
		}
	}
	withBest := idSet(carriers[string(best)])
	for _, p := range R {
		if withBest[p] {
			holderInR = true
			continue
		}
		expect = append(expect, p)
	}
	if holderInR {
		s.Count(probePfx + "holder_of_best_in_R")
	}
	for _, r := range msgs {
		if withBest[r.To] {
			s.Violate(pfx+"-sent-to-holder", "corrective PUT_VALUE sent to %s, whose processed reply already carried the best value", u.Name(r.To))
			return nil, false, false
		}
	}
	w.checkRecipientsCtx(pfx, "corrective put", msgs, expect, false, false, judgeCtx)
	if s.Failed() {
		return nil, false, false
	}
	if len(expect) > 0 {
		s.Count(probePfx + "corrective_put_sent")
	} else {
		s.Count(probePfx + "corrective_none_needed")
	}
	w.recipientProbes(msgs)
	return expect, holderInR, true
}
