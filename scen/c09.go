//go:build all || c09

package scen

// C09 — "a server answers any request safely, within protocol bounds".
//
// Harness H2 (level B): a real IpfsDHT on a simhost.Host. The simulator plays
// 1–4 remote peers; for every stream it creates the byte pipe itself
// (Fabric.NewPair) and starts the *real* stream handler (handleNewStream, all
// handlers, pb conversion, the real provider manager and value store) on the
// listener end. The scripted remote end writes request bytes; the scheduler
// owns delivery (whole / split), stalls, half-closes, resets, write failures
// and virtual time. Responses are read back from the remote end and judged.
//
// Honest note on reach: the *message space* (types x key lengths x records x
// peer lists x garbage) is SAMPLED by a generator (c09_gen.go) — that part is
// input fuzzing, no more. What simulation adds is the stream dimension
// (several requests per stream, split frames, half-close, idle time-out,
// reset, failed response writes), concurrency (several streams and peers
// interleaved at chunk granularity), virtual time (record / provider expiry,
// idle streams) and store history (what earlier requests left behind).
//
// The oracle (c09_oracle.go) derives its model of "what was asked" from the
// bytes actually written by the remote, re-parsed by the harness itself, never
// from the generator's intent, so a "garbage" item that happens to decode is
// judged as the message it decodes to.

import (
	"context"
	"fmt"
	"sort"
	"time"

	dht "github.com/libp2p/go-libp2p-kad-dht"
	pb "github.com/libp2p/go-libp2p-kad-dht/pb"
	"github.com/libp2p/go-libp2p-kad-dht/records"
	recpb "github.com/libp2p/go-libp2p-record/pb"
	"github.com/libp2p/go-libp2p/core/event"
	"github.com/libp2p/go-libp2p/core/network"
	"github.com/libp2p/go-libp2p/core/peer"
	"github.com/libp2p/go-libp2p/core/peerstore"
	"github.com/libp2p/go-libp2p/core/protocol"
	ma "github.com/multiformats/go-multiaddr"

	"verif/sim"
	"verif/simds"
	"verif/simhost"
	"verif/simnet"
)

var c09Faults = []string{
	"fault_split_chunk", "fault_stream_reset", "fault_remote_halfclose", "fault_write_error", "fault_stall_partial_frame",
	"fault_garbage_frame", "fault_raw_garbage", "fault_truncated_varint", "fault_oversize_prefix", "fault_short_body", "fault_mangled_message",
	"time_advance",
	"probe_response_checked", "probe_reset_on_error", "probe_budget_truncated", "probe_record_trimmed", "probe_idle_timeout_reset",
	"probe_unknown_type_reset", "probe_oversize_reset", "probe_garbage_reset", "probe_split_delivery", "probe_concurrent_streams",
	"probe_several_requests_one_stream", "probe_ap_stored", "probe_ap_refused", "probe_target_first", "probe_requester_filtered",
	"probe_final_probe_answered", "probe_graceful_close_after_eof", "probe_value_served", "probe_value_expired",
	// c09_ids.go
	"fault_odd_peer_id", "fault_overlong_peer_id", "fault_overlong_single_addr",
	"probe_overlong_id_ap_refused", "probe_overlong_id_request_answered",
}

func init() {
	real := []string{"IpfsDHT.handleNewStream / handleNewMessage (msgio framing, idle time-out, mode check)", "all RPC handlers (handlers.go)", "closestPeersToQuery + kbucket routing table", "pb peer-record conversion and bounding", "records.ProviderManager", "records.ValueStore", "pstoremem peerstore"}
	stub := []string{"host.Host / network.Conn (simhost)", "streams (simhost.Fabric byte pipes, scheduler-owned delivery)", "remote peers (scripted, generated requests)", "datastore (simds, not parked)", "validator (harness rank validator)"}
	sim.Register(&sim.Scenario{Prop: "C09", Name: "server", Weight: 40, Run: func(s *sim.Sim) { runC09(s, c09Server) },
		Real: real, Stub: stub, Faults: c09Faults})
	sim.Register(&sim.Scenario{Prop: "C09", Name: "mode-switch", Weight: 15, Run: func(s *sim.Sim) { runC09(s, c09Modes) },
		Real: append([]string{"subscriber_notifee reachability events -> setMode / moveToClientMode (real event bus)"}, real...), Stub: stub,
		Faults: []string{"fault_mode_switch", "probe_client_mode_silent", "probe_client_no_handler", "probe_late_handler_refused", "probe_sweep_reset_stream"}})
	// Configuration corner: a bucket size so large that K peer records of 8 KiB
	// no longer fit the transport limit (K is free for non-Amino prefixes).
	sim.Register(&sim.Scenario{Prop: "C09", Name: "server-huge-k", Weight: 1, Run: func(s *sim.Sim) { runC09(s, c09HugeK) },
		Real: real, Stub: stub, Faults: []string{"probe_huge_k_response", "probe_closer_cut_by_transport_limit", "probe_cut_list_plus_target", "probe_cut_list_plus_big_target", "probe_cut_list_many_connected"}})
	// (server-fill, responses filled to the last bytes from providers the node is
	// connected to, is registered in c09_fill.go)
	sim.Register(&sim.Scenario{Prop: "C09", Name: "server-bulk", Weight: 2, Run: func(s *sim.Sim) { runC09(s, c09Bulk) },
		Real: real, Stub: stub, Faults: []string{"probe_budget_truncated", "probe_record_trimmed", "probe_bulk_providers_served", "probe_max_size_frame_answered"}})
}

const (
	c09Server = iota
	c09Modes
	c09Bulk
	c09HugeK
	c09Fill   // c09_fill.go
	c09BigKey // c09_bigkey.go
)

// c09MaxPeerRecord is the per-record bound stated by the property ("every peer
// record is at most 8 KiB").
const c09MaxPeerRecord = 8 << 10

type c09World struct {
	s       *sim.Sim
	variant int
	u       *simnet.Universe
	h       *simhost.Host
	d       *dht.IpfsDHT
	fab     *simhost.Fabric
	ds      *simds.DS
	K       int
	proto   protocol.ID
	filter  bool
	seed    uint64
	nseed   uint64

	known    map[peer.ID][]ma.Multiaddr // the first address list the harness gave the node for a peer
	rt       []peer.ID                  // routing table content after the fill
	rtSet    map[peer.ID]bool           //
	senders  []*simnet.Peer             // remote peers played by the simulator
	extras   []*simnet.Peer             // known non-table peers (providers, FIND_NODE targets)
	prober   *simnet.Peer               // the honest prober of the final phase
	foreign  []peer.ID                  // ids that exist nowhere but in requests
	provKeys [][]byte                   // provider keys with prefilled content
	valKeys  [][]byte                   // value keys
	bigKey   []byte                     // bulk: the key with hundreds of providers
	nBig     int                        // bulk: how many
	streams  []*c09Stream
	perPeer  map[peer.ID]int

	// model of what may be in the stores
	prefillProv  map[string]map[peer.ID]bool // key -> providers added by the harness
	prefillAddrs map[peer.ID]map[string]bool // peer -> address bytes put by the harness
	apAllowed    map[string]map[peer.ID]bool // key -> senders that sent an acceptable ADD_PROVIDER for it
	apAddrs      map[peer.ID]map[string]bool // peer -> filter-passing addresses it sent about itself
	apKeys       map[string]bool             // every key seen in any ADD_PROVIDER / GET_PROVIDERS
	expiry       bool                        // provider validity short enough to expire in a run

	// modes
	auto        bool
	serverMode  bool
	epoch       int
	lastHandler network.StreamHandler
	emReach     event.Emitter

	// c09_bigkey.go
	bigPut     []byte      // key of the last big PUT_VALUE a remote of this run wrote
	bigPrefill *pb.Message // server-big-key: the first request of the value prefill

	putOK     map[string]bool
	slept     bool
	nChecked  int
	nResets   int
	nGarbage  int
	finalDone bool
}

type c09Stream struct {
	w      *c09World
	idx    int
	a, b   *simhost.Stream // a: scripted remote end, b: the server's end
	sender *simnet.Peer
	honest bool // only valid requests are generated for it
	final  bool // the final probe
	missed bool // mode-switch: not listed by its connection (the client-mode sweep cannot see it)
	late   bool // mode-switch: handler resolved in server mode, invoked in client mode
	// lockstep: the remote writes the next request only after everything it
	// wrote was delivered and every response it can expect has arrived
	lockstep bool
	nItems   int
	sentN    int
	sent     []byte
	parse    c09ReqParser
	reqs     []*c09Req
	resp     frameParser
	matched  int // index into reqs of the next request a response can belong to
	nResp    int
	// excused: something outside the request itself may have ended the stream
	// (time passed, a failed response write, a reset by the network, a mode switch)
	excused       bool
	closedRemote  bool
	resetSeen     bool
	eofSeen       bool
	openEpoch     int
	clientAnswers map[int]int
}

func runC09(s *sim.Sim, variant int) {
	w := &c09World{s: s, variant: variant, perPeer: map[peer.ID]int{},
		prefillProv: map[string]map[peer.ID]bool{}, prefillAddrs: map[peer.ID]map[string]bool{},
		apAllowed: map[string]map[peer.ID]bool{}, apAddrs: map[peer.ID]map[string]bool{}, apKeys: map[string]bool{}, rtSet: map[peer.ID]bool{}, known: map[peer.ID][]ma.Multiaddr{}}
	s.MaxSteps = 700
	w.setup()
	if s.Failed() {
		w.teardown()
		return
	}
	w.loop()
	w.drainAndProbe()
	w.audit()
	w.teardown()
}

// ---------------------------------------------------------------------------
// setup

func (w *c09World) setup() {
	s := w.s
	bulk := w.heavy()
	huge := w.variant == c09HugeK
	w.seed = uint64(s.Draw("universe", 1<<16))
	w.nseed = w.seed*0x9e3779b97f4a7c15 + 12345
	hugeMix := 0
	if huge {
		// 0: every member advertises the same over-long list (each record is cut to
		// the 8 KiB bound, all records have one size, the room left in a cut
		// response is the same in every run); 1, 2: lists of different lengths, so
		// that the room a cut response has left differs from request to request
		// (see c09_targets.go)
		hugeMix = s.Draw("huge-member-mix", 3)
		w.K = 540
		if hugeMix != 0 {
			w.K = 600
		}
	} else if bulk {
		w.K = []int{20, 8}[s.Draw("K", 2)]
	} else {
		w.K = []int{3, 1, 2, 5, 8, 20}[s.Draw("K", 6)]
	}
	nRT := s.Range("rt", 0, 3*w.K+2)
	if nRT > 40 {
		nRT = 40
	}
	if huge {
		nRT = w.K + 20
	}
	nSenders := 1 + s.Draw("senders", 4)
	nExtras := s.Range("extras", 1, 5)
	w.u = simnet.NewUniverse(w.seed, nRT+4+nExtras+1)
	all := w.u.Peers
	rtPeers := all[:nRT]
	outsiders := all[nRT : nRT+4]
	w.extras = all[nRT+4 : nRT+4+nExtras]
	w.prober = all[nRT+4+nExtras]
	for i := 0; i < 3; i++ {
		w.foreign = append(w.foreign, simnet.MakeID(w.seed, 1000+i))
	}

	w.h = simhost.New(s, w.u.Self.ID, w.u.Self.Addrs, w.u.Name)
	w.fab = simhost.NewFabric(s)
	w.fab.ParkWrites = !bulk && s.Chance("park-writes", 1, 3)
	w.ds = simds.New(s, "ds")
	w.filter = s.Chance("addr-filter", 1, 2)
	w.proto = protocol.ID("/sim/kad/1.0.0")

	mode := dht.ModeServer
	w.serverMode = true
	modeName := "server"
	if w.variant == c09Modes {
		switch s.Draw("mode", 5) {
		case 0, 2:
			mode, w.auto, modeName = dht.ModeAutoServer, true, "auto-server"
		case 1, 3:
			mode, w.auto, w.serverMode, modeName = dht.ModeAuto, true, false, "auto"
		case 4:
			mode, w.serverMode, modeName = dht.ModeClient, false, "client"
		}
	}
	maxAge := []time.Duration{0, 100 * time.Second, 36 * time.Hour}[s.Draw("max-record-age", 3)]
	provValidity := []time.Duration{0, 150 * time.Second}[s.Draw("provide-validity", 2)]
	opts := []dht.Option{
		dht.ProtocolPrefix("/sim"), dht.Mode(mode), dht.BucketSize(w.K), dht.DisableAutoRefresh(),
		dht.Validator(rankValidator{}), dht.Datastore(w.ds),
	}
	if maxAge > 0 {
		opts = append(opts, dht.MaxRecordAge(maxAge), dht.ValueGCInterval(45*time.Second))
	}
	var pmOpts []records.Option
	if provValidity > 0 {
		w.expiry = true
		pmOpts = append(pmOpts, records.ProvideValidity(provValidity), records.CleanupInterval(70*time.Second))
	}
	if w.variant == c09Fill {
		pmOpts = append(pmOpts, records.Cache(c09NoCache{})) // see c09_fill.go
	}
	if len(pmOpts) > 0 {
		opts = append(opts, dht.ProviderManagerOpts(pmOpts...))
	}
	if w.filter {
		opts = append(opts, dht.AddressFilter(c09Filter))
	}
	d, err := dht.New(w.h, opts...)
	if err != nil {
		panic(err)
	}
	w.d = d
	if pm, ok := d.ProviderStore().(*records.ProviderManager); ok {
		// GetProviders shuffles with the global math/rand source; replace it by a
		// stateless permutation derived from the run's seed (DESIGN §2.6).
		records.VerifSetShuffle(pm, c09Shuffle(w.nseed))
	}
	s.Quiesce()
	if w.auto {
		w.emReach, err = w.h.RealBus().Emitter(new(event.EvtLocalReachabilityChanged))
		if err != nil {
			panic(err)
		}
	}

	// ---- routing table and peerstore ----
	// address classes: 0 one ordinary address, 1 none, 2 a list far above 8 KiB
	class := map[peer.ID]int{}
	for _, p := range rtPeers {
		if huge {
			class[p.ID] = 2
			continue
		}
		class[p.ID] = []int{0, 0, 1, 2}[s.Draw("addr-class", 4)]
	}
	// senders: from the table (so the requester filter matters) or outsiders
	for i := 0; i < nSenders; i++ {
		var p *simnet.Peer
		if nRT > 0 && !s.Chance("sender-outsider", 1, 3) {
			p = rtPeers[s.Draw("sender-rt", nRT)]
		} else {
			p = outsiders[i]
		}
		dup := false
		for _, q := range w.senders {
			dup = dup || q == p
		}
		if dup {
			p = outsiders[i]
		}
		if huge && p == outsiders[i] {
			// a requester the node is not a neighbour of but knows addresses of
			// (no ADD_PROVIDER is generated in this variant: nothing else would
			// ever put an outsider's addresses into the peerstore)
			if addrs := w.drawKnownAddrs("sender-addrs", p); addrs != nil {
				w.prefill(p.ID, addrs, peerstore.PermanentAddrTTL)
			}
		}
		w.senders = append(w.senders, p)
		// a sender that sits in the table always has addresses from the start:
		// its own ADD_PROVIDER could otherwise change the "has addresses"
		// status the FIND_NODE model relies on
		if class[p.ID] == 1 {
			class[p.ID] = 0
		}
	}
	mixRng := c09Rng(w.nseed ^ uint64(hugeMix)<<32)
	for _, p := range rtPeers {
		switch class[p.ID] {
		case 0:
			w.prefill(p.ID, p.Addrs, peerstore.PermanentAddrTTL)
		case 2:
			// fat lists hold addresses of one size only: whichever subset survives
			// the 8 KiB trim (peerstore order is not ours), sizes stay the same
			n := 40
			if hugeMix != 0 {
				n = 29 + int(mixRng.next()%12) // 29..40: about 7 KiB up to "cut to 8 KiB"
			}
			w.prefill(p.ID, c09FatAddrs(n), peerstore.PermanentAddrTTL)
		}
		_, _ = d.RoutingTable().TryAddPeer(p.ID, true, false)
	}
	if huge {
		// Which members the node has a connection to: the record of a connected
		// peer carries a connection type and is that much larger on the wire
		// (see c09_fill.go; there for provider records, here for closer peers).
		hc := s.Draw("huge-members-connected", 3) // 0 none, 1 all, 2 about half
		for _, p := range rtPeers {
			if hc == 1 || (hc == 2 && mixRng.next()&1 == 0) {
				w.h.Net().SetConnected(p.ID, true)
			}
		}
	}
	for _, p := range w.extras {
		// known non-members always have an address; how much is drawn
		addrs := w.drawKnownAddrs("extra-addrs", p)
		if addrs == nil {
			addrs = p.Addrs
		}
		w.prefill(p.ID, addrs, peerstore.PermanentAddrTTL)
	}
	if huge {
		if addrs := w.drawKnownAddrs("self-addrs", w.u.Self); addrs != nil {
			w.prefill(w.u.Self.ID, addrs, peerstore.PermanentAddrTTL)
		}
		if addrs := w.drawKnownAddrs("prober-addrs", w.prober); addrs != nil {
			w.prefill(w.prober.ID, addrs, peerstore.PermanentAddrTTL)
		}
	} else if s.Chance("self-addrs-known", 1, 3) {
		w.prefill(w.u.Self.ID, w.u.Self.Addrs, peerstore.PermanentAddrTTL)
	}
	s.Quiesce()
	w.rt = d.RoutingTable().ListPeers()
	for _, p := range w.rt {
		w.rtSet[p] = true
	}

	// ---- keys ----
	w.provKeys = [][]byte{c09Key("prov-a", 32), c09Key("prov-b", 80), c09Key("p", 1)}
	w.valKeys = [][]byte{[]byte("/v/one"), []byte("/v/two"), c09Key("/v/long", 80)}

	// ---- provider store ----
	ctx := context.Background()
	addProv := func(key []byte, id peer.ID, addrs []ma.Multiaddr) {
		if err := d.ProviderStore().AddProvider(ctx, key, peer.AddrInfo{ID: id, Addrs: addrs}); err != nil {
			panic(err)
		}
		if w.prefillProv[string(key)] == nil {
			w.prefillProv[string(key)] = map[peer.ID]bool{}
		}
		w.prefillProv[string(key)][id] = true
		if id != w.u.Self.ID {
			w.notePrefill(id, addrs)
		}
	}
	for _, key := range w.provKeys {
		n := s.Draw("prefill-providers", 5)
		for i := 0; i < n; i++ {
			cands := append(append([]*simnet.Peer{w.u.Self}, w.extras...), rtPeers...)
			p := cands[s.Draw("provider", len(cands))]
			var addrs []ma.Multiaddr
			switch s.Draw("provider-addrs", 3) {
			case 0:
				addrs = p.Addrs
			case 2:
				addrs = c09FatAddrs(40)
			}
			if class[p.ID] == 1 && w.rtSetHas(p.ID) {
				addrs = nil // keep address-less table members address-less
			}
			if huge && addrs != nil && p != w.u.Self {
				// Here the number of records that fit a response is observable, so the
				// size of every record must be ours: a peer's addresses all have one
				// size (which of them survive the 8 KiB cut is the peerstore's map
				// order). A provider record therefore repeats what is already known
				// about the peer, or is the first thing known about it.
				if l := w.known[p.ID]; l != nil {
					addrs = l
				} else {
					w.known[p.ID] = addrs
				}
			}
			addProv(key, p.ID, addrs)
		}
	}
	if w.variant == c09Bulk {
		// hundreds of providers with ~10 KiB address lists each (trimmed to 8 KiB
		// per record on the way out): the response-size budget must cut the list.
		w.bigKey = c09Key("prov-big", 32)
		w.provKeys = append(w.provKeys, w.bigKey)
		w.nBig = []int{560, 300, 640}[s.Draw("bulk-providers", 3)]
		fat := c09FatAddrs(40)
		for i := 0; i < w.nBig; i++ {
			addProv(w.bigKey, simnet.MakeID(w.seed, 5000+i), fat)
		}
	}
	if w.variant == c09Fill {
		w.setupFill(addProv)
	}
	s.Quiesce()

	s.Summary["cfg"] = fmt.Sprintf("variant=%d mode=%s K=%d rt=%d senders=%d extras=%d filter=%v parkWrites=%v maxAge=%v provValidity=%v bulk=%d",
		w.variant, modeName, w.K, len(w.rt), nSenders, nExtras, w.filter, w.fab.ParkWrites, maxAge, provValidity, w.nBig)
	s.Tracef("setup K=%d rt=%d senders=%d mode=%s", w.K, len(w.rt), nSenders, modeName)

	if w.variant == c09BigKey {
		w.setupBigKey()
	}

	// ---- value store history: records put over the wire, some left to expire ----
	if hd := w.h.Handler(w.proto); hd != nil && w.serverMode && s.Chance("prefill-values", 2, 3) {
		st := w.open(w.prefiller(), hd, true)
		st.final = true
		n := 1 + s.Draw("prefill-nvalues", len(w.valKeys))
		for i := 0; i < n; i++ {
			key := w.valKeys[i]
			var m *pb.Message
			if i == 0 && w.bigPrefill != nil {
				m = w.bigPrefill
			} else {
				m = pb.NewMessage(pb.Message_PUT_VALUE, key, 0)
				m.Record = &recpb.Record{Key: key, Value: rankValue(1+s.Draw("rank", 3), time.Time{}, string(key))}
			}
			st.nItems++
			st.sentN++
			st.write(encodeFrame(m))
			w.settle()
			w.observe()
			if s.Failed() {
				return
			}
		}
		if st.nResp != n {
			s.Violate("honest-reset", "prefill: %d valid PUT_VALUE requests on a fresh stream, %d echoes", n, st.nResp)
			return
		}
		if maxAge > 0 && maxAge < time.Hour && s.Chance("prefill-age", 1, 2) {
			w.sleep(maxAge + 20*time.Second)
		}
		st.a.SimReset()
		s.Quiesce()
		w.observe()
	}

	// client mode from the start: no handler may be registered
	if !w.serverMode {
		if w.h.Handler(w.proto) != nil {
			s.Violate("client-handler-registered", "node configured in client mode has a stream handler registered for %s", w.proto)
		} else {
			s.Count("probe_client_no_handler")
		}
	}
}

// prefiller is the peer that writes the value prefill (an outsider).
func (w *c09World) prefiller() *simnet.Peer { return w.extras[0] }

func (w *c09World) rtSetHas(p peer.ID) bool {
	for _, q := range w.d.RoutingTable().ListPeers() {
		if q == p {
			return true
		}
	}
	return false
}

func (w *c09World) prefill(id peer.ID, addrs []ma.Multiaddr, ttl time.Duration) {
	w.h.Peerstore().AddAddrs(id, addrs, ttl)
	if w.known[id] == nil {
		w.known[id] = addrs
	}
	w.notePrefill(id, addrs)
}

func (w *c09World) notePrefill(id peer.ID, addrs []ma.Multiaddr) {
	m := w.prefillAddrs[id]
	if m == nil {
		m = map[string]bool{}
		w.prefillAddrs[id] = m
	}
	for _, a := range addrs {
		m[string(a.Bytes())] = true
	}
}

// ---------------------------------------------------------------------------
// streams

// open creates a stream from sender to the node and starts the handler hd on
// the listener end (what a libp2p host does after protocol negotiation).
func (w *c09World) open(sender *simnet.Peer, hd network.StreamHandler, honest bool) *c09Stream {
	lconn := w.h.Net().SetConnected(sender.ID, true)
	a, b := w.fab.NewPair("st:"+sender.Name, w.proto, sender.ID, w.h.ID(), nil, lconn)
	a.Scripted = true
	st := &c09Stream{w: w, idx: len(w.streams), a: a, b: b, sender: sender, honest: honest, openEpoch: w.epoch, clientAnswers: map[int]int{}}
	w.streams = append(w.streams, st)
	w.perPeer[sender.ID]++
	go hd(b) // harness-created goroutine that runs repository code (handleNewStream)
	return st
}

func (st *c09Stream) name() string { return st.a.Name() }

// caughtUp: everything written was delivered and answered as far as it can be.
func (st *c09Stream) caughtUp() bool {
	return st.b.Delivered >= len(st.sent) && st.firstUnresolved(len(st.sent)) == nil
}

// done: nothing more will be sent on it.
func (st *c09Stream) done() bool {
	return st.sentN >= st.nItems || st.closedRemote || st.a.IsReset()
}

// write sends bytes from the scripted remote and extends the request model.
func (st *c09Stream) write(data []byte) {
	w := st.w
	before := len(st.reqs)
	st.sent = append(st.sent, data...)
	st.reqs = append(st.reqs, st.parse.feed(data)...)
	for _, r := range st.reqs[before:] {
		r.epoch, r.clientAtWrite = w.epoch, !w.serverMode
		w.noteRequest(st, r)
	}
	_, _ = st.a.Write(data)
}

// ---------------------------------------------------------------------------
// main loop

func (w *c09World) loop() {
	s := w.s
	bulk := w.fewStreams()
	maxStreams := 2 + s.Draw("max-streams", 5)
	if bulk {
		maxStreams = 1 + s.Draw("max-streams", 2)
	}
	honestPeer := -1
	if len(w.senders) > 1 && s.Chance("honest-second-peer", 1, 2) {
		honestPeer = 1
	}
	idle := 0
	for s.Step() {
		w.observe()
		if s.Failed() {
			return
		}
		var acts []sim.Action
		// open a further stream
		canOpen := len(w.streams) < maxStreams
		if canOpen {
			for i, p := range w.senders {
				i, p := i, p
				if w.perPeer[p.ID] >= 3 {
					continue
				}
				hd := w.h.Handler(w.proto)
				if hd != nil {
					if !w.serverMode {
						s.Violate("client-handler-registered", "stream handler still registered for %s after the node switched to client mode", w.proto)
						return
					}
					w.lastHandler = hd
					acts = append(acts, sim.Action{ID: fmt.Sprintf("open:%s", p.Name), Do: func() {
						st := w.open(p, hd, i == honestPeer)
						st.nItems = 1 + s.Draw("items", 6)
						st.lockstep = s.Chance("lockstep", 1, 2)
						if bulk {
							st.nItems = 1 + s.Draw("items", 3)
						}
						if w.auto && s.Chance("sweep-missed", 1, 3) {
							// The client-mode sweep walks host.Network().Conns()/GetStreams();
							// model a stream that enumeration does not list (see c09_oracle.go,
							// rule client-mode-answer, for what is and is not demanded then).
							w.h.Net().Conn(p.ID).RemoveStream(st.b)
							st.missed = true
						}
						s.Tracef("open %s honest=%v items=%d missed=%v", st.name(), st.honest, st.nItems, st.missed)
					}})
				} else if w.lastHandler != nil && w.auto {
					// negotiation finished just before the handler was removed: the
					// handler function is invoked although the node is a client now
					acts = append(acts, sim.Action{ID: fmt.Sprintf("open-late:%s", p.Name), Do: func() {
						st := w.open(p, w.lastHandler, false)
						st.late = true
						st.nItems = 1 + s.Draw("items", 3)
						s.Tracef("open-late %s items=%d", st.name(), st.nItems)
					}})
				}
			}
		}
		// send the next item
		for _, st := range w.streams {
			st := st
			if st.done() || st.final || (st.lockstep && !st.caughtUp()) {
				continue
			}
			acts = append(acts, sim.Action{ID: "send:" + st.name(), Do: func() {
				data, desc, after := w.genItem(st)
				st.sentN++
				s.Tracef("send %s #%d %s after=%d", st.name(), st.sentN, desc, after)
				st.write(data)
				switch after {
				case 1:
					s.Count("fault_remote_halfclose")
					st.closedRemote = true
					_ = st.a.CloseWrite()
				}
			}})
		}
		// deliveries (both directions)
		for _, st := range w.streams {
			for _, ep := range []*simhost.Stream{st.a, st.b} {
				ep := ep
				n, eof := ep.Pending()
				if n == 0 && !eof {
					continue
				}
				acts = append(acts, sim.Action{ID: "deliver:" + ep.Name(), Do: func() {
					l := ep.NextChunkLen()
					if l > 1 && s.Chance("split", 1, 5) {
						s.Count("fault_split_chunk")
						// position drawn as a fraction: the tape must not depend on the
						// chunk length (provider order inside a response is not under
						// the scheduler's control when the cache path is taken)
						ep.Deliver(1 + (l-2)*s.Draw("split-frac", 8)/7)
					} else {
						ep.Deliver(0)
					}
				}})
			}
		}
		// parked response writes
		for _, p := range s.ParkedKind("swrite") {
			p := p
			acts = append(acts, sim.Action{ID: p.ID, Do: func() {
				if s.Chance("write-fail", 1, 12) {
					s.Count("fault_write_error")
					if x, ok := p.Data.(*simhost.Stream); ok {
						for _, st := range w.streams {
							if st.b == x {
								st.excused = true
							}
						}
					}
					s.Release(p, network.ErrReset)
				} else {
					s.Release(p, nil)
				}
			}})
		}
		progress := len(acts)
		// faults: time, a reset by the network, a mode switch
		timeAct := sim.Action{ID: "ztime", Do: func() {
			d := []time.Duration{2 * time.Second, 40 * time.Second, 61 * time.Second, 2 * time.Second, 170 * time.Second}[s.Draw("dt", 5)]
			w.sleep(d)
		}}
		faults := []sim.Action{timeAct}
		var resets []sim.Action
		for _, st := range w.streams {
			st := st
			if !st.a.IsReset() && !st.final {
				resets = append(resets, sim.Action{ID: "zreset:" + st.name(), Do: func() {
					s.Count("fault_stream_reset")
					st.excused = true
					st.a.SimReset()
				}})
			}
		}
		if len(resets) > 0 {
			faults = append(faults, sim.Action{ID: "zreset", Do: func() { s.Choose("reset-which", resets) }})
		}
		timeActs := []sim.Action{timeAct}
		if w.auto {
			modeAct := sim.Action{ID: "zmode", Do: func() { w.switchMode() }}
			faults = append(faults, modeAct, sim.Action{ID: "zmode2", Do: modeAct.Do})
			timeActs = append(timeActs, modeAct)
		}
		if progress == 0 {
			if w.allDone() {
				return
			}
			idle++
			if idle > 6 {
				return
			}
			// nothing to deliver: only time (or a mode switch) can move things
			s.Choose("idle", timeActs)
			continue
		}
		idle = 0
		if s.Chance("inject", 1, 9) {
			s.Choose("fault", faults)
		} else {
			s.Choose("next", acts)
		}
	}
	if s.Steps > s.MaxSteps {
		s.Count("step_budget_exhausted")
	}
}

func (w *c09World) allDone() bool {
	if len(w.streams) == 0 {
		return !w.serverMode && !w.auto
	}
	for _, st := range w.streams {
		if !st.done() {
			return false
		}
	}
	return len(w.streams) >= 2 || w.fewStreams()
}

// heavy: the variants whose responses are megabytes long (fewer streams and
// items per run, no parked response writes, no wire-level damage).
func (w *c09World) heavy() bool {
	return w.variant == c09Bulk || w.variant == c09HugeK || w.variant == c09Fill
}

// fewStreams: the variants whose requests or responses are megabytes long run
// one or two streams with one to three items each.
func (w *c09World) fewStreams() bool { return w.heavy() || w.variant == c09BigKey }

func (w *c09World) sleep(d time.Duration) {
	s := w.s
	s.Count("time_advance")
	type pre struct {
		st     *c09Stream
		wasRst bool
		quiet  bool
	}
	var ps []pre
	for _, st := range w.streams {
		n, _ := st.b.Pending()
		ps = append(ps, pre{st, st.b.IsReset(), n == 0 && !st.parse.partial()})
		st.excused = true
	}
	w.slept = true
	s.Sleep(d)
	for _, p := range ps {
		if !p.wasRst && p.st.b.IsReset() && p.st.b.ResetBy == "local" {
			s.Count("probe_idle_timeout_reset")
			if !p.quiet {
				s.Count("fault_stall_partial_frame")
			}
		}
	}
}

func (w *c09World) switchMode() {
	s := w.s
	s.Count("fault_mode_switch")
	to := network.ReachabilityPrivate
	if !w.serverMode {
		to = network.ReachabilityPublic
	}
	open := map[*c09Stream]bool{}
	for _, st := range w.streams {
		st.excused = true
		open[st] = st.b.IsOpen()
	}
	if err := w.emReach.Emit(event.EvtLocalReachabilityChanged{Reachability: to}); err != nil {
		panic(err)
	}
	s.Quiesce()
	w.serverMode = !w.serverMode
	w.epoch++
	s.Tracef("mode server=%v", w.serverMode)
	if !w.serverMode {
		for _, st := range w.streams {
			if open[st] && st.b.IsReset() {
				s.Count("probe_sweep_reset_stream")
			}
			if open[st] && !st.missed && !st.b.IsReset() {
				// not demanded by the property text (it only says nothing is
				// answered); recorded so that the evidence shows the sweep ran
				s.Count("sweep_left_listed_stream_open")
			}
		}
		if w.h.Handler(w.proto) != nil {
			s.Violate("client-handler-registered", "stream handler still registered for %s after the node switched to client mode", w.proto)
		}
	}
}

// settle delivers everything in flight and lets every parked write through,
// without consuming decisions (drain phases).
func (w *c09World) settle() {
	s := w.s
	for i := 0; i < 400; i++ {
		s.Quiesce()
		progressed := false
		for _, p := range s.ParkedKind("swrite") {
			s.Release(p, nil)
			s.Quiesce()
			progressed = true
		}
		for _, ep := range w.fab.Streams() {
			for {
				n, eof := ep.Pending()
				if n == 0 && !eof {
					break
				}
				ep.Deliver(0)
				progressed = true
				if n == 0 {
					break
				}
			}
		}
		if !progressed {
			return
		}
	}
}

// ---------------------------------------------------------------------------
// drain, final probe, audit, teardown

func (w *c09World) drainAndProbe() {
	s := w.s
	if s.Failed() {
		return
	}
	w.settle()
	w.observe()
	if s.Failed() {
		return
	}
	if w.variant == c09BigKey {
		w.closingBigRequest() // c09_bigkey.go
		if s.Failed() {
			return
		}
	}
	w.finalChecks()
	if s.Failed() || s.Steps > s.MaxSteps {
		return
	}
	// "never stops serving other peers": whatever was sent before, an honest
	// peer that opens a fresh stream now is answered, request by request.
	hd := w.h.Handler(w.proto)
	if !w.serverMode {
		if hd != nil {
			s.Violate("client-handler-registered", "stream handler registered for %s while the node is in client mode", w.proto)
		}
		return
	}
	if hd == nil {
		s.Violate("stopped-serving", "node in server mode has no stream handler registered for %s", w.proto)
		return
	}
	st := w.open(w.prober, hd, true)
	st.final = true
	probes := w.finalProbeMessages()
	st.nItems = len(probes)
	for i, m := range probes {
		st.sentN++
		st.write(encodeFrame(m))
		w.settle()
		w.observe()
		if s.Failed() {
			return
		}
		if st.nResp != i+1 {
			s.Violate("stopped-serving", "after the traffic of this run an honest %v request from a fresh peer on a fresh stream got no response (stream reset=%v by %q)", m.GetType(), st.a.IsReset(), st.a.ResetBy)
			return
		}
	}
	s.Count("probe_final_probe_answered")
	s.Tracef("final probe answered %d", st.nResp)
	w.finalDone = true
}

func (w *c09World) teardown() {
	s := w.s
	nResp := 0
	for _, st := range w.streams {
		nResp += st.nResp
		st.a.SimReset()
	}
	s.Quiesce()
	s.Tracef("done streams=%d responses=%d resets=%d", len(w.streams), nResp, w.nResets)
	s.State("v=%d streams=%d resp=%d resets=%d garbage=%d", w.variant, len(w.streams), nResp, w.nResets, w.nGarbage)
	s.NonTrivial = w.nChecked > 0 && (w.nResets > 0 || w.nGarbage > 0 || w.slept || w.epoch > 0)
	if w.emReach != nil {
		_ = w.emReach.Close()
	}
	closeAndCensus(s, func() {
		_ = w.d.Close()
		_ = w.h.Close()
	})
	s.Finish()
}

// sortedKeys returns map keys in canonical order (pitfall 1).
func c09SortedKeys[V any](m map[string]V) []string {
	out := make([]string, 0, len(m))
	for k := range m {
		out = append(out, k)
	}
	sort.Strings(out)
	return out
}
