//go:build all || c16

package scen

import (
	"context"
	"fmt"
	"hash/fnv"
	"time"

	"github.com/libp2p/go-libp2p/core/host"
	"github.com/libp2p/go-libp2p/core/peer"
	"github.com/libp2p/go-libp2p/core/peerstore"
	"github.com/libp2p/go-libp2p/core/protocol"

	"github.com/libp2p/go-libp2p-kad-dht/crawler"
	pb "github.com/libp2p/go-libp2p-kad-dht/pb"

	"verif/sim"
	"verif/simhost"
	"verif/simnet"
)

func init() {
	real := []string{"crawler.DefaultCrawler (Run work list, workers, queryPeer)", "pb.ProtocolMessenger", "kbucket.GenRandPeerID (dependency)"}
	stub := []string{"host.Host/network (simhost)", "pb.MessageSender (level A, labels by bucket)", "remote peers (scripted referral graph with dial/query failures)"}
	sim.Register(&sim.Scenario{Prop: "C16", Name: "crawler", Weight: 3, Run: func(s *sim.Sim) { runC16Crawler(s, "wide") },
		Real: real, Stub: stub,
		Faults: []string{"fault_dial_fail", "fault_rpc_error", "fault_dial_timeout", "fault_rpc_timeout", "fault_cancel", "time_advance",
			"probe_dial_failure_during_crawl", "probe_partial_query_failure", "probe_crawl_multi_hop", "probe_seed_addr_from_peerstore", "probe_preconnected_peer", "probe_seed_without_address", "probe_addrless_seed_reachable_by_referral",
			"probe_new_peer_after_reply_without_news", "probe_kad_replies_differ_by_bucket"}})
	sim.Register(&sim.Scenario{Prop: "C16", Name: "crawler-narrow", Weight: 2, Run: func(s *sim.Sim) { runC16Crawler(s, "narrow") },
		Real: real, Stub: stub,
		Faults: []string{"fault_dial_fail", "fault_rpc_error", "probe_dial_failure_during_crawl", "probe_partial_query_failure", "probe_crawl_queue_longer_than_workers", "probe_seed_without_address", "probe_addrless_seed_reachable_by_referral",
			"probe_new_peer_after_reply_without_news", "probe_kad_replies_differ_by_bucket"}})
	sim.Register(&sim.Scenario{Prop: "C16", Name: "crawler-dup-seeds", Weight: 1, Run: func(s *sim.Sim) { runC16Crawler(s, "dup") },
		Real: real, Stub: stub,
		Faults: []string{"probe_dup_seed", "probe_dup_seed_only_later_entry_has_address", "probe_seed_without_address", "probe_addrless_seed_reachable_by_referral"}})
}

// runC16Crawler drives crawler.DefaultCrawler directly.
//
// mode "wide":   parallelism above the number of peers, so that the set of
// parked calls is a function of the schedule alone; every delivery is a
// scheduler choice (arbitrary completion order), time-outs and cancellation of
// the Run context are injected.
//
// mode "narrow": parallelism 1..3. The crawler appends newly learned peers to
// its work list in Go map iteration order, so which peers are in flight is not
// a function of the tape; the run is therefore scheduled by priorities drawn
// up front (no draw and no trace line depends on the order) and the trace is
// the order-independent outcome. The failure table is fixed up front in both
// modes, so the outcome of a crawl does not depend on the order.
//
// mode "dup":    like "wide", and one seed is listed twice (separate input
// class, rule dup-seed-crawled-twice); the two entries may differ in whether
// they carry addresses.
//
// All modes: some seeds are "bare" - no address in the AddrInfo and none in the
// host's peerstore. Run skips such an entry without an outcome; the peer must
// nevertheless be crawled when a later entry of the seed list carries
// addresses for it, or when a fully and successfully queried peer names it
// (replies carry addresses): see the must-closure in checkCrawl.
//
// Crawl topology (clause "a crawl queries every peer reachable from its seeds",
// quantified "for every crawl topology"): the scripted peers answer differently
// per request - free-form (a neighbour is named in the replies for one or two
// arbitrary buckets, the other replies are empty) or like Kademlia servers with
// a small reply size (drawn choice "world-kind": replies overlap and repeat,
// an entry of a sparse table region shows up in the reply for its own bucket
// only). Rule crawl-missed follows the peers' whole tables (every reply a peer
// would give), so a crawl that reports a peer as queried after fetching only a
// part of its table - stops at the first empty or repeated reply, skips
// buckets, caps the number of requests per peer - and thereby never reaches a
// peer of the topology is a violation. probe_new_peer_after_reply_without_news
// counts the deliveries in which a peer names somebody new after an earlier
// reply of it held nothing new.
func runC16Crawler(s *sim.Sim, mode string) {
	s.MaxSteps = 1500
	var n int
	switch s.Draw("size-class", 3) {
	case 0:
		n = s.Range("n", 1, 4)
	case 1:
		n = s.Range("n", 3, 10)
	default:
		n = s.Range("n", 8, 24)
	}
	u := simnet.NewUniverse(uint64(s.Draw("universe", 1<<16)), n)
	rng := newSubRng(s, "world")
	faultLevel := s.Draw("fault-level", 3)
	w := genC16World(s, u, rng, faultLevel)
	h := simhost.New(s, u.Self.ID, u.Self.Addrs, u.Name)

	par := n + 3
	if mode == "narrow" {
		par = s.Range("parallelism", 1, 3)
	}
	connectTimeout := []time.Duration{time.Second, 5 * time.Second, time.Minute}[s.Draw("connect-timeout", 3)]
	snd := &c16Sender{S: s, U: u}
	dc, err := crawler.NewDefaultCrawler(h,
		crawler.WithParallelism(par),
		crawler.WithConnectTimeout(connectTimeout),
		crawler.WithProtocols([]protocol.ID{"/sim/kad/1.0.0"}),
		crawler.WithCustomMessageSender(func(host.Host, []protocol.ID) pb.MessageSenderWithDisconnect { return snd }))
	if err != nil {
		s.Violate("ctor-error", "NewDefaultCrawler failed: %v", err)
		_ = h.Close()
		s.Finish()
		return
	}
	oc := &obsCrawler{Inner: dc, H: h}

	// seeds: 1..4 distinct peers. A seed's addresses come with its AddrInfo, or
	// only from the host's peerstore, or from nowhere at all ("bare": the
	// AddrInfo is a bare peer id and the peerstore knows nothing - what
	// fullrt.runCrawler hands over for every peer of the previous crawl whose
	// peerstore entry has expired). bareLevel 0 is the benign input (every seed
	// is dialable from the start).
	nSeeds := s.Range("seeds", 1, 4)
	if nSeeds > n {
		nSeeds = n
	}
	bareLevel := s.Draw("bare-seeds", 3)
	var seeds []*peer.AddrInfo
	var seedPeers, bare, addressed []*simnet.Peer
	used := map[int]bool{}
	for len(seeds) < nSeeds {
		i := rng.Intn(n)
		if used[i] {
			continue
		}
		used[i] = true
		p := u.Peers[i]
		ai := p.AddrInfo()
		switch x := rng.Intn(8); {
		case x < []int{0, 2, 5}[bareLevel]:
			ai.Addrs = nil
			bare = append(bare, p)
			s.Count("probe_seed_without_address")
		case x >= 6 && mode != "narrow":
			h.Peerstore().AddAddrs(p.ID, p.Addrs, peerstore.PermanentAddrTTL)
			ai.Addrs = nil
			addressed = append(addressed, p)
			s.Count("probe_seed_addr_from_peerstore")
		default:
			addressed = append(addressed, p)
		}
		seeds = append(seeds, &ai)
		seedPeers = append(seedPeers, p)
	}
	if mode == "dup" {
		// one seed is listed twice: the same entry twice, or two entries of which
		// only the later / only the earlier one carries addresses, or two bare ones
		i := rng.Intn(len(seeds))
		p := seedPeers[i]
		dup := *seeds[i]
		isBare := func() bool {
			for _, q := range bare {
				if q == p {
					return true
				}
			}
			return false
		}()
		switch rng.Intn(4) {
		case 1: // only the later entry carries addresses
			if !isBare {
				h.Peerstore().ClearAddrs(p.ID)
				seeds[i].Addrs = nil
			}
			dup.Addrs = p.Addrs
			s.Count("probe_dup_seed_only_later_entry_has_address")
		case 2: // only the earlier entry carries addresses (unless it has none either)
			dup.Addrs = nil
		case 3: // both bare
			if !isBare {
				h.Peerstore().ClearAddrs(p.ID)
				seeds[i].Addrs = nil
				bare = append(bare, p)
				for k, q := range addressed {
					if q == p {
						addressed = append(addressed[:k:k], addressed[k+1:]...)
						break
					}
				}
			}
			dup.Addrs = nil
		}
		// the second entry goes anywhere after the first
		at := i + 1 + rng.Intn(len(seeds)-i)
		seeds = append(seeds[:at:at], append([]*peer.AddrInfo{&dup}, seeds[at:]...)...)
		s.Count("probe_dup_seed")
	}
	// a bare seed is usually somebody's neighbour: another seed, or any peer,
	// names it (with its addresses, like every referral) in one of its replies
	for _, b := range bare {
		if n < 2 || rng.Intn(4) == 0 {
			continue
		}
		var x *simnet.Peer
		if len(addressed) > 0 && rng.Intn(2) == 0 {
			x = addressed[rng.Intn(len(addressed))]
		} else {
			x = u.Peers[rng.Intn(n)]
		}
		if x != b {
			w.addRef(w.Beh[x.ID], b, rng)
		}
	}
	// some peers are connected already (Connect returns at once for them)
	if mode == "wide" {
		for _, p := range u.Peers {
			if rng.Intn(8) == 0 && !w.Beh[p.ID].DialFail {
				h.Net().SetConnected(p.ID, true)
				s.Count("probe_preconnected_peer")
			}
		}
	}
	cancelAt := 0
	if mode == "wide" && s.Chance("cancel", 1, 6) {
		cancelAt = s.Range("cancel-at", 1, 120)
	}
	s.Summary["cfg"] = fmt.Sprintf("mode=%s N=%d parallelism=%d seeds=%d bare=%d faults=%d connectTimeout=%v cancelAt=%d", mode, n, par, len(seeds), len(bare), faultLevel, connectTimeout, cancelAt)

	ctx, cancel := context.WithCancel(context.Background())
	defer cancel()
	var ops opSet
	op := ops.Go(s, "crawler.Run", func() (any, error) {
		oc.Run(ctx, seeds, nil, nil)
		return nil, nil
	})
	s.Quiesce()
	o := oc.current()
	if o == nil {
		s.Violate("run-hang", "crawler.Run did not start")
		s.Finish()
		return
	}

	prioSeed := uint64(0)
	if mode == "narrow" {
		prioSeed = uint64(s.Draw("priorities", 1<<20))
	}
	prio := func(id string) uint64 {
		f := fnv.New64a()
		fmt.Fprintf(f, "%d|%s", prioSeed, id)
		return f.Sum64()
	}
	idle := 0
	for s.Step() {
		o.checkOnce(s, u, h, snd)
		if s.Failed() || op.Done {
			break
		}
		if cancelAt > 0 && s.Steps >= cancelAt && !o.cancelled {
			o.cancelled = true
			s.Tracef("cancel run context")
			s.Count("fault_cancel")
			cancel()
			s.Quiesce()
			continue
		}
		if mode != "narrow" && s.Chance("tick", 1, 12) {
			d := []time.Duration{10 * time.Millisecond, 700 * time.Millisecond, 3 * time.Second, 20 * time.Second, 4 * time.Minute}[s.Draw("tick-d", 5)]
			s.Sleep(d)
			s.Count("time_advance")
		}
		acts := w.crawlActions(o)
		if len(acts) == 0 {
			idle++
			if idle > 5 {
				break
			}
			s.Sleep(time.Second)
			continue
		}
		idle = 0
		if mode == "narrow" {
			if len(acts) >= par && len(s.Parked()) >= par {
				s.Count("probe_crawl_queue_longer_than_workers")
			}
			best := 0
			for i := range acts {
				if prio(acts[i].ID) < prio(acts[best].ID) {
					best = i
				}
			}
			acts[best].Do()
			s.Quiesce()
			continue
		}
		s.Choose("next", acts)
	}
	if !s.Failed() {
		switch {
		case op.Panic != "":
			s.Violate("op-panic", "crawler.Run panicked: %s", firstLine(op.Panic))
		case !op.Done && s.Steps > s.MaxSteps:
			s.Count("step_budget_exhausted")
		case !op.Done:
			s.Violate("run-hang", "crawler.Run did not return although no dial or request is outstanding (%d s of virtual time passed)", idle)
		default:
			if left := len(s.ParkedKind("dial")) + len(s.ParkedKind("rpc")); left > 0 {
				s.Violate("work-after-return", "crawler.Run returned while %d dial(s)/request(s) of the crawl are still outstanding", left)
			}
			checkCrawl(s, u, h, snd, o)
		}
	}
	if op.Done {
		hops := 0
		for _, p := range u.Peers {
			if len(o.success[p.ID]) > 0 {
				hops++
			}
		}
		if hops >= 2 {
			s.Count("probe_crawl_multi_hop")
		}
		if o.cancelled {
			// which peers were reached before the cancellation depends on the
			// order; the trace keeps only what is order-independent
			s.Tracef("crawl cancelled; returned=%v", op.Done)
		} else {
			s.Tracef("%s", o.summary(u))
		}
		nFail := 0
		for _, k := range o.fail {
			nFail += k
		}
		s.State("ok=%d fail=%d seeds=%d", hops, nFail, len(seeds))
		s.NonTrivial = hops >= 1 && (nFail > 0 || hops >= 3)
	}
	cancel()
	closeAndCensus(s, func() { _ = h.Close() })
	s.Finish()
}
