//go:build all || c13

package scen

// C13, scenario "mode-multi": several DHT instances with different mode
// options in ONE run.
//
// The property speaks about "a node": its mode is a function of ITS OWN option
// and of the last reachability event of ITS OWN host, "and fixed modes never
// change". Every other C13 scenario builds one instance per run, so the
// instance under test is alone in its run and nothing can tell whether what it
// does depends on another instance's configuration or history. A process that
// embeds two DHTs with different options is ordinary (a WAN/LAN pair on one
// host, an application with two networks on two hosts). Here one run builds
// 2-3 instances inside the same bubble:
//
//   - the first two are ModeAuto and ModeAutoServer (drawn order), a third one,
//     if drawn, has any of the four options;
//   - each instance lives on its own simulated host or (drawn) shares the host
//     of the previous instance under a protocol ID of its own (ProtocolExtension,
//     what the dual DHT does); a shared host's reachability event reaches every
//     instance on it;
//   - an instance is built at the start or (drawn) later, as a step of its own,
//     possibly after its host's emitter already holds an event (the emitter is
//     stateful like AutoNAT's, the late instance receives the last event);
//   - reachability events are emitted per host in drawn order with drawn values,
//     interleaved with inbound streams (one scripted remote per host, honest
//     PING frames, whole-frame delivery) on instances the model says are servers.
//
// Closing sweep: after the drawn part every instance (drawn order) is given each
// of the three reachability values once (drawn order) and is judged after each.
// The mode function of the property has three inputs; the sweep makes every run
// evaluate all of them for every instance, whatever the drawn prefix was.
//
// Rules (rule id -> clause). The ids differ from the single-instance scenarios'
// on purpose: a run of this scenario is the only kind of run whose verdict can
// be reproduced alone in a fresh process when the cause is state shared between
// instances (see "deferred verdict").
//   across-instances-mode-wrong        "the mode after any sequence of reachability events is determined by
//                                      the last event (public: server, private: client, unknown: server only
//                                      for auto-server), and fixed modes never change" - per instance, with
//                                      the instance's own option and its own host's last event, whatever else
//                                      lives in the process (observable: the host's handler table entry for
//                                      the instance's protocol ID)
//   across-instances-stream-reset      "in server mode it handles them": an inbound stream of an instance the
//                                      model says is a server (opened and used inside its current server
//                                      epoch, honest requests only, no virtual time passes) is not reset by
//                                      the node, in particular not because ANOTHER instance was demoted
//   across-instances-unanswered        "in server mode it handles them": a whole request delivered on such a
//                                      stream is answered at the next quiescent point (response writes are
//                                      not parked here)
//   across-instances-not-reset-at-demotion
//                                      "on switching to client mode it resets inbound DHT streams that are
//                                      already open" - the instance's own streams, at its own demotion
//
// Deferred verdict. State shared between instances may also outlive a run (a
// package-level variable), so what a run observes in a worker process that has
// executed other runs before may differ from what the same run observes alone.
// To keep the verdict of a run a function of its own schedule as far as
// possible, (1) the action menu and every draw depend on the MODEL only, never
// on what the instances did, (2) the first wrong observation is remembered and
// the schedule is played to its end (stream steps no longer touch the instances
// after it, events still do), and it is reported when the schedule is over, and
// (3) the closing sweep gives every instance every input. A regression through
// which one auto kind's answer to some input leaks to the other kind is then
// visible in every run whichever instance "went first" in the process.
//
// Not generated here: split frames, parked response writes, negotiation windows,
// look-alike protocol IDs, host events other than reachability - mode-switch,
// mode-race and mode-pipeline own those for the single instance.

import (
	"fmt"
	"strings"

	dht "github.com/libp2p/go-libp2p-kad-dht"
	pb "github.com/libp2p/go-libp2p-kad-dht/pb"
	"github.com/libp2p/go-libp2p/core/event"
	"github.com/libp2p/go-libp2p/core/network"
	"github.com/libp2p/go-libp2p/core/protocol"
	"github.com/libp2p/go-libp2p/p2p/host/eventbus"

	"verif/sim"
	"verif/simhost"
	"verif/simnet"
)

func init() {
	sim.Register(&sim.Scenario{Prop: "C13", Name: "mode-multi", Weight: 1, Run: runC13Multi,
		Real: []string{"2-3 IpfsDHT instances with different mode options in one process (own hosts or a shared host with own protocol IDs)", "subscriber_notifee reachability handling (real event buses)", "setMode / moveToServerMode / moveToClientMode", "handleNewStream / handleNewMessage, PING handler"},
		Stub: []string{"hosts (simhost), one per instance or shared", "streams (simhost.Fabric, whole-frame delivery)", "one scripted remote per host", "local reachability (events emitted per host by the scenario)"},
		Faults: []string{"probe_multi_own_hosts", "probe_multi_shared_host", "probe_multi_third_fixed", "probe_multi_third_auto",
			"probe_multi_late_build", "probe_multi_late_build_after_event", "probe_multi_event_reaches_two_instances",
			"probe_multi_promotion", "probe_multi_demotion", "probe_multi_same_mode_event", "probe_multi_fixed_mode_event",
			"probe_multi_unknown_to_auto", "probe_multi_unknown_to_auto_server",
			"probe_multi_demotion_open_stream", "probe_multi_other_instance_switch_stream_kept", "probe_multi_answered",
			"probe_multi_stream_reused", "probe_multi_sweep_done"},
	})
}

type c13mHost struct {
	idx  int
	h    *simhost.Host
	em   event.Emitter
	last *network.Reachability
	conn *simhost.Conn
	self *simnet.Peer
}

type c13mInst struct {
	idx    int
	opt    dht.ModeOpt
	name   string
	host   *c13mHost
	exact  protocol.ID
	dopts  []dht.Option
	d      *dht.IpfsDHT
	built  bool
	a, b   *simhost.Stream // the instance's live inbound stream in the MODEL (nil: none)
	onSUT  bool            // the stream exists on the instance as well (false after the first wrong observation)
	nReq   int
	stName string
}

func (in *c13mInst) server() bool { return c13Expected(in.opt, in.host.last) }

func runC13Multi(s *sim.Sim) {
	s.MaxSteps = 400
	opts := []dht.ModeOpt{dht.ModeAuto, dht.ModeAutoServer, dht.ModeServer, dht.ModeClient}
	optNames := []string{"auto", "auto-server", "server", "client"}
	nInst := s.Range("instances", 2, 3)
	first := s.Draw("auto-order", 2)
	optIdx := []int{first, 1 - first}
	if nInst == 3 {
		optIdx = append(optIdx, s.Draw("third-opt", 4))
		if optIdx[2] >= 2 {
			s.Count("probe_multi_third_fixed")
		} else {
			s.Count("probe_multi_third_auto")
		}
	}
	eventsLeft := s.Range("events", 0, 8)
	streamsLeft := s.Range("streams", 0, 4)
	reqsLeft := s.Range("requests", 0, 8)

	u := simnet.NewUniverse(uint64(s.Draw("universe", 1<<16)), nInst+1)
	remote := u.Peers[nInst]
	fab := simhost.NewFabric(s)
	var hosts []*c13mHost
	var insts []*c13mInst
	var cfg []string
	for i := 0; i < nInst; i++ {
		in := &c13mInst{idx: i, opt: opts[optIdx[i]], name: fmt.Sprintf("i%d:%s", i, optNames[optIdx[i]])}
		ext := ""
		if i > 0 && s.Chance("shares-host", 1, 3) {
			in.host = insts[i-1].host
			ext = fmt.Sprintf("/n%d", i)
			s.Count("probe_multi_shared_host")
		} else {
			id := u.Peers[len(hosts)]
			hh := &c13mHost{idx: len(hosts), self: id, h: simhost.New(s, id.ID, id.Addrs, u.Name)}
			hh.h.Label = fmt.Sprintf("h%d/", hh.idx)
			em, err := hh.h.RealBus().Emitter(new(event.EvtLocalReachabilityChanged), eventbus.Stateful)
			if err != nil {
				panic(err)
			}
			defer em.Close()
			hh.em = em
			hh.conn = hh.h.Net().SetConnected(remote.ID, true)
			hh.conn.SetDirection(network.DirInbound)
			hosts = append(hosts, hh)
			in.host = hh
			if i > 0 {
				s.Count("probe_multi_own_hosts")
			}
		}
		in.dopts = []dht.Option{dht.ProtocolPrefix("/sim"), dht.Mode(in.opt), dht.DisableAutoRefresh()}
		in.exact = protocol.ID("/sim" + ext + "/kad/1.0.0")
		if ext != "" {
			in.dopts = append(in.dopts, dht.ProtocolExtension(protocol.ID(ext)))
		}
		insts = append(insts, in)
		cfg = append(cfg, fmt.Sprintf("%s@h%d", in.name, in.host.idx))
	}
	late := make([]bool, nInst)
	for i := range insts {
		late[i] = s.Chance("late-build", 1, 4)
	}
	s.Summary["cfg"] = fmt.Sprintf("multi %s events=%d streams=%d requests=%d", strings.Join(cfg, " "), eventsLeft, streamsLeft, reqsLeft)

	// deferred verdict (see the header)
	wrongRule, wrongMsg := "", ""
	wrong := func(rule, format string, a ...any) {
		if wrongRule == "" {
			wrongRule, wrongMsg = rule, fmt.Sprintf("at step %d: ", s.Steps)+fmt.Sprintf(format, a...)
			s.Tracef("WRONG %s (verdict deferred to the end of the schedule)", rule)
		}
	}

	build := func(in *c13mInst) {
		d, err := dht.New(in.host.h, in.dopts...)
		if err != nil {
			panic(err)
		}
		in.d, in.built = d, true
		s.Quiesce()
		s.Tracef("built %s on h%d (host's last event %s)", in.name, in.host.idx, c13Last(in.host.last))
	}
	for i, in := range insts {
		if !late[i] {
			build(in)
		}
	}

	nSwitches, nAnswered := 0, 0
	dropStream := func(in *c13mInst) {
		if in.b != nil && in.onSUT {
			in.b.SimReset()
		}
		in.a, in.b, in.onSUT, in.nReq = nil, nil, false, 0
	}

	// observe: the oracle, at a quiescent point
	observe := func() {
		var sb strings.Builder
		for _, in := range insts {
			if !in.built {
				continue
			}
			want := in.server()
			got := in.host.h.Handler(in.exact) != nil
			fmt.Fprintf(&sb, " %s=%v", in.name, got)
			if got != want {
				var others []string
				for _, o := range insts {
					if o != in && o.built {
						others = append(others, fmt.Sprintf("%s (its host's last event %s)", o.name, c13Last(o.host.last)))
					}
				}
				wrong("across-instances-mode-wrong", "instance %s (option %s, its host's last reachability event %s): expected server=%v but its DHT stream handler %s is registered=%v; other instances in the process: %s",
					in.name, optNames[optIdx[in.idx]], c13Last(in.host.last), want, in.exact, got, strings.Join(others, ", "))
			}
			if in.b == nil || !in.onSUT || wrongRule != "" {
				continue
			}
			// the model says server, the stream was opened inside this server epoch
			var rp frameParser
			rp.Feed(in.b.WroteBytes())
			fmt.Fprintf(&sb, "[%s reset=%v resp=%d/%d]", in.stName, in.b.IsReset(), len(rp.Frames), in.nReq)
			if in.b.IsReset() {
				wrong("across-instances-stream-reset", "instance %s is in server mode (option %s, last event %s) and its inbound stream %s, opened in this server epoch and carrying honest requests only, was reset (by %q)", in.name, optNames[optIdx[in.idx]], c13Last(in.host.last), in.stName, in.b.ResetBy)
				continue
			}
			if rp.Bad || len(rp.Frames) != in.nReq || rp.Partial() {
				wrong("across-instances-unanswered", "instance %s is in server mode (option %s, last event %s): %d whole honest requests were delivered on its inbound stream %s but it wrote %d responses (malformed=%v) and no write is pending", in.name, optNames[optIdx[in.idx]], c13Last(in.host.last), in.nReq, in.stName, len(rp.Frames), rp.Bad)
			}
		}
		s.Tracef("obs%s", sb.String())
		st := ""
		for _, in := range insts {
			if in.built {
				st += fmt.Sprintf("%d%v%v ", optIdx[in.idx], in.server(), in.b != nil)
			} else {
				st += "- "
			}
		}
		s.State("multi %ssw=%d", st, nSwitches)
	}

	reach := []network.Reachability{network.ReachabilityPublic, network.ReachabilityPrivate, network.ReachabilityUnknown}
	emit := func(hh *c13mHost, r network.Reachability) {
		type ba struct{ before, after bool }
		var on []*c13mInst
		m := map[*c13mInst]ba{}
		for _, in := range insts {
			if in.host == hh && in.built {
				on = append(on, in)
				m[in] = ba{before: in.server()}
			}
		}
		rr := r
		hh.last = &rr
		anySwitch := false
		for _, in := range on {
			x := m[in]
			x.after = in.server()
			m[in] = x
			anySwitch = anySwitch || x.before != x.after
		}
		s.Tracef("emit %v on h%d", r, hh.idx)
		if err := hh.em.Emit(event.EvtLocalReachabilityChanged{Reachability: r}); err != nil {
			panic(err)
		}
		s.Quiesce()
		if len(on) > 1 {
			s.Count("probe_multi_event_reaches_two_instances")
		}
		for _, in := range on {
			x := m[in]
			fixed := in.opt == dht.ModeServer || in.opt == dht.ModeClient
			switch {
			case fixed:
				s.Count("probe_multi_fixed_mode_event")
			case x.before == x.after:
				s.Count("probe_multi_same_mode_event")
			case x.after:
				s.Count("probe_multi_promotion")
			default:
				s.Count("probe_multi_demotion")
			}
			if r == network.ReachabilityUnknown {
				switch in.opt {
				case dht.ModeAuto:
					s.Count("probe_multi_unknown_to_auto")
				case dht.ModeAutoServer:
					s.Count("probe_multi_unknown_to_auto_server")
				}
			}
			if x.before != x.after {
				nSwitches++
			}
			if x.before && !x.after && in.b != nil {
				s.Count("probe_multi_demotion_open_stream")
				if in.onSUT && wrongRule == "" && !in.b.IsReset() {
					wrong("across-instances-not-reset-at-demotion", "instance %s (option %s) switched to client mode on %v and its open inbound stream %s is still not reset at the next quiescent point", in.name, optNames[optIdx[in.idx]], r, in.stName)
				}
				dropStream(in)
			}
		}
		if anySwitch {
			for _, o := range insts {
				if o.built && o.b != nil && o.server() && !(o.host == hh && m[o].before != m[o].after) {
					s.Count("probe_multi_other_instance_switch_stream_kept")
					break
				}
			}
		}
	}

	for s.Step() {
		observe()
		var acts []sim.Action
		if eventsLeft > 0 {
			for _, hh := range hosts {
				hh := hh
				acts = append(acts, sim.Action{ID: fmt.Sprintf("emit:h%d", hh.idx), Do: func() {
					eventsLeft--
					emit(hh, reach[s.Draw("reach", 3)])
				}})
			}
		}
		for _, in := range insts {
			in := in
			if !in.built {
				acts = append(acts, sim.Action{ID: fmt.Sprintf("build:i%d", in.idx), Do: func() {
					s.Count("probe_multi_late_build")
					if in.host.last != nil {
						s.Count("probe_multi_late_build_after_event")
					}
					build(in)
				}})
				continue
			}
			if !in.server() {
				continue
			}
			if in.b == nil && streamsLeft > 0 {
				acts = append(acts, sim.Action{ID: fmt.Sprintf("open:i%d", in.idx), Do: func() {
					streamsLeft--
					a, b := fab.NewPair(fmt.Sprintf("in:i%d", in.idx), in.exact, remote.ID, in.host.self.ID, nil, in.host.conn)
					a.Scripted = true
					in.a, in.b, in.nReq = a, b, 0
					in.stName = strings.TrimSuffix(b.Name(), "/b")
					in.onSUT = false
					if wrongRule != "" {
						return
					}
					_, hd := in.host.h.Negotiate(in.exact)
					if hd == nil {
						// cannot happen while observe() found the handler registered in this step
						wrong("across-instances-mode-wrong", "instance %s: the model says server but the negotiation of %s was refused", in.name, in.exact)
						return
					}
					in.onSUT = true
					go hd(b)
				}})
			}
			if in.b != nil && reqsLeft > 0 {
				acts = append(acts, sim.Action{ID: fmt.Sprintf("ping:i%d", in.idx), Do: func() {
					reqsLeft--
					in.nReq++
					if in.nReq > 1 {
						s.Count("probe_multi_stream_reused")
					}
					if !in.onSUT || wrongRule != "" {
						return
					}
					if _, err := in.a.Write(encodeFrame(pb.NewMessage(pb.Message_PING, nil, 0))); err != nil {
						return // observe() judges the reset
					}
					for i := 0; i < 4; i++ {
						if n, _ := in.b.Pending(); n == 0 {
							break
						}
						in.b.Deliver(0)
						s.Quiesce()
					}
					s.Quiesce()
					var rp frameParser
					rp.Feed(in.b.WroteBytes())
					if len(rp.Frames) == in.nReq {
						nAnswered++
						s.Count("probe_multi_answered")
					}
				}})
			}
		}
		if len(acts) == 0 {
			break
		}
		s.Choose("next", acts)
	}

	// closing sweep: every instance gets every input (see the header)
	budget := true
	for _, in := range insts {
		if !in.built {
			if !s.Step() {
				budget = false
				break
			}
			s.Count("probe_multi_late_build")
			if in.host.last != nil {
				s.Count("probe_multi_late_build_after_event")
			}
			build(in)
		}
	}
	rest := append([]*c13mInst(nil), insts...)
	for budget && len(rest) > 0 {
		k := s.Draw("sweep-instance", len(rest))
		in := rest[k]
		rest = append(rest[:k:k], rest[k+1:]...)
		vals := append([]network.Reachability(nil), reach...)
		for len(vals) > 0 {
			if !s.Step() {
				budget = false
				break
			}
			j := s.Draw("sweep-reach", len(vals))
			r := vals[j]
			vals = append(vals[:j:j], vals[j+1:]...)
			emit(in.host, r)
			observe()
		}
	}
	if budget {
		s.Count("probe_multi_sweep_done")
	} else if s.Steps > s.MaxSteps {
		s.Count("step_budget_exhausted")
	}
	s.Tracef("done switches=%d answered=%d", nSwitches, nAnswered)
	s.NonTrivial = nSwitches > 0 && nAnswered > 0
	if wrongRule != "" {
		s.Violate(wrongRule, "%s", wrongMsg)
	}

	for _, in := range insts {
		dropStream(in)
	}
	closeAndCensus(s, func() {
		for _, in := range insts {
			if in.d != nil {
				_ = in.d.Close()
			}
		}
		for _, hh := range hosts {
			_ = hh.h.Close()
		}
	})
	s.Finish()
}
