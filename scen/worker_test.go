package scen

import (
	"encoding/json"
	"fmt"
	"os"
	"runtime"
	"sort"
	"strconv"
	"sync/atomic"
	"testing"
	"time"

	"verif/sim"
)

// WorkerSummary is what one worker process reports to the driver.
type WorkerSummary struct {
	Prop        string                    `json:"prop"`
	Seed        uint64                    `json:"seed"`
	Worker      int                       `json:"worker"`
	Runs        int                       `json:"runs"`
	Failures    []sim.RunResult           `json:"failures,omitempty"`
	Known       []sim.RunResult           `json:"known,omitempty"` // first exemplar per known-finding rule
	KnownCount  map[string]int            `json:"known_count,omitempty"`
	Harness     []sim.RunResult           `json:"harness_errors,omitempty"`
	Stats       map[string]int            `json:"stats"`
	PerScenario map[string]int            `json:"per_scenario"`
	NonTrivial  int                       `json:"nontrivial"`
	DistinctNT  []string                  `json:"distinct_nontrivial_hashes"`
	States      []string                  `json:"states"`
	SimTimeS    float64                   `json:"sim_time_s"`
	Steps       int                       `json:"steps"`
	Samples     []sim.RunResult           `json:"samples"`
	Hashes      map[string]string         `json:"hashes"` // run index -> trace hash (sample)
	RacyRuns    int                       `json:"racy_runs"`
	ReplayPairs int                       `json:"replay_pairs"`
	ReplayDiv   []string                  `json:"replay_divergences,omitempty"`
	WallS       float64                   `json:"wall_s"`
	Budget      int                       `json:"budget_exhausted"`
	Lin         map[string]int            `json:"lin,omitempty"`
	Extra       map[string]map[string]int `json:"extra,omitempty"`
}

func envInt(name string, def int) int {
	if v := os.Getenv(name); v != "" {
		if n, err := strconv.Atoi(v); err == nil {
			return n
		}
	}
	return def
}

func envU64(name string, def uint64) uint64 {
	if v := os.Getenv(name); v != "" {
		if n, err := strconv.ParseUint(v, 10, 64); err == nil {
			return n
		}
	}
	return def
}

// ReplayFile is the on-disk format of a schedule and fault trace.
type ReplayFile struct {
	Prop      string        `json:"prop"`
	Scenario  string        `json:"scenario"`
	Seed      uint64        `json:"seed"`
	Run       uint64        `json:"run"`
	Decisions []int         `json:"decisions"`
	Violation sim.Violation `json:"violation"`
	TraceHash string        `json:"trace_hash"`
	Minimized bool          `json:"minimized"`
	Original  int           `json:"original_decisions"`
	Trace     []string      `json:"trace,omitempty"`
	Note      string        `json:"note,omitempty"`
}

var watchdogDeadline atomic.Int64

func startWatchdog(status *os.File) {
	go func() {
		for {
			time.Sleep(time.Second)
			dl := watchdogDeadline.Load()
			if dl != 0 && time.Now().UnixNano() > dl {
				buf := make([]byte, 4<<20)
				n := runtime.Stack(buf, true)
				fmt.Fprintf(os.Stderr, "WATCHDOG: run exceeded its wall-clock budget; goroutine dump follows\n%s\n", buf[:n])
				if status != nil {
					status.WriteAt([]byte("W"), 0)
				}
				os.Exit(3)
			}
		}
	}()
}

// TestMeta writes the scenario metadata of a property (or the list of
// properties for VERIF_PROP=*) for the driver.
func TestMeta(t *testing.T) {
	prop := os.Getenv("VERIF_PROP")
	if prop == "" {
		t.Skip("not started by the driver")
	}
	if prop == "*" {
		writeJSON(os.Getenv("VERIF_OUT"), sim.Props())
		return
	}
	m := struct{ Real, Stub, Faults, Scenarios []string }{}
	add := func(dst *[]string, src []string) {
		for _, x := range src {
			dup := false
			for _, y := range *dst {
				dup = dup || x == y
			}
			if !dup {
				*dst = append(*dst, x)
			}
		}
	}
	for _, sc := range sim.Scenarios(prop) {
		add(&m.Real, sc.Real)
		add(&m.Stub, sc.Stub)
		add(&m.Faults, sc.Faults)
		m.Scenarios = append(m.Scenarios, sc.Name)
	}
	writeJSON(os.Getenv("VERIF_OUT"), m)
}

// TestWorker is the entry point of a worker process. It is driven entirely
// by environment variables (see cmd/vcheck); without them it is skipped.
func TestWorker(t *testing.T) {
	prop := os.Getenv("VERIF_PROP")
	if prop == "" {
		t.Skip("not started by the driver")
	}
	out := os.Getenv("VERIF_OUT")
	runWall := time.Duration(envInt("VERIF_RUN_WALL_S", 20)) * time.Second

	var status *os.File
	if p := os.Getenv("VERIF_STATUS"); p != "" {
		status, _ = os.OpenFile(p, os.O_CREATE|os.O_WRONLY|os.O_TRUNC, 0o644)
	}
	startWatchdog(status)
	loadKnownRules(prop)

	// ---- replay mode ----
	if rp := os.Getenv("VERIF_REPLAY"); rp != "" {
		data, err := os.ReadFile(rp)
		if err != nil {
			t.Fatal(err)
		}
		var rf ReplayFile
		if err := json.Unmarshal(data, &rf); err != nil {
			t.Fatal(err)
		}
		sc := sim.Find(rf.Prop, rf.Scenario)
		if sc == nil {
			t.Fatalf("unknown scenario %s/%s", rf.Prop, rf.Scenario)
		}
		tape := sim.NewReplayTape(rf.Decisions)
		if lp := os.Getenv("VERIF_LIVE"); lp != "" {
			f, _ := os.OpenFile(lp, os.O_CREATE|os.O_WRONLY|os.O_TRUNC, 0o644)
			tape.SetLive(f)
		}
		watchdogDeadline.Store(time.Now().Add(runWall).UnixNano())
		res := sim.RunOne(t, sc, tape, os.Getenv("VERIF_TRACE") != "")
		watchdogDeadline.Store(0)
		res.Seed, res.Run = rf.Seed, rf.Run
		writeJSON(out, res)
		return
	}

	// ---- shrink mode (in-process; oracle violations only) ----
	if sp := os.Getenv("VERIF_SHRINK"); sp != "" {
		data, err := os.ReadFile(sp)
		if err != nil {
			t.Fatal(err)
		}
		var rf ReplayFile
		if err := json.Unmarshal(data, &rf); err != nil {
			t.Fatal(err)
		}
		sc := sim.Find(rf.Prop, rf.Scenario)
		if sc == nil {
			t.Fatalf("unknown scenario %s/%s", rf.Prop, rf.Scenario)
		}
		same := func(r sim.RunResult) bool {
			for _, v := range append(r.Violations, r.KnownHits...) {
				if v.Rule == rf.Violation.Rule {
					return true
				}
			}
			return false
		}
		test := func(dec []int) bool {
			watchdogDeadline.Store(time.Now().Add(runWall).UnixNano())
			r := sim.RunOne(t, sc, sim.NewReplayTape(dec), false)
			watchdogDeadline.Store(0)
			return r.Harness == "" && same(r)
		}
		rf.Original = len(rf.Decisions)
		best, tests := sim.Shrink(rf.Decisions, test, envInt("VERIF_SHRINK_TESTS", 3000), time.Duration(envInt("VERIF_SHRINK_S", 60))*time.Second)
		watchdogDeadline.Store(time.Now().Add(runWall).UnixNano())
		final := sim.RunOne(t, sc, sim.NewReplayTape(best), true)
		watchdogDeadline.Store(0)
		if !same(final) {
			// keep the original: shrinking must never lose the violation
			best = rf.Decisions
			final = sim.RunOne(t, sc, sim.NewReplayTape(best), true)
		}
		rf.Decisions = final.Decisions
		rf.Minimized = true
		rf.TraceHash = final.TraceHash
		rf.Trace = final.Trace
		for _, v := range append(final.Violations, final.KnownHits...) {
			if v.Rule == rf.Violation.Rule {
				rf.Violation = v
				break
			}
		}
		rf.Note = fmt.Sprintf("shrunk from %d to %d decisions in %d replays", rf.Original, len(rf.Decisions), tests)
		writeJSON(out, rf)
		return
	}

	// ---- search mode ----
	seed := envU64("VERIF_SEED", 1)
	worker := envInt("VERIF_WORKER", 0)
	nworkers := envInt("VERIF_NWORKERS", 1)
	budget := time.Duration(envInt("VERIF_BUDGET_S", 20)) * time.Second
	maxRuns := envInt("VERIF_MAXRUNS", 1<<30)
	hashSample := envInt("VERIF_HASH_SAMPLE", 300)
	replayEvery := envInt("VERIF_REPLAY_EVERY", 25)
	onlyScen := os.Getenv("VERIF_SCENARIO")
	// explicit run (crash re-execution): VERIF_ONLY_RUN=<idx>
	onlyRun := envInt("VERIF_ONLY_RUN", -1)

	sum := WorkerSummary{Prop: prop, Seed: seed, Worker: worker, Stats: map[string]int{}, PerScenario: map[string]int{}, Hashes: map[string]string{}}
	distinct := map[string]struct{}{}
	states := map[string]struct{}{}
	start := time.Now()
	var live *os.File
	if lp := os.Getenv("VERIF_LIVE"); lp != "" {
		live, _ = os.OpenFile(lp, os.O_CREATE|os.O_WRONLY|os.O_TRUNC, 0o644)
	}

	if rep := envInt("VERIF_REPEAT", 0); rep > 0 && onlyRun >= 0 {
		// debugging aid: the same run many times in one process
		sc := sim.PickScenario(prop, uint64(onlyRun))
		if onlyScen != "" {
			sc = sim.Find(prop, onlyScen)
		}
		seen := map[string]int{}
		for i := 0; i < rep; i++ {
			r := sim.RunOne(t, sc, sim.NewTape(sim.Mix(seed, uint64(onlyRun))), true)
			if seen[r.TraceHash] == 0 {
				writeJSON(fmt.Sprintf("%s.%s.trace", out, r.TraceHash), r.Trace)
			}
			seen[r.TraceHash]++
			r2 := sim.RunOne(t, sc, sim.NewReplayTape(r.Decisions), true)
			if seen["replay:"+r2.TraceHash] == 0 {
				writeJSON(fmt.Sprintf("%s.replay.%s.trace", out, r2.TraceHash), r2.Trace)
			}
			seen["replay:"+r2.TraceHash]++
		}
		fmt.Println("distinct traces:", seen)
		return
	}

	for k := 0; k < maxRuns; k++ {
		run := uint64(worker + k*nworkers)
		if onlyRun >= 0 {
			if k > 0 {
				break
			}
			run = uint64(onlyRun)
		} else if time.Since(start) > budget {
			break
		}
		var sc *sim.Scenario
		if onlyScen != "" {
			sc = sim.Find(prop, onlyScen)
		} else {
			sc = sim.PickScenario(prop, run)
		}
		if sc == nil {
			t.Fatalf("no scenario for %s", prop)
		}
		if status != nil {
			status.WriteAt([]byte(fmt.Sprintf("R %-20d %-40s\n", run, sc.Name)), 0)
		}
		tape := sim.NewTape(sim.Mix(seed, run))
		if live != nil {
			live.Truncate(0)
			live.Seek(0, 0)
			tape.SetLive(live)
		}
		watchdogDeadline.Store(time.Now().Add(runWall).UnixNano())
		res := sim.RunOne(t, sc, tape, onlyRun >= 0 && os.Getenv("VERIF_TRACE") != "")
		watchdogDeadline.Store(0)
		res.Seed, res.Run = seed, run
		if ms := envInt("VERIF_SLOW_MS", 0); ms > 0 && res.WallMs > float64(ms) {
			// debugging aid: runs that come near the per-run wall-clock watchdog
			fmt.Fprintf(os.Stderr, "SLOW run=%d scenario=%s wall=%.0fms steps=%d cfg=%v stats=%v\n", run, sc.Name, res.WallMs, res.Steps, res.Summary, res.Stats)
		}
		if onlyRun >= 0 && os.Getenv("VERIF_TRACE") != "" {
			for _, l := range res.Trace {
				fmt.Println(l)
			}
		}
		sum.Runs++
		sum.PerScenario[sc.Name]++
		sum.SimTimeS += res.SimTimeS
		sum.Steps += res.Steps
		for k, v := range res.Stats {
			sum.Stats[k] += v
		}
		for _, st := range res.States {
			states[sc.Name+":"+st] = struct{}{}
		}
		if res.Stats["step_budget_exhausted"] > 0 {
			sum.Budget++
		}
		if res.NonTrivial {
			sum.NonTrivial++
			distinct[res.DecHash] = struct{}{}
		}
		if sc.Racy {
			sum.RacyRuns++
		} else if len(sum.Hashes) < hashSample {
			sum.Hashes[strconv.FormatUint(run, 10)] = res.TraceHash
		}
		if res.Harness != "" {
			sum.Harness = append(sum.Harness, res)
			break
		}
		seenKnown := map[string]bool{}
		for _, kh := range res.KnownHits {
			if sum.KnownCount == nil {
				sum.KnownCount = map[string]int{}
			}
			if seenKnown[kh.Rule] {
				continue
			}
			seenKnown[kh.Rule] = true
			if sum.KnownCount[kh.Rule] == 0 {
				sum.Known = append(sum.Known, res)
			}
			sum.KnownCount[kh.Rule]++
		}
		if len(res.Violations) > 0 {
			sum.Failures = append(sum.Failures, res)
			break // leaked goroutines may poison the process; stop this worker
		}
		if len(sum.Samples) < 3 && res.NonTrivial {
			s := res
			if len(s.Decisions) > 60 {
				s.Decisions = s.Decisions[:60]
			}
			s.States = nil
			sum.Samples = append(sum.Samples, s)
		}
		// in-process determinism probe: replay the recorded decisions
		if replayEvery > 0 && k%replayEvery == 0 && !sc.Racy {
			watchdogDeadline.Store(time.Now().Add(runWall).UnixNano())
			r2 := sim.RunOne(t, sc, sim.NewReplayTape(res.Decisions), false)
			watchdogDeadline.Store(0)
			sum.ReplayPairs++
			if (r2.TraceHash != res.TraceHash || r2.DecHash != res.DecHash) && os.Getenv("VERIF_DIVDUMP") != "" {
				// debugging aid: re-run both ways with text traces and dump them
				a := sim.RunOne(t, sc, sim.NewTape(sim.Mix(seed, run)), true)
				b := sim.RunOne(t, sc, sim.NewReplayTape(res.Decisions), true)
				writeJSON(fmt.Sprintf("%s/div-%d-a.json", os.Getenv("VERIF_DIVDUMP"), run), a.Trace)
				writeJSON(fmt.Sprintf("%s/div-%d-b.json", os.Getenv("VERIF_DIVDUMP"), run), b.Trace)
			}
			if r2.TraceHash != res.TraceHash || r2.DecHash != res.DecHash {
				sum.ReplayDiv = append(sum.ReplayDiv, fmt.Sprintf("run %d scenario %s: %s/%s vs %s/%s", run, sc.Name, res.TraceHash, res.DecHash, r2.TraceHash, r2.DecHash))
			}
		}
	}
	for h := range distinct {
		sum.DistinctNT = append(sum.DistinctNT, h)
	}
	sort.Strings(sum.DistinctNT)
	for h := range states {
		sum.States = append(sum.States, h)
	}
	sort.Strings(sum.States)
	sum.WallS = time.Since(start).Seconds()
	writeJSON(out, sum)
}

// loadKnownRules reads the committed known-findings file (never written at
// run time) and installs the open entries of this property.
func loadKnownRules(prop string) {
	p := os.Getenv("VERIF_KNOWN_FILE")
	if p == "" {
		return
	}
	data, err := os.ReadFile(p)
	if err != nil {
		return
	}
	var k struct {
		Findings []struct {
			Property, Rule, Match, Status string
		} `json:"findings"`
	}
	if json.Unmarshal(data, &k) != nil {
		return
	}
	sim.KnownRules = nil
	for _, f := range k.Findings {
		if f.Property == prop && f.Status == "open" {
			sim.KnownRules = append(sim.KnownRules, sim.KnownRule{Rule: f.Rule, Match: f.Match})
		}
	}
}

func writeJSON(path string, v any) {
	data, err := json.Marshal(v)
	if err != nil {
		panic(err)
	}
	if path == "" {
		os.Stdout.Write(append(data, '\n'))
		return
	}
	tmp := path + ".tmp"
	if err := os.WriteFile(tmp, data, 0o644); err != nil {
		panic(err)
	}
	os.Rename(tmp, path)
}
