//go:build all || c14

package scen

// C14 scenario "ipfsdht-optprovide": Close of a standard DHT whose workload is
// optimistic provides (EnableOptimisticProvide, network-size estimator fed by
// real warm-up lookups over a healthy network of at least K+1 peers).
//
// An optimistic Provide has three phases in which Close can land, and the
// general "ipfsdht" scenario reaches none of them (its estimator never has
// data, so every Provide takes the classic path):
//
//	(1) the lookup, during which the node already starts storing records with
//	    peers that are close enough, on goroutines of its own;
//	(2) the store phase after the lookup, Provide still waiting for part of
//	    the ADD_PROVIDER requests;
//	(3) after Provide returned to its caller while the remaining requests go
//	    on in the background - work that belongs to no caller any more.
//
// The scheduler answers lookup requests and ADD_PROVIDER requests one at a
// time in drawn order, so Close lands in any of the three phases (probes
// probe_close_optprov_puts_inflight / probe_close_optprov_puts_background).
//
// Oracle: the rules of c14.go. The clause that matters most here is "Close
// stops everything ... returns only after all goroutines the instance started
// have exited": the store requests of phase (3) - and those of (1)/(2), which
// run on goroutines the node started itself - are work of the instance, not
// of a caller; once Close returned they must be gone or at least have been
// told to stop (rule close-live-call: no call with a live context that belongs
// to no operation in flight), in-flight provides return (op-hang), nothing
// survives the wind-down (leak).
//
// No implementation constant is mirrored: the warm-up runs closest-peers
// lookups through the public API until IpfsDHT.NetworkSize() reports an
// estimate; whether a Provide then takes the optimistic path, how many
// requests it waits for and which peers it stores with is the node's business
// and only observed.

import (
	"context"
	"fmt"
	"time"

	dht "github.com/libp2p/go-libp2p-kad-dht"
	pb "github.com/libp2p/go-libp2p-kad-dht/pb"
	"github.com/libp2p/go-libp2p/core/protocol"

	"verif/sim"
	"verif/simds"
	"verif/simhost"
	"verif/simnet"
)

func init() {
	sim.Register(&sim.Scenario{Prop: "C14", Name: "ipfsdht-optprovide", Weight: 3, Run: runC14OptProvide,
		Real: []string{"dht.New(EnableOptimisticProvide) / IpfsDHT.Close", "optimisticProvide: lookup with early stores, waitForRPCs, background ADD_PROVIDER requests after Provide returned", "netsize estimator (fed by real warm-up lookups)", "records.ProviderManager (local record of every Provide)"},
		Stub: []string{"host.Host/network (simhost)", "pb.MessageSender (level A: every RPC parks)", "remote peers (honest scripted answers, drawn failures)", "datastore (simds: operations park)", "crypto/rand (constant per run)"},
		Faults: append([]string{"fault_rpc_error", "probe_estimator_ready", "probe_close_optprov_puts_inflight", "probe_close_optprov_puts_background"},
			append(c14OverlapFaults, c14CommonFaults...)...),
	})
}

func runC14OptProvide(s *sim.Sim) {
	s.MaxSteps = 900
	defer c14ConstRand(s)()
	cfg := c14DHTCfg{mode: dht.ModeClient, optProv: true}
	if s.Chance("server", 1, 3) {
		cfg.mode = dht.ModeServer
	}
	cfg.k = s.Range("k", 2, 6)
	cfg.alpha = s.Range("alpha", 1, 3)
	cfg.beta = s.Range("beta", 1, cfg.k)
	cfg.sepProv = s.Chance("sep-provider-ds", 1, 3)
	// the estimator only accepts lookups that found K peers: at least K+1 peers
	n := cfg.k + s.Range("more-peers", 1, 3)
	u := simnet.NewUniverse(uint64(s.Draw("universe", 1<<16)), n)
	h := simhost.New(s, u.Self.ID, u.Self.Addrs, u.Name)
	w := &c14World{s: s, u: u, hosts: []*simhost.Host{h}, k: cfg.k}
	rpcFault := []int{0, 10}[s.Draw("rpc-faults", 2)]
	parkDS := s.Chance("park-ds", 1, 3)

	f := newC14Flow(s, "ipfsdht-optprovide")
	f.answer = w.answer
	f.dts = []time.Duration{100 * time.Millisecond, time.Second, 20 * time.Second}
	f.baseline()

	var dss []*simds.DS
	d, err := dht.New(h, cfg.options(s, u, "", &dss, func([]protocol.ID) pb.MessageSenderWithDisconnect { return &simnet.Sender{S: s, U: u} })...)
	if err != nil {
		panic(err)
	}
	s.Quiesce()
	c14Seed(s, h, d, u.Peers)

	// warm-up: honest answers, no decisions
	ready := false
	for i := 0; i < 16 && !ready; i++ {
		key := fmt.Sprintf("/v/warm-%d", i)
		op := f.ops.Go(s, "warm-up", func() (any, error) { return d.GetClosestPeers(context.Background(), key) })
		if !f.drain(func() bool { return op.Done }) {
			panic("c14 optprovide: a warm-up lookup did not return")
		}
		_, err := d.NetworkSize()
		ready = err == nil
	}
	if ready {
		s.Count("probe_estimator_ready")
	}
	f.constructed(true)
	w.rpcFault = rpcFault
	if parkDS {
		for _, x := range dss {
			x.ParkOp = func(op, key string) bool { return true }
		}
	}
	s.Summary["cfg"] = fmt.Sprintf("%v peers=%d parkDS=%v rpcFault=%d estimator=%v", cfg, n, parkDS, rpcFault, ready)

	// workload: provides of distinct keys, plus a few other look-ups
	provides := map[string]*c14Client{} // key of the ADD_PROVIDER requests -> the Provide that causes them
	for i, ni := 0, s.Range("ops", 1, 4); i < ni; i++ {
		i := i
		if i == 0 || s.Chance("is-provide", 2, 3) {
			c := f.client("provide", func(ctx context.Context) (any, error) { return nil, d.Provide(ctx, c14Cid(i), true) })
			provides[string(c14MH(i))] = c
			continue
		}
		switch s.Draw("other-op", 3) {
		case 0:
			f.client("gcp", func(ctx context.Context) (any, error) { return d.GetClosestPeers(ctx, fmt.Sprintf("/v/k%d", i)) })
		case 1:
			f.client("findprovs", func(ctx context.Context) (any, error) {
				n := 0
				for range d.FindProvidersAsync(ctx, c14Cid(i), 2) {
					n++
				}
				return n, nil
			})
		default:
			key := fmt.Sprintf("/v/k%d", i)
			f.client("putvalue", func(ctx context.Context) (any, error) {
				return nil, d.PutValue(ctx, key, rankValue(2, time.Time{}, key))
			})
		}
	}
	f.debugState = func() string { return "rt=" + sortedNames(u, d.RoutingTable().ListPeers()) }
	f.atClose = func() {
		inflight, background := false, false
		for _, p := range s.ParkedKind("rpc") {
			r := p.Data.(*simnet.RPC)
			if r.Req.GetType() != pb.Message_ADD_PROVIDER || p.Cancelled() {
				continue
			}
			c := provides[string(r.Req.GetKey())]
			if c == nil {
				continue
			}
			if c.op.Done {
				background = true
			} else {
				inflight = true
			}
		}
		if inflight {
			s.Count("probe_close_optprov_puts_inflight")
		}
		if background {
			s.Count("probe_close_optprov_puts_background")
		}
	}
	f.closeFn = d.Close
	f.overlapOK = true
	f.closeAt = s.Range("close-at", 0, 60)
	f.interleave = s.Draw("interleave", 12)
	f.run()
	c14Teardown(s, f, func() { _ = h.Close() })
	s.Finish()
}
