//go:build all || c13

package scen

// C13, third scenario: new streams and requests racing with the switch ITSELF.
//
// The property quantifies over "every interleaving of [reachability] events
// with inbound requests on new and already-open streams". "mode-switch" lets
// the node finish a switch inside the step that emits the event, so a stream
// or a request is always either before or after a whole switch; "mode-burst"
// interleaves the node's critical sections but has no streams. Here every
// instrumented lock call of the node is a yield point owned by the scheduler
// (LockSched + YieldSites, as in mode-burst) AND scripted remote peers open
// inbound DHT streams, start their handlers and deliver FIND_NODE / PING /
// PUT_VALUE frames between any two of those yield points: while the
// subscriber goroutine is somewhere inside a mode switch, while a stream
// handler is between its mode check and its read, while a handler is in the
// middle of a request. Several events may be pending at once.
//
// How an inbound stream reaches the node is modelled as in mode-switch
// (c13.go): accepted on the connection and listed by Conn.GetStreams,
// negotiated against the host's CURRENT handler table (none => refused),
// protocol id set, handler invoked on a new goroutine; the two windows between
// those instants are drawn. What the remote PROPOSES is drawn as in mode-switch
// (c13_nego.go): the exact ID alone, or 1-3 IDs out of the exact one and
// look-alikes; the host negotiates like a real one (simhost.Host.Negotiate).
// Every stream the host hands to the DHT handler is an inbound DHT stream for
// the rules below, whatever ID it was negotiated under.
//
// When has the node "switched"? The oracle must not know where inside the node
// a switch takes effect. It only uses SETTLED points: quiescent points at
// which no goroutine of the node is parked at a yield point or on a lock, i.e.
// nothing in the node can run until the harness does something. At such a
// point every emitted event has been consumed and applied completely, and no
// handler is in the middle of anything but a (parked) response write or a read
// that waits for bytes. The model mode is f(option, last emitted event) as in
// c13.go. An emit that changes the model mode opens an UNSETTLED interval that
// lasts until the next settled point; that point starts the epoch of the new
// mode (epochSince = its step number; an action executed at step t lies after
// the point iff t >= epochSince). Events that do not change the model mode
// leave the epoch alone: the node is in that mode all along.
//
// Request k of a stream becomes readable at t_k = max(step that delivered the
// last byte of its frame, step that started the handler goroutine). Requests
// with t_k < epochSince were (possibly) in flight while the node switched and
// may go either way; so may everything observed during an unsettled interval.
//
// Rules (rule id -> clause of the property):
//   auto-mode-wrong              settled point: handler table = f(option, last event)
//                                ("the mode after any sequence of reachability events is determined by the last event")
//   stray-handler                settled point, client: the host has no DHT handler
//   open-at-demotion-not-reset   settled point, client: no inbound stream that was handed to the DHT handler and
//                                carries its negotiated protocol id is still
//                                open. Every such stream was negotiated before the switch completed (a client
//                                refuses the negotiation), so it is a stream "already open" at the switch
//                                ("on switching to client mode it resets inbound DHT streams that are already open")
//   client-handled               client epoch: the node's request hook (public option OnRequestHook: "invoked for
//                                every incoming DHT protocol message") does not fire for a request with
//                                t_k >= epochSince ("a node in client mode handles no inbound DHT stream")
//   client-served                client epoch: ... and no response is written for it
//   client-stored                client epoch: ... and a PUT_VALUE among them is not written to the datastore
//   server-unanswered            settled point, server epoch: on a stream negotiated inside the epoch every readable
//                                request is answered ("in server mode it handles them")
//   server-reset-stream          server epoch: a stream negotiated inside the epoch that carried only honest
//                                requests is not reset by the node
//   response-malformed / response-mismatch / unsolicited-response
//                                exactly one well-formed response of the request's type per request
//
// The three client-* rules are safety rules and are evaluated at every
// quiescent point of a client epoch, settled or not (a pending same-mode event
// does not make the node a server). The server-* liveness rule needs a settled
// point without a parked response write.
//
// Not generated here (covered by mode-switch): fixed modes, remote EOF,
// pre-construction events other than through the stateful emitter. Virtual
// time does not advance in the main phase (no idle-stream time-out).

import (
	"context"
	"fmt"
	"strings"
	"sync"
	"time"

	dht "github.com/libp2p/go-libp2p-kad-dht"
	pb "github.com/libp2p/go-libp2p-kad-dht/pb"
	record "github.com/libp2p/go-libp2p-record"
	recpb "github.com/libp2p/go-libp2p-record/pb"
	"github.com/libp2p/go-libp2p/core/event"
	"github.com/libp2p/go-libp2p/core/network"
	"github.com/libp2p/go-libp2p/core/protocol"
	"github.com/libp2p/go-libp2p/p2p/host/eventbus"
	"google.golang.org/protobuf/proto"

	"verif/sim"
	"verif/simds"
	"verif/simhost"
	"verif/simnet"
)

func init() {
	sim.Register(&sim.Scenario{Prop: "C13", Name: "mode-race", Weight: 2, Run: runC13Race,
		Real: []string{"IpfsDHT mode switching with scheduler-owned interleaving of setMode / moveToClientMode / moveToServerMode, the per-message mode check and the FIND_NODE / PING / PUT_VALUE handlers", "records.ValueStore put path", "OnRequestHook"},
		Stub: []string{"host handler table, connections, stream lists (simhost)", "streams (simhost.Fabric)", "scripted remote peers", "datastore (simds, nothing parks)", "validator (harness rank validator)", "yield before every instrumented lock call (scheduler-owned)"},
		Faults: []string{"lock_yield", "fault_split_chunk", "fault_park_writes", "fault_nego_window",
			"fault_alien_proposal", "probe_alien_refused_by_server", "probe_alien_refused_by_client", "probe_alien_then_exact_negotiated",
			"probe_race_settled_promotion", "probe_race_settled_demotion", "probe_race_demotion_streams_reset",
			"probe_race_open_during_switch", "probe_race_open_during_demotion_reset", "probe_race_refused_during_switch",
			"probe_race_request_during_switch", "probe_race_handler_midrequest_at_emit", "probe_race_events_pending_2",
			"probe_race_request_in_client_epoch", "probe_race_refused_client", "probe_race_same_mode_event",
			"probe_race_answered", "probe_race_put_stored_server"},
	})
}

type c13rReq struct {
	typ          pb.Message_MessageType
	key          string // PUT_VALUE: the record key (unique per request)
	end          int    // offset of the frame's last byte + 1 in the remote's byte stream
	completeTick int    // step that delivered the last byte (0: not yet)
}

type c13rStream struct {
	name      string
	proto     protocol.ID     // the ID the stream was negotiated under
	a, b      *simhost.Stream // a: scripted remote end, b: the node's inbound end
	handler   network.StreamHandler
	negoTick  int
	startTick int // 0: handler goroutine not started
	protoSet  bool
	reqs      []*c13rReq
	wrote     int
	sendFail  bool
	// accepted while an event that changes the model mode was pending
	// (0 no, 1 pending promotion, 2 pending demotion)
	duringSwitch int
	countedReset bool
	countedCli   bool
}

func (st *c13rStream) readableAt(k int) int {
	if k >= len(st.reqs) || st.reqs[k].completeTick == 0 || st.startTick == 0 {
		return 0
	}
	if st.startTick > st.reqs[k].completeTick {
		return st.startTick
	}
	return st.reqs[k].completeTick
}

func runC13Race(s *sim.Sim) {
	s.MaxSteps = 900
	opts := []dht.ModeOpt{dht.ModeAuto, dht.ModeAutoServer}
	optNames := []string{"auto", "auto-server"}
	oi := s.Draw("mode-opt", 2)
	opt := opts[oi]
	nRemotes := s.Range("remotes", 1, 3)
	eventsLeft := s.Range("events", 1, 6)
	streamsLeft := s.Range("streams", 1, 6)
	reqsLeft := s.Range("requests", 1, 10)
	preEvent := s.Chance("pre-event", 1, 3)

	u := simnet.NewUniverse(uint64(s.Draw("universe", 1<<16)), nRemotes+2)
	h := simhost.New(s, u.Self.ID, u.Self.Addrs, u.Name)
	fab := simhost.NewFabric(s)
	fab.ParkWrites = s.Chance("park-writes", 1, 3)
	if fab.ParkWrites {
		s.Count("fault_park_writes")
	}
	store := simds.New(s, "ds")
	remotes := u.Peers[:nRemotes]
	for _, q := range remotes {
		c := h.Net().SetConnected(q.ID, true)
		if s.Chance("conn-outbound", 1, 2) {
			c.SetDirection(network.DirOutbound)
		} else {
			c.SetDirection(network.DirInbound)
		}
	}

	em, err := h.RealBus().Emitter(new(event.EvtLocalReachabilityChanged), eventbus.Stateful)
	if err != nil {
		panic(err)
	}
	defer em.Close()
	reach := []network.Reachability{network.ReachabilityPublic, network.ReachabilityPrivate, network.ReachabilityUnknown}
	var last *network.Reachability
	if preEvent {
		r := reach[s.Draw("reach", 3)]
		last = &r
		if err := em.Emit(event.EvtLocalReachabilityChanged{Reachability: r}); err != nil {
			panic(err)
		}
		s.Tracef("pre-construction event %v", r)
	}

	// the node's own account of what it handled (public option)
	var hookMu sync.Mutex
	handled := map[*simhost.Stream]int{}
	hook := func(_ context.Context, ns network.Stream, _ *pb.Message) {
		if x, ok := ns.(*simhost.Stream); ok {
			hookMu.Lock()
			handled[x]++
			hookMu.Unlock()
		}
	}
	d, err := dht.New(h, dht.ProtocolPrefix("/sim"), dht.Mode(opt), dht.DisableAutoRefresh(),
		dht.Datastore(store), dht.Validator(record.NamespacedValidator{"v": rankValidator{}}), dht.OnRequestHook(hook))
	if err != nil {
		panic(err)
	}
	s.Quiesce()
	s.Summary["cfg"] = fmt.Sprintf("race mode=%s remotes=%d events=%d streams=%d requests=%d parkWrites=%v preEvent=%v", optNames[oi], nRemotes, eventsLeft, streamsLeft, reqsLeft, fab.ParkWrites, preEvent)
	// from here on every lock call of the node is a scheduler decision
	s.LockSched = true
	s.YieldSites["*"] = true

	aliens := c13AlienIDs(c13Proto)
	var streams []*c13rStream
	byKey := map[string][2]int{} // record key -> (stream index, request index)
	epochSettled := false        // the epoch of the current model mode has begun
	epochSince := 0
	settledServer := false // model mode at the last settled point
	everSettled := false
	pendingChanges := 0 // mode-changing emits since the last settled point
	nSwitches, nAnswered, nDuring := 0, 0, 0
	answered := map[string]bool{}
	storedSeen := 0

	parkedWrites := func() map[*simhost.Stream]bool {
		m := map[*simhost.Stream]bool{}
		for _, p := range s.ParkedKind("swrite") {
			if st, ok := p.Data.(*simhost.Stream); ok {
				m[st] = true
			}
		}
		return m
	}
	handledOn := func(st *c13rStream) int {
		hookMu.Lock()
		defer hookMu.Unlock()
		return handled[st.b]
	}

	observe := func() {
		settled := len(s.LockActions()) == 0
		wantServer := c13Expected(opt, last)
		registered := h.Handler(c13Proto) != nil
		if settled {
			if registered != wantServer {
				s.Violate("auto-mode-wrong", "option %s, last reachability event %s, nothing left to run in the node: expected server=%v but DHT stream handler registered=%v", optNames[oi], c13Last(last), wantServer, registered)
				return
			}
			if !wantServer {
				if ps := h.HandlerProtocols(); len(ps) > 0 {
					s.Violate("stray-handler", "client mode but the host still has stream handlers %v", ps)
					return
				}
			}
			if !epochSettled {
				epochSettled = true
				epochSince = s.Steps
				if everSettled && settledServer != wantServer {
					nSwitches++
					if wantServer {
						s.Count("probe_race_settled_promotion")
					} else {
						s.Count("probe_race_settled_demotion")
					}
				}
			}
			settledServer, everSettled = wantServer, true
			pendingChanges = 0
		}
		pw := parkedWrites()
		var sb strings.Builder
		for _, st := range streams {
			var rp frameParser
			rp.Feed(st.b.WroteBytes())
			nResp := len(rp.Frames)
			nHandled := handledOn(st)
			nComplete := 0
			for _, r := range st.reqs {
				if r.completeTick > 0 {
					nComplete++
				}
			}
			fmt.Fprintf(&sb, " %s[start=%v reset=%v/%s open=%v req=%d/%d handled=%d resp=%d]", st.name, st.startTick > 0, st.b.IsReset(), st.b.ResetBy, st.b.IsOpen(), nComplete, len(st.reqs), nHandled, nResp)
			if rp.Bad {
				s.Violate("response-malformed", "stream %s: the node wrote bytes that are not a length-delimited frame", st.name)
				continue
			}
			if nResp > nComplete || (nResp > 0 && st.startTick == 0) {
				s.Violate("unsolicited-response", "stream %s: %d responses written but only %d complete requests were delivered", st.name, nResp, nComplete)
				continue
			}
			for k, f := range rp.Frames {
				m, err := decodeMsg(f)
				if err != nil {
					s.Violate("response-malformed", "stream %s: response %d does not decode: %v", st.name, k, err)
					continue
				}
				if m.GetType() != st.reqs[k].typ {
					s.Violate("response-mismatch", "stream %s: request %d was %v, response is %v", st.name, k, st.reqs[k].typ, m.GetType())
				}
				id := fmt.Sprintf("%s/%d", st.name, k)
				if !answered[id] {
					answered[id] = true
					nAnswered++
					s.Count("probe_race_answered")
				}
			}
			if !epochSettled {
				continue // unsettled interval: everything may go either way
			}
			if !wantServer {
				// ---- client epoch ----
				if settled && st.protoSet && st.b.IsOpen() {
					s.Violate("open-at-demotion-not-reset", "inbound DHT stream %s (accepted at step %d, handler started=%v) is still open although the node has completed its switch to client mode and has nothing left to run (client epoch since step %d)", st.name, st.negoTick, st.startTick > 0, epochSince)
					continue
				}
				if settled && st.protoSet && !st.countedReset && st.b.ResetBy == "local" {
					st.countedReset = true
					s.Count("probe_race_demotion_streams_reset")
					if st.duringSwitch == 2 {
						s.Count("probe_race_open_during_demotion_reset")
					}
				}
				nBefore := 0 // requests that were readable before the epoch began
				for k := range st.reqs {
					if t := st.readableAt(k); t > 0 && t < epochSince {
						nBefore++
					} else if t >= epochSince && t > 0 && !st.countedCli {
						st.countedCli = true
						s.Count("probe_race_request_in_client_epoch")
					}
				}
				if nHandled > nBefore {
					s.Violate("client-handled", "stream %s: the node's request hook fired %d times but only %d requests were readable before the client epoch began at step %d (request %d, %v, became readable at step %d)", st.name, nHandled, nBefore, epochSince, nBefore, st.reqs[nBefore].typ, st.readableAt(nBefore))
					continue
				}
				if nResp > nBefore {
					s.Violate("client-served", "stream %s: %d responses written but only %d requests were readable before the client epoch began at step %d", st.name, nResp, nBefore, epochSince)
					continue
				}
				continue
			}
			// ---- server epoch ----
			if st.negoTick < epochSince {
				continue // older than the epoch: a demotion in between may have reset it
			}
			if st.b.ResetBy == "local" {
				s.Violate("server-reset-stream", "stream %s was accepted at step %d, inside the server epoch that began at step %d, carried only honest requests, and was reset by the node", st.name, st.negoTick, epochSince)
				continue
			}
			if !settled || st.startTick == 0 || st.b.IsReset() || pw[st.b] || rp.Partial() {
				continue
			}
			nReadable := 0
			for k := range st.reqs {
				if st.readableAt(k) > 0 {
					nReadable++
				}
			}
			if nResp < nReadable {
				s.Violate("server-unanswered", "stream %s: %d honest requests are readable within the server epoch that began at step %d, the node has nothing left to run and no write is pending, but only %d responses were written (hook fired %d times)", st.name, nReadable, epochSince, nResp, nHandled)
			}
		}
		// datastore: which PUT_VALUE requests left a record behind
		log := store.Log()
		for _, r := range log[storedSeen:] {
			if r.Op != "put" || r.Err != nil {
				continue
			}
			rec := new(recpb.Record)
			if proto.Unmarshal(r.Val, rec) != nil {
				continue
			}
			ix, ok := byKey[string(rec.GetKey())]
			if !ok {
				continue
			}
			st := streams[ix[0]]
			t := st.readableAt(ix[1])
			if epochSettled && !wantServer && t > 0 && t >= epochSince {
				s.Violate("client-stored", "stream %s: PUT_VALUE request %d for %s became readable at step %d, inside the client epoch that began at step %d, and the node wrote the record to its datastore", st.name, ix[1], rec.GetKey(), t, epochSince)
			} else if epochSettled && wantServer {
				s.Count("probe_race_put_stored_server")
			}
		}
		storedSeen = len(log)
		s.Tracef("obs settled=%v epoch=%v/%d server=%v%s", settled, epochSettled, epochSince, registered, sb.String())
		nOpen := 0
		for _, st := range streams {
			if st.startTick > 0 && st.b.IsOpen() {
				nOpen++
			}
		}
		s.State("race opt=%d srv=%v settled=%v epoch=%v open=%d streams=%d answered=%d sw=%d pend=%d", oi, registered, settled, epochSettled, nOpen, len(streams), nAnswered, nSwitches, pendingChanges)
	}

	start := func(st *c13rStream) {
		if !st.protoSet {
			_ = st.b.SetProtocol(st.proto)
			st.protoSet = true
		}
		st.startTick = s.Steps
		go st.handler(st.b)
	}

	for s.Step() {
		observe()
		if s.Failed() {
			break
		}
		var acts []sim.Action
		if eventsLeft > 0 {
			acts = append(acts, sim.Action{ID: "emit", Do: func() {
				eventsLeft--
				r := reach[s.Draw("reach", 3)]
				before := c13Expected(opt, last)
				last = &r
				after := c13Expected(opt, last)
				s.Tracef("emit %v (model %v -> %v)", r, before, after)
				if before != after {
					epochSettled = false
					pendingChanges++
					if pendingChanges >= 2 {
						s.Count("probe_race_events_pending_2")
					}
					for _, st := range streams {
						if st.startTick > 0 && !st.b.IsReset() && handledOn(st) > len(frameCount(st.b.WroteBytes())) {
							s.Count("probe_race_handler_midrequest_at_emit")
							break
						}
					}
				} else {
					s.Count("probe_race_same_mode_event")
				}
				if err := em.Emit(event.EvtLocalReachabilityChanged{Reachability: r}); err != nil {
					panic(err)
				}
			}})
		}
		if streamsLeft > 0 {
			for _, q := range remotes {
				q := q
				acts = append(acts, sim.Action{ID: "open:" + q.Name, Do: func() {
					streamsLeft--
					props, alienFirst := c13DrawProposals(s, c13Proto, aliens)
					id, hd := h.Negotiate(props...)
					serving := h.Handler(c13Proto) != nil
					c13CountNegotiation(s, c13Proto, id, props, alienFirst, serving)
					if hd == nil {
						// a real host refuses the protocol negotiation (a client: whatever
						// is proposed; a server: proposals it has no handler for)
						if !serving {
							if !epochSettled {
								s.Count("probe_race_refused_during_switch")
							} else {
								s.Count("probe_race_refused_client")
							}
						}
						s.Tracef("negotiation refused for %s proposing %s", q.Name, c13ProposalString(props))
						return
					}
					if len(props) > 1 || id != c13Proto {
						s.Tracef("%s proposes %s: negotiated %q", q.Name, c13ProposalString(props), id)
					}
					win := s.Draw("window", 3)
					p0 := id
					if win == 1 {
						p0 = "" // handler looked up, SetProtocol not yet called
					}
					conn := h.Net().SetConnected(q.ID, true)
					a, b := fab.NewPair("in:"+q.Name, p0, q.ID, u.Self.ID, nil, conn)
					a.Scripted = true
					st := &c13rStream{name: strings.TrimSuffix(b.Name(), "/b"), proto: id, a: a, b: b, handler: hd, negoTick: s.Steps, protoSet: win != 1}
					if !epochSettled {
						nDuring++
						s.Count("probe_race_open_during_switch")
						st.duringSwitch = 1
						if !c13Expected(opt, last) {
							st.duringSwitch = 2
						}
					}
					streams = append(streams, st)
					if win == 0 {
						start(st)
					} else {
						s.Count("fault_nego_window")
					}
				}})
			}
		}
		for i, st := range streams {
			i, st := i, st
			if st.startTick == 0 {
				acts = append(acts, sim.Action{ID: "start:" + st.name, Do: func() { start(st) }})
			}
			if reqsLeft > 0 && !st.sendFail {
				acts = append(acts, sim.Action{ID: "send:" + st.name, Do: func() {
					reqsLeft--
					var m *pb.Message
					rq := &c13rReq{}
					switch s.Draw("req-type", 3) {
					case 0:
						rq.typ = pb.Message_FIND_NODE
						m = pb.NewMessage(rq.typ, []byte(u.Peers[len(u.Peers)-1].ID), 0)
					case 1:
						rq.typ = pb.Message_PING
						m = pb.NewMessage(rq.typ, nil, 0)
					default:
						rq.typ = pb.Message_PUT_VALUE
						rq.key = fmt.Sprintf("/v/%s/%d.", st.name, len(st.reqs))
						m = pb.NewMessage(rq.typ, []byte(rq.key), 0)
						m.Record = record.MakePutRecord(rq.key, rankValue(1, time.Time{}, rq.key))
					}
					frame := encodeFrame(m)
					if _, err := st.a.Write(frame); err != nil {
						st.sendFail = true // the remote learns that the stream is gone
						s.Tracef("send on %s failed: %v", st.name, err)
						return
					}
					st.wrote += len(frame)
					rq.end = st.wrote
					if rq.key != "" {
						byKey[rq.key] = [2]int{i, len(st.reqs)}
					}
					st.reqs = append(st.reqs, rq)
				}})
			}
			if n, _ := st.b.Pending(); n > 0 {
				acts = append(acts, sim.Action{ID: "deliver:" + st.name, Do: func() {
					l := st.b.NextChunkLen()
					if l > 1 && s.Chance("split", 1, 4) {
						s.Count("fault_split_chunk")
						st.b.Deliver(1 + s.Draw("split-at", l-1))
					} else {
						st.b.Deliver(0)
					}
					for _, rq := range st.reqs {
						if rq.completeTick == 0 && st.b.Delivered >= rq.end {
							rq.completeTick = s.Steps
							if !epochSettled {
								nDuring++
								s.Count("probe_race_request_during_switch")
							}
						}
					}
				}})
			}
		}
		for _, p := range s.ParkedKind("swrite") {
			p := p
			acts = append(acts, sim.Action{ID: p.ID, Do: func() { s.Release(p, nil) }})
		}
		acts = append(acts, s.LockActions()...)
		if len(acts) == 0 {
			break
		}
		s.Choose("next", acts)
	}
	if !s.Failed() {
		observe()
	}
	if s.Steps > s.MaxSteps {
		s.Count("step_budget_exhausted")
	}
	s.Tracef("done switches=%d answered=%d during=%d streams=%d", nSwitches, nAnswered, nDuring, len(streams))
	s.NonTrivial = nSwitches > 0 && nAnswered > 0 && nDuring > 0

	s.LockSched = false
	s.YieldSites = map[string]bool{}
	for _, st := range streams {
		st.b.SimReset()
	}
	closeAndCensus(s, func() {
		_ = d.Close()
		_ = h.Close()
	})
	s.Finish()
}

// frameCount parses the node's output of one stream into frames.
func frameCount(b []byte) [][]byte {
	var rp frameParser
	rp.Feed(b)
	return rp.Frames
}
