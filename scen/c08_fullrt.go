//go:build all || c08

package scen

// C08, accelerated client: fullrt.FullRT on the fake host. The crawler is a
// stub that reports a drawn subset of the responders as crawled (connected,
// public address), so that the real crawl loop builds the real trie; the
// provider search then asks the K nearest crawled peers all at once
// (execOnMany with its success-fraction / ticker / time-out heuristics, all
// real). Requests are released one per step; cancellations caused by the
// heuristics are observed through the ordinary "cancel>" actions.
//
// Silent responders (see c08.go): this client is built with a per-operation
// time-out drawn by the scenario (c08World.ownTimeout); the simulated sender
// never gives up on a silent responder before that time-out plus 30 s have
// passed, so the client itself has to abandon the request (rule
// not-closed-after-timeout).
//
// The node itself among the crawled peers (drawn, "crawl-self"). The routing
// table of this client is whatever the crawler reports (public option
// WithCrawler) and the host's network confirms as connected with a public
// address; neither the crawl loop nor GetClosestPeers takes the own ID out. So
// the generated environments include one in which the crawl result lists the
// node itself (the fake network then reports a loop-back connection to the own
// ID, the peerstore holds the own public address, as a libp2p host's does).
// For keys close to the own ID the node is then one of the K peers the search
// fans out to. Nobody can be asked through a connection to oneself: the
// request reaches the message-sender seam like any other and is failed there
// with a dial-to-self error (what a swarm answers), as a scheduled outcome.
// No new rule: this is one more responder that cannot be asked, and every
// clause applies unchanged - in particular "the result channel is always
// closed, after completion or cancellation" (rules not-closed,
// not-closed-after-timeout): a fan-out member that fails locally, or is never
// started, must not keep the search open. Class of regressions exposed:
// special-casing of particular table members (the own ID, an unreachable or
// filtered peer) in the fan-out that gets the completion accounting wrong.
// Caveat for the reader of a finding: the stock swarm never reports a
// connection to the own ID, so with the stock host and crawler this table
// content needs a custom Crawler/host; it is generated because the client's
// own code anticipates it (updatePeerValues, maybeAddAddrs guard against
// p == self).
//
// Granularity: the handler of one answer runs atomically within a step (up to
// the hand-over to a consumer that is not reading, "lazy" mode). A variant
// with scheduler-owned yield points at the found-set mutex was tried and
// dropped: as soon as execOnMany's early exit cancels the per-operation
// context while another handler sits between two lock calls, that handler's
// select{peerOut<-prov; <-ctx.Done()} has both cases ready and the Go runtime
// decides (non-deterministic; it is the always-ready-consumer form of the
// finding recorded under rule fullrt-answer-cut-short). Consequence: a count
// bound that is off by one in the accelerated client only shows when two
// handlers run truly in parallel and is not caught here.

import (
	"context"
	"fmt"
	"time"

	dht "github.com/libp2p/go-libp2p-kad-dht"
	"github.com/libp2p/go-libp2p-kad-dht/crawler"
	"github.com/libp2p/go-libp2p-kad-dht/fullrt"
	pb "github.com/libp2p/go-libp2p-kad-dht/pb"
	"github.com/libp2p/go-libp2p-kad-dht/records"
	"github.com/libp2p/go-libp2p/core/host"
	"github.com/libp2p/go-libp2p/core/peer"
	"github.com/libp2p/go-libp2p/core/protocol"

	"verif/sim"
	"verif/simds"
	"verif/simhost"
	"verif/simnet"
)

func init() {
	real := []string{"fullrt.FullRT.FindProvidersAsync / findProvidersAsyncRoutine", "fullrt crawl loop, trie, GetClosestPeers", "fullrt.execOnMany (success fraction, ticker, per-operation time-out)", "records.ProviderManager (local providers)"}
	stub := []string{"host.Host/network (simhost)", "pb.MessageSender (level A)", "crawler.Crawler (stub reporting a drawn peer set)", "remote peers (scripted)", "provider datastore (simds)"}
	sim.Register(&sim.Scenario{Prop: "C08", Name: "find-providers-fullrt", Weight: 2, Run: func(s *sim.Sim) {
		s.MaxSteps = 600
		w := c08BuildFullRT(s)
		c08RunAndCheck(w)
		s.Finish()
	},
		Real: real, Stub: stub,
		Faults: append(append(append([]string{}, c08Faults...), c08LazyFaults...), "probe_silent_cut_by_timeout",
			"probe_self_in_table", "probe_self_among_closest", "fault_self_asked", "probe_self_asked_search_closed", "probe_self_asked_cancelled_search"),
	})
}

// c08Crawler is the stub crawler: every peer of the given set answers.
type c08Crawler struct {
	h     *simhost.Host
	peers []*simnet.Peer
	runs  int
}

var _ crawler.Crawler = (*c08Crawler)(nil)

func (c *c08Crawler) Run(_ context.Context, _ []*peer.AddrInfo, ok crawler.HandleQueryResult, _ crawler.HandleQueryFail) {
	c.runs++
	for _, p := range c.peers {
		c.h.Peerstore().AddAddrs(p.ID, p.Addrs, time.Hour)
		c.h.Net().SetConnected(p.ID, true)
		c.h.Net().SetRemoteAddr(p.ID, p.Addrs[0])
		ok(p.ID, nil)
	}
}

func c08BuildFullRT(s *sim.Sim) *c08World {
	c := c08GenCfg(s, "fullrt")
	w := c08NewWorld(s, c)
	w.merged = true
	u := w.u
	k := s.Range("k", 1, 8)
	responders := u.Peers[:c.N]
	w.c08GenGraph(responders, k, "")
	for _, b := range w.beh {
		b.DialFail = false // the accelerated client never dials in a search
	}
	local := w.c08GenProviders(responders)

	w.host = simhost.New(s, u.Self.ID, u.Self.Addrs, u.Name)
	crawled := c08DrawSeeds(s, "crawl-", responders)
	// the crawl result lists the node itself (see the header comment)
	selfCrawled := s.Chance("crawl-self", 1, 3)
	reported := crawled
	if selfCrawled {
		reported = append(append([]*simnet.Peer{}, crawled...), u.Self)
	}
	cr := &c08Crawler{h: w.host, peers: reported}
	var snd *simnet.Sender
	builder := func(_ host.Host, _ []protocol.ID) pb.MessageSenderWithDisconnect {
		snd = &simnet.Sender{S: s, U: u}
		return snd
	}
	waitFrac := []float64{0.3, 0.6, 1.0}[s.Draw("wait-frac", 3)]
	perOp := []time.Duration{5 * time.Second, time.Second, 30 * time.Second}[s.Draw("timeout-per-op", 3)]
	frt, err := fullrt.NewFullRT(w.host, "/sim",
		fullrt.WithCrawler(cr),
		fullrt.WithSuccessWaitFraction(waitFrac),
		fullrt.WithTimeoutPerOperation(perOp),
		fullrt.DHTOption(dht.BucketSize(k), dht.Datastore(simds.New(s, "ds")), dht.WithCustomMessageSender(builder),
			dht.BootstrapPeers(responders[0].AddrInfo())),
	)
	if err != nil {
		panic(err)
	}
	s.Quiesce() // the initial crawl ran; the trie is in place
	if cr.runs == 0 {
		panic("c08: the initial crawl did not run")
	}
	w.snds = []*simnet.Sender{snd}
	w.ownTimeout = perOp
	fullrt.VerifSetShuffle(frt, c08Shuffle(c08DrawShuffleSeed(s, "shuffle-remote")))
	records.VerifSetShuffle(frt.ProviderManager, c08Shuffle(c08DrawShuffleSeed(s, "shuffle-local")))
	w.storeLocal(frt.ProviderManager, local)
	w.tablePeers = len(frt.Stat())
	if selfCrawled {
		inTable := false
		for _, id := range frt.Stat() {
			inTable = inTable || id == u.Self.ID
		}
		if !inTable {
			panic("c08: the crawl reported the node itself, but the routing table does not list it")
		}
		s.Count("probe_self_in_table")
	}
	w.lazy = s.Chance("lazy-consumer", 1, 3)

	w.find = frt.FindProvidersAsync
	w.closeSUT = func() {
		_ = frt.Close()
		_ = w.host.Close()
	}
	s.Summary["cfg"] = fmt.Sprintf("client=fullrt N=%d K=%d crawled=%d self-crawled=%v table=%d waitFrac=%.1f perOp=%v count=%d pool=%d local=%d faults=%d silent=%d qevents=%v cancelAt=%d lazy=%v",
		c.N, k, len(crawled), selfCrawled, w.tablePeers, waitFrac, perOp, c.Count, len(w.pool), len(w.local), c.FaultLevel, c.Silent, c.QEvents, c.CancelAt, w.lazy)
	return w
}
