package scen

import (
	"context"
	"fmt"
	"runtime/debug"
	"sort"
	"strings"
	"sync"
	"time"

	dht "github.com/libp2p/go-libp2p-kad-dht"
	pb "github.com/libp2p/go-libp2p-kad-dht/pb"
	"github.com/libp2p/go-libp2p/core/host"
	"github.com/libp2p/go-libp2p/core/peer"
	"github.com/libp2p/go-libp2p/core/protocol"

	"verif/sim"
	"verif/simhost"
	"verif/simnet"
)

// harnessPrefixes identify goroutines created by the harness in a census.
var harnessPrefixes = []string{"verif/", "testing.", "testing/synctest."}

// Op is one client operation running on its own harness goroutine.
type Op struct {
	Name    string
	Done    bool
	DoneAt  time.Duration
	Err     error
	Result  any
	Panic   string
	Started time.Duration
}

type opSet struct {
	mu  sync.Mutex
	ops []*Op
}

// Go runs f on a harness goroutine; a panic on that goroutine (the caller's
// goroutine of an API call) is recovered and kept for the oracle.
func (o *opSet) Go(s *sim.Sim, name string, f func() (any, error)) *Op {
	op := &Op{Name: name, Started: s.Now()}
	o.mu.Lock()
	o.ops = append(o.ops, op)
	o.mu.Unlock()
	go func() {
		defer func() {
			if r := recover(); r != nil {
				op.Panic = fmt.Sprintf("%v\n%s", r, debug.Stack())
			}
			op.DoneAt = s.Now()
			op.Done = true
		}()
		op.Result, op.Err = f()
	}()
	return op
}

// Behaviour of a scripted peer at message level.
type Behaviour struct {
	DialFail bool
	// ReqMode: 0 honest, 1 always error, 2 liar (Lie decides what)
	ReqMode int
	Lie     int
	Knows   []*simnet.Peer
}

const (
	reqHonest = iota
	reqError
	reqLiar
)

// H1 is one real IpfsDHT on a simulated host with the message-level sender.
type H1 struct {
	S           *sim.Sim
	U           *simnet.Universe
	Host        *simhost.Host
	Snd         *simnet.Sender
	DHT         *dht.IpfsDHT
	K           int
	Alpha, Beta int
	Beh         map[peer.ID]*Behaviour
	Ops         opSet
}

func newH1(s *sim.Sim, u *simnet.Universe, k, alpha, beta int, opts ...dht.Option) (*H1, error) {
	h := &H1{S: s, U: u, K: k, Alpha: alpha, Beta: beta, Beh: map[peer.ID]*Behaviour{}}
	h.Host = simhost.New(s, u.Self.ID, u.Self.Addrs, u.Name)
	base := []dht.Option{
		dht.ProtocolPrefix("/sim"),
		dht.Mode(dht.ModeClient),
		dht.BucketSize(k),
		dht.Concurrency(alpha),
		dht.Resiliency(beta),
		dht.DisableAutoRefresh(),
		dht.WithCustomMessageSender(func(_ host.Host, _ []protocol.ID) pb.MessageSenderWithDisconnect {
			h.Snd = &simnet.Sender{S: s, U: u}
			return h.Snd
		}),
	}
	d, err := dht.New(h.Host, append(base, opts...)...)
	if err != nil {
		h.Host.Close()
		return nil, err
	}
	h.DHT = d
	s.Quiesce()
	return h, nil
}

// Seed puts peers into the routing table directly; returns the table content.
func (h *H1) Seed(peers []*simnet.Peer) []peer.ID {
	for _, p := range peers {
		h.Host.Peerstore().AddAddrs(p.ID, p.Addrs, time.Hour)
		_, _ = h.DHT.RoutingTable().TryAddPeer(p.ID, true, false)
	}
	h.S.Quiesce()
	return h.DHT.RoutingTable().ListPeers()
}

// closeAndCensus closes the DHT and the host and reports goroutines of the
// system under test that are still alive as a violation of rule "leak".
func (h *H1) closeAndCensus() {
	closeAndCensus(h.S, func() {
		if h.DHT != nil {
			_ = h.DHT.Close()
		}
		_ = h.Host.Close()
	})
}

// closeAndCensus runs closer on a harness goroutine, releases whatever is
// still parked (cancellations first, then errors), gives background work a
// bounded amount of virtual time and then counts surviving goroutines.
func closeAndCensus(s *sim.Sim, closer func()) {
	var ops opSet
	op := ops.Go(s, "close", func() (any, error) { closer(); return nil, nil })
	for i := 0; i < 200; i++ {
		s.Quiesce()
		if op.Done && len(s.Parked()) == 0 {
			break
		}
		progressed := false
		for _, p := range s.Parked() {
			if p.Cancelled() {
				s.ReleaseCancelled(p)
			} else {
				releaseBenign(s, p)
			}
			progressed = true
			break
		}
		if !progressed {
			s.Sleep(time.Second)
		}
	}
	s.Quiesce()
	if op.Panic != "" {
		s.Violate("close-panic", "Close panicked: %s", firstLine(op.Panic))
		return
	}
	if !op.Done {
		s.Violate("close-hang", "Close did not return after everything parked was released and 200 s of virtual time")
		return
	}
	for i := 0; i < 5; i++ {
		sut, _ := sim.BubbleGoroutines(harnessPrefixes...)
		if len(sut) == 0 {
			return
		}
		s.Sleep(time.Minute)
	}
	sut, _ := sim.BubbleGoroutines(harnessPrefixes...)
	if len(sut) > 0 {
		var cs []string
		for _, g := range sut {
			cs = append(cs, sim.CreatorOf(g))
		}
		sort.Strings(cs)
		s.Violate("leak", "%d goroutine(s) survive Close: %s", len(sut), strings.Join(cs, ", "))
	}
}

// releaseBenign releases a parked call with a harmless failure (used only in
// drain phases where the operation under test is over).
func releaseBenign(s *sim.Sim, p *sim.Parked) {
	switch p.Kind {
	case "rpc":
		s.Release(p, simnet.Reply{Err: context.DeadlineExceeded})
	case "dial":
		s.Release(p, simhost.ErrDialFailed)
	default:
		s.Release(p, nil)
	}
}

func firstLine(s string) string {
	if i := strings.IndexByte(s, '\n'); i >= 0 {
		return s[:i]
	}
	return s
}

func names(u *simnet.Universe, ids []peer.ID) string {
	return strings.Join(u.Names(ids), ",")
}

func sortedNames(u *simnet.Universe, ids []peer.ID) string {
	n := u.Names(ids)
	sort.Strings(n)
	return strings.Join(n, ",")
}
