//go:build all || c16

package scen

import (
	"context"
	"fmt"
	"strings"
	"time"

	"github.com/ipfs/go-cid"
	"github.com/libp2p/go-libp2p/core/host"
	"github.com/libp2p/go-libp2p/core/peer"
	"github.com/libp2p/go-libp2p/core/peerstore"
	"github.com/libp2p/go-libp2p/core/protocol"
	ma "github.com/multiformats/go-multiaddr"
	mh "github.com/multiformats/go-multihash"

	kaddht "github.com/libp2p/go-libp2p-kad-dht"
	"github.com/libp2p/go-libp2p-kad-dht/crawler"
	"github.com/libp2p/go-libp2p-kad-dht/fullrt"
	pb "github.com/libp2p/go-libp2p-kad-dht/pb"
	"github.com/libp2p/go-libp2p-kad-dht/records"

	"verif/sim"
	"verif/simhost"
	"verif/simnet"
)

func init() {
	rtReal := []string{"fullrt.FullRT (NewFullRT, runCrawler incl. the crawl swap, GetClosestPeers, Stat, TriggerRefresh, Close)", "go-libp2p-xor trie / kademlia.ClosestN (dependency)", "peerdiversity.IPGroupKey (dependency)", "records.ProviderManager, records.ValueStore", "pstoremem peerstore"}
	rtStub := []string{"host.Host/network (simhost)", "crawler.Crawler (stub reporting a drawn peer set, through fullrt.WithCrawler)", "pb.MessageSender (level A)"}
	sim.Register(&sim.Scenario{Prop: "C16", Name: "fullrt-nearest", Weight: 3, Run: func(s *sim.Sim) { runC16Nearest(s, false) },
		Real: rtReal, Stub: rtStub,
		Faults: []string{"time_advance", "probe_read_during_crawl", "probe_crawl_replaced_table", "probe_limit_set_not_biting", "probe_result_shorter_than_k", "probe_crawl_by_trigger", "probe_crawl_by_interval", "probe_peer_refound_in_other_ip_group", "probe_returned_peer_refound_in_other_ip_group",
			"probe_crawled_peer_dns_name_next_to_ip", "probe_peerstore_entry_replaced_while_peer_reported", "probe_changed_peer_kept_in_table", "probe_changed_peer_not_in_table",
			"probe_changed_peer_among_k_nearest_limit_set", "probe_changed_peer_nearer_than_kth_limit_set"}})
	sim.Register(&sim.Scenario{Prop: "C16", Name: "fullrt-ip-limit", Weight: 2, Run: func(s *sim.Sim) { runC16Nearest(s, true) },
		Real: rtReal, Stub: rtStub,
		Faults: []string{"probe_ip_group_over_limit", "probe_limit_precondition_holds", "probe_limit_precondition_changed_between_crawls"}})
	sim.Register(&sim.Scenario{Prop: "C16", Name: "fullrt-swap-race", Weight: 3, Run: runC16SwapRace,
		Real: rtReal, Stub: append([]string{"lock hand-over and lock-site yields (instrumented sync.RWMutex calls, scheduler-owned)"}, rtStub...),
		Faults: []string{"lock_yield", "lock_contended", "probe_swap_raced_by_reader", "probe_reader_two_candidates", "probe_swap_changes_ip_groups"}})
	crReal := append([]string{"crawler.DefaultCrawler inside FullRT (through fullrt.WithCrawler)"}, rtReal...)
	crStub := []string{"host.Host/network (simhost)", "pb.MessageSender (level A, labels by bucket)", "remote peers (scripted referral graph with dial/query failures)"}
	sim.Register(&sim.Scenario{Prop: "C16", Name: "fullrt-crawl", Weight: 2, Run: func(s *sim.Sim) { runC16FullCrawl(s, false) },
		Real: crReal, Stub: crStub,
		Faults: []string{"fault_dial_fail", "fault_rpc_error", "fault_dial_timeout", "fault_rpc_timeout", "time_advance", "probe_dial_failure_during_crawl", "probe_partial_query_failure", "probe_new_peer_after_reply_without_news"}})
	sim.Register(&sim.Scenario{Prop: "C16", Name: "fullrt-recrawl", Weight: 1, Run: func(s *sim.Sim) { runC16FullCrawl(s, true) },
		Real: crReal, Stub: crStub,
		Faults: []string{"probe_second_crawl", "probe_dup_seed", "probe_host_forgot_crawled_peer", "probe_seed_without_address", "probe_addrless_seed_reachable_by_referral"}})
	emReal := []string{"fullrt.FullRT single and bulk operations on an empty table; NewFullRT with options omitted", "crawler.DefaultCrawler (default instance when WithCrawler is omitted)", "internal/net message sender (when the sender option is omitted; streams fail)"}
	sim.Register(&sim.Scenario{Prop: "C16", Name: "fullrt-empty-and-options", Weight: 2, Run: func(s *sim.Sim) { runC16Empty(s, "options") },
		Real: emReal, Stub: rtStub,
		Faults: []string{"probe_empty_table_op", "probe_option_omitted", "probe_crawl_blocked", "probe_crawl_found_nobody", "fault_dial_fail", "fault_rpc_error"}})
	sim.Register(&sim.Scenario{Prop: "C16", Name: "fullrt-bulk-empty", Weight: 1, Run: func(s *sim.Sim) { runC16Empty(s, "bulk") },
		Real: emReal, Stub: rtStub,
		Faults: []string{"probe_bulk_on_empty_table"}})
	sim.Register(&sim.Scenario{Prop: "C16", Name: "fullrt-ctor-no-bootstrap", Weight: 1, Run: func(s *sim.Sim) { runC16Empty(s, "noboot") },
		Real: emReal, Stub: rtStub,
		Faults: []string{"probe_bootstrap_option_omitted"}})
	// The bucket-size option omitted AND a non-empty table. On the original
	// snapshot GetClosestPeers then spun forever (bucket size 0, step 0), which
	// the simulator cannot report as an oracle violation: the run never becomes
	// quiescent, the wall-clock watchdog kills the worker and the driver reports
	// rule "wedge". Repaired in /repo (fix: default the bucket size); the
	// scenario is part of the default set so that a regression is seen again.
	sim.Register(&sim.Scenario{Prop: "C16", Name: "fullrt-no-bucket-size", Weight: 1, Run: runC16NoBucket,
		Real: rtReal, Stub: rtStub, Faults: []string{"probe_bucket_size_omitted_nonempty_table"}})
}

// ---------------------------------------------------------------------------
// FullRT on the fake host

type c16RTOpts struct {
	Prefix protocol.ID

	K         int
	SetK      bool
	L         int
	SetL      bool
	Interval  time.Duration
	BulkPar   int
	WaitFrac  float64
	Timeout   time.Duration
	Boot      []*simnet.Peer
	SetBoot   bool
	Crawler   crawler.Crawler // nil: option omitted
	Host      host.Host       // non-nil: handed to NewFullRT instead of the simulated host (a wrapper of it)
	SetSender bool
	SetValid  bool
	NoProv    bool
	PMOpts    bool
}

type c16RT struct {
	S    *sim.Sim
	U    *simnet.Universe
	Host *simhost.Host
	Snd  *c16Sender
	RT   *fullrt.FullRT
	Ops  opSet
	K, L int
	nOp  int
}

// buildC16RT calls fullrt.NewFullRT on a client goroutine (a panic of the
// constructor is recovered into the returned Op).
func buildC16RT(s *sim.Sim, u *simnet.Universe, h *simhost.Host, o c16RTOpts) (*c16RT, *Op) {
	r := &c16RT{S: s, U: u, Host: h, K: o.K, L: o.L}
	var dopts []kaddht.Option
	if o.SetK {
		dopts = append(dopts, kaddht.BucketSize(o.K))
	}
	if o.SetBoot {
		var infos []peer.AddrInfo
		for _, p := range o.Boot {
			infos = append(infos, p.AddrInfo())
		}
		dopts = append(dopts, kaddht.BootstrapPeers(infos...))
	}
	if o.SetSender {
		r.Snd = &c16Sender{S: s, U: u, Label: "rt/"}
		dopts = append(dopts, kaddht.WithCustomMessageSender(func(host.Host, []protocol.ID) pb.MessageSenderWithDisconnect { return r.Snd }))
	}
	if o.SetValid {
		dopts = append(dopts, kaddht.Validator(rankValidator{}))
	}
	if o.NoProv {
		dopts = append(dopts, kaddht.DisableProviders())
	}
	opts := []fullrt.Option{fullrt.DHTOption(dopts...)}
	if o.Crawler != nil {
		opts = append(opts, fullrt.WithCrawler(o.Crawler))
	}
	if o.SetL {
		opts = append(opts, fullrt.WithIPDiversityFilterLimit(o.L))
	}
	if o.Interval > 0 {
		opts = append(opts, fullrt.WithCrawlInterval(o.Interval))
	}
	if o.BulkPar > 0 {
		opts = append(opts, fullrt.WithBulkSendParallelism(o.BulkPar))
	}
	if o.WaitFrac > 0 {
		opts = append(opts, fullrt.WithSuccessWaitFraction(o.WaitFrac))
	}
	if o.Timeout > 0 {
		opts = append(opts, fullrt.WithTimeoutPerOperation(o.Timeout))
	}
	if o.PMOpts {
		opts = append(opts, fullrt.WithProviderManagerOptions(records.CleanupInterval(20*time.Minute)))
	}
	var hh host.Host = h
	if o.Host != nil {
		hh = o.Host
	}
	op := r.Ops.Go(s, "NewFullRT", func() (any, error) {
		rt, err := fullrt.NewFullRT(hh, o.Prefix, opts...)
		if err != nil {
			return nil, err
		}
		return rt, nil
	})
	s.Quiesce()
	if op.Done && op.Panic == "" && op.Err == nil {
		r.RT, _ = op.Result.(*fullrt.FullRT)
	}
	return r, op
}

func (r *c16RT) close() {
	closeAndCensus(r.S, func() {
		if r.RT != nil {
			_ = r.RT.Close()
		}
		_ = r.Host.Close()
	})
}

// read runs one GetClosestPeers to completion (default lock mode: it cannot
// park) and reports trouble under the general no-panic/no-hang rules.
func (r *c16RT) read(key string) ([]peer.ID, bool) {
	s := r.S
	r.nOp++
	ctx := sim.WithTag(context.Background(), fmt.Sprintf("g%03d", r.nOp))
	op := r.Ops.Go(s, "GetClosestPeers", func() (any, error) { return r.RT.GetClosestPeers(ctx, key) })
	s.Quiesce()
	switch {
	case op.Panic != "":
		s.Violate("op-panic", "GetClosestPeers panicked: %s", firstLine(op.Panic))
	case !op.Done:
		s.Violate("op-hang", "GetClosestPeers did not return although it needs no network")
	case op.Err != nil:
		s.Violate("gcp-error", "GetClosestPeers failed: %v", op.Err)
	default:
		res, _ := op.Result.([]peer.ID)
		return res, true
	}
	return nil, false
}

// checkStat compares the table reported by Stat() with the peers the crawl
// reported as found. (All scripted peers have a public address and stay
// connected, so the repository's public-address table filter keeps them all.)
//
// A peer whose peerstore entry was replaced while the crawl reported it (c.Alt)
// has had no public IP address since: whether the table keeps it is the
// repository's table filter, not C16. For such a peer - only - Stat() is
// taken as the truth, and c.Peers is narrowed to the peers Stat() lists.
func (r *c16RT) checkStat(c *c16Crawl) {
	st := r.RT.Stat()
	var got []peer.ID
	for _, p := range st {
		got = append(got, p)
	}
	if len(c.Alt) > 0 {
		in := idSet(got)
		var keep []*simnet.Peer
		for _, p := range c.Peers {
			if _, unsure := c.Alt[p.ID]; unsure && !in[p.ID] {
				r.S.Count("probe_changed_peer_not_in_table")
				delete(c.Alt, p.ID)
				continue
			} else if unsure {
				r.S.Count("probe_changed_peer_kept_in_table")
			}
			keep = append(keep, p)
		}
		c.Peers = keep
	}
	if !sameSet(got, simnet.IDs(c.Peers)) {
		r.S.Violate("stat-vs-crawl", "after crawl %d Stat() lists {%s}, the crawl reported {%s} as found", c.Idx, sortedNames(r.U, got), sortedNames(r.U, simnet.IDs(c.Peers)))
	}
}

// trigger starts the next crawl, by TriggerRefresh or by letting the crawl
// interval pass, and reports whether the crawler was invoked.
func (r *c16RT) trigger(byTime bool, interval time.Duration, invoked func() bool) bool {
	s := r.S
	if byTime {
		s.Count("time_advance")
		s.Count("probe_crawl_by_interval")
		s.Tracef("sleep crawl interval")
		s.Sleep(interval)
	} else {
		s.Count("probe_crawl_by_trigger")
		s.Tracef("TriggerRefresh")
		ctx, cancel := context.WithCancel(context.Background())
		op := r.Ops.Go(s, "TriggerRefresh", func() (any, error) { return nil, r.RT.TriggerRefresh(ctx) })
		s.Quiesce()
		if !op.Done {
			cancel()
			s.Quiesce()
		}
		cancel()
	}
	return invoked()
}

func c16Size(s *sim.Sim, a, b, c [2]int) int {
	switch s.Draw("size-class", 3) {
	case 0:
		return s.Range("n", a[0], a[1])
	case 1:
		return s.Range("n", b[0], b[1])
	default:
		return s.Range("n", c[0], c[1])
	}
}

func c16DrawSpec(s *sim.Sim, u *simnet.Universe, rng *subRng) *crawlSpec {
	frac := 1 + s.Draw("found-frac", 4)
	sp := &crawlSpec{}
	for _, p := range u.Peers {
		switch {
		case rng.Intn(4) < frac:
			sp.OK = append(sp.OK, p)
		case rng.Intn(3) == 0:
			sp.Fail = append(sp.Fail, p)
		}
	}
	return sp
}

func c16PickPeers(u *simnet.Universe, rng *subRng, k int) []*simnet.Peer {
	if k > len(u.Peers) {
		k = len(u.Peers)
	}
	idx := make([]int, len(u.Peers))
	for i := range idx {
		idx[i] = i
	}
	var out []*simnet.Peer
	for i := 0; i < k; i++ {
		j := i + rng.Intn(len(idx)-i)
		idx[i], idx[j] = idx[j], idx[i]
		out = append(out, u.Peers[idx[i]])
	}
	return out
}

// c16MoveProbes counts how crawl cur differs in its address assignment from
// the crawl before it: a peer found by both in different IP groups; such a peer
// that an earlier look-up has returned (anything derived from its addresses at
// that time is out of date now); the limit's precondition (no IP group holds
// more crawled peers than the limit) holding for one of the two crawls only.
func c16MoveProbes(s *sim.Sim, prev, cur *c16Crawl, returned map[peer.ID]bool, L int) {
	if prev == nil || prev.Idx == 0 {
		return
	}
	if c16RefoundElsewhere(prev, cur) {
		s.Count("probe_peer_refound_in_other_ip_group")
	}
	if c16RefoundElsewhere(prev, &c16Crawl{Peers: c16Filter(cur.Peers, returned), Addrs: cur.Addrs}) {
		s.Count("probe_returned_peer_refound_in_other_ip_group")
	}
	if L > 0 {
		_, a := prev.maxGroup()
		_, b := cur.maxGroup()
		if (a > L) != (b > L) {
			s.Count("probe_limit_precondition_changed_between_crawls")
		}
	}
}

// c16AddrKindProbes counts, for one read judged against crawl c: a crawled
// peer with a DNS name next to IP addresses; and, with the limit set, a table
// peer whose entry was replaced by addresses without an IP while it was
// reported (c.Alt) among the brute-force K nearest of the key - the peers an
// exact result must list - and strictly inside them (a result that leaves it
// out must also be padded with a farther peer).
func c16AddrKindProbes(s *sim.Sim, c *c16Crawl, key simnet.Kad, K, L int) {
	for _, p := range c.Peers {
		if c16MixedAddrs(c.addrsOf(p)) {
			s.Count("probe_crawled_peer_dns_name_next_to_ip")
			break
		}
	}
	if L <= 0 || len(c.Alt) == 0 {
		return
	}
	want := c.nearest(key, K)
	for i, p := range want {
		if _, ok := c.Alt[p]; ok {
			s.Count("probe_changed_peer_among_k_nearest_limit_set")
			if i < len(want)-1 {
				s.Count("probe_changed_peer_nearer_than_kth_limit_set")
			}
			break
		}
	}
}

// c16RefoundElsewhere: some peer found by both crawls is in other IP groups in cur than in prev.
func c16RefoundElsewhere(prev, cur *c16Crawl) bool {
	was := map[peer.ID]string{}
	for _, p := range prev.Peers {
		was[p.ID] = strings.Join(c16Groups(prev.addrsOf(p)), "|")
	}
	for _, p := range cur.Peers {
		if g, ok := was[p.ID]; ok && g != strings.Join(c16Groups(cur.addrsOf(p)), "|") {
			return true
		}
	}
	return false
}

func c16Filter(ps []*simnet.Peer, keep map[peer.ID]bool) []*simnet.Peer {
	var out []*simnet.Peer
	for _, p := range ps {
		if keep[p.ID] {
			out = append(out, p)
		}
	}
	return out
}

// ---------------------------------------------------------------------------
// fullrt-nearest / fullrt-ip-limit: stub crawler, reads between crawls

// runC16Nearest: after each completed crawl GetClosestPeers must be exact with
// respect to that crawl; while a crawl is still running, with respect to the
// previous one. With crowded=false no IP group ever holds more peers than the
// configured limit (or the limit is 0), so every result must equal the
// brute-force K nearest. crowded=true is the separate input class in which
// groups exceed the limit (rules ip-group-limit*, gcp-nearest only where its
// precondition holds).
//
// Between two crawls a drawn fraction of the peers changes addresses (other IP
// groups; the input class - crowded or not - is kept): the stub crawler finds
// them at the new ones, which replace the old ones in the host's peerstore.
// Every read is judged under the address assignment of the crawl it must
// reflect (c16Crawl.Addrs): "peers found by one single completed crawl ... at
// most the configured number ... per IP group" speaks of where THAT crawl found
// the peers, not of where an earlier crawl or an earlier look-up saw them.
func runC16Nearest(s *sim.Sim, crowded bool) {
	s.MaxSteps = 400
	n := c16Size(s, [2]int{1, 5}, [2]int{4, 14}, [2]int{10, 40})
	K := s.Range("k", 1, 8)
	var L int
	if crowded {
		L = s.Range("limit", 1, 3)
	} else {
		L = s.Draw("limit", 4)
	}
	u := simnet.NewUniverse(uint64(s.Draw("universe", 1<<16)), n)
	rng := newSubRng(s, "world")
	maxPerGroup := 0 // crowded
	switch {
	case crowded:
	case L > 0:
		maxPerGroup = L
		s.Count("probe_limit_set_not_biting")
	default:
		maxPerGroup = []int{0, n}[s.Draw("addr-spread", 2)]
	}
	// Share of peers advertising addresses without an IP (DNS names only, or a
	// DNS name next to IP addresses; see c16AssignAddrs): none, 1/8, 2/8 each.
	nonIP := []int{0, 2, 4}[s.Draw("addr-kinds", 3)]
	c16AssignAddrs(u, rng, maxPerGroup, nonIP)
	// For how many of the peers a crawl reports (none, up to one, up to two) the
	// host's peerstore entry is replaced - by DNS names only, or by nothing -
	// around the moment the crawl reports them (c16_addrchange.go).
	maxChanges := s.Draw("addr-change-while-reported", 3)
	// How many peers are found at other addresses by the next crawl: none, a
	// quarter, half of them. The class of the input (no group above the limit /
	// crowded) is the same for every crawl of the run.
	moveOf8 := []int{0, 2, 4}[s.Draw("addr-moves", 3)]
	interval := []time.Duration{10 * time.Minute, time.Hour}[s.Draw("interval", 2)]
	h := simhost.New(s, u.Self.ID, u.Self.Addrs, u.Name)
	wh := newC16Host(h)
	stub := &stubCrawler{S: s, H: h, PS: wh.PS}
	r, ctor := buildC16RT(s, u, h, c16RTOpts{Prefix: "/sim", K: K, SetK: true, L: L, SetL: true, Interval: interval, Host: wh,
		BulkPar: s.Range("bulk-par", 1, 4), Boot: c16PickPeers(u, rng, s.Range("boot", 0, 2)), SetBoot: true, Crawler: stub, SetSender: true, SetValid: true})
	s.Summary["cfg"] = fmt.Sprintf("N=%d K=%d limit=%d crowded=%v interval=%v addrMoves=%d/8 dnsNextToIP=%d/8 addrChanges<=%d", n, K, L, crowded, interval, moveOf8, nonIP, maxChanges)
	if r.RT == nil {
		s.Violate("ctor-failed", "NewFullRT with all options set failed: done=%v err=%v panic=%s", ctor.Done, ctor.Err, firstLine(ctor.Panic))
		r.close()
		s.Finish()
		return
	}
	invoked := func() bool { return parkedCrawl(s, "run") != nil }
	returned := map[peer.ID]bool{} // peers some read of this run has returned so far
	judge := func(what string, key string, c *c16Crawl) {
		res, ok := r.read(key)
		if !ok {
			return
		}
		for _, p := range res {
			returned[p] = true
		}
		s.Tracef("%s key=%s -> [%s]", what, key, names(u, res))
		if rule, msg := c16JudgeGCPAny(u, res, simnet.KadOfKey(key), K, L, c); rule != "" {
			s.Violate(rule, "GetClosestPeers(%s) after crawl %d (K=%d, limit=%d): %s", key, c.Idx, K, L, msg)
		}
		if len(res) < K {
			s.Count("probe_result_shorter_than_k")
		}
		c16AddrKindProbes(s, c, simnet.KadOfKey(key), K, L)
		if _, m := c.maxGroup(); L > 0 && m > L {
			s.Count("probe_ip_group_over_limit")
		} else if crowded {
			s.Count("probe_limit_precondition_holds")
		}
		s.State("res=%d crawl=%d", len(res), len(c.Peers))
	}
	key := func() string { return fmt.Sprintf("key-%d", s.Draw("key", 1<<16)) }

	prev := &c16Crawl{Idx: 0}
	rounds := s.Range("crawls", 1, 3)
	reads := 0
	for rd := 1; rd <= rounds && s.Step() && !s.Failed(); rd++ {
		if rd > 1 && !r.trigger(s.Chance("by-interval", 1, 3), interval, invoked) {
			s.Violate("crawl-not-started", "crawl %d was not started by TriggerRefresh / the crawl interval", rd)
			break
		}
		run := parkedCrawl(s, "run")
		if run == nil {
			s.Violate("crawl-not-started", "the initial crawl was not started by NewFullRT")
			break
		}
		if prev.Idx == 0 && s.Chance("read-before-first-crawl", 1, 3) {
			judge("before-crawl", key(), prev)
			reads++
		}
		if rd > 1 && moveOf8 > 0 {
			// the network changes between two crawls: some peers are at other addresses now
			k := c16MoveAddrs(u, rng, maxPerGroup, nonIP, func(int) bool { return rng.Intn(8) < moveOf8 })
			s.Tracef("%d peers changed IP groups", k)
		}
		spec := c16DrawSpec(s, u, rng)
		cur := newC16Crawl(rd, spec.OK)
		spec.Addrs = cur.Addrs
		if maxChanges > 0 {
			spec.Change = c16DrawChanges(rng, spec.OK, maxChanges)
		}
		c16MoveProbes(s, prev, cur, returned, L)
		s.Tracef("crawl %d reports ok={%s} fail=%d", rd, names(u, simnet.IDs(spec.OK)), len(spec.Fail))
		s.Release(run, spec)
		s.Quiesce()
		for _, p := range spec.OK {
			if ch := spec.Change[p.ID]; ch != nil && wh.PS.Fired(ch) {
				// the crawl found p at cur.Addrs[p] or at ch.New
				if cur.Alt == nil {
					cur.Alt = map[peer.ID][]ma.Multiaddr{}
				}
				cur.Alt[p.ID] = ch.New
				s.Count("probe_peerstore_entry_replaced_while_peer_reported")
				s.Tracef("%s: entry replaced after %d reads by %d addresses without an IP", p.Name, ch.AfterReads, len(ch.New))
			}
		}
		if s.Chance("read-during-crawl", 1, 2) {
			// Run has not returned: the table is still the previous crawl's
			s.Count("probe_read_during_crawl")
			judge("during-crawl", key(), prev)
			reads++
		}
		end := parkedCrawl(s, "end")
		if end == nil {
			s.Violate("harness", "stub crawler is not parked before returning")
			break
		}
		s.Release(end, nil)
		s.Quiesce()
		if s.Failed() {
			break
		}
		r.checkStat(cur)
		if prev.Idx > 0 {
			s.Count("probe_crawl_replaced_table")
		}
		for i, k := 0, s.Range("reads", 1, 4); i < k && !s.Failed(); i++ {
			judge(fmt.Sprintf("after-crawl-%d", rd), key(), cur)
			reads++
		}
		prev = cur
	}
	s.NonTrivial = reads > 0 && len(prev.Peers) > 0
	r.close()
	s.Finish()
}

// ---------------------------------------------------------------------------
// fullrt-swap-race: readers concurrent with the crawl swap, lock-site yields

type c16Reader struct {
	id      int
	key     string
	op      *Op
	started bool
	seen    bool
	lo, hi  int
}

// runC16SwapRace: while crawl i+1 is swapped in, readers run with every lock
// call of the repository being a yield point. Each result must be exact with
// respect to ONE of the crawls that can have been current during the call
// (the last crawl fully installed before the reader started .. the last crawl
// whose Run had returned when the reader was seen finished), never a mixture.
func runC16SwapRace(s *sim.Sim) {
	s.MaxSteps = 900
	n := s.Range("n", 2, 14)
	K := s.Range("k", 1, 5)
	L := s.Draw("limit", 3)
	u := simnet.NewUniverse(uint64(s.Draw("universe", 1<<16)), n)
	rng := newSubRng(s, "world")
	maxPerGroup := L
	if L <= 0 {
		maxPerGroup = []int{0, n}[s.Draw("addr-spread", 2)]
	}
	nonIP := []int{0, 2, 4}[s.Draw("addr-kinds", 3)] // peers advertising a DNS name next to their IPs, see runC16Nearest
	c16AssignAddrs(u, rng, maxPerGroup, nonIP)
	// peers found at other addresses by the next crawl (see runC16Nearest): each
	// candidate crawl is judged under its own address assignment
	moveOf8 := []int{0, 2, 4}[s.Draw("addr-moves", 3)]
	h := simhost.New(s, u.Self.ID, u.Self.Addrs, u.Name)
	stub := &stubCrawler{S: s, H: h}
	r, ctor := buildC16RT(s, u, h, c16RTOpts{Prefix: "/sim", K: K, SetK: true, L: L, SetL: true, Interval: time.Hour,
		Boot: c16PickPeers(u, rng, s.Range("boot", 0, 2)), SetBoot: true, Crawler: stub, SetSender: true, SetValid: true})
	s.Summary["cfg"] = fmt.Sprintf("N=%d K=%d limit=%d addrMoves=%d/8 dnsNextToIP=%d/8", n, K, L, moveOf8, nonIP)
	if r.RT == nil {
		s.Violate("ctor-failed", "NewFullRT with all options set failed: done=%v err=%v panic=%s", ctor.Done, ctor.Err, firstLine(ctor.Panic))
		r.close()
		s.Finish()
		return
	}
	invoked := func() bool { return parkedCrawl(s, "run") != nil }
	crawls := []*c16Crawl{{Idx: 0}}
	phases := s.Range("phases", 1, 3)
	judged, raced := 0, 0
	for ph := 0; ph <= phases && !s.Failed(); ph++ {
		if ph > 0 && !r.trigger(false, 0, invoked) {
			s.Violate("crawl-not-started", "crawl %d was not started by TriggerRefresh", ph+1)
			break
		}
		run := parkedCrawl(s, "run")
		if run == nil {
			s.Violate("crawl-not-started", "the initial crawl was not started by NewFullRT")
			break
		}
		if ph > 0 && moveOf8 > 0 {
			k := c16MoveAddrs(u, rng, maxPerGroup, nonIP, func(int) bool { return rng.Intn(8) < moveOf8 })
			s.Tracef("%d peers changed IP groups", k)
		}
		spec := c16DrawSpec(s, u, rng)
		cur := newC16Crawl(len(crawls), spec.OK)
		spec.Addrs = cur.Addrs
		if c16RefoundElsewhere(crawls[len(crawls)-1], cur) {
			s.Count("probe_swap_changes_ip_groups")
		}
		s.Tracef("crawl %d reports ok={%s}", cur.Idx, names(u, simnet.IDs(spec.OK)))
		s.Release(run, spec)
		s.Quiesce() // callbacks made; the stub is parked before returning
		var readers []*c16Reader
		if ph > 0 {
			for i, k := 0, s.Range("readers", 1, 4); i < k; i++ {
				rd := &c16Reader{id: i, key: fmt.Sprintf("key-%d", s.Draw("key", 1<<16))}
				tag := fmt.Sprintf("p%dr%d", ph, i)
				rd.op = r.Ops.Go(s, "GetClosestPeers", func() (any, error) {
					s.Park("client", tag, nil, rd)
					return r.RT.GetClosestPeers(sim.WithTag(context.Background(), tag), rd.key)
				})
				readers = append(readers, rd)
			}
			s.Quiesce()
		}
		// from here on every lock call of the repository is a scheduling point
		s.LockSched = true
		s.YieldSites["*"] = true
		ended := false
		observe := func() {
			for _, rd := range readers {
				if rd.op.Done && !rd.seen {
					rd.seen = true
					rd.hi = len(crawls) - 1
					if ended {
						rd.hi = len(crawls)
					}
				}
			}
		}
		for s.Step() {
			observe()
			if s.Failed() {
				break
			}
			var acts []sim.Action
			for _, p := range s.ParkedKind("client") {
				p := p
				rd := p.Data.(*c16Reader)
				acts = append(acts, sim.Action{ID: p.ID, Do: func() {
					rd.started, rd.lo = true, len(crawls)-1
					s.Release(p, nil)
				}})
			}
			if e := parkedCrawl(s, "end"); e != nil && !ended {
				acts = append(acts, sim.Action{ID: e.ID, Do: func() {
					ended = true
					for _, rd := range readers {
						if rd.started && !rd.op.Done {
							raced++
							s.Count("probe_swap_raced_by_reader")
							break
						}
					}
					s.Release(e, nil)
				}})
			}
			acts = append(acts, s.LockActions()...)
			if len(acts) == 0 {
				break
			}
			s.Choose("next", acts)
		}
		// settle: locks behave like plain mutexes again, everything runs out
		s.YieldSites["*"] = false
		s.LockSched = false
		s.Quiesce()
		observe()
		if !ended {
			if e := parkedCrawl(s, "end"); e != nil {
				s.Release(e, nil)
				s.Quiesce()
			}
		}
		if s.Failed() {
			break
		}
		crawls = append(crawls, cur)
		for _, rd := range readers {
			if !rd.seen {
				continue
			}
			if rd.op.Panic != "" {
				s.Violate("op-panic", "GetClosestPeers panicked during a crawl swap: %s", firstLine(rd.op.Panic))
				continue
			}
			if rd.op.Err != nil {
				s.Violate("gcp-error", "GetClosestPeers failed: %v", rd.op.Err)
				continue
			}
			res, _ := rd.op.Result.([]peer.ID)
			key := simnet.KadOfKey(rd.key)
			s.Tracef("phase %d reader %d key=%s -> [%s] candidates %d..%d", ph, rd.id, rd.key, names(u, res), rd.lo, rd.hi)
			judged++
			if rd.hi > rd.lo {
				s.Count("probe_reader_two_candidates")
			}
			okFor := -1
			lastRule, lastMsg := "", ""
			mixable := true // every candidate fails only on "which crawl's peers are these"
			union := map[peer.ID]bool{}
			for ci := rd.lo; ci <= rd.hi; ci++ {
				for _, p := range crawls[ci].Peers {
					union[p.ID] = true
				}
				rule, msg := c16JudgeGCP(u, res, key, K, L, crawls[ci])
				if rule == "" {
					okFor = ci
					break
				}
				lastRule, lastMsg = rule, msg
				mixable = mixable && (rule == "gcp-foreign" || rule == "gcp-nearest" || rule == "ip-group-own-address-counted")
			}
			if okFor >= 0 {
				s.State("race lo=%d hi=%d ok=%d", rd.lo, rd.hi, okFor-rd.lo)
				continue
			}
			shapeOK := len(res) <= K
			for i, p := range res {
				shapeOK = shapeOK && union[p]
				if i > 0 {
					shapeOK = shapeOK && simnet.KadOfPeer(res[i-1]).Xor(key).Less(simnet.KadOfPeer(p).Xor(key))
				}
			}
			if rd.hi > rd.lo && shapeOK && mixable {
				var exp []string
				for ci := rd.lo; ci <= rd.hi; ci++ {
					exp = append(exp, fmt.Sprintf("crawl %d: [%s]", ci, names(u, crawls[ci].nearest(key, K))))
				}
				s.Violate("mixed-crawl-result", "GetClosestPeers(%s) running while crawl %d was swapped in returned [%s], which is exact for none of the crawls it can have seen (K=%d nearest of %s). On the snapshot: the reader (fullrt/dht.go GetClosestPeers takes rtLk, kMapLk, peerAddrsLk in that order) interleaves with runCrawler's swap, which replaces peerAddrs, keyToPeerMap and rt under one lock at a time in the opposite order",
					rd.key, rd.hi, names(u, res), K, strings.Join(exp, "; "))
				continue
			}
			s.Violate(lastRule, "GetClosestPeers(%s) (candidates crawl %d..%d, K=%d, limit=%d): %s", rd.key, rd.lo, rd.hi, K, L, lastMsg)
		}
		if !s.Failed() {
			r.checkStat(cur)
		}
	}
	s.NonTrivial = judged > 0 && raced > 0
	r.close()
	s.Finish()
}

// ---------------------------------------------------------------------------
// fullrt-crawl / fullrt-recrawl: the real crawler inside FullRT

// runC16FullCrawl: FullRT with crawler.DefaultCrawler over the simulator
// (parallelism above the number of peers, see runC16Crawler). After a crawl
// the crawler oracle is evaluated on what reached the seams, Stat() must list
// exactly the peers reported as successfully queried, and GetClosestPeers must
// be exact with respect to them. With recrawl a second crawl runs over a
// changed network; FullRT seeds it with the previous crawl's peers plus the
// bootstrap peers.
func runC16FullCrawl(s *sim.Sim, recrawl bool) {
	s.MaxSteps = 2500
	n := c16Size(s, [2]int{1, 4}, [2]int{3, 9}, [2]int{8, 16})
	K := s.Range("k", 1, 6)
	L := s.Draw("limit", 3)
	u := simnet.NewUniverse(uint64(s.Draw("universe", 1<<16)), n)
	rng := newSubRng(s, "world")
	nonIP := []int{0, 2, 4}[s.Draw("addr-kinds", 3)] // peers advertising a DNS name next to their IPs, see runC16Nearest
	if L > 0 {
		c16AssignAddrs(u, rng, L, nonIP)
	} else {
		c16AssignAddrs(u, rng, []int{0, n}[s.Draw("addr-spread", 2)], nonIP)
	}
	faultLevel := s.Draw("fault-level", 3)
	w := genC16World(s, u, rng, faultLevel)
	h := simhost.New(s, u.Self.ID, u.Self.Addrs, u.Name)
	// The host knows every peer's (harness-assigned) addresses permanently, so
	// that what FullRT reads back from the peerstore for a crawled peer does not
	// depend on address TTLs (not part of C16).
	for _, p := range u.Peers {
		h.Peerstore().AddAddrs(p.ID, p.Addrs, peerstore.PermanentAddrTTL)
	}
	// ... and, like a real host (identify), keeps the addresses of a peer it is
	// connected to for as long as the connection lasts. Only matters for peers
	// the host has forgotten between two crawls (see below): the addresses the
	// dial was made with would otherwise lapse after the peerstore's short
	// "temporary" TTL while the crawl is still running.
	w.OnDialOK = func(p peer.ID) {
		if q := u.ByID(p); q != nil {
			h.Peerstore().AddAddrs(p, q.Addrs, peerstore.PermanentAddrTTL)
		}
	}
	forget := 0
	if recrawl {
		forget = s.Draw("forget", 3)
	}
	// How often virtual time jumps while a crawl is running (a jump of seconds
	// or minutes makes every dial and query in flight time out): never, rarely,
	// often. A crawl takes 16 scheduler steps per peer, so with frequent jumps
	// hardly any peer is ever queried completely and the table stays empty -
	// the second crawl needs a first one that found somebody.
	tickDen := []int{0, 64, 12}[s.Draw("time-jumps", 3)]
	snd := &c16Sender{S: s, U: u}
	connectTimeout := []time.Duration{time.Second, 5 * time.Second, time.Minute}[s.Draw("connect-timeout", 3)]
	dc, err := crawler.NewDefaultCrawler(h,
		crawler.WithParallelism(2*n+4),
		crawler.WithConnectTimeout(connectTimeout),
		crawler.WithCustomMessageSender(func(host.Host, []protocol.ID) pb.MessageSenderWithDisconnect { return snd }))
	if err != nil {
		s.Violate("ctor-error", "NewDefaultCrawler failed: %v", err)
		_ = h.Close()
		s.Finish()
		return
	}
	oc := &obsCrawler{Inner: dc, H: h}
	boot := c16PickPeers(u, rng, s.Range("boot", 1, 3))
	r, ctor := buildC16RT(s, u, h, c16RTOpts{Prefix: "/sim", K: K, SetK: true, L: L, SetL: true, Interval: time.Hour,
		Boot: boot, SetBoot: true, Crawler: oc, SetSender: true, SetValid: true})
	s.Summary["cfg"] = fmt.Sprintf("N=%d K=%d limit=%d boot=%d faults=%d connectTimeout=%v recrawl=%v forget=%d timeJumps=1/%d dnsNextToIP=%d/8", n, K, L, len(boot), faultLevel, connectTimeout, recrawl, forget, tickDen, nonIP)
	if r.RT == nil {
		s.Violate("ctor-failed", "NewFullRT with all options set failed: done=%v err=%v panic=%s", ctor.Done, ctor.Err, firstLine(ctor.Panic))
		r.close()
		s.Finish()
		return
	}

	crawl := func(o *crawlObs) bool {
		idle := 0
		for s.Step() {
			o.checkOnce(s, u, h, snd)
			if s.Failed() {
				return false
			}
			if o.isReturned() {
				return true
			}
			if tickDen > 0 && s.Chance("tick", 1, tickDen) {
				d := []time.Duration{10 * time.Millisecond, 700 * time.Millisecond, 3 * time.Second, 20 * time.Second, 4 * time.Minute}[s.Draw("tick-d", 5)]
				s.Sleep(d)
				s.Count("time_advance")
			}
			acts := w.crawlActions(o)
			if len(acts) == 0 {
				idle++
				if idle > 5 {
					break
				}
				s.Sleep(time.Second)
				continue
			}
			idle = 0
			s.Choose("next", acts)
		}
		if !o.isReturned() && !s.Failed() {
			if s.Steps > s.MaxSteps {
				s.Count("step_budget_exhausted")
			} else {
				s.Violate("run-hang", "crawl %d did not return although no dial or request is outstanding", o.N)
			}
		}
		return o.isReturned()
	}
	after := func(o *crawlObs) *c16Crawl {
		if left := len(s.ParkedKind("dial")) + len(s.ParkedKind("rpc")); left > 0 {
			s.Violate("work-after-return", "crawler.Run returned while %d dial(s)/request(s) of the crawl are still outstanding", left)
		}
		checkCrawl(s, u, h, snd, o)
		cur := &c16Crawl{Idx: o.N, Peers: o.successSet(u)}
		s.Tracef("%s", o.summary(u))
		if s.Failed() {
			return cur
		}
		r.checkStat(cur)
		for i, k := 0, s.Range("reads", 1, 3); i < k && !s.Failed(); i++ {
			key := fmt.Sprintf("key-%d", s.Draw("key", 1<<16))
			res, ok := r.read(key)
			if !ok {
				break
			}
			s.Tracef("after-crawl-%d key=%s -> [%s]", o.N, key, names(u, res))
			if rule, msg := c16JudgeGCP(u, res, simnet.KadOfKey(key), K, L, cur); rule != "" {
				s.Violate(rule, "GetClosestPeers(%s) after crawl %d (K=%d, limit=%d): %s", key, cur.Idx, K, L, msg)
			}
		}
		s.State("crawl ok=%d of %d", len(cur.Peers), n)
		return cur
	}

	o1 := oc.current()
	if o1 == nil {
		s.Violate("crawl-not-started", "the initial crawl was not started by NewFullRT")
		r.close()
		s.Finish()
		return
	}
	var c1, c2 *c16Crawl
	if crawl(o1) {
		c1 = after(o1)
	}
	if recrawl && c1 != nil && !s.Failed() {
		// the network changes: some peers fail now, some recover, some learn new peers
		for _, p := range u.Peers {
			b := w.Beh[p.ID]
			switch rng.Intn(6) {
			case 0:
				b.DialFail = !b.DialFail
				if b.DialFail {
					h.Net().SetConnected(p.ID, false)
				}
			case 1:
				b.FailAt = rng.Intn(c16QueryBuckets+4) - 4
				if b.FailAt < 0 {
					b.FailAt = -1
				}
			case 2:
				w.addRef(b, u.Peers[rng.Intn(n)], rng)
			}
		}
		// ... and the host forgets some of the peers it found: the connection is
		// gone and the peerstore entry has lapsed (on a real host the addresses of
		// a disconnected peer are kept for a limited time, well below the default
		// crawl interval). FullRT seeds the next crawl with the bare ids of all
		// peers of the previous crawl, so these are seeds without any address:
		// the crawl reaches them only if a queried peer names them or if they are
		// bootstrap peers as well (listed again, with addresses, further down the
		// seed list).
		if forget > 0 {
			for _, p := range c1.Peers {
				if rng.Intn(8) < []int{0, 2, 5}[forget] {
					h.Net().SetConnected(p.ID, false)
					h.Peerstore().ClearAddrs(p.ID)
					s.Count("probe_host_forgot_crawled_peer")
				}
			}
		}
		markDial, markLog := len(h.DialLog), len(snd.Snapshot())
		if !r.trigger(false, 0, func() bool { return oc.numRuns() == 2 }) {
			s.Violate("crawl-not-started", "the second crawl was not started by TriggerRefresh")
		} else {
			s.Count("probe_second_crawl")
			o2 := oc.current()
			o2.dialFrom, o2.logFrom = markDial, markLog
			seen := map[peer.ID]bool{}
			for _, p := range o2.seeds {
				if seen[p] {
					s.Count("probe_dup_seed")
					break
				}
				seen[p] = true
			}
			for _, p := range c1.Peers {
				if !o2.seedHasAddr[p.ID] {
					s.Count("probe_seed_without_address")
					break
				}
			}
			if crawl(o2) {
				c2 = after(o2)
			}
		}
	}
	s.NonTrivial = c1 != nil && len(c1.Peers) >= 1 && (!recrawl || c2 != nil)
	r.close()
	s.Finish()
}

// ---------------------------------------------------------------------------
// fullrt-empty-and-options / fullrt-bulk-empty / fullrt-ctor-no-bootstrap

func c16Cid(key string) (cid.Cid, mh.Multihash) {
	h, err := mh.Sum([]byte(key), mh.SHA2_256, -1)
	if err != nil {
		panic(err)
	}
	return cid.NewCidV1(cid.Raw, h), h
}

// runC16Empty: operations on an EMPTY table (the crawl has not finished, or it
// found nobody) and construction with optional options omitted must return -
// an error or a result - within a generous virtual-time bound, never panic
// (caller-goroutine panics are recovered into Op.Panic) and never hang.
//
// mode "options": every single operation, bulk operations with empty key
// lists, each optional option omitted with probability 1/4 (the bootstrap
// option is always given).
// mode "bulk":    ProvideMany / PutMany with keys on the empty table (separate
// input class, rule bulk-empty-table-panic).
// mode "noboot":  the bootstrap-peers option omitted (separate input class,
// rule ctor-nil-bootstrap-panic).
func runC16Empty(s *sim.Sim, mode string) {
	s.MaxSteps = 900
	const bound = 10 * time.Minute // generous: every time-out the options can set is <= 1 min
	n := s.Range("n", 1, 4)
	u := simnet.NewUniverse(uint64(s.Draw("universe", 1<<16)), n)
	rng := newSubRng(s, "world")
	h := simhost.New(s, u.Self.ID, u.Self.Addrs, u.Name)
	var omitted []string
	omit := func(name string) bool {
		if s.Chance("omit-"+name, 1, 4) {
			s.Count("probe_option_omitted")
			omitted = append(omitted, name)
			return true
		}
		return false
	}
	o := c16RTOpts{Prefix: []protocol.ID{"/sim", ""}[s.Draw("prefix", 2)]}
	o.K, o.SetK = s.Range("k", 1, 6), !omit("bucket-size")
	o.L, o.SetL = s.Draw("limit", 4), !omit("ip-limit")
	if !omit("crawl-interval") {
		o.Interval = []time.Duration{time.Minute, time.Hour}[s.Draw("interval", 2)]
	}
	if !omit("bulk-parallelism") {
		o.BulkPar = s.Range("bulk-par", 1, 4)
	}
	if !omit("wait-fraction") {
		o.WaitFrac = []float64{0.1, 0.5, 1}[s.Draw("wait-frac", 3)]
	}
	if !omit("timeout-per-op") {
		o.Timeout = []time.Duration{time.Second, time.Minute}[s.Draw("timeout", 2)]
	}
	o.SetSender = !omit("message-sender")
	o.SetValid = !omit("validator")
	o.PMOpts = !omit("provider-manager-options")
	o.Boot, o.SetBoot = c16PickPeers(u, rng, s.Range("boot", 0, 2)), true
	if mode == "noboot" {
		o.SetBoot = false
		omitted = append(omitted, "bootstrap-peers")
		s.Count("probe_bootstrap_option_omitted")
		// NewFullRT starts the provider manager's collector goroutine before it
		// reads the bootstrap option; if it then panics nobody holds a handle to
		// stop that goroutine and the run could not end cleanly. Providers are
		// therefore disabled in this input class.
		o.NoProv = true
	}
	// how the table stays empty
	var stub *stubCrawler
	blockCrawl := false
	crawlerKind := "stub"
	switch {
	case omit("crawler"):
		crawlerKind = "default"
	case s.Chance("real-crawler", 1, 3):
		crawlerKind = "real"
		snd := &c16Sender{S: s, U: u}
		dc, err := crawler.NewDefaultCrawler(h, crawler.WithParallelism(n+2),
			crawler.WithCustomMessageSender(func(host.Host, []protocol.ID) pb.MessageSenderWithDisconnect { return snd }))
		if err != nil {
			panic(err)
		}
		o.Crawler = dc
	default:
		stub = &stubCrawler{S: s, H: h}
		o.Crawler = stub
		blockCrawl = s.Chance("crawl-blocked", 1, 2)
	}
	if blockCrawl {
		s.Count("probe_crawl_blocked")
	} else {
		s.Count("probe_crawl_found_nobody")
	}
	s.Summary["cfg"] = fmt.Sprintf("mode=%s prefix=%q crawler=%s blocked=%v boot=%d omitted=%v", mode, o.Prefix, crawlerKind, blockCrawl, len(o.Boot), omitted)

	r, ctor := buildC16RT(s, u, h, o)
	switch {
	case ctor.Panic != "":
		if !o.SetBoot && strings.Contains(ctor.Panic, "nil pointer dereference") {
			s.Violate("ctor-nil-bootstrap-panic", "NewFullRT without a bootstrap-peers option panicked: %s (fullrt/dht.go NewFullRT calls dhtcfg.BootstrapPeers() unconditionally; the field is nil unless the option is given)", firstLine(ctor.Panic))
		} else {
			s.Violate("ctor-panic", "NewFullRT panicked (omitted options %v): %s", omitted, firstLine(ctor.Panic))
		}
	case !ctor.Done:
		s.Violate("ctor-hang", "NewFullRT did not return (omitted options %v)", omitted)
	case ctor.Err != nil:
		// an error is an acceptable way to refuse a configuration
		s.Count("probe_ctor_error")
		s.Tracef("ctor error")
	}
	if r.RT == nil {
		s.Tracef("no instance")
		r.close()
		s.Finish()
		return
	}

	// pump answers everything the network is asked with failures (the table
	// must stay empty) until op is done or the bound has passed.
	pump := func(done func() bool) bool {
		start := s.Now()
		for s.Step() {
			if done() {
				return true
			}
			var pick *sim.Parked
			for _, p := range s.Parked() {
				if p.Kind == "crawl" && blockCrawl && !p.Cancelled() {
					continue
				}
				pick = p
				break
			}
			if pick == nil {
				if s.Now()-start > bound {
					return done()
				}
				s.Sleep(15 * time.Second)
				continue
			}
			switch {
			case pick.Cancelled():
				s.ReleaseCancelled(pick)
			case pick.Kind == "crawl":
				s.Release(pick, &crawlSpec{})
			case pick.Kind == "dial":
				if s.Chance("dial-ok", 1, 3) {
					s.Release(pick, nil)
				} else {
					s.Count("fault_dial_fail")
					s.Release(pick, simhost.ErrDialFailed)
				}
			case pick.Kind == "rpc":
				s.Count("fault_rpc_error")
				s.Release(pick, simnet.Reply{Err: errReqFailed})
			default:
				s.Release(pick, nil)
			}
			s.Quiesce()
		}
		return done()
	}
	// let the initial crawl run (unless it is to stay blocked)
	pump(func() bool {
		for _, p := range s.Parked() {
			if !(p.Kind == "crawl" && blockCrawl) {
				return false
			}
		}
		return true
	})

	type opDef struct {
		name string
		f    func(ctx context.Context) (any, error)
	}
	// arguments are drawn on the simulator goroutine before an operation starts
	var argKey string
	var argPeer peer.ID
	var argCount int
	drawArgs := func() {
		argKey = fmt.Sprintf("k%d", s.Draw("key", 64))
		argCount = s.Draw("count", 3)
		switch i := s.Draw("peer", n+2); {
		case i < n:
			argPeer = u.Peers[i].ID
		case i == n:
			argPeer = u.Self.ID
		default:
			argPeer = simnet.MakeID(0xbeef, 1)
		}
	}
	someKey := func() string { return argKey }
	somePeer := func() peer.ID { return argPeer }
	drainProv := func(ch <-chan peer.AddrInfo) int {
		k := 0
		for range ch {
			k++
		}
		return k
	}
	var menu []opDef
	if mode == "bulk" {
		nk := s.Range("bulk-keys", 1, 4)
		var mhs []mh.Multihash
		var keys []string
		var vals [][]byte
		for i := 0; i < nk; i++ {
			_, m := c16Cid(fmt.Sprintf("bulk-%d", i))
			mhs = append(mhs, m)
			k := fmt.Sprintf("/v/bulk-%d", i)
			keys = append(keys, k)
			vals = append(vals, rankValue(1, time.Time{}, k))
		}
		menu = []opDef{
			{"ProvideMany", func(ctx context.Context) (any, error) { return nil, r.RT.ProvideMany(ctx, mhs) }},
			{"PutMany", func(ctx context.Context) (any, error) { return nil, r.RT.PutMany(ctx, keys, vals) }},
		}
		s.Count("probe_bulk_on_empty_table")
	} else {
		menu = []opDef{
			{"GetClosestPeers", func(ctx context.Context) (any, error) { return r.RT.GetClosestPeers(ctx, someKey()) }},
			{"Provide", func(ctx context.Context) (any, error) {
				c, _ := c16Cid(someKey())
				return nil, r.RT.Provide(ctx, c, true)
			}},
			{"Provide(local)", func(ctx context.Context) (any, error) {
				c, _ := c16Cid(someKey())
				return nil, r.RT.Provide(ctx, c, false)
			}},
			{"PutValue", func(ctx context.Context) (any, error) {
				k := "/v/" + someKey()
				return nil, r.RT.PutValue(ctx, k, rankValue(1, time.Time{}, k))
			}},
			{"GetValue", func(ctx context.Context) (any, error) { return r.RT.GetValue(ctx, "/v/"+someKey()) }},
			{"SearchValue", func(ctx context.Context) (any, error) {
				ch, err := r.RT.SearchValue(ctx, "/v/"+someKey())
				if err != nil {
					return nil, err
				}
				k := 0
				for range ch {
					k++
				}
				return k, nil
			}},
			{"FindPeer", func(ctx context.Context) (any, error) { return r.RT.FindPeer(ctx, somePeer()) }},
			{"FindProvidersAsync", func(ctx context.Context) (any, error) {
				c, _ := c16Cid(someKey())
				return drainProv(r.RT.FindProvidersAsync(ctx, c, argCount)), nil
			}},
			{"FindProviders", func(ctx context.Context) (any, error) {
				c, _ := c16Cid(someKey())
				return r.RT.FindProviders(ctx, c)
			}},
			{"ProvideMany(no keys)", func(ctx context.Context) (any, error) { return nil, r.RT.ProvideMany(ctx, nil) }},
			{"PutMany(no keys)", func(ctx context.Context) (any, error) { return nil, r.RT.PutMany(ctx, nil, nil) }},
			{"CheckPeers", func(ctx context.Context) (any, error) {
				a, b := r.RT.CheckPeers(ctx)
				return a + b, nil
			}},
			{"Bootstrap/Ready/Stat", func(ctx context.Context) (any, error) {
				err := r.RT.Bootstrap(ctx)
				_ = r.RT.Ready()
				return len(r.RT.Stat()), err
			}},
		}
	}
	nOps := s.Range("ops", 2, 8)
	done := 0
	for i := 0; i < nOps && !s.Failed() && s.Steps <= s.MaxSteps; i++ {
		if len(r.RT.Stat()) != 0 {
			s.Count("probe_table_not_empty")
			break
		}
		d := menu[s.Draw("op", len(menu))]
		drawArgs()
		ctx := sim.WithTag(context.Background(), fmt.Sprintf("e%02d", i))
		op := r.Ops.Go(s, d.name, func() (any, error) { return d.f(ctx) })
		s.Quiesce()
		s.Count("probe_empty_table_op")
		finished := pump(func() bool { return op.Done })
		switch {
		case op.Panic != "" && mode == "bulk" && strings.Contains(op.Panic, "divide by zero"):
			s.Violate("bulk-empty-table-panic", "%s on an empty routing table panicked: %s (fullrt/dht.go bulkMessageSend divides the chunk size by the number of peers in the table)", d.name, firstLine(op.Panic))
		case op.Panic != "":
			s.Violate("op-panic", "%s on an empty routing table panicked (omitted options %v): %s", d.name, omitted, firstLine(op.Panic))
		case !finished && s.Steps > s.MaxSteps:
			s.Count("step_budget_exhausted")
		case !finished:
			s.Violate("op-hang", "%s on an empty routing table did not return within %v of virtual time although every dial and request was answered (omitted options %v)", d.name, bound, omitted)
		default:
			done++
			s.Tracef("%s -> err=%v", d.name, op.Err != nil)
			s.State("%s err=%v", d.name, op.Err != nil)
		}
	}
	s.NonTrivial = done > 0
	r.close()
	s.Finish()
}

// runC16NoBucket: NewFullRT without a bucket-size option, a crawl that finds
// peers, then GetClosestPeers. The bucket size in force is the repository's
// default, which the oracle does not know: it only demands that the call
// returns, without panic, a duplicate-free ascending list of crawled peers.
func runC16NoBucket(s *sim.Sim) {
	s.MaxSteps = 200
	n := s.Range("n", 1, 30)
	u := simnet.NewUniverse(uint64(s.Draw("universe", 1<<16)), n)
	rng := newSubRng(s, "world")
	c16AssignAddrs(u, rng, n, []int{0, 2, 4}[s.Draw("addr-kinds", 3)])
	h := simhost.New(s, u.Self.ID, u.Self.Addrs, u.Name)
	stub := &stubCrawler{S: s, H: h}
	r, ctor := buildC16RT(s, u, h, c16RTOpts{Prefix: "/sim", L: 0, SetL: true, Interval: time.Hour, SetBoot: true, Crawler: stub, SetSender: true, SetValid: true})
	s.Summary["cfg"] = fmt.Sprintf("N=%d bucket size omitted", n)
	if r.RT == nil {
		if ctor.Panic != "" {
			s.Violate("ctor-panic", "NewFullRT without a bucket-size option panicked: %s", firstLine(ctor.Panic))
		}
		r.close()
		s.Finish()
		return
	}
	s.Count("probe_bucket_size_omitted_nonempty_table")
	spec := c16DrawSpec(s, u, rng)
	if len(spec.OK) == 0 {
		spec.OK = u.Peers[:1]
	}
	cur := &c16Crawl{Idx: 1, Peers: spec.OK}
	if run := parkedCrawl(s, "run"); run != nil {
		s.Release(run, spec)
		s.Quiesce()
	}
	if end := parkedCrawl(s, "end"); end != nil {
		s.Release(end, nil)
		s.Quiesce()
	}
	for i := 0; i < 3 && !s.Failed(); i++ {
		key := fmt.Sprintf("key-%d", s.Draw("key", 1<<16))
		res, ok := r.read(key)
		if !ok {
			break
		}
		s.Tracef("read key=%s -> %d peers", key, len(res))
		if rule, msg := c16JudgeGCP(u, res, simnet.KadOfKey(key), len(res), 0, &c16Crawl{Idx: 1, Peers: cur.Peers}); rule != "" && rule != "gcp-nearest" {
			s.Violate(rule, "GetClosestPeers(%s) without a bucket-size option: %s", key, msg)
		}
	}
	s.NonTrivial = true
	r.close()
	s.Finish()
}
