//go:build all || c19

package scen

// Reference model of the provide / reprovide queues for property C19, written
// from the documented contract (doc comments of provider/internal/queue and
// the property text), not from the implementation:
//
//   - the queue is an ordered list of (prefix, key set) entries; prefixes are
//     unique and no prefix is a prefix of another one; every entry holds at
//     least one key; a key is in the queue at most once;
//   - Enqueue(p, keys): an entry whose prefix equals p, or is shorter than and
//     covers p, receives the keys in place; otherwise, if entries with longer
//     prefixes under p exist, they are all replaced by ONE entry (p, union) at
//     the position of the first of them; otherwise (p, keys) goes to the end;
//   - Dequeue: removes and returns the first entry (all and only its keys);
//     ("", nothing, false) on an empty queue;
//   - DequeueMatching(p): removes and returns every queued key under p; entries
//     left without keys disappear, the others keep their position;
//   - Remove(keys): removes the keys; entries left without keys disappear;
//   - Size = number of keys, NumRegions = number of entries, IsEmpty, Clear
//     (returns the number of keys removed);
//   - Persist returned nil: the datastore now holds exactly the queue (list
//     order, prefixes, keys); the queue itself is unchanged;
//   - DrainDatastore returned nil: the persisted entries were added to the
//     queue in their persisted order (as by Enqueue) and the datastore is empty.
//
// Corners the documentation leaves open are NOT constrained (see c19.go,
// "unconstrained corners").
//
// The model is purely functional (porcupine requirement): no function below
// mutates its arguments.

import (
	"slices"
	"strings"
)

// c19ID is the index of a key in the key pool.
type c19ID = uint16

// c19PoolSize: enough keys for several hundred disjoint regions (the thorough
// tier persists queues of up to 900 regions).
const c19PoolSize = 2048

// c19Ent is one queue entry: a prefix and the sorted ids (indices into the key
// pool) of its keys. The reprovide queue uses entries without keys.
type c19Ent struct {
	P string
	K []c19ID
}

// c19State is the abstract state: the queue, and what the datastore holds.
type c19State struct {
	ents []c19Ent
	// havoc: the queue content is not known any more (an additive drain
	// failed half-way, or drained a datastore of unknown content). Every
	// output is accepted until a Clear makes the content known again.
	havoc bool
	// pk: the datastore content is known and equals pers.
	pk    bool
	pers  []c19Ent
	canon string
}

func c19IsPrefix(short, long string) bool { return strings.HasPrefix(long, short) }

func c19Union(a, b []c19ID) []c19ID {
	out := make([]c19ID, 0, len(a)+len(b))
	out = append(out, a...)
	out = append(out, b...)
	slices.Sort(out)
	return slices.Compact(out)
}

func c19Minus(a []c19ID, drop func(c19ID) bool) []c19ID {
	out := make([]c19ID, 0, len(a))
	for _, x := range a {
		if !drop(x) {
			out = append(out, x)
		}
	}
	return out
}

func c19EqKeys(a, b []c19ID) bool {
	if len(a) != len(b) {
		return false
	}
	for i := range a {
		if a[i] != b[i] {
			return false
		}
	}
	return true
}

func c19EqEnts(a, b []c19Ent) bool {
	if len(a) != len(b) {
		return false
	}
	for i := range a {
		if a[i].P != b[i].P || !c19EqKeys(a[i].K, b[i].K) {
			return false
		}
	}
	return true
}

func c19CopyEnts(a []c19Ent) []c19Ent { return append([]c19Ent(nil), a...) }

func c19NKeys(a []c19Ent) int {
	n := 0
	for _, e := range a {
		n += len(e.K)
	}
	return n
}

// c19Info reports which corner of the contract an operation exercised
// (reach probes; filled only by the sequential replay, never by porcupine).
type c19Info struct {
	existed      bool // enqueue joined an entry with the same prefix
	covered      bool // enqueue under a prefix covered by a shorter one
	absorbed     int  // enqueue replaced that many longer prefixes
	absorbedGap  bool // ... which were not adjacent in the queue
	partial      bool // dequeue-matching took only part of an entry
	multi        bool // dequeue-matching removed several entries
	emptied      bool // remove / dequeue-matching dropped an emptied entry
	removedKeys  int
	absentRemove bool
}

// mEnqueue implements the Enqueue contract. withKeys=false is the reprovide
// queue (prefixes only).
func c19MEnqueue(ents []c19Ent, p string, keys []c19ID, info *c19Info) []c19Ent {
	// same prefix, or covered by a shorter one: join in place
	for i, e := range ents {
		if c19IsPrefix(e.P, p) {
			if info != nil {
				if e.P == p {
					info.existed = true
				} else {
					info.covered = true
				}
			}
			out := c19CopyEnts(ents)
			out[i].K = c19Union(e.K, keys)
			return out
		}
	}
	// longer prefixes under p: consolidate at the position of the first
	first, last, n := -1, -1, 0
	merged := c19Union(nil, keys)
	out := make([]c19Ent, 0, len(ents)+1)
	for i, e := range ents {
		if c19IsPrefix(p, e.P) {
			if first < 0 {
				first = i
				out = append(out, c19Ent{P: p}) // placeholder
			}
			last = i
			n++
			merged = c19Union(merged, e.K)
			continue
		}
		out = append(out, e)
	}
	if first >= 0 {
		out[first].K = merged
		if info != nil {
			info.absorbed = n
			info.absorbedGap = last-first+1 > n
		}
		return out
	}
	return append(out, c19Ent{P: p, K: merged})
}

// c19MDequeueMatching removes all keys under p. bits gives the bit string of a
// key id.
func c19MDequeueMatching(ents []c19Ent, p string, bits func(c19ID) string, info *c19Info) ([]c19Ent, []c19ID) {
	var got []c19ID
	out := make([]c19Ent, 0, len(ents))
	removed := 0
	for _, e := range ents {
		switch {
		case c19IsPrefix(p, e.P): // entry lies under p entirely
			got = c19Union(got, e.K)
			removed++
		case c19IsPrefix(e.P, p): // entry covers p: take the matching keys only
			rest := c19Minus(e.K, func(k c19ID) bool { return c19IsPrefix(p, bits(k)) })
			taken := c19Minus(e.K, func(k c19ID) bool { return !c19IsPrefix(p, bits(k)) })
			got = c19Union(got, taken)
			if len(rest) == 0 {
				removed++
				if info != nil {
					info.emptied = true
				}
			} else {
				if info != nil && len(taken) > 0 {
					info.partial = true
				}
				out = append(out, c19Ent{P: e.P, K: rest})
			}
		default:
			out = append(out, e)
		}
	}
	if info != nil {
		info.multi = removed > 1
		info.removedKeys = len(got)
	}
	return out, c19Union(got, nil)
}

func c19MRemove(ents []c19Ent, keys []c19ID, info *c19Info) []c19Ent {
	out := make([]c19Ent, 0, len(ents))
	hit := 0
	for _, e := range ents {
		rest := c19Minus(e.K, func(k c19ID) bool { return slices.Contains(keys, k) })
		hit += len(e.K) - len(rest)
		if len(rest) == 0 {
			if info != nil {
				info.emptied = true
			}
			continue
		}
		out = append(out, c19Ent{P: e.P, K: rest})
	}
	if info != nil {
		info.removedKeys = hit
		info.absentRemove = hit < len(c19Union(nil, keys))
	}
	return out
}

// c19MRemovePrefix is ReprovideQueue.Remove: drops p or every longer prefix
// under it; reports whether anything was dropped.
func c19MRemovePrefix(ents []c19Ent, p string) ([]c19Ent, bool) {
	out := make([]c19Ent, 0, len(ents))
	for _, e := range ents {
		if !c19IsPrefix(p, e.P) {
			out = append(out, e)
		}
	}
	return out, len(out) != len(ents)
}

// c19BatchInfo reports which corners a multi-prefix ReprovideQueue.Enqueue
// call exercised (reach probes only).
type c19BatchInfo struct {
	dup                   bool // a prefix occurs twice in the call
	coveredByEarlier      bool // a prefix lies under a shorter, earlier prefix of the call
	absorbsEarlier        bool // a prefix absorbs an entry that an earlier prefix of the same call appended
	absorbsEarlierNotLast bool // ... while entries that it does not absorb are queued behind that entry: the position shows
	empty                 bool // the call has several prefixes, one of them the empty prefix
}

// c19MBatchInfo walks a multi-prefix enqueue through the model, one prefix at
// a time in argument order.
func c19MBatchInfo(ents []c19Ent, prefixes []string) c19BatchInfo {
	var bi c19BatchInfo
	if len(prefixes) < 2 {
		return bi
	}
	own := map[string]bool{} // entries that exist because of this call
	for i, p := range prefixes {
		if p == "" {
			bi.empty = true
		}
		for _, q := range prefixes[:i] {
			if q == p {
				bi.dup = true
			} else if c19IsPrefix(q, p) {
				bi.coveredByEarlier = true
			}
		}
		absorbing, ownAbsorbed, behind := false, false, false
		for _, e := range ents {
			switch {
			case e.P != p && c19IsPrefix(p, e.P):
				absorbing = true
				ownAbsorbed = ownAbsorbed || own[e.P]
			case absorbing:
				behind = true
			}
		}
		if ownAbsorbed {
			bi.absorbsEarlier = true
			if behind {
				bi.absorbsEarlierNotLast = true
			}
		}
		var info c19Info
		next := c19MEnqueue(ents, p, nil, &info)
		if !info.existed && !info.covered {
			own[p] = true
		}
		ents = next
	}
	return bi
}

func c19Canon(st *c19State) string {
	var b strings.Builder
	w := func(ents []c19Ent) {
		for _, e := range ents {
			b.WriteString(e.P)
			b.WriteByte(':')
			for _, k := range e.K {
				b.WriteByte("0123456789abcdef"[(k>>8)&15])
				b.WriteByte("0123456789abcdef"[(k>>4)&15])
				b.WriteByte("0123456789abcdef"[k&15])
			}
			b.WriteByte(';')
		}
	}
	if st.havoc {
		b.WriteString("H|")
	} else {
		w(st.ents)
		b.WriteByte('|')
	}
	if st.pk {
		w(st.pers)
	} else {
		b.WriteByte('?')
	}
	return b.String()
}

func c19NewState(ents []c19Ent, havoc, pk bool, pers []c19Ent) *c19State {
	if havoc {
		ents = nil
	}
	if !pk {
		pers = nil
	}
	st := &c19State{ents: ents, havoc: havoc, pk: pk, pers: pers}
	st.canon = c19Canon(st)
	return st
}

// c19ModelCfg selects the variant of the model.
type c19ModelCfg struct {
	bits func(c19ID) string
	// tolerateEmptyLoss: additionally accept, for a datastore that holds the
	// single entry under the EMPTY prefix, a drain that loads nothing and
	// leaves the datastore as it was (the defect of DESIGN §7 #10). Used only
	// to classify a failure of the strict model.
	tolerateEmptyLoss bool
	// relaxDS: the persist/restart clause is not constrained at all (used only
	// to tell a persist/restart failure from a failure of the queue contract).
	relaxDS bool
}

func c19OnlyEmptyPrefix(ents []c19Ent) bool { return len(ents) == 1 && ents[0].P == "" }

// c19Step is the sequential specification: can the operation o, invoked on
// state st, have produced the output recorded in o? Returns the next state.
func c19Step(cfg *c19ModelCfg, st *c19State, o *c19Op, info *c19Info) (bool, *c19State) {
	switch o.kind {
	// ---------------- provide queue ----------------
	case "enq":
		if st.havoc {
			return true, st
		}
		return true, c19NewState(c19MEnqueue(st.ents, o.prefix, o.keys, info), false, st.pk, st.pers)
	case "deq":
		if st.havoc {
			return true, st
		}
		if len(st.ents) == 0 {
			return !o.outOK && o.outPrefix == "" && len(o.outKeys) == 0, st
		}
		e := st.ents[0]
		ok := o.outOK && o.outPrefix == e.P && c19EqKeys(o.outKeys, e.K)
		return ok, c19NewState(c19CopyEnts(st.ents[1:]), false, st.pk, st.pers)
	case "deqm":
		if st.havoc {
			return true, st
		}
		ents, keys := c19MDequeueMatching(st.ents, o.prefix, cfg.bits, info)
		return c19EqKeys(o.outKeys, keys), c19NewState(ents, false, st.pk, st.pers)
	case "rm":
		if st.havoc {
			return true, st
		}
		return true, c19NewState(c19MRemove(st.ents, o.keys, info), false, st.pk, st.pers)
	case "clear":
		if st.havoc {
			return true, c19NewState(nil, false, st.pk, st.pers)
		}
		return o.outN == c19NKeys(st.ents), c19NewState(nil, false, st.pk, st.pers)
	case "size":
		return st.havoc || o.outN == c19NKeys(st.ents), st
	case "regions":
		return st.havoc || o.outN == len(st.ents), st
	case "empty":
		return st.havoc || o.outBool == (len(st.ents) == 0), st

	// ---------------- persist / drain / restart ----------------
	case "persist":
		// "This operation does not modify the queue's in-memory state."
		if o.errStr != "" || st.havoc {
			// failed: whatever was in the datastore may be partly replaced
			return true, c19NewState(st.ents, st.havoc, false, nil)
		}
		return true, c19NewState(st.ents, false, true, c19CopyEnts(st.ents))
	case "drain":
		// additive drain of the live datastore into the queue under test
		if cfg.relaxDS {
			if o.errStr == "" && !o.corrupt && st.pk && len(st.pers) == 0 {
				return true, st // nothing persisted: nothing to load under any reading
			}
			return true, c19NewState(nil, true, false, nil)
		}
		if o.errStr != "" || o.corrupt {
			// may have loaded any part, may have deleted any part (corrupt: it
			// read a datastore holding a torn entry, see c19_restore.go)
			return true, c19NewState(nil, true, false, nil)
		}
		if !st.pk {
			// unknown content (an earlier Persist failed half-way): whatever was
			// loaded, a drain that returned nil has emptied the datastore
			if o.dsLeft == 1 && cfg.tolerateEmptyLoss {
				return true, c19NewState(nil, true, false, nil) // the one record may still be there
			}
			return o.dsLeft == 0, c19NewState(nil, true, true, nil)
		}
		if cfg.tolerateEmptyLoss && c19OnlyEmptyPrefix(st.pers) && o.dsLeft == 1 {
			return true, st // nothing loaded, the one record still there
		}
		if st.havoc {
			return o.dsLeft == 0, c19NewState(nil, true, true, nil)
		}
		ents := st.ents
		for _, e := range st.pers {
			ents = c19MEnqueue(ents, e.P, e.K, info)
		}
		return o.dsLeft == 0, c19NewState(ents, false, true, nil)
	case "restart":
		// fork of the datastore at one instant, drained into a fresh queue; the
		// queue under test and the live datastore are not touched
		if cfg.relaxDS || o.dirty || !st.pk {
			return true, st
		}
		if o.errStr != "" {
			return false, st
		}
		if cfg.tolerateEmptyLoss && c19OnlyEmptyPrefix(st.pers) && len(o.dump) == 0 && o.dsLeft == 1 {
			return true, st // nothing loaded, the one record still there
		}
		return c19EqEnts(o.dump, st.pers) && o.dsLeft == 0, st

	// ---------------- reprovide queue ----------------
	case "renq":
		ents := st.ents
		for _, p := range o.prefixes {
			ents = c19MEnqueue(ents, p, nil, info)
		}
		return true, c19NewState(ents, false, true, nil)
	case "rdeq":
		if len(st.ents) == 0 {
			return !o.outOK, st // the prefix returned with false is not documented
		}
		ok := o.outOK && o.outPrefix == st.ents[0].P
		return ok, c19NewState(c19CopyEnts(st.ents[1:]), false, true, nil)
	case "rrm":
		ents, removed := c19MRemovePrefix(st.ents, o.prefix)
		if info != nil {
			info.multi = len(st.ents)-len(ents) > 1
			info.emptied = removed
		}
		return o.outBool == removed, c19NewState(ents, false, true, nil)
	case "rsize":
		return o.outN == len(st.ents), st
	case "rempty":
		return o.outBool == (len(st.ents) == 0), st
	case "rclear":
		return o.outN == len(st.ents), c19NewState(nil, false, true, nil)
	}
	return false, st
}
