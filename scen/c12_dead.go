//go:build all || c12

package scen

// C12 — unresponsive members and the liveness probe of a refresh
// (rt-manual-refresh variant only).
//
// Generator. A remote peer may be *unresponsive*: its transport is fine (dials
// to it succeed or fail as for any peer, it may be and stay connected), but it
// no longer answers DHT requests — a hung or removed stream handler, resource
// limits, a process that stopped reading. By a drawn choice a peer is
// unresponsive from the start (a table loaded with members that are gone) or
// becomes so by an environment event (env:dead), in one of two shapes: every
// request to it fails ("fails"), or every request to it stays silent until the
// request's own deadline / the cancellation of its caller ("hung"). The state
// is permanent. The anchor is never unresponsive. Nothing else about the peer
// changes: connectedness, protocol entries and events about it are drawn as
// for every other peer, so a refresh meets unresponsive members that are
// connected and ones that are not.
//
// Oracle, rule refresh-probe-skipped-unresponsive-member. Clause: "a member
// that ... fails the liveness probe of a refresh ... is removed". The liveness
// probe of a refresh is addressed to the members that have not proven
// themselves recently; what "recently" means is the implementation's business
// and no bound enters the rule. But whatever it means, it is a matter of how
// long ago the member last answered: if one refresh cycle probes member Y,
// then a member X that was in the table during the whole cycle and whose
// latest proof (admission or correct answer to any request, per the
// simulation's own history) is not later than the beginning of Y's current
// membership is at least as overdue as Y — connectedness, addresses, bucket
// position etc. are not proofs of liveness. An unresponsive X fails that probe
// by construction (it answers nothing), so when the cycle's refresh request is
// answered X must have been probed (the existing rule probe-fail-not-evicted
// then demands its removal) or must be gone. X still a member and never probed
// during the cycle is a member that fails the liveness probe of the refresh
// and is not removed.
//
// Judged only for a cycle that is attributable without knowledge of the
// internals: started by a refresh request issued while no other request was
// unanswered (manual variant: no ticker, no self-triggered cycles), until that
// request is answered, and not once Close began. Probes first seen in the very
// step that delivers the answer may belong to the next cycle and are not used
// as witnesses (they still exempt X). Time bounds: an admission observed after
// a step that advanced virtual time is bounded below by the step's start and
// above by its end; equal instants count as "not later" because the node's
// clock is the simulation's virtual clock (both decisions of one cycle are
// taken at the same virtual instant); no instant is compared with a bound of
// the implementation.
//
// Class of regressions exposed: any shortcut that exempts members from the
// refresh's liveness probe on grounds other than a recent correct answer
// (still connected, known addresses, recently dialled, position in the table).

import (
	"time"

	"github.com/libp2p/go-libp2p/core/peer"

	"verif/sim"
)

// c12Life: what the simulation knows about when a peer last proved itself.
type c12Life struct {
	dead     bool
	hung     bool
	deadTick int // observation preceding the step that made it unresponsive (0: from the start)

	lastOK   time.Duration // virtual time of the latest reply (any message) released for it; -1: none
	admitLB  time.Duration // bounds of the instant its current membership began
	admitUB  time.Duration
	admitted bool
}

type c12Witness struct {
	tick int
	lb   time.Duration
}

// c12Cycle: the refresh cycle currently attributable to one request.
type c12Cycle struct {
	r         *c12Refresh
	issueTick int
	atIssue   map[peer.ID]bool
	probed    map[peer.ID]bool
	witness   map[peer.ID]c12Witness
	order     []peer.ID // witnesses in the order seen (deterministic)
}

func (w *c12World) drawUnresponsive() {
	if w.cfg.Variant != c12Manual {
		return
	}
	rng := newSubRng(w.s, "unresponsive")
	for _, pm := range w.peers {
		pm.life.lastOK = -1
		if pm == w.anchor {
			continue
		}
		if rng.Intn(5) == 0 {
			pm.life.dead, pm.life.hung = true, rng.Intn(2) == 0
			w.s.Count("fault_peer_unresponsive")
		}
	}
}

func (w *c12World) deadAction(pm *c12Peer) []sim.Action {
	if w.cfg.Variant != c12Manual || pm == w.anchor || pm.life.dead {
		return nil
	}
	s := w.s
	return []sim.Action{{ID: "env:dead:" + pm.p.Name, Do: func() {
		s.Count("fault_peer_unresponsive")
		pm.life.dead, pm.life.hung, pm.life.deadTick = true, s.Chance("hung", 1, 2), w.tick
	}}}
}

// hungCall: a request to a hung peer is never answered; it ends when its
// context does.
func (w *c12World) hungCall(p *sim.Parked) bool {
	if p.Kind != "rpc" {
		return false
	}
	pm := w.byID[c12Target(p)]
	return pm != nil && pm.life.dead && pm.life.hung
}

func (w *c12World) noteReply(p peer.ID) {
	if pm := w.byID[p]; pm != nil {
		pm.life.lastOK = w.s.Now()
	}
}

// noteAdmission is called from observe for every peer that entered the table
// during the step just executed.
func (w *c12World) noteAdmission(pm *c12Peer) {
	pm.life.admitted = true
	pm.life.admitLB, pm.life.admitUB = w.stepStart, w.s.Now()
}

func (w *c12World) openCycle(r *c12Refresh, pendingBefore int) {
	if w.cfg.Variant != c12Manual || w.closing || pendingBefore != 0 || w.cyc != nil {
		return
	}
	at := map[peer.ID]bool{}
	for id := range w.prev {
		at[id] = true
	}
	w.cyc = &c12Cycle{r: r, issueTick: w.tick, atIssue: at, probed: map[peer.ID]bool{}, witness: map[peer.ID]c12Witness{}}
}

// noteOwnProbe: a request whose key is the addressed peer, started by the node
// itself, parked during the step just executed (observe, w.tick already
// advanced). ping: classified as a refresh's liveness probe.
func (w *c12World) noteOwnProbe(to peer.ID, ping bool) {
	cy := w.cyc
	if cy == nil {
		return
	}
	cy.probed[to] = true
	pm := w.byID[to]
	if !ping || pm == nil || !pm.life.admitted {
		return
	}
	// a witness must have been a member without interruption since before the
	// request was issued: its membership (and so its earliest possible proof
	// known to the node) began at admitLB at the earliest
	if pm.absentTick >= cy.issueTick {
		return
	}
	if _, ok := cy.witness[to]; !ok {
		cy.witness[to] = c12Witness{tick: w.tick, lb: pm.life.admitLB}
		cy.order = append(cy.order, to)
	}
}

// judgeCycle is called at the end of observe (now: the membership just observed).
func (w *c12World) judgeCycle(now map[peer.ID]bool) {
	cy := w.cyc
	if cy == nil {
		return
	}
	if w.closing {
		w.cyc = nil
		return
	}
	if n, _, _ := cy.r.state(); n == 0 {
		return
	}
	w.cyc = nil
	s := w.s
	s.Count("probe_refresh_cycle_judged")
	for _, pm := range w.peers {
		id := pm.p.ID
		lf := &pm.life
		if !lf.dead || lf.deadTick >= cy.issueTick || !cy.atIssue[id] || !lf.admitted {
			continue
		}
		ub := lf.admitUB
		if lf.lastOK > ub {
			ub = lf.lastOK
		}
		var wit peer.ID
		for _, y := range cy.order {
			wy := cy.witness[y]
			if y != id && wy.tick < w.tick && wy.lb >= ub {
				wit = y
				break
			}
		}
		if wit == "" {
			continue
		}
		s.Count("probe_overdue_unresponsive_member_at_refresh")
		switch {
		case cy.probed[id] || !now[id]:
			s.Count("probe_overdue_unresponsive_member_handled")
		case pm.absentTick < cy.issueTick:
			shape := "fails every request"
			if lf.hung {
				shape = "leaves every request unanswered"
			}
			s.Violate("refresh-probe-skipped-unresponsive-member",
				"refresh request #%d was answered; during its cycle the refresh sent its liveness probe to member %s (member since virtual time >= %v), but not to member %s, whose latest proof is not later (<= %v), which was a member during the whole cycle, and which has been unresponsive (%s) since before the request (connected now=%v): a member that fails the liveness probe of the refresh is still in the table",
				cy.r.id, w.name(wit), cy.witness[wit].lb, w.name(id), ub, shape, w.connected(id))
		}
	}
}
