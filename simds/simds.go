// Package simds is the simulated datastore seam: an in-memory ds.Batching with
// an operation log, optional parking of every operation in the scheduler,
// error injection, a write journal with sync marks, and crash forks.
package simds

import (
	"context"
	"crypto/sha256"
	"errors"
	"fmt"
	"sort"
	"strings"
	"sync"
	"time"

	ds "github.com/ipfs/go-datastore"
	dsq "github.com/ipfs/go-datastore/query"

	"verif/sim"
)

var (
	ErrInjected = errors.New("simds: injected I/O error")
	ErrClosed   = errors.New("simds: datastore closed")
)

// Rec is one entry of the operation log (the "recording datastore wrapper").
type Rec struct {
	N     int
	Op    string // get has getsize query put delete sync batch-put batch-delete commit close
	Key   string
	Val   []byte // value written (put) or read (get); nil otherwise
	Prev  []byte // content of the key immediately before a put/delete
	Found bool   // get/has: key existed; put/delete: key existed before
	Err   error
	Step  int
	At    time.Duration
	Batch int    // commit id for writes applied through a batch (0 = direct)
	Tag   string // sim.TagOf(ctx) of the calling operation ("" if untagged)
	// AfterClose: the operation arrived after Close returned.
	AfterClose bool
}

// JEntry is one journal entry (one durable write unit).
type JEntry struct {
	Del    bool
	Key    string
	Val    []byte
	Batch  int
	Synced bool
	Group  int // entries of one atomic batch commit share a group (>0)
}

// Op describes a parked datastore operation (Parked.Data).
type Op struct {
	DS   *DS
	Op   string
	Key  string
	Val  []byte
	NOps int // commit: number of buffered writes
}

// Partial is an outcome for a parked commit: apply the first N writes, then fail.
type Partial struct {
	N   int
	Err error
}

// DS implements ds.Batching.
type DS struct {
	S    *sim.Sim
	Name string

	// ParkOp decides which operations park in the scheduler (nil = none).
	ParkOp func(op, key string) bool
	// AtomicBatch: a batch commit is one journal group (all-or-nothing at a
	// crash cut). Otherwise every write of the batch is its own crash point.
	AtomicBatch bool
	// OnApply is called, with the datastore lock held, for every applied write
	// and every served read; oracles hang invariants here.
	OnApply func(r *Rec)
	// FailNext makes the next n operations of a kind fail without parking.
	failNext map[string]int

	mu      sync.Mutex
	data    map[string][]byte
	journal []JEntry
	log     []*Rec
	closed  bool
	nbatch  int
	ngroup  int
}

var _ ds.Batching = (*DS)(nil)

func New(s *sim.Sim, name string) *DS {
	return &DS{S: s, Name: name, data: map[string][]byte{}, failNext: map[string]int{}}
}

func keyTag(k string) string {
	if len(k) <= 24 {
		return k
	}
	h := sha256.Sum256([]byte(k))
	return fmt.Sprintf("%s~%x", k[:12], h[:3])
}

// FailNext arms n failures for operations of kind op ("put", "sync", ...).
func (d *DS) FailNext(op string, n int) {
	d.mu.Lock()
	d.failNext[op] += n
	d.mu.Unlock()
}

// gate parks the operation if configured, and resolves injected failures.
// It returns a non-nil error if the operation must fail without applying.
func (d *DS) gate(ctx context.Context, op, key string, val []byte, nops int) (partial *Partial, err error) {
	d.mu.Lock()
	if d.failNext[op] > 0 {
		d.failNext[op]--
		d.mu.Unlock()
		d.S.Count("fault_ds_error_" + op)
		return nil, ErrInjected
	}
	park := d.ParkOp != nil && d.ParkOp(op, key)
	d.mu.Unlock()
	if !park {
		return nil, nil
	}
	if ctx == nil {
		ctx = context.Background()
	}
	out, cerr := d.S.Park("ds", d.Name+":"+op+":"+keyTag(key)+sim.TagOf(ctx), ctx, &Op{DS: d, Op: op, Key: key, Val: val, NOps: nops})
	if cerr != nil {
		return nil, cerr
	}
	switch o := out.(type) {
	case nil:
		return nil, nil
	case error:
		d.S.Count("fault_ds_error_" + op)
		return nil, o
	case Partial:
		d.S.Count("fault_ds_partial_commit")
		return &o, nil
	}
	return nil, nil
}

func (d *DS) rec(r *Rec) *Rec {
	return d.recCtx(nil, r)
}

func (d *DS) recCtx(ctx context.Context, r *Rec) *Rec {
	r.Tag = sim.TagOf(ctx)
	r.N = len(d.log)
	r.Step = d.S.Steps
	r.At = d.S.Now()
	r.AfterClose = d.closed
	d.log = append(d.log, r)
	return r
}

func (d *DS) applyLocked(r *Rec) {
	if d.OnApply != nil {
		d.OnApply(r)
	}
}

func clone(b []byte) []byte {
	if b == nil {
		return nil
	}
	return append([]byte{}, b...)
}

func (d *DS) Get(ctx context.Context, key ds.Key) ([]byte, error) {
	k := key.String()
	if _, err := d.gate(ctx, "get", k, nil, 0); err != nil {
		d.mu.Lock()
		d.recCtx(ctx, &Rec{Op: "get", Key: k, Err: err})
		d.mu.Unlock()
		return nil, err
	}
	d.mu.Lock()
	defer d.mu.Unlock()
	v, ok := d.data[k]
	r := d.recCtx(ctx, &Rec{Op: "get", Key: k, Val: clone(v), Found: ok})
	if !ok {
		r.Err = ds.ErrNotFound
	}
	d.applyLocked(r)
	if !ok {
		return nil, ds.ErrNotFound
	}
	return clone(v), nil
}

func (d *DS) Has(ctx context.Context, key ds.Key) (bool, error) {
	k := key.String()
	if _, err := d.gate(ctx, "has", k, nil, 0); err != nil {
		d.mu.Lock()
		d.recCtx(ctx, &Rec{Op: "has", Key: k, Err: err})
		d.mu.Unlock()
		return false, err
	}
	d.mu.Lock()
	defer d.mu.Unlock()
	_, ok := d.data[k]
	d.applyLocked(d.recCtx(ctx, &Rec{Op: "has", Key: k, Found: ok}))
	return ok, nil
}

func (d *DS) GetSize(ctx context.Context, key ds.Key) (int, error) {
	k := key.String()
	if _, err := d.gate(ctx, "getsize", k, nil, 0); err != nil {
		return -1, err
	}
	d.mu.Lock()
	defer d.mu.Unlock()
	v, ok := d.data[k]
	d.recCtx(ctx, &Rec{Op: "getsize", Key: k, Found: ok})
	if !ok {
		return -1, ds.ErrNotFound
	}
	return len(v), nil
}

func (d *DS) Query(ctx context.Context, q dsq.Query) (dsq.Results, error) {
	if _, err := d.gate(ctx, "query", q.Prefix, nil, 0); err != nil {
		d.mu.Lock()
		d.recCtx(ctx, &Rec{Op: "query", Key: q.Prefix, Err: err})
		d.mu.Unlock()
		return nil, err
	}
	d.mu.Lock()
	keys := make([]string, 0, len(d.data))
	for k := range d.data {
		keys = append(keys, k)
	}
	sort.Strings(keys)
	re := make([]dsq.Entry, 0, len(keys))
	for _, k := range keys {
		v := d.data[k]
		e := dsq.Entry{Key: k, Size: len(v)}
		if !q.KeysOnly {
			e.Value = clone(v)
		}
		re = append(re, e)
	}
	d.applyLocked(d.recCtx(ctx, &Rec{Op: "query", Key: q.Prefix}))
	d.mu.Unlock()
	r := dsq.ResultsWithEntries(q, re)
	return dsq.NaiveQueryApply(q, r), nil
}

func (d *DS) putLocked(ctx context.Context, k string, v []byte, batch, group int) {
	prev, had := d.data[k]
	d.data[k] = clone(v)
	d.journal = append(d.journal, JEntry{Key: k, Val: clone(v), Batch: batch, Group: group})
	d.applyLocked(d.recCtx(ctx, &Rec{Op: "put", Key: k, Val: clone(v), Prev: prev, Found: had, Batch: batch}))
}

func (d *DS) delLocked(ctx context.Context, k string, batch, group int) {
	prev, had := d.data[k]
	delete(d.data, k)
	d.journal = append(d.journal, JEntry{Del: true, Key: k, Batch: batch, Group: group})
	d.applyLocked(d.recCtx(ctx, &Rec{Op: "delete", Key: k, Prev: prev, Found: had, Batch: batch}))
}

func (d *DS) Put(ctx context.Context, key ds.Key, value []byte) error {
	k := key.String()
	if _, err := d.gate(ctx, "put", k, value, 0); err != nil {
		d.mu.Lock()
		d.recCtx(ctx, &Rec{Op: "put", Key: k, Val: clone(value), Err: err})
		d.mu.Unlock()
		return err
	}
	d.mu.Lock()
	defer d.mu.Unlock()
	d.putLocked(ctx, k, value, 0, 0)
	return nil
}

func (d *DS) Delete(ctx context.Context, key ds.Key) error {
	k := key.String()
	if _, err := d.gate(ctx, "delete", k, nil, 0); err != nil {
		d.mu.Lock()
		d.recCtx(ctx, &Rec{Op: "delete", Key: k, Err: err})
		d.mu.Unlock()
		return err
	}
	d.mu.Lock()
	defer d.mu.Unlock()
	d.delLocked(ctx, k, 0, 0)
	return nil
}

// Sync marks every journal entry whose key lies under prefix as durable.
func (d *DS) Sync(ctx context.Context, prefix ds.Key) error {
	p := prefix.String()
	if _, err := d.gate(ctx, "sync", p, nil, 0); err != nil {
		d.mu.Lock()
		d.recCtx(ctx, &Rec{Op: "sync", Key: p, Err: err})
		d.mu.Unlock()
		return err
	}
	d.mu.Lock()
	defer d.mu.Unlock()
	for i := range d.journal {
		if under(d.journal[i].Key, p) {
			d.journal[i].Synced = true
		}
	}
	d.recCtx(ctx, &Rec{Op: "sync", Key: p})
	return nil
}

func under(key, prefix string) bool {
	if prefix == "/" || prefix == "" {
		return true
	}
	return key == prefix || strings.HasPrefix(key, prefix+"/")
}

func (d *DS) Close() error {
	d.mu.Lock()
	d.rec(&Rec{Op: "close"})
	d.closed = true
	d.mu.Unlock()
	return nil
}

// ---- batches ----

type bop struct {
	del bool
	key string
	val []byte
}

type batch struct {
	d   *DS
	ops []bop
}

func (d *DS) Batch(ctx context.Context) (ds.Batch, error) {
	if _, err := d.gate(ctx, "batch", "", nil, 0); err != nil {
		return nil, err
	}
	return &batch{d: d}, nil
}

func (b *batch) Put(ctx context.Context, key ds.Key, value []byte) error {
	b.ops = append(b.ops, bop{key: key.String(), val: clone(value)})
	return nil
}

func (b *batch) Delete(ctx context.Context, key ds.Key) error {
	b.ops = append(b.ops, bop{del: true, key: key.String()})
	return nil
}

func (b *batch) Commit(ctx context.Context) error {
	d := b.d
	first := ""
	if len(b.ops) > 0 {
		first = b.ops[0].key
	}
	partial, err := d.gate(ctx, "commit", first, nil, len(b.ops))
	if err != nil {
		d.mu.Lock()
		d.recCtx(ctx, &Rec{Op: "commit", Key: first, Err: err})
		d.mu.Unlock()
		return err
	}
	d.mu.Lock()
	defer d.mu.Unlock()
	d.nbatch++
	id := d.nbatch
	group := 0
	if d.AtomicBatch {
		d.ngroup++
		group = d.ngroup
	}
	n := len(b.ops)
	var perr error
	if partial != nil {
		if partial.N < n {
			n = partial.N
		}
		perr = partial.Err
		if perr == nil {
			perr = ErrInjected
		}
		group = 0 // a failing commit is by construction not atomic
	}
	for _, o := range b.ops[:n] {
		if o.del {
			d.delLocked(ctx, o.key, id, group)
		} else {
			d.putLocked(ctx, o.key, o.val, id, group)
		}
	}
	d.recCtx(ctx, &Rec{Op: "commit", Key: first, Err: perr, Batch: id})
	b.ops = nil
	return perr
}

// ---- inspection ----

// Log returns a copy of the operation log.
func (d *DS) Log() []*Rec {
	d.mu.Lock()
	defer d.mu.Unlock()
	return append([]*Rec(nil), d.log...)
}

func (d *DS) LogLen() int {
	d.mu.Lock()
	defer d.mu.Unlock()
	return len(d.log)
}

// Snapshot returns a copy of the current content.
func (d *DS) Snapshot() map[string][]byte {
	d.mu.Lock()
	defer d.mu.Unlock()
	out := make(map[string][]byte, len(d.data))
	for k, v := range d.data {
		out[k] = clone(v)
	}
	return out
}

// Peek reads a key without logging (oracle use only).
func (d *DS) Peek(key string) ([]byte, bool) {
	d.mu.Lock()
	defer d.mu.Unlock()
	v, ok := d.data[key]
	return clone(v), ok
}

// Poke writes a key without logging or journaling as an SUT write (harness
// pre-fill); the entry is journaled as synced.
func (d *DS) Poke(key string, val []byte) {
	d.mu.Lock()
	defer d.mu.Unlock()
	d.data[key] = clone(val)
	d.journal = append(d.journal, JEntry{Key: key, Val: clone(val), Synced: true})
}

func (d *DS) JournalLen() int {
	d.mu.Lock()
	defer d.mu.Unlock()
	return len(d.journal)
}

func (d *DS) Journal() []JEntry {
	d.mu.Lock()
	defer d.mu.Unlock()
	return append([]JEntry(nil), d.journal...)
}

// Fork builds the datastore a restarted process would find.
//
// cut < 0: clean restart, everything applied survives.
// cut >= 0: crash. Journal entries before cut survive; entries at or after
// cut survive only if a successful Sync covered them. An atomic batch group
// that straddles the cut is dropped as a whole unless synced.
func (d *DS) Fork(cut int, name string) *DS {
	d.mu.Lock()
	defer d.mu.Unlock()
	n := New(d.S, name)
	n.ParkOp, n.AtomicBatch = d.ParkOp, d.AtomicBatch
	if cut < 0 || cut > len(d.journal) {
		cut = len(d.journal)
	}
	// groups straddling the cut
	torn := map[int]bool{}
	for i, e := range d.journal {
		if e.Group > 0 && i >= cut {
			torn[e.Group] = true
		}
	}
	for i, e := range d.journal {
		keep := i < cut || e.Synced
		if e.Group > 0 && torn[e.Group] && !e.Synced {
			keep = false
		}
		if !keep {
			continue
		}
		if e.Del {
			delete(n.data, e.Key)
		} else {
			n.data[e.Key] = clone(e.Val)
		}
		n.journal = append(n.journal, JEntry{Del: e.Del, Key: e.Key, Val: e.Val, Synced: true})
	}
	return n
}
