package simds

import (
	"context"
	"testing"

	ds "github.com/ipfs/go-datastore"

	"verif/sim"
)

func put(t *testing.T, d *DS, k, v string) {
	t.Helper()
	if err := d.Put(context.Background(), ds.NewKey(k), []byte(v)); err != nil {
		t.Fatal(err)
	}
}

func newForTest() *DS {
	// the Sim is only used for parking, counters and step stamps
	return New(sim.New("T", sim.NewTape(1), false), "t")
}

func TestForkSemantics(t *testing.T) {
	d := newForTest()
	put(t, d, "/a/1", "x") // journal 0
	put(t, d, "/a/2", "y") // 1
	put(t, d, "/b/1", "z") // 2
	if err := d.Sync(context.Background(), ds.NewKey("/b")); err != nil {
		t.Fatal(err)
	}
	put(t, d, "/a/3", "w") // 3 (unsynced)
	// crash right after the first write: /a/1 survives (prefix), /b/1 survives (synced), the rest is lost
	f := d.Fork(1, "f")
	snap := f.Snapshot()
	if string(snap["/a/1"]) != "x" || string(snap["/b/1"]) != "z" || len(snap) != 2 {
		t.Fatalf("unexpected content after crash cut 1: %v", snap)
	}
	// clean restart keeps everything
	if n := len(d.Fork(-1, "c").Snapshot()); n != 4 {
		t.Fatalf("clean restart lost data: %d", n)
	}
}

func TestAtomicBatchIsAllOrNothingAtACut(t *testing.T) {
	d := newForTest()
	d.AtomicBatch = true
	b, _ := d.Batch(context.Background())
	b.Put(context.Background(), ds.NewKey("/k/1"), []byte("1"))
	b.Put(context.Background(), ds.NewKey("/k/2"), []byte("2"))
	b.Put(context.Background(), ds.NewKey("/k/3"), []byte("3"))
	if err := b.Commit(context.Background()); err != nil {
		t.Fatal(err)
	}
	for cut := 0; cut <= 3; cut++ {
		n := len(d.Fork(cut, "f").Snapshot())
		if cut < 3 && n != 0 {
			t.Fatalf("cut %d inside an atomic batch kept %d writes", cut, n)
		}
		if cut == 3 && n != 3 {
			t.Fatalf("cut after the batch kept %d writes", n)
		}
	}
	d2 := newForTest()
	b2, _ := d2.Batch(context.Background())
	b2.Put(context.Background(), ds.NewKey("/k/1"), []byte("1"))
	b2.Put(context.Background(), ds.NewKey("/k/2"), []byte("2"))
	b2.Commit(context.Background())
	if n := len(d2.Fork(1, "f").Snapshot()); n != 1 {
		t.Fatalf("non-atomic batch: cut 1 should keep exactly one write, kept %d", n)
	}
}
