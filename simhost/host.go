// Package simhost is a simulator-owned libp2p host: real peerstore, real
// event bus, null connection manager; dials and streams are seams that park
// in the simulator.
package simhost

import (
	"context"
	"errors"
	"fmt"
	"io"
	"sort"
	"sync"
	"time"

	"github.com/libp2p/go-libp2p/core/connmgr"
	ic "github.com/libp2p/go-libp2p/core/crypto"
	"github.com/libp2p/go-libp2p/core/event"
	"github.com/libp2p/go-libp2p/core/host"
	"github.com/libp2p/go-libp2p/core/network"
	"github.com/libp2p/go-libp2p/core/peer"
	"github.com/libp2p/go-libp2p/core/peerstore"
	"github.com/libp2p/go-libp2p/core/protocol"
	"github.com/libp2p/go-libp2p/p2p/host/eventbus"
	"github.com/libp2p/go-libp2p/p2p/host/peerstore/pstoremem"
	ma "github.com/multiformats/go-multiaddr"

	"verif/sim"
)

var ErrDialFailed = errors.New("simhost: dial failed")

// Namer gives peers short stable names for ids and traces.
type Namer func(peer.ID) string

// Host implements host.Host.
type Host struct {
	S     *sim.Sim
	id    peer.ID
	ps    peerstore.Peerstore
	bus   event.Bus
	cmgr  connmgr.ConnManager
	net   *Network
	Name  Namer
	Label string // prefix for park labels when several hosts share a sim

	mu       sync.Mutex
	addrs    []ma.Multiaddr
	handlers map[protocol.ID]network.StreamHandler
	// matchers: match function of a handler registered with
	// SetStreamHandlerMatch (none: the name itself is the only match);
	// regOrder: names in registration order. Only Negotiate reads them.
	matchers map[protocol.ID]func(protocol.ID) bool
	regOrder []protocol.ID

	// DialLog records every Connect that reached the dial seam.
	DialLog []peer.ID

	// OpenStream, when set, serves NewStream (level B). When nil NewStream fails.
	OpenStream func(ctx context.Context, h *Host, p peer.ID, pids []protocol.ID) (network.Stream, error)

	// SubscribeErr, when set, makes EventBus().Subscribe fail (constructor fault).
	busWrap event.Bus
}

var _ host.Host = (*Host)(nil)

func New(s *sim.Sim, id peer.ID, addrs []ma.Multiaddr, name Namer) *Host {
	ps, err := pstoremem.NewPeerstore()
	if err != nil {
		panic(err)
	}
	h := &Host{
		S: s, id: id, ps: ps, bus: eventbus.NewBus(), cmgr: connmgr.NullConnMgr{},
		addrs: addrs, handlers: map[protocol.ID]network.StreamHandler{}, Name: name,
	}
	if h.Name == nil {
		h.Name = func(p peer.ID) string { return p.String() }
	}
	h.net = &Network{h: h, conns: map[peer.ID]*Conn{}}
	return h
}

func (h *Host) ID() peer.ID                      { return h.id }
func (h *Host) Peerstore() peerstore.Peerstore   { return h.ps }
func (h *Host) Network() network.Network         { return h.net }
func (h *Host) Net() *Network                    { return h.net }
func (h *Host) Mux() protocol.Switch             { return nil }
func (h *Host) ConnManager() connmgr.ConnManager { return h.cmgr }
func (h *Host) EventBus() event.Bus {
	if h.busWrap != nil {
		return h.busWrap
	}
	return h.bus
}

// SetBus replaces the event bus seen by the system under test (fault injection
// on Subscribe); the real bus stays reachable through RealBus.
func (h *Host) SetBus(b event.Bus) { h.busWrap = b }
func (h *Host) RealBus() event.Bus { return h.bus }

func (h *Host) Addrs() []ma.Multiaddr {
	h.mu.Lock()
	defer h.mu.Unlock()
	return append([]ma.Multiaddr(nil), h.addrs...)
}

func (h *Host) SetAddrs(a []ma.Multiaddr) {
	h.mu.Lock()
	h.addrs = a
	h.mu.Unlock()
}

// Connect parks at the dial seam unless the peer is already connected.
func (h *Host) Connect(ctx context.Context, pi peer.AddrInfo) error {
	if len(pi.Addrs) > 0 {
		h.ps.AddAddrs(pi.ID, pi.Addrs, peerstore.TempAddrTTL)
	}
	if h.net.Connectedness(pi.ID) == network.Connected {
		return nil
	}
	h.mu.Lock()
	h.DialLog = append(h.DialLog, pi.ID)
	h.mu.Unlock()
	out, cerr := h.S.Park("dial", h.Label+h.Name(pi.ID)+sim.TagOf(ctx), ctx, pi.ID)
	if cerr != nil {
		return cerr
	}
	if err, _ := out.(error); err != nil {
		return err
	}
	h.net.SetConnected(pi.ID, true)
	return nil
}

func (h *Host) SetStreamHandler(pid protocol.ID, handler network.StreamHandler) {
	h.setHandler(pid, nil, handler)
}

func (h *Host) SetStreamHandlerMatch(pid protocol.ID, m func(protocol.ID) bool, handler network.StreamHandler) {
	h.setHandler(pid, m, handler)
}

// setHandler registers like a multistream muxer: an entry with the same name
// is replaced and the new entry goes to the end of the registration order.
func (h *Host) setHandler(pid protocol.ID, m func(protocol.ID) bool, handler network.StreamHandler) {
	h.mu.Lock()
	h.dropOrder(pid)
	h.handlers[pid] = handler
	h.regOrder = append(h.regOrder, pid)
	if m != nil {
		if h.matchers == nil {
			h.matchers = map[protocol.ID]func(protocol.ID) bool{}
		}
		h.matchers[pid] = m
	}
	h.mu.Unlock()
}

func (h *Host) dropOrder(pid protocol.ID) {
	delete(h.matchers, pid)
	for i, p := range h.regOrder {
		if p == pid {
			h.regOrder = append(h.regOrder[:i:i], h.regOrder[i+1:]...)
			return
		}
	}
}

func (h *Host) RemoveStreamHandler(pid protocol.ID) {
	h.mu.Lock()
	delete(h.handlers, pid)
	h.dropOrder(pid)
	h.mu.Unlock()
}

// Negotiate resolves the protocol of an inbound stream against the CURRENT
// handler table the way a real host's multistream muxer does: the remote
// proposes its IDs one after the other; for each proposal the registered
// handlers are asked in registration order (a handler set with
// SetStreamHandler matches its own name only, one set with
// SetStreamHandlerMatch whatever its match function accepts); the first
// proposal that finds a handler is the stream's protocol ID (the PROPOSED ID,
// not the handler's name). No proposal accepted: ("", nil), the negotiation
// is refused.
func (h *Host) Negotiate(proposals ...protocol.ID) (protocol.ID, network.StreamHandler) {
	type entry struct {
		name  protocol.ID
		match func(protocol.ID) bool
		hd    network.StreamHandler
	}
	h.mu.Lock()
	table := make([]entry, 0, len(h.regOrder))
	for _, p := range h.regOrder {
		table = append(table, entry{p, h.matchers[p], h.handlers[p]})
	}
	h.mu.Unlock()
	for _, prop := range proposals {
		for _, e := range table {
			if (e.match == nil && e.name == prop) || (e.match != nil && e.match(prop)) {
				return prop, e.hd
			}
		}
	}
	return "", nil
}

// Handler returns the registered handler for a protocol (nil if none).
func (h *Host) Handler(pid protocol.ID) network.StreamHandler {
	h.mu.Lock()
	defer h.mu.Unlock()
	return h.handlers[pid]
}

func (h *Host) HandlerProtocols() []protocol.ID {
	h.mu.Lock()
	defer h.mu.Unlock()
	var out []protocol.ID
	for p := range h.handlers {
		out = append(out, p)
	}
	sort.Slice(out, func(i, j int) bool { return out[i] < out[j] })
	return out
}

func (h *Host) NewStream(ctx context.Context, p peer.ID, pids ...protocol.ID) (network.Stream, error) {
	if h.OpenStream == nil {
		return nil, errors.New("simhost: streams not enabled in this scenario")
	}
	return h.OpenStream(ctx, h, p, pids)
}

func (h *Host) Close() error {
	return h.ps.Close()
}

// ---------------------------------------------------------------------------

// Network implements network.Network over a connectedness map.
type Network struct {
	h     *Host
	mu    sync.Mutex
	conns map[peer.ID]*Conn
	nconn int
}

var _ network.Network = (*Network)(nil)

func (n *Network) Peerstore() peerstore.Peerstore { return n.h.ps }
func (n *Network) LocalPeer() peer.ID             { return n.h.id }
func (n *Network) Close() error                   { return nil }

func (n *Network) DialPeer(ctx context.Context, p peer.ID) (network.Conn, error) {
	if err := n.h.Connect(ctx, peer.AddrInfo{ID: p}); err != nil {
		return nil, err
	}
	return n.Conn(p), nil
}

func (n *Network) ClosePeer(p peer.ID) error { n.SetConnected(p, false); return nil }

func (n *Network) Connectedness(p peer.ID) network.Connectedness {
	n.mu.Lock()
	defer n.mu.Unlock()
	if c := n.conns[p]; c != nil && !c.closed {
		if c.limited {
			return network.Limited
		}
		return network.Connected
	}
	return network.NotConnected
}

// SetConnected opens or closes the (single) connection to p.
func (n *Network) SetConnected(p peer.ID, on bool) *Conn {
	n.mu.Lock()
	defer n.mu.Unlock()
	c := n.conns[p]
	if on {
		if c == nil || c.closed {
			n.nconn++
			c = &Conn{n: n, remote: p, id: fmt.Sprintf("c%d", n.nconn), opened: time.Now()}
			n.conns[p] = c
		}
		return c
	}
	if c != nil {
		c.closed = true
		delete(n.conns, p)
	}
	return nil
}

// SetRemoteAddr fixes the remote multiaddr reported by the connection to p.
func (n *Network) SetRemoteAddr(p peer.ID, a ma.Multiaddr) {
	n.mu.Lock()
	if c := n.conns[p]; c != nil {
		c.raddr = a
	}
	n.mu.Unlock()
}

func (n *Network) Conn(p peer.ID) *Conn {
	n.mu.Lock()
	defer n.mu.Unlock()
	return n.conns[p]
}

func (n *Network) Peers() []peer.ID {
	n.mu.Lock()
	out := make([]peer.ID, 0, len(n.conns))
	for p := range n.conns {
		out = append(out, p)
	}
	n.mu.Unlock()
	sort.Slice(out, func(i, j int) bool { return n.h.Name(out[i]) < n.h.Name(out[j]) })
	return out
}

func (n *Network) Conns() []network.Conn {
	var out []network.Conn
	for _, p := range n.Peers() {
		if c := n.Conn(p); c != nil {
			out = append(out, c)
		}
	}
	return out
}

func (n *Network) ConnsToPeer(p peer.ID) []network.Conn {
	if c := n.Conn(p); c != nil {
		return []network.Conn{c}
	}
	return nil
}

func (n *Network) Notify(network.Notifiee)                {}
func (n *Network) StopNotify(network.Notifiee)            {}
func (n *Network) CanDial(peer.ID, ma.Multiaddr) bool     { return true }
func (n *Network) SetStreamHandler(network.StreamHandler) {}
func (n *Network) NewStream(ctx context.Context, p peer.ID) (network.Stream, error) {
	return n.h.NewStream(ctx, p)
}
func (n *Network) Listen(...ma.Multiaddr) error                      { return nil }
func (n *Network) ListenAddresses() []ma.Multiaddr                   { return n.h.Addrs() }
func (n *Network) InterfaceListenAddresses() ([]ma.Multiaddr, error) { return n.h.Addrs(), nil }
func (n *Network) ResourceManager() network.ResourceManager          { return &network.NullResourceManager{} }

// ---------------------------------------------------------------------------

// Conn implements network.Conn.
type Conn struct {
	n       *Network
	remote  peer.ID
	id      string
	opened  time.Time
	raddr   ma.Multiaddr
	closed  bool
	limited bool
	dir     network.Direction

	smu     sync.Mutex
	streams []network.Stream
}

var _ network.Conn = (*Conn)(nil)

func (c *Conn) Close() error                                      { c.n.SetConnected(c.remote, false); return nil }
func (c *Conn) CloseWithError(network.ConnErrorCode) error        { return c.Close() }
func (c *Conn) ID() string                                        { return c.id }
func (c *Conn) LocalPeer() peer.ID                                { return c.n.h.id }
func (c *Conn) RemotePeer() peer.ID                               { return c.remote }
func (c *Conn) RemotePublicKey() ic.PubKey                        { return nil }
func (c *Conn) ConnState() network.ConnectionState                { return network.ConnectionState{} }
func (c *Conn) LocalMultiaddr() ma.Multiaddr                      { return nil }
func (c *Conn) RemoteMultiaddr() ma.Multiaddr                     { return c.raddr }
func (c *Conn) Scope() network.ConnScope                          { return &network.NullScope{} }
func (c *Conn) IsClosed() bool                                    { return c.closed }
func (c *Conn) As(any) bool                                       { return false }
func (c *Conn) NewStream(context.Context) (network.Stream, error) { return nil, io.ErrClosedPipe }
func (c *Conn) Stat() network.ConnStats {
	return network.ConnStats{Stats: network.Stats{Direction: c.dir, Opened: c.opened, Limited: c.limited}, NumStreams: len(c.GetStreams())}
}

// SetDirection sets who dialed the connection (inbound = the remote dialed us).
func (c *Conn) SetDirection(d network.Direction) { c.dir = d }

func (c *Conn) GetStreams() []network.Stream {
	c.smu.Lock()
	defer c.smu.Unlock()
	return append([]network.Stream(nil), c.streams...)
}

func (c *Conn) AddStream(s network.Stream) {
	c.smu.Lock()
	c.streams = append(c.streams, s)
	c.smu.Unlock()
}

func (c *Conn) RemoveStream(s network.Stream) {
	c.smu.Lock()
	for i, x := range c.streams {
		if x == s {
			c.streams = append(c.streams[:i:i], c.streams[i+1:]...)
			break
		}
	}
	c.smu.Unlock()
}
