package simhost

import (
	"context"
	"errors"
	"fmt"
	"io"
	"sort"
	"sync"
	"time"

	"github.com/libp2p/go-libp2p/core/network"
	"github.com/libp2p/go-libp2p/core/peer"
	"github.com/libp2p/go-libp2p/core/protocol"

	"verif/sim"
)

var ErrNoProtocol = errors.New("simhost: protocols not supported")

// Fabric owns every simulated stream (level B). Bytes written on one endpoint
// stay "in flight" until the scheduler delivers them to the other endpoint.
type Fabric struct {
	S *sim.Sim

	mu      sync.Mutex
	cond    *sync.Cond
	streams []*Stream
	nlabel  map[string]int

	Opened int
	Resets int
	// ParkWrites: every Write parks in the scheduler (kind "swrite") before it
	// is accepted, so a writer can be stalled, failed or cancelled mid-write.
	ParkWrites bool
	// OnOpen is called (on the dialer's goroutine, fabric lock not held) after
	// a stream pair was created.
	OnOpen func(dialerEnd, listenerEnd *Stream)
}

func NewFabric(s *sim.Sim) *Fabric {
	f := &Fabric{S: s, nlabel: map[string]int{}}
	f.cond = sync.NewCond(&f.mu)
	return f
}

// Stream is one endpoint of a simulated stream.
type Stream struct {
	f      *Fabric
	id     string
	proto  protocol.ID
	conn   *Conn
	dir    network.Direction
	other  *Stream
	opened time.Time
	Local  peer.ID
	Remote peer.ID

	inflight    [][]byte // written by the other endpoint, not yet delivered
	eofInflight bool
	buf         []byte
	eof         bool
	reset       bool
	closedW     bool
	closedR     bool

	// Delivered counts the bytes the scheduler delivered to this endpoint.
	Delivered int
	// Wrote is everything this endpoint wrote, in order (oracle use).
	Wrote [][]byte
	// ResetBy: "" | "local" | "remote" | "sim"
	ResetBy string
	// Scripted endpoints have no reader goroutine; the scenario consumes
	// delivered bytes with TakeDelivered.
	Scripted bool
}

var _ network.Stream = (*Stream)(nil)

// NewPair creates a connected stream pair. dialer/listener conns may be nil.
func (f *Fabric) NewPair(label string, proto protocol.ID, local, remote peer.ID, dconn, lconn *Conn) (*Stream, *Stream) {
	f.mu.Lock()
	n := f.nlabel[label]
	f.nlabel[label] = n + 1
	a := &Stream{f: f, id: fmt.Sprintf("%s#%d/a", label, n), proto: proto, conn: dconn, dir: network.DirOutbound, opened: time.Now(), Local: local, Remote: remote}
	b := &Stream{f: f, id: fmt.Sprintf("%s#%d/b", label, n), proto: proto, conn: lconn, dir: network.DirInbound, opened: time.Now(), Local: remote, Remote: local}
	a.other, b.other = b, a
	f.streams = append(f.streams, a, b)
	f.Opened++
	f.mu.Unlock()
	if dconn != nil {
		dconn.AddStream(a)
	}
	if lconn != nil {
		lconn.AddStream(b)
	}
	return a, b
}

func (s *Stream) Name() string          { return s.id }
func (s *Stream) Other() *Stream        { return s.other }
func (s *Stream) ID() string            { return s.id }
func (s *Stream) Protocol() protocol.ID { return s.proto }
func (s *Stream) SetProtocol(id protocol.ID) error {
	s.proto = id
	return nil
}
func (s *Stream) Stat() network.Stats {
	return network.Stats{Direction: s.dir, Opened: s.opened}
}
func (s *Stream) Conn() network.Conn {
	if s.conn == nil {
		return nil
	}
	return s.conn
}
func (s *Stream) Scope() network.StreamScope       { return &network.NullScope{} }
func (s *Stream) SetDeadline(time.Time) error      { return nil }
func (s *Stream) SetReadDeadline(time.Time) error  { return nil }
func (s *Stream) SetWriteDeadline(time.Time) error { return nil }

func (s *Stream) Read(p []byte) (int, error) {
	f := s.f
	f.mu.Lock()
	defer f.mu.Unlock()
	for {
		if s.reset {
			return 0, network.ErrReset
		}
		if len(s.buf) > 0 {
			n := copy(p, s.buf)
			s.buf = s.buf[n:]
			return n, nil
		}
		if s.eof {
			return 0, io.EOF
		}
		if s.closedR {
			return 0, errors.New("simhost: read on closed stream")
		}
		f.cond.Wait()
	}
}

func (s *Stream) Write(p []byte) (int, error) {
	f := s.f
	if f.ParkWrites && !s.Scripted {
		out, _ := f.S.Park("swrite", s.id, nil, s)
		if err, _ := out.(error); err != nil {
			return 0, err
		}
	}
	f.mu.Lock()
	defer f.mu.Unlock()
	if s.reset {
		return 0, network.ErrReset
	}
	if s.closedW {
		return 0, errors.New("simhost: write on closed stream")
	}
	c := append([]byte{}, p...)
	s.Wrote = append(s.Wrote, c)
	if !s.other.reset && !s.other.closedR {
		s.other.inflight = append(s.other.inflight, c)
	}
	return len(p), nil
}

func (s *Stream) CloseWrite() error {
	s.f.mu.Lock()
	if !s.closedW {
		s.closedW = true
		s.other.eofInflight = true
	}
	s.f.mu.Unlock()
	return nil
}

func (s *Stream) CloseRead() error {
	s.f.mu.Lock()
	s.closedR = true
	s.inflight, s.buf = nil, nil
	s.f.cond.Broadcast()
	s.f.mu.Unlock()
	return nil
}

func (s *Stream) Close() error {
	_ = s.CloseWrite()
	_ = s.CloseRead()
	s.detach()
	return nil
}

func (s *Stream) detach() {
	if s.conn != nil {
		s.conn.RemoveStream(s)
	}
}

func (s *Stream) Reset() error { return s.resetBy("local") }

func (s *Stream) ResetWithError(network.StreamErrorCode) error { return s.Reset() }

func (s *Stream) resetBy(who string) error {
	f := s.f
	f.mu.Lock()
	if !s.reset {
		s.reset = true
		s.ResetBy = who
		f.Resets++
		if !s.other.reset {
			s.other.reset = true
			s.other.ResetBy = "remote"
			if who == "sim" {
				s.other.ResetBy = "sim"
			}
		}
		s.inflight, s.other.inflight = nil, nil
	}
	f.cond.Broadcast()
	f.mu.Unlock()
	s.detach()
	s.other.detach()
	return nil
}

// SimReset resets the stream from the network's side (fault).
func (s *Stream) SimReset() { _ = s.resetBy("sim") }

func (s *Stream) IsReset() bool { s.f.mu.Lock(); defer s.f.mu.Unlock(); return s.reset }

// IsOpen: neither reset nor fully closed by this endpoint.
func (s *Stream) IsOpen() bool {
	s.f.mu.Lock()
	defer s.f.mu.Unlock()
	return !s.reset && !(s.closedW && s.closedR)
}

// NextChunkLen is the size of the next in-flight chunk (0 if none).
func (s *Stream) NextChunkLen() int {
	s.f.mu.Lock()
	defer s.f.mu.Unlock()
	if len(s.inflight) == 0 {
		return 0
	}
	return len(s.inflight[0])
}

// WroteBytes returns the concatenation of everything this endpoint wrote.
func (s *Stream) WroteBytes() []byte {
	s.f.mu.Lock()
	defer s.f.mu.Unlock()
	var out []byte
	for _, c := range s.Wrote {
		out = append(out, c...)
	}
	return out
}

// Pending returns the number of chunks (and whether an EOF) in flight towards
// this endpoint.
func (s *Stream) Pending() (int, bool) {
	s.f.mu.Lock()
	defer s.f.mu.Unlock()
	return len(s.inflight), s.eofInflight && !s.eof
}

// Deliver moves the next in-flight chunk (the first n bytes of it if
// 0 < n < len) to the endpoint's read buffer, or the EOF when no chunk is left.
func (s *Stream) Deliver(n int) {
	f := s.f
	f.mu.Lock()
	if len(s.inflight) > 0 {
		c := s.inflight[0]
		if n > 0 && n < len(c) {
			s.buf = append(s.buf, c[:n]...)
			s.inflight[0] = c[n:]
			s.Delivered += n
		} else {
			s.buf = append(s.buf, c...)
			s.inflight = s.inflight[1:]
			s.Delivered += len(c)
		}
	} else if s.eofInflight {
		s.eof = true
	}
	f.cond.Broadcast()
	f.mu.Unlock()
}

// TakeDelivered removes and returns the delivered, unread bytes (scripted
// endpoints) and whether EOF / reset has been seen.
func (s *Stream) TakeDelivered() (data []byte, eof, reset bool) {
	s.f.mu.Lock()
	defer s.f.mu.Unlock()
	data, s.buf = s.buf, nil
	return data, s.eof, s.reset
}

// Streams returns all endpoints in canonical order.
func (f *Fabric) Streams() []*Stream {
	f.mu.Lock()
	out := append([]*Stream(nil), f.streams...)
	f.mu.Unlock()
	sort.Slice(out, func(i, j int) bool { return out[i].id < out[j].id })
	return out
}

// DeliverActions: one action per endpoint with something in flight.
func (f *Fabric) DeliverActions() []sim.Action {
	var acts []sim.Action
	for _, st := range f.Streams() {
		st := st
		n, eof := st.Pending()
		if n == 0 && !eof {
			continue
		}
		acts = append(acts, sim.Action{ID: "deliver:" + st.id, Do: func() { st.Deliver(0) }})
	}
	return acts
}

// OpenCount returns the number of endpoints (of the given local peer and
// direction) that are neither reset nor closed.
func (f *Fabric) OpenCount(local peer.ID, dir network.Direction) int {
	n := 0
	for _, st := range f.Streams() {
		if st.Local == local && st.dir == dir && st.IsOpen() {
			n++
		}
	}
	return n
}

// ---------------------------------------------------------------------------

// StreamOpener returns a Host.OpenStream implementation that parks every
// NewStream in the scheduler (kind "open") and, when released with a nil
// outcome, connects the stream to what resolve returns for the remote peer:
// a *Host (its registered handler runs on a new goroutine, like libp2p does)
// or nil for a scripted endpoint (the listener end is handed to onScripted).
func (f *Fabric) StreamOpener(resolve func(p peer.ID) *Host, onScripted func(dialer *Host, listenerEnd *Stream)) func(ctx context.Context, h *Host, p peer.ID, pids []protocol.ID) (network.Stream, error) {
	return func(ctx context.Context, h *Host, p peer.ID, pids []protocol.ID) (network.Stream, error) {
		out, cerr := h.S.Park("open", h.Label+h.Name(h.ID())+">"+h.Name(p)+sim.TagOf(ctx), ctx, p)
		if cerr != nil {
			return nil, cerr
		}
		if err, _ := out.(error); err != nil {
			return nil, err
		}
		if len(pids) == 0 {
			return nil, ErrNoProtocol
		}
		rh := resolve(p)
		dconn := h.net.SetConnected(p, true)
		var lconn *Conn
		var handler network.StreamHandler
		proto := pids[0]
		if rh != nil {
			found := false
			for _, pid := range pids {
				if hd := rh.Handler(pid); hd != nil {
					handler, proto, found = hd, pid, true
					break
				}
			}
			if !found {
				return nil, ErrNoProtocol
			}
			lconn = rh.net.SetConnected(h.ID(), true)
			lconn.dir = network.DirInbound
		}
		a, b := f.NewPair("st:"+h.Name(h.ID())+">"+h.Name(p), proto, h.ID(), p, dconn, lconn)
		if f.OnOpen != nil {
			f.OnOpen(a, b)
		}
		if handler != nil {
			go handler(b)
		} else {
			b.Scripted = true
			if onScripted != nil {
				onScripted(h, b)
			}
		}
		return a, nil
	}
}
