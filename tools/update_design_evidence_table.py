# usage: python3 tools/update_design_evidence_table.py C04 C12 ...  -- rewrites the DESIGN.md §12.5 rows of the named properties from evidence/<id>.json
import json,re,sys
t=open('/verif/DESIGN.md').read()
i=t.index('### 12.5')
for p in sys.argv[1:]:
    e=json.load(open(f'/verif/evidence/{p}.json'))
    # find fields
    def find(d,keys):
        for k in keys:
            if k in d: return d[k]
        for v in d.values():
            if isinstance(v,dict):
                r=find(v,keys)
                if r is not None: return r
        return None
    tier=find(e,['tier'])
    cov=e["coverage"]; runs=cov["evaluations"]; nt=cov["nontrivial_runs"]; st=cov["simulated_time_s"]; steps=cov["scheduler_steps"]; dp=cov["determinism"]["pairs_compared"]; dv=cov["determinism"]["divergences"]; tier=e["tier"]
    print(p,tier,runs,nt,st,steps,dp,dv)
    row=f"| {p} | 0 | {runs:,} | {nt:,} | {int(st):,} | {steps:,} | {dp:,} | {dv} |"
    m=re.search(r'^\| %s \| 0 \|.*$'%p, t[i:], re.M)
    t=t[:i+m.start()]+row+t[i+m.end():]
open('/verif/DESIGN.md','w').write(t)
