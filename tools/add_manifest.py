#!/usr/bin/env python3
"""usage: add_manifest.py CNN 'technique' 'level text' 'level note'"""
import json,sys
prop,tech,text,note=sys.argv[1:5]
m=json.load(open('/verif/MANIFEST.json'))
m['checks']=[c for c in m['checks'] if c['property_id']!=prop]
m['checks'].append({
 "property_id":prop,"quick_cmd":f"./check {prop} quick","thorough_cmd":f"./check {prop} thorough",
 "evidence_file":f"/verif/evidence/{prop}.json","replay_cmd_template":"./check replay {path}","engine":"vcheck",
 "technique":tech,
 "level_claimed":{"category":"exploration","text":text,"design_ref":f"DESIGN.md §5 {prop}, §12"},
 "level_note":note})
m['checks'].sort(key=lambda c:c['property_id'])
m['engines'][0]['serves_properties']=sorted(c['property_id'] for c in m['checks'])
json.dump(m,open('/verif/MANIFEST.json','w'),indent=1)
print(sorted(c['property_id'] for c in m['checks']))
