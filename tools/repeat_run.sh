#!/bin/bash
# Debugging aid: execute one run (seed, run index) N times in one process, each
# followed by a replay of its own decisions, and print the distinct trace hashes.
# usage: tools/repeat_run.sh <PROP> <run> [repeat=200] [scenario]   (env: VERIF_SEED, VERIF_REPO, VERIF_TAGS)
prop=$1; run=$2; rep=${3:-200}; scen=${4:-}
d=/tmp/repeat-$prop-$$; mkdir -p $d
cd /verif && ./check build $d > $d/build.log 2>&1 || { cat $d/build.log; exit 2; }
( cd $d && VERIF_PROP=$prop VERIF_OUT=$d/out VERIF_STATUS=$d/status VERIF_KNOWN_FILE=/verif/known_findings.json VERIF_SEED=${VERIF_SEED:-1} VERIF_ONLY_RUN=$run VERIF_REPEAT=$rep VERIF_SCENARIO=$scen ./scen.test -test.run '^TestWorker$' -test.timeout 0 2>&1 | grep -v "^PASS\|^ok" | tail -5 )
ls $d | grep trace | head
echo "traces kept in $d (remove when done)"
