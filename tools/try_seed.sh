#!/bin/bash
# usage: tools/try_seed.sh <PROP> <srcdir-with-patch.diff> [budget_s]   -- runs the quick check against the patch in a scratch worktree
prop=$1; src=$2; budget=${3:-25}
tag=$(echo $prop | tr A-Z a-z); [ "$tag" = c01 -o "$tag" = c02 ] && tag=c01,c02
wt=/tmp/try-$prop-$$; rm -rf $wt; git -C /repo worktree add --detach $wt -q || exit 2
if git -C $wt apply $src/patch.diff; then
  cd /verif && VERIF_REPO=$wt VERIF_TAGS=$tag VERIF_WORKERS=${VERIF_WORKERS:-8} VERIF_BUDGET_S=$budget ./check $prop quick > /tmp/try-$prop-$$.log 2>&1; rc=$?
  grep "violation:\|^  [a-zA-Z0-9]\|$prop quick\|HARNESS-TROUBLE\|DIVERG" /tmp/try-$prop-$$.log | cut -c1-260 | head -10; echo "exit=$rc"; rm -f /tmp/try-$prop-$$.log
else echo "PATCH DOES NOT APPLY"; fi
git -C /repo worktree remove --force $wt
