#!/bin/bash
# Confirm a breaking change produced by a seeding sub-agent, in a scratch
# worktree of /repo, and keep it under /verif/seeded/<id>/ if everything holds:
#   (1) the demonstration passes on the clean tree, (2) fails with the change,
#   (3) the tree with the change builds and the whole existing suite passes.
# usage: tools/confirm_seed.sh <source dir with patch.diff + demo*_test.go> <id> <property> "<needs>"
set -u
src=$1; id=$2; prop=$3; needs=${4:-}
export GOFLAGS=-mod=mod GOPROXY=off
wt=/tmp/confirm-$id-$$
log=/tmp/confirm-$id-$$.log
: > $log
rm -rf $wt; git -C /repo worktree add --detach $wt -q || exit 2
cleanup() { git -C /repo worktree remove --force $wt >/dev/null 2>&1; }
trap cleanup EXIT
pkgdir() { case "$1" in
  dht) echo . ;; records) echo records ;; net) echo internal/net ;; internal) echo internal ;; dual) echo dual ;; fullrt) echo fullrt ;;
  provider) echo provider ;; keystore) echo provider/keystore ;; queue) echo provider/internal/queue ;; crawler) echo crawler ;;
  dht_pb) echo pb ;; rtrefresh) echo rtrefresh ;; qpeerset) echo qpeerset ;; buffered) echo provider/buffered ;; connectivity) echo provider/internal/connectivity ;;
  keyspace) echo provider/internal/keyspace ;; netsize) echo netsize ;; config) echo internal/config ;;
  *) echo "" ;; esac; }
declare -A runs
demos=()
for f in $src/demo*_test.go; do
  [ -f "$f" ] || continue
  pkg=$(grep -m1 '^package ' $f | awk '{print $2}'); pkg=${pkg%_test}
  dir=$(pkgdir $pkg)
  if [ -f "$src/demo_dir.txt" ]; then dir=$(cat $src/demo_dir.txt); fi
  [ -n "$dir" ] || { echo "unknown package $pkg in $f"; exit 2; }
  cp $f $wt/$dir/zz_$(basename $f)
  demos+=("$dir/zz_$(basename $f)")
  names=$(grep -oE '^func (Test[A-Za-z0-9_]+)' $f | awk '{print $2}' | paste -sd'|')
  runs[$dir]="${runs[$dir]:+${runs[$dir]}|}$names"
done
[ ${#demos[@]} -gt 0 ] || { echo "no demo"; exit 2; }
rundemos() { local rc=0; for dir in "${!runs[@]}"; do (cd $wt && go test -count=1 -timeout 10m -run "^(${runs[$dir]})\$" ./$dir/) >>$log 2>&1 || rc=1; done; return $rc; }
echo "== demo on clean tree" >>$log
if ! rundemos; then echo "$id: REJECT demo fails on the clean tree (see $log)"; exit 1; fi
git -C $wt apply $src/patch.diff || { echo "$id: REJECT patch does not apply"; exit 1; }
echo "== demo with change" >>$log
if rundemos; then echo "$id: REJECT demo passes with the change (see $log)"; exit 1; fi
for d in "${demos[@]}"; do rm -f $wt/$d; done
echo "== build + whole suite with change" >>$log
(cd $wt && go build ./... ) >>$log 2>&1 || { echo "$id: REJECT does not build"; exit 1; }
if ! (cd $wt && go test -vet=off -count=1 -timeout 25m ./... ) >$log.suite 2>&1; then
  # one retry of the failing packages: a few tests are timing-sensitive on a loaded machine
  fails=$(grep -E '^(FAIL|---FAIL|--- FAIL)' $log.suite | head -20)
  echo "suite failed once: $fails" >>$log
  failed_pkgs=$(grep -E '^FAIL\s+github.com' $log.suite | awk '{print $2}' | sed 's#github.com/libp2p/go-libp2p-kad-dht#.#' | sort -u)
  ok=1
  for p in $failed_pkgs; do (cd $wt && go test -vet=off -count=1 -timeout 25m $p) >>$log 2>&1 || ok=0; done
  if [ $ok -eq 0 ]; then echo "$id: REJECT existing suite fails with the change (see $log $log.suite)"; exit 1; fi
fi
tail -25 $log.suite >>$log
dst=/verif/seeded/$id
mkdir -p $dst
cp $src/patch.diff $dst/; cp $src/demo*_test.go $dst/ 2>/dev/null; [ -f $src/README.md ] && cp $src/README.md $dst/SEEDER_README.md
[ -f $src/demo_dir.txt ] && cp $src/demo_dir.txt $dst/
cp $log $dst/confirm.log
jq -n --arg p "$prop" --arg n "$needs" --arg id "$id" '{id:$id, property:$p, needs:$n, confirmed:"demo passes on the clean tree, fails with the change; tree with the change builds; whole existing suite (go test ./...) passes with the change — confirmed by tools/confirm_seed.sh in a scratch worktree (see confirm.log)", source:"written by a sub-agent that saw only the property text and a scratch worktree"}' > $dst/meta.json
echo "$id: KEPT in $dst"
rm -f $log $log.suite
