#!/bin/bash
# Run the registered quick checks against every kept breaking change under
# /verif/seeded/<id>/ (patch.diff + meta.json) without touching /repo: the patch
# is applied to a scratch worktree which the check reads through VERIF_REPO.
# usage: tools/seeded.sh [id ...]      env: VERIF_BUDGET_S (default 40), VERIF_WORKERS
set -u
cd /verif
ids=("$@")
if [ ${#ids[@]} -eq 0 ]; then ids=($(ls seeded | grep -v '\.md$')); fi
for id in "${ids[@]}"; do
  d=/verif/seeded/$id
  [ -f "$d/patch.diff" ] || continue
  prop=$(jq -r .property "$d/meta.json")
  wt=/tmp/seeded-run-$id-$$
  rm -rf "$wt"; git -C /repo worktree add --detach "$wt" -q || exit 2
  if ! git -C "$wt" apply "$d/patch.diff"; then echo "$id $prop PATCH-DOES-NOT-APPLY"; git -C /repo worktree remove --force "$wt"; continue; fi
  out=$(VERIF_REPO=$wt VERIF_BUDGET_S=${VERIF_BUDGET_S:-40} ./check "$prop" quick 2>&1); rc=$?
  rules=$(echo "$out" | grep '^violation:' | sed -E 's/.*rule=([^ ]+).*/\1/' | sort -u | tr '\n' ',' )
  echo "$id $prop exit=$rc rules=${rules%,}"
  git -C /repo worktree remove --force "$wt"
done
