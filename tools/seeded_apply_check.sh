#!/bin/bash
# Do all kept seeded changes still apply to /repo's HEAD? (later fix: commits can
# touch the same lines; re-base the patch and re-confirm it with confirm_seed.sh)
wt=/tmp/applycheck-$$; git -C /repo worktree add --detach $wt -q || exit 2
rc=0
for d in /verif/seeded/*/; do
  [ -f $d/patch.diff ] || continue
  git -C $wt apply --check $d/patch.diff 2>/dev/null || { echo "NOAPPLY $(basename $d)"; rc=1; }
done
git -C /repo worktree remove --force $wt
[ $rc = 0 ] && echo "all $(ls -d /verif/seeded/*/ | wc -l) seeded patches apply"
exit $rc
