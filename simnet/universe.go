// Package simnet holds the simulated peer universe and the message-level
// (level A) sender seam.
package simnet

import (
	"bytes"
	"crypto/sha256"
	"encoding/binary"
	"fmt"
	"sort"

	"github.com/libp2p/go-libp2p/core/peer"
	ma "github.com/multiformats/go-multiaddr"
	mh "github.com/multiformats/go-multihash"

	pb "github.com/libp2p/go-libp2p-kad-dht/pb"
)

// Kad is a 256-bit Kademlia identifier, computed by the harness itself
// (SHA-256 of the peer-ID bytes or of the key), never by repository code.
type Kad [32]byte

func KadOfPeer(p peer.ID) Kad { return sha256.Sum256([]byte(p)) }
func KadOfKey(key string) Kad { return sha256.Sum256([]byte(key)) }
func (a Kad) Xor(b Kad) (d Kad) {
	for i := range a {
		d[i] = a[i] ^ b[i]
	}
	return
}
func (a Kad) Less(b Kad) bool { return bytes.Compare(a[:], b[:]) < 0 }

// CPL is the common prefix length of two identifiers in bits.
func (a Kad) CPL(b Kad) int {
	for i := range a {
		x := a[i] ^ b[i]
		if x != 0 {
			n := 0
			for x&0x80 == 0 {
				x <<= 1
				n++
			}
			return i*8 + n
		}
	}
	return 256
}

// Peer is one member of the simulated universe.
type Peer struct {
	Idx   int
	Name  string
	ID    peer.ID
	Kad   Kad
	Addrs []ma.Multiaddr
}

func (p *Peer) AddrInfo() peer.AddrInfo { return peer.AddrInfo{ID: p.ID, Addrs: p.Addrs} }

// Universe is a set of peers with deterministic identities.
type Universe struct {
	Self  *Peer
	Peers []*Peer
	byID  map[peer.ID]*Peer
}

// MakeID derives a syntactically valid peer ID (sha2-256 multihash) from
// (seed, i).
func MakeID(seed uint64, i int) peer.ID {
	var b [16]byte
	binary.BigEndian.PutUint64(b[:8], seed)
	binary.BigEndian.PutUint64(b[8:], uint64(i))
	h, err := mh.Sum(b[:], mh.SHA2_256, -1)
	if err != nil {
		panic(err)
	}
	return peer.ID(h)
}

// NewUniverse creates self ("self") and n peers ("p00".."pNN"). Each peer gets
// one public IPv4 address 8.<g>.<i>.1/tcp/4001 with g its group (i%groups).
func NewUniverse(seed uint64, n int) *Universe {
	u := &Universe{byID: map[peer.ID]*Peer{}}
	mk := func(i int, name string) *Peer {
		id := MakeID(seed, i)
		a := ma.StringCast(fmt.Sprintf("/ip4/8.%d.%d.1/tcp/4001", (i+1)%200, (i+1)/200))
		p := &Peer{Idx: i, Name: name, ID: id, Kad: KadOfPeer(id), Addrs: []ma.Multiaddr{a}}
		u.byID[id] = p
		return p
	}
	u.Self = mk(-1, "self")
	u.Self.Idx = -1
	for i := 0; i < n; i++ {
		u.Peers = append(u.Peers, mk(i, fmt.Sprintf("p%02d", i)))
	}
	return u
}

// Add appends a further peer with a given id (e.g. a non-existent one for lies).
func (u *Universe) Add(name string, id peer.ID, addrs []ma.Multiaddr) *Peer {
	p := &Peer{Idx: len(u.Peers), Name: name, ID: id, Kad: KadOfPeer(id), Addrs: addrs}
	u.Peers = append(u.Peers, p)
	u.byID[id] = p
	return p
}

func (u *Universe) ByID(id peer.ID) *Peer { return u.byID[id] }

// Name is a simhost.Namer.
func (u *Universe) Name(id peer.ID) string {
	if p := u.byID[id]; p != nil {
		return p.Name
	}
	h := sha256.Sum256([]byte(id))
	return fmt.Sprintf("x%x", h[:3])
}

func (u *Universe) Names(ids []peer.ID) []string {
	out := make([]string, len(ids))
	for i, id := range ids {
		out[i] = u.Name(id)
	}
	return out
}

// SortByDistance sorts ids ascending by XOR distance to key (harness metric).
func SortByDistance(ids []peer.ID, key Kad) {
	sort.SliceStable(ids, func(i, j int) bool {
		return KadOfPeer(ids[i]).Xor(key).Less(KadOfPeer(ids[j]).Xor(key))
	})
}

// Nearest returns the k nearest of the given peers to key.
func Nearest(peers []*Peer, key Kad, k int) []*Peer {
	out := append([]*Peer(nil), peers...)
	sort.SliceStable(out, func(i, j int) bool { return out[i].Kad.Xor(key).Less(out[j].Kad.Xor(key)) })
	if len(out) > k {
		out = out[:k]
	}
	return out
}

// ToPB renders peers as wire records with all their addresses.
func ToPB(peers []*Peer) []*pb.Message_Peer {
	out := make([]*pb.Message_Peer, 0, len(peers))
	for _, p := range peers {
		m := &pb.Message_Peer{Id: []byte(p.ID)}
		for _, a := range p.Addrs {
			m.Addrs = append(m.Addrs, a.Bytes())
		}
		out = append(out, m)
	}
	return out
}

func IDs(peers []*Peer) []peer.ID {
	out := make([]peer.ID, len(peers))
	for i, p := range peers {
		out[i] = p.ID
	}
	return out
}
