package simnet

import (
	"context"
	"crypto/sha256"
	"fmt"
	"sync"
	"time"

	"github.com/libp2p/go-libp2p/core/peer"
	"google.golang.org/protobuf/proto"

	pb "github.com/libp2p/go-libp2p-kad-dht/pb"

	"verif/sim"
)

// RPC is one call that reached the message-sender seam.
type RPC struct {
	N        int // arrival number (not canonical; do not trace)
	To       peer.ID
	Req      *pb.Message
	WantResp bool // SendRequest (true) or SendMessage (false)
	CtxLive  bool // the caller's context was live when the call arrived
	SentAt   time.Duration
	SentStep int

	Done      bool
	DoneStep  int
	DoneAt    time.Duration
	Resp      *pb.Message // the reply the simulator delivered (nil on error)
	Err       error       // the failure the simulator delivered
	Cancelled bool        // the call observed its context's cancellation
}

// Reply is the outcome handed to a parked RPC.
type Reply struct {
	Msg *pb.Message
	Err error
}

// Sender is the level-A pb.MessageSenderWithDisconnect.
type Sender struct {
	S     *sim.Sim
	U     *Universe
	Label string

	mu          sync.Mutex
	Log         []*RPC
	Disconnects []peer.ID
}

var _ pb.MessageSenderWithDisconnect = (*Sender)(nil)

func keyTag(k []byte) string {
	h := sha256.Sum256(k)
	return fmt.Sprintf("%x", h[:2])
}

func (m *Sender) park(ctx context.Context, p peer.ID, req *pb.Message, want bool) (*pb.Message, error) {
	r := &RPC{To: p, Req: proto.Clone(req).(*pb.Message), WantResp: want, CtxLive: ctx.Err() == nil, SentAt: m.S.Now(), SentStep: m.S.Steps}
	m.mu.Lock()
	r.N = len(m.Log)
	m.Log = append(m.Log, r)
	m.mu.Unlock()
	label := fmt.Sprintf("%s%s:%s:%s%s", m.Label, req.GetType(), m.U.Name(p), keyTag(req.GetKey()), sim.TagOf(ctx))
	out, cerr := m.S.Park("rpc", label, ctx, r)
	m.mu.Lock()
	defer m.mu.Unlock()
	r.Done, r.DoneStep, r.DoneAt = true, m.S.Steps, m.S.Now()
	if cerr != nil {
		r.Cancelled, r.Err = true, cerr
		return nil, cerr
	}
	rep := out.(Reply)
	r.Resp, r.Err = rep.Msg, rep.Err
	if rep.Err != nil {
		return nil, rep.Err
	}
	if rep.Msg == nil {
		return nil, nil
	}
	// hand the SUT its own copy, like a decoded wire message
	return proto.Clone(rep.Msg).(*pb.Message), nil
}

func (m *Sender) SendRequest(ctx context.Context, p peer.ID, pmes *pb.Message) (*pb.Message, error) {
	return m.park(ctx, p, pmes, true)
}

func (m *Sender) SendMessage(ctx context.Context, p peer.ID, pmes *pb.Message) error {
	_, err := m.park(ctx, p, pmes, false)
	return err
}

func (m *Sender) OnDisconnect(_ context.Context, p peer.ID) {
	m.mu.Lock()
	m.Disconnects = append(m.Disconnects, p)
	m.mu.Unlock()
}

// Snapshot returns a copy of the log slice (records are shared).
func (m *Sender) Snapshot() []*RPC {
	m.mu.Lock()
	defer m.mu.Unlock()
	return append([]*RPC(nil), m.Log...)
}

// SnapshotFrom returns a copy of the log from entry i on, and the length of the
// whole log (records are shared). For observers that fold the log
// incrementally: copying a log of several hundred thousand calls at every
// quiescent point made long runs quadratic.
func (m *Sender) SnapshotFrom(i int) (tail []*RPC, total int) {
	m.mu.Lock()
	defer m.mu.Unlock()
	total = len(m.Log)
	if i < 0 {
		i = 0
	}
	if i > total {
		i = total
	}
	return append([]*RPC(nil), m.Log[i:]...), total
}
