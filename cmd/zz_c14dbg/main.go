// temporary debugging aid (builder C14): builds the worker binary into a fixed directory
package main

import (
	"fmt"
	"os"
	"os/exec"
	"path/filepath"

	"verif/instr"
)

func main() {
	dir := os.Args[1]
	repo := "/repo"
	if r := os.Getenv("VERIF_REPO"); r != "" {
		repo = r
	}
	os.MkdirAll(dir, 0o755)
	info, err := instr.Generate(repo, "/verif/overlay", dir)
	if err != nil {
		panic(err)
	}
	bin := filepath.Join(dir, "scen.test")
	cmd := exec.Command("go", "test", "-c", "-vet=off", "-tags", "verif,c14", "-overlay", info.OverlayJSON, "-o", bin, "./scen")
	cmd.Dir = "/verif"
	cmd.Stdout, cmd.Stderr = os.Stdout, os.Stderr
	if err := cmd.Run(); err != nil {
		panic(err)
	}
	fmt.Println(bin)
}
